# sourced by every script: offline Go toolchain that can build /repo
export PATH=/root/go/pkg/mod/golang.org/toolchain@v0.0.1-go1.26.5.linux-amd64/bin:$PATH
export GOTOOLCHAIN=local GOFLAGS=-mod=mod GOPROXY=off GOSUMDB=off
export VERIF_ROOT=/verif
export REPO=${REPO:-/repo}
