#!/bin/bash
# build-e1.sh <variant>: scheduler (E1) variants. The listed packages of /repo's CURRENT working tree
# are rewritten by tools/vgen (sync/atomic/channels/select/go -> vrt runtime) into .build/gen-<variant>,
# merged into the overlay, and the harness main package is built against them.
set -eu
cd "$(dirname "$0")"
. ./env.sh
pkgs_of() {
  case "$1" in
    q)    echo "./internal/containers/mpmc ./internal/containers/mpsc" ;;
    pipe) echo "./internal/containers/... ./internal/listobjects/pipeline ./internal/listobjects/pipeline/internal/..." ;;
    iter) echo "./pkg/storage/storagewrappers/sharediterator" ;;
    *) return 1 ;;
  esac
}
main_of() {
  case "$1" in
    q)    echo ./internal/verifh/cmd/q ;;
    pipe) echo ./internal/verifh/cmd/pipe ;;
    iter) echo ./internal/verifh/cmd/iter ;;
  esac
}
if [ "${1:-}" = "--is-variant" ]; then pkgs_of "$2" >/dev/null 2>&1; exit $?; fi
v=$1
pkgs=$(pkgs_of "$v")
mkdir -p .build/bin
if [ ! -x .build/bin/vgen ] || [ tools/vgen/main.go -nt .build/bin/vgen ]; then
  (cd tools/vgen && go build -o "$VERIF_ROOT/.build/bin/vgen" .)
fi
gen=.build/gen-$v.$$
rm -rf "$gen"; mkdir -p "$gen"
flags=""; [ "$v" = iter ] && flags="-time"
(cd "$REPO" && "$VERIF_ROOT/.build/bin/vgen" $flags -dir "$REPO" -out "$VERIF_ROOT/$gen" ${VERIF_EXTRA_OVERLAY:+-overlay "$VERIF_EXTRA_OVERLAY"} $pkgs)
python3 tools/mkoverlay.py "$gen/ov.json" ${VERIF_EXTRA_OVERLAY:+--merge "$VERIF_EXTRA_OVERLAY"} --merge "$gen/overlay.json"
(cd "$REPO" && go build -modfile="$VERIF_MODFILE" -tags verif -overlay "$VERIF_ROOT/$gen/ov.json" -o "$VERIF_ROOT/.build/bin/$v" $(main_of "$v"))
if [ "$v" = q ] && [ "${VERIF_TIER:-quick}" = thorough -o -n "${VERIF_BUILD_RACE:-}" ]; then
  # free-running -race companion (uninstrumented sources; overlay only provides the harness package)
  python3 tools/mkoverlay.py "$gen/ov-plain.json" ${VERIF_EXTRA_OVERLAY:+--merge "$VERIF_EXTRA_OVERLAY"}
  (cd "$REPO" && go build -race -modfile="$VERIF_MODFILE" -tags verif -overlay "$VERIF_ROOT/$gen/ov-plain.json" -o "$VERIF_ROOT/.build/bin/qrace" ./internal/verifh/cmd/qrace)
fi
rm -rf ".build/gen-$v"; mv "$gen" ".build/gen-$v"
