#!/bin/bash
# build-e1.sh <variant>: scheduler (E1) variants. The listed packages of /repo's CURRENT working tree
# are rewritten by tools/vgen (sync/atomic/channels/select/go -> vrt runtime) into .build/gen-<variant>,
# merged into the overlay, and the harness main package is built against them.
set -eu
cd "$(dirname "$0")"
. ./env.sh
VERIF_BIN=${VERIF_BIN_DIR:-.build/bin}; case "$VERIF_BIN" in /*) ;; *) VERIF_BIN=$VERIF_ROOT/$VERIF_BIN;; esac; mkdir -p "$VERIF_BIN"
pkgs_of() {
  case "$1" in
    q)    echo "./internal/containers/mpmc ./internal/containers/mpsc" ;;
    pipe) echo "./internal/containers/... ./internal/listobjects/pipeline ./internal/listobjects/pipeline/internal/..." ;;
    iter) echo "./pkg/storage/storagewrappers/sharediterator" ;;
    red)  echo "./internal/graph ./internal/concurrency github.com/sourcegraph/conc github.com/sourcegraph/conc/pool github.com/sourcegraph/conc/panics" ;;
    citer) echo "./pkg/storage/storagewrappers ./internal/shared golang.org/x/sync/singleflight" ;;
    tsres) echo "golang.org/x/sync/singleflight" ;;
    memw) echo "./pkg/storage/memory google.golang.org/protobuf/types/known/timestamppb" ;;
    authzx) echo "./internal/authz ./internal/concurrency" ;;
    cctl) echo "./internal/cachecontroller ./internal/graph ./internal/concurrency ./pkg/storage/storagewrappers ./internal/shared golang.org/x/sync/singleflight github.com/sourcegraph/conc github.com/sourcegraph/conc/pool github.com/sourcegraph/conc/panics" ;;
    *) return 1 ;;
  esac
}
main_of() {
  case "$1" in
    q)    echo ./internal/verifh/cmd/q ;;
    pipe) echo ./internal/verifh/cmd/pipe ;;
    iter) echo ./internal/verifh/cmd/iter ;;
    red)  echo ./internal/verifh/cmd/red ;;
    tsres) echo ./internal/verifh/cmd/tsres ;;
    citer) echo ./internal/verifh/cmd/citer ;;
    memw) echo ./internal/verifh/cmd/memw ;;
    cctl) echo ./internal/verifh/cmd/cctl ;;
    authzx) echo ./internal/verifh/cmd/authzx ;;
  esac
}
if [ "${1:-}" = "--is-variant" ]; then pkgs_of "$2" >/dev/null 2>&1; exit $?; fi
v=$1
pkgs=$(pkgs_of "$v")
mkdir -p .build/bin
if [ ! -x .build/bin/vgen ] || [ tools/vgen/main.go -nt .build/bin/vgen ]; then
  (cd tools/vgen && go build -o "$VERIF_ROOT/.build/bin/vgen" .)
fi
gen=.build/gen-$v.$$
rm -rf "$gen"; mkdir -p "$gen"
flags=""; [ "$v" = iter -o "$v" = citer -o "$v" = memw ] && flags="-time"
# cctl: the cache controller's `context.WithTimeout(ctx, time.Second)` gets its deadline on the harness clock too
[ "$v" = cctl ] && flags="-time -ctxtimeout"
# memw instruments a package of google.golang.org/protobuf (timestamppb.Now -> harness clock): nearly every package
# of the build depends on that module and the directory of a replaced module is part of the compiler's cache key,
# so its copy lives at a content-addressed stable path (.build/modcopy/<module>-<hash of the rewritten files>)
# instead of the per-invocation gen directory; otherwise every build would recompile the whole dependency cone.
stable=""; [ "$v" = memw ] && stable="$VERIF_ROOT/.build/modcopy"
(cd "$REPO" && "$VERIF_ROOT/.build/bin/vgen" $flags -dir "$REPO" -out "$VERIF_ROOT/$gen" ${VERIF_EXTRA_OVERLAY:+-overlay "$VERIF_EXTRA_OVERLAY"} $pkgs)
# Files beneath GOMODCACHE cannot be overlaid: instrumented third-party packages are materialised as a
# copy of their module (rewritten files copied over) and wired in with a replace directive in the
# per-invocation modfile.
python3 - "$gen" "$VERIF_MODFILE" "$stable" <<'PY'
import json, os, shutil, subprocess, sys, re, hashlib
gen, modfile, stable = sys.argv[1], sys.argv[2], sys.argv[3]
ov = json.load(open(os.path.join(gen, "overlay.json")))
cache = subprocess.run(["go", "env", "GOMODCACHE"], capture_output=True, text=True).stdout.strip()
mods = {}
if stable:
    # content-addressed stable copies: one directory per (module, rewritten files), created atomically, reused
    per = {}
    for src in sorted(ov["Replace"]):
        if src.startswith(cache + "/"):
            m = re.match(r"(.+?@v[^/]+)/(.*)", src[len(cache) + 1:])
            per.setdefault(m.group(1), []).append((m.group(2), ov["Replace"][src], src))
    for moddir, files in per.items():
        h = hashlib.sha256()
        for inner, gf, _ in files:
            h.update(inner.encode()); h.update(b"\0"); h.update(open(gf, "rb").read()); h.update(b"\0")
        dst = os.path.join(stable, moddir.replace("/", "_") + "-" + h.hexdigest()[:16])
        if not os.path.isdir(dst):
            os.makedirs(stable, exist_ok=True)
            tmp = dst + ".tmp%d" % os.getpid()
            shutil.copytree(os.path.join(cache, moddir), tmp)
            for d, _, fs in os.walk(tmp):
                os.chmod(d, 0o755)
                for f in fs:
                    os.chmod(os.path.join(d, f), 0o644)
            for inner, gf, _ in files:
                shutil.copyfile(gf, os.path.join(tmp, inner))
            try:
                os.rename(tmp, dst)
            except OSError:
                shutil.rmtree(tmp, ignore_errors=True)  # another build created it meanwhile
        for _, _, src in files:
            del ov["Replace"][src]
        mods[moddir] = dst
for src in list(ov["Replace"]):
    if src.startswith(cache + "/"):
        rel = src[len(cache) + 1:]
        m = re.match(r"(.+?@v[^/]+)/(.*)", rel)
        moddir, inner = m.group(1), m.group(2)
        dst = os.path.join(os.path.abspath(gen), "mod", moddir.replace("/", "_"))
        if moddir not in mods:
            shutil.copytree(os.path.join(cache, moddir), dst)
            for d, _, fs in os.walk(dst):
                os.chmod(d, 0o755)
                for f in fs:
                    os.chmod(os.path.join(d, f), 0o644)
            mods[moddir] = dst
        shutil.copyfile(ov["Replace"][src], os.path.join(dst, inner))
        del ov["Replace"][src]
json.dump(ov, open(os.path.join(gen, "overlay.json"), "w"), indent=1)
for moddir, dst in mods.items():
    path = moddir.rsplit("@", 1)[0]
    subprocess.check_call(["go", "mod", "edit", "-replace=" + path + "=" + dst, modfile])
PY
python3 tools/mkoverlay.py "$gen/ov.json" ${VERIF_EXTRA_OVERLAY:+--merge "$VERIF_EXTRA_OVERLAY"} --merge "$gen/overlay.json"
(cd "$REPO" && go build -modfile="$VERIF_MODFILE" -tags verif -overlay "$VERIF_ROOT/$gen/ov.json" -o "$VERIF_BIN/$v" $(main_of "$v"))
if [ "$v" = q ] && [ "${VERIF_TIER:-quick}" = thorough -o -n "${VERIF_BUILD_RACE:-}" ]; then
  # free-running -race companion (uninstrumented sources; overlay only provides the harness package)
  python3 tools/mkoverlay.py "$gen/ov-plain.json" ${VERIF_EXTRA_OVERLAY:+--merge "$VERIF_EXTRA_OVERLAY"}
  (cd "$REPO" && go build -race -modfile="$VERIF_MODFILE" -tags verif -overlay "$VERIF_ROOT/$gen/ov-plain.json" -o "$VERIF_BIN/qrace" ./internal/verifh/cmd/qrace)
fi
rm -rf ".build/gen-$v"; mv "$gen" ".build/gen-$v"
