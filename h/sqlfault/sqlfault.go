// Package sqlfault is a fault-injecting database/sql driver around modernc.org/sqlite (engine E4).
//
// Every Begin / Exec / Query / Commit / Rollback (and prepared-statement Exec/Query) that database/sql
// issues on a connection opened through this driver is a numbered *boundary* of the Controller the
// connection belongs to. While the controller is armed it can
//
//	(a) return an injected error BEFORE the k-th call reaches SQLite          (Plan.Mode = Before)
//	(b) perform the k-th call and return an injected error AFTER it            (Plan.Mode = After;
//	    the result is lost: e.g. COMMIT happened but the client saw an error)
//	(c) invoke a callback at every boundary before the call reaches SQLite      (Plan.Hook; used to copy
//	    db, db-wal, db-shm = the image a crash at that instant would leave behind)
//
// Two error flavours: Generic (an ordinary statement error, the connection stays usable) and BadConn
// (connection loss: the real connection is closed — SQLite rolls an open transaction back — and
// driver.ErrBadConn is returned, so database/sql discards the connection).
//
// A fault injected before Commit/Rollback with the Generic flavour also rolls the real transaction back:
// a driver that fails a COMMIT without reaching the database has lost the session, and the database
// aborts the open transaction of a lost session. (Without this the *harness* would leak an open
// write transaction that no real deployment could leak.)
package sqlfault

import (
	"context"
	"database/sql"
	"database/sql/driver"
	"errors"
	"fmt"
	"io"
	"net/url"
	"os"
	"path/filepath"
	"strconv"
	"strings"
	"sync"
	"sync/atomic"

	msqlite "modernc.org/sqlite"

	"github.com/openfga/openfga/pkg/logger"
	"github.com/openfga/openfga/pkg/storage/sqlcommon"
	"github.com/openfga/openfga/pkg/storage/sqlite"
)

// DriverName is the name under which the wrapper is registered with database/sql.
const DriverName = "sqlite-fault"

// ErrInjected is the Generic injected error.
var ErrInjected = errors.New("sqlfault: injected fault")

type Mode int

const (
	Off    Mode = iota
	Before      // error before the call reaches SQLite
	After       // call performed, then error returned (result lost)
)

func (m Mode) String() string { return [...]string{"off", "before", "after"}[m] }

type Flavour int

const (
	Generic Flavour = iota // ordinary error, connection stays in the pool
	BadConn                // connection loss: real connection closed, driver.ErrBadConn
)

func (f Flavour) String() string { return [...]string{"generic", "badconn"}[f] }

// Boundary describes one numbered driver call.
type Boundary struct {
	K    int    `json:"k"`    // 1-based
	Kind string `json:"kind"` // BEGIN EXEC QUERY COMMIT ROLLBACK STMT-EXEC STMT-QUERY
	SQL  string `json:"sql,omitempty"`
}

func (b Boundary) String() string { return fmt.Sprintf("%d:%s %s", b.K, b.Kind, b.SQL) }

// Plan says what to do while armed.
type Plan struct {
	Mode    Mode
	K       int // boundary number the fault applies to (1-based)
	Flavour Flavour
	// Hook, when non-nil, runs at every boundary before the call reaches SQLite (and before a Before-fault).
	Hook func(b Boundary)
}

// Controller numbers the boundaries of all connections opened with its DSN.
type Controller struct {
	id int64

	mu    sync.Mutex
	armed bool
	n     int
	plan  Plan
	log   []Boundary
	fired bool
}

var (
	registry sync.Map // id -> *Controller
	ctlSeq   atomic.Int64
	regOnce  sync.Once
)

func register() {
	regOnce.Do(func() { sql.Register(DriverName, &Driver{inner: &msqlite.Driver{}}) })
}

// NewController returns a controller; pass it to OpenDB / OpenDatastore.
func NewController() *Controller {
	register()
	c := &Controller{id: ctlSeq.Add(1)}
	registry.Store(c.id, c)
	return c
}

// Release removes the controller from the registry (call after closing the DB).
func (c *Controller) Release() { registry.Delete(c.id) }

// DSN prefixes a modernc sqlite DSN so that connections opened with it report to c.
func (c *Controller) DSN(dsn string) string { return strconv.FormatInt(c.id, 10) + "|" + dsn }

// Arm starts numbering boundaries from 1 with the given plan.
func (c *Controller) Arm(p Plan) {
	c.mu.Lock()
	c.armed, c.n, c.plan, c.log, c.fired = true, 0, p, nil, false
	c.mu.Unlock()
}

// Disarm stops numbering and returns the boundaries seen since Arm and whether the planned fault fired.
func (c *Controller) Disarm() (log []Boundary, fired bool) {
	c.mu.Lock()
	defer c.mu.Unlock()
	c.armed = false
	return c.log, c.fired
}

type verdict struct {
	before, after bool
	flavour       Flavour
}

func abbreviate(q string) string {
	q = strings.Join(strings.Fields(q), " ")
	if len(q) > 48 {
		q = q[:48]
	}
	return q
}

// point registers a boundary and says whether to fail before/after it.
func (c *Controller) point(kind, q string) verdict {
	if c == nil {
		return verdict{}
	}
	c.mu.Lock()
	if !c.armed {
		c.mu.Unlock()
		return verdict{}
	}
	c.n++
	b := Boundary{K: c.n, Kind: kind, SQL: abbreviate(q)}
	c.log = append(c.log, b)
	p := c.plan
	var v verdict
	if p.Mode != Off && p.K == c.n {
		c.fired = true
		v = verdict{before: p.Mode == Before, after: p.Mode == After, flavour: p.Flavour}
	}
	c.mu.Unlock()
	if p.Hook != nil {
		p.Hook(b)
	}
	return v
}

// ---------------------------------------------------------------------------------------------------

// Driver is the wrapping driver.
type Driver struct{ inner driver.Driver }

func (d *Driver) Open(name string) (driver.Conn, error) {
	var ctl *Controller
	if i := strings.IndexByte(name, '|'); i > 0 {
		if id, err := strconv.ParseInt(name[:i], 10, 64); err == nil {
			if v, ok := registry.Load(id); ok {
				ctl = v.(*Controller)
			}
			name = name[i+1:]
		}
	}
	c, err := d.inner.Open(name)
	if err != nil {
		return nil, err
	}
	return &conn{Conn: c, ctl: ctl}, nil
}

type conn struct {
	driver.Conn
	ctl  *Controller
	dead bool
}

// fail produces the injected error; for BadConn it also drops the real connection.
func (c *conn) fail(f Flavour) error {
	if f == BadConn {
		c.dead = true
		_ = c.Conn.Close() // SQLite rolls back an open transaction of a closed connection
		return driver.ErrBadConn
	}
	return ErrInjected
}

func (c *conn) BeginTx(ctx context.Context, opts driver.TxOptions) (driver.Tx, error) {
	if c.dead {
		return nil, driver.ErrBadConn
	}
	v := c.ctl.point("BEGIN", "")
	if v.before {
		return nil, c.fail(v.flavour)
	}
	t, err := c.Conn.(driver.ConnBeginTx).BeginTx(ctx, opts)
	if err != nil {
		return nil, err
	}
	if v.after {
		// the transaction was opened but the client never learns: the session is lost, the server aborts it
		_ = t.Rollback()
		return nil, c.fail(v.flavour)
	}
	return &tx{Tx: t, c: c}, nil
}

func (c *conn) Begin() (driver.Tx, error) { return c.BeginTx(context.Background(), driver.TxOptions{}) }

func (c *conn) ExecContext(ctx context.Context, q string, args []driver.NamedValue) (driver.Result, error) {
	if c.dead {
		return nil, driver.ErrBadConn
	}
	v := c.ctl.point("EXEC", q)
	if v.before {
		return nil, c.fail(v.flavour)
	}
	res, err := c.Conn.(driver.ExecerContext).ExecContext(ctx, q, args)
	if err == nil && v.after {
		return nil, c.fail(v.flavour)
	}
	return res, err
}

func (c *conn) QueryContext(ctx context.Context, q string, args []driver.NamedValue) (driver.Rows, error) {
	if c.dead {
		return nil, driver.ErrBadConn
	}
	v := c.ctl.point("QUERY", q)
	if v.before {
		return nil, c.fail(v.flavour)
	}
	rows, err := c.Conn.(driver.QueryerContext).QueryContext(ctx, q, args)
	if err == nil && v.after {
		_ = rows.Close()
		return nil, c.fail(v.flavour)
	}
	return rows, err
}

func (c *conn) PrepareContext(ctx context.Context, q string) (driver.Stmt, error) {
	if c.dead {
		return nil, driver.ErrBadConn
	}
	s, err := c.Conn.(driver.ConnPrepareContext).PrepareContext(ctx, q)
	if err != nil {
		return nil, err
	}
	return &stmt{Stmt: s, c: c, q: q}, nil
}

func (c *conn) Prepare(q string) (driver.Stmt, error) {
	return c.PrepareContext(context.Background(), q)
}

func (c *conn) Ping(ctx context.Context) error {
	if c.dead {
		return driver.ErrBadConn
	}
	if p, ok := c.Conn.(driver.Pinger); ok {
		return p.Ping(ctx)
	}
	return nil
}

func (c *conn) ResetSession(ctx context.Context) error {
	if c.dead {
		return driver.ErrBadConn
	}
	if r, ok := c.Conn.(driver.SessionResetter); ok {
		return r.ResetSession(ctx)
	}
	return nil
}

func (c *conn) IsValid() bool {
	if c.dead {
		return false
	}
	if v, ok := c.Conn.(driver.Validator); ok {
		return v.IsValid()
	}
	return true
}

func (c *conn) Close() error {
	if c.dead {
		return nil
	}
	c.dead = true
	return c.Conn.Close()
}

type stmt struct {
	driver.Stmt
	c *conn
	q string
}

func (s *stmt) ExecContext(ctx context.Context, args []driver.NamedValue) (driver.Result, error) {
	if s.c.dead {
		return nil, driver.ErrBadConn
	}
	v := s.c.ctl.point("STMT-EXEC", s.q)
	if v.before {
		return nil, s.c.fail(v.flavour)
	}
	res, err := s.Stmt.(driver.StmtExecContext).ExecContext(ctx, args)
	if err == nil && v.after {
		return nil, s.c.fail(v.flavour)
	}
	return res, err
}

func (s *stmt) QueryContext(ctx context.Context, args []driver.NamedValue) (driver.Rows, error) {
	if s.c.dead {
		return nil, driver.ErrBadConn
	}
	v := s.c.ctl.point("STMT-QUERY", s.q)
	if v.before {
		return nil, s.c.fail(v.flavour)
	}
	rows, err := s.Stmt.(driver.StmtQueryContext).QueryContext(ctx, args)
	if err == nil && v.after {
		_ = rows.Close()
		return nil, s.c.fail(v.flavour)
	}
	return rows, err
}

func (s *stmt) Close() error {
	if s.c.dead {
		return nil
	}
	return s.Stmt.Close()
}

type tx struct {
	driver.Tx
	c *conn
}

func (t *tx) Commit() error {
	if t.c.dead {
		return driver.ErrBadConn
	}
	v := t.c.ctl.point("COMMIT", "")
	if v.before {
		if v.flavour == Generic {
			_ = t.Tx.Rollback() // session lost before COMMIT arrived: the database aborts the transaction
		}
		return t.c.fail(v.flavour)
	}
	err := t.Tx.Commit()
	if err == nil && v.after {
		return t.c.fail(v.flavour) // committed, acknowledgement lost
	}
	return err
}

func (t *tx) Rollback() error {
	if t.c.dead {
		return driver.ErrBadConn
	}
	v := t.c.ctl.point("ROLLBACK", "")
	if v.before {
		if v.flavour == Generic {
			_ = t.Tx.Rollback()
		}
		return t.c.fail(v.flavour)
	}
	err := t.Tx.Rollback()
	if err == nil && v.after {
		return t.c.fail(v.flavour)
	}
	return err
}

// ---------------------------------------------------------------------------------------------------

// OpenDB opens the SQLite database file at path (already migrated) through the fault driver, with the
// same DSN defaults openfga's sqlite.New applies (WAL journal, busy timeout, immediate transactions).
//
// pragmas are extra "_pragma" DSN values, e.g. "synchronous(OFF)" (harnesses that do not model power loss
// switch fsync off: statement-boundary atomicity and process-crash images do not depend on it).
func OpenDB(path string, c *Controller, pragmas ...string) (*sql.DB, error) {
	register()
	uri := "file:" + path
	for i, p := range pragmas {
		sep := "&"
		if i == 0 {
			sep = "?"
		}
		uri += sep + "_pragma=" + url.QueryEscape(p)
	}
	dsn, err := sqlite.PrepareDSN(uri)
	if err != nil {
		return nil, err
	}
	if c != nil {
		dsn = c.DSN(dsn)
	}
	return sql.Open(DriverName, dsn)
}

// OpenDatastore opens an openfga SQLite datastore over the fault driver. Closing the datastore closes the DB.
func OpenDatastore(path string, c *Controller, pragmas ...string) (*sqlite.Datastore, error) {
	db, err := OpenDB(path, c, pragmas...)
	if err != nil {
		return nil, err
	}
	cfg := sqlcommon.NewConfig()
	cfg.Logger = logger.NewNoopLogger()
	ds, err := sqlite.NewWithDB(db, cfg)
	if err != nil {
		_ = db.Close()
		return nil, err
	}
	return ds, nil
}

// SnapshotFiles copies the database file and its -wal / -shm companions (those that exist) into dstDir,
// keeping the base name: the on-disk image a process crash at this instant leaves behind.
func SnapshotFiles(dbPath, dstDir string) error {
	if err := os.MkdirAll(dstDir, 0o755); err != nil {
		return err
	}
	base := filepath.Base(dbPath)
	for _, suf := range []string{"", "-wal", "-shm"} {
		if err := copyFile(dbPath+suf, filepath.Join(dstDir, base+suf)); err != nil && !errors.Is(err, os.ErrNotExist) {
			return err
		}
	}
	return nil
}

// CopyFile copies one file.
func CopyFile(src, dst string) error { return copyFile(src, dst) }

func copyFile(src, dst string) error {
	in, err := os.Open(src)
	if err != nil {
		return err
	}
	defer in.Close()
	out, err := os.Create(dst)
	if err != nil {
		return err
	}
	if _, err := io.Copy(out, in); err != nil {
		out.Close()
		return err
	}
	return out.Close()
}
