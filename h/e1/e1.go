// Package e1 holds what the scheduler-based (E1) checks share: scenario sharding over worker
// processes (one controlled scheduler per process), result merging, and a brute-force
// linearizability checker for the short histories these harnesses record.
package e1

import (
	"bufio"
	"bytes"
	"encoding/json"
	"fmt"
	"os"
	"os/exec"
	"sort"
	"strconv"
	"sync"
	"time"

	"github.com/openfga/openfga/internal/verifh/core"
	"github.com/openfga/openfga/internal/verifrt/vrt"
)

// Viol is a violating execution of one scenario.
type Viol struct {
	Signature string `json:"signature"`
	Desc      string `json:"desc"`
	Scenario  any    `json:"scenario"`
	ScenarioI int    `json:"scenario_index"`
	Schedule  []int  `json:"schedule"`
	// local-object elision: the schedule's choice points depend on which objects were known to be shared
	// when the execution started; a replay installs the same set (vrt.SetShared) before running it
	Elide  bool     `json:"elide,omitempty"`
	Shared []uint64 `json:"shared_objects,omitempty"`
}

// Result of exploring one scenario in a worker process.
type Result struct {
	Index      int            `json:"index"`
	Name       string         `json:"name"`
	Execs      int64          `json:"execs"`
	Pruned     int64          `json:"pruned"`
	States     int            `json:"states"`
	Points     int64          `json:"points"`
	MaxPoints  int            `json:"max_points"`
	BoundDone  int            `json:"bound_completed"` // largest preemption bound fully explored (-1 none, 99 = unbounded)
	Capped     string         `json:"capped,omitempty"`
	BestEffort string         `json:"best_effort_capped,omitempty"`
	Horizons   int64          `json:"horizons"`
	Outcomes   map[string]int `json:"outcomes"`
	Nontrivial []uint64       `json:"nontrivial"`
	Viols      []Viol         `json:"viols,omitempty"`
	KnownSeen  map[string]int `json:"known_seen,omitempty"`
	WallS      float64        `json:"wall_s"`
	Sample     any            `json:"sample,omitempty"`
	PerBound   []string       `json:"per_bound,omitempty"`
	DevDone    int            `json:"deviation_bound_completed,omitempty"`
	// unbounded partial-order-reduced phase
	DporRan      bool   `json:"dpor_ran,omitempty"`
	DporComplete bool   `json:"dpor_complete,omitempty"`
	DporExecs    int64  `json:"dpor_executions,omitempty"`
	DporBlocked  int64  `json:"dpor_sleep_blocked,omitempty"`
	DporRaces    int64  `json:"dpor_races,omitempty"`
	DporNote     string `json:"dpor_note,omitempty"`
}

// Scenario is one closed harness: Body is executed once per schedule and must rebuild its state from
// scratch; Check evaluates the oracle on a complete execution and returns (signature, description) of
// a violation or "".
type Scenario struct {
	Name   string
	Params any
	// Make returns the body and the per-execution oracle (closures share the state Body rebuilds).
	Make func() (body func(), check func(x *vrt.Execution) (sig, desc, outcome string, nontrivialKey uint64))
}

type Budget struct {
	Bounds   []int         // preemption bounds to iterate (-1 = unbounded)
	Required int           // the first Required bounds must complete (else the run is not exhaustive); later ones are best effort
	Prune    bool          // state-key pruning
	Elide    bool          // no scheduling point at operations on objects only one thread touches (fixpoint over restarts)
	PerScen  time.Duration // wall budget per scenario
	// RequiredPerScen, when > 0, is the wall budget of the required bounds (PerScen then only limits the
	// best-effort bounds): keeps "required bound cut" from depending on machine load
	RequiredPerScen time.Duration
	MaxExecs        int64
	// DevBounds: deviation bounds explored BEFORE the preemption bounds (vrt.Explorer.DevBound): all schedules
	// that differ from the default schedule in at most d choices. The first DevRequired of them must complete.
	DevBounds   []int
	DevRequired int
	DevPerScen  time.Duration
	// DPOR, when > 0, is the wall budget of a final phase without preemption bound: dynamic
	// partial-order reduction with sleep sets (vrt/dpor.go) — at least one interleaving of every
	// Mazurkiewicz trace of the scenario. Completing it decides the scenario for EVERY interleaving.
	DPOR time.Duration
}

// Explore runs one scenario under iterative preemption bounding.
func Explore(i int, sc Scenario, b Budget) *Result {
	t0 := time.Now()
	res := &Result{Index: i, Name: sc.Name, BoundDone: -1, Outcomes: map[string]int{}, KnownSeen: map[string]int{}}
	body, check := sc.Make()
	vrt.LocalElision = b.Elide
	vrt.ResetShared()
	defer func() {
		res.PerBound = append(res.PerBound, fmt.Sprintf("local-object elision=%v shared_objects=%d elided_ops=%d", b.Elide, vrt.SharedCount(), vrt.Elided))
	}()
	if err := vrt.CheckDeterminism(nil, body); err != nil {
		res.Viols = append(res.Viols, Viol{Signature: "harness-nondeterministic-replay", Desc: err.Error(), Scenario: sc.Params, ScenarioI: i})
		return res
	}
	nt := map[uint64]struct{}{}
	deadline := t0.Add(b.PerScen)
	sigSeen := map[string]int{}
	type phase struct {
		bound int
		dev   bool
	}
	var phases []phase
	for _, d := range b.DevBounds {
		phases = append(phases, phase{d, true})
	}
	for _, bd := range b.Bounds {
		phases = append(phases, phase{bd, false})
	}
	nDev := len(b.DevBounds)
	skipDev, devCapped := false, ""
	for pi, ph := range phases {
		if ph.dev && skipDev {
			continue
		}
		bound := ph.bound
		bi := pi - nDev
		dl := deadline
		if ph.dev {
			bi = 1 << 20 // never "required" through the preemption-bound rule
			dl = t0.Add(b.DevPerScen)
			if b.DevPerScen == 0 {
				dl = deadline
			}
		}
		if bi < b.Required && b.RequiredPerScen > 0 {
			dl = t0.Add(b.RequiredPerScen)
		}
		e := &vrt.Explorer{Bound: bound, Prune: b.Prune, Deadline: dl, MaxExecs: b.MaxExecs}
		if ph.dev {
			e.DevMode, e.DevBound = true, bound
		}
		var lastX *vrt.Execution
		e.OnExec = func(x *vrt.Execution) bool {
			lastX = x
			sig, desc, outcome, key := check(x)
			if x.Horizon {
				outcome = "HORIZON " + outcome
				sig = "" // never a verdict
			}
			res.Outcomes[outcome]++
			if key != 0 {
				nt[key] = struct{}{}
			}
			if sig != "" {
				sigSeen[sig]++
				if sigSeen[sig] <= 1 {
					v := Viol{Signature: sig, Desc: desc, Scenario: sc.Params, ScenarioI: i, Schedule: x.Choices()}
					if b.Elide {
						v.Elide, v.Shared = true, vrt.SharedPrefix(x.SharedAtStart)
					}
					res.Viols = append(res.Viols, v)
				}
				res.KnownSeen[sig]++
			}
			return true
		}
		tb := time.Now()
		e.Explore(body)
		_ = lastX
		label := "bound"
		if ph.dev {
			label = "deviations<"
		}
		res.PerBound = append(res.PerBound, fmt.Sprintf("%s=%d execs=%d pruned=%d states=%d restarts=%d wall=%.1fs capped=%q", label, bound, e.Execs, e.Pruned, e.States(), e.Restarts, time.Since(tb).Seconds(), e.Capped))
		res.Execs += e.Execs
		res.Pruned += e.Pruned
		res.Points += e.Points
		res.Horizons += e.Horizons
		if e.States() > res.States {
			res.States = e.States()
		}
		if e.MaxPoints > res.MaxPoints {
			res.MaxPoints = e.MaxPoints
		}
		if ph.dev {
			if e.Capped != "" {
				// a cut deviation bound never keeps the preemption bounds from running: the larger deviation
				// bounds are skipped, the cut is reported
				if pi < b.DevRequired {
					devCapped = fmt.Sprintf("deviation bound %d: %s", bound, e.Capped)
				} else {
					res.BestEffort = fmt.Sprintf("deviation bound %d (beyond the required ones): %s", bound, e.Capped)
				}
				skipDev = true
			} else if bound > res.DevDone {
				res.DevDone = bound
			}
			continue
		}
		if e.Capped != "" {
			if bi >= b.Required {
				res.BestEffort = fmt.Sprintf("bound %d (beyond the required bounds): %s", bound, e.Capped)
			} else {
				res.Capped = fmt.Sprintf("bound %d: %s", bound, e.Capped)
			}
			break
		}
		if bound < 0 {
			res.BoundDone = 99
		} else {
			res.BoundDone = bound
		}
	}
	if devCapped != "" && res.Capped == "" {
		res.Capped = devCapped
	}
	if b.DPOR > 0 && res.Capped == "" && len(res.Viols) == 0 {
		runDPOR(i, sc, b, res, body, check, nt, sigSeen)
	}
	for k := range nt {
		res.Nontrivial = append(res.Nontrivial, k)
	}
	res.WallS = time.Since(t0).Seconds()
	return res
}

func runDPOR(i int, sc Scenario, b Budget, res *Result, body func(), check func(x *vrt.Execution) (string, string, string, uint64), nt map[uint64]struct{}, sigSeen map[string]int) {
	tb := time.Now()
	e := &vrt.DPORExplorer{Deadline: tb.Add(b.DPOR), MaxExecs: b.MaxExecs}
	finals := map[uint64]struct{}{}
	e.OnExec = func(x *vrt.Execution) bool {
		finals[x.FinalKey] = struct{}{}
		sig, desc, outcome, key := check(x)
		if x.Horizon {
			outcome = "HORIZON " + outcome
			sig = ""
		}
		res.Outcomes[outcome]++
		if key != 0 {
			nt[key] = struct{}{}
		}
		if sig != "" {
			sigSeen[sig]++
			if sigSeen[sig] <= 1 {
				v := Viol{Signature: sig, Desc: desc, Scenario: sc.Params, ScenarioI: i, Schedule: x.Choices()}
				if b.Elide {
					v.Elide, v.Shared = true, vrt.SharedPrefix(x.SharedAtStart)
				}
				res.Viols = append(res.Viols, v)
			}
			res.KnownSeen[sig]++
		}
		return true
	}
	e.Explore(body)
	res.DporRan = true
	res.DporComplete = e.Capped == ""
	res.DporExecs, res.DporBlocked, res.DporRaces = e.Execs, e.Blocked, e.Races
	res.Execs += e.Execs
	res.Points += e.Points
	res.Horizons += e.Horizons
	if e.MaxPoints > res.MaxPoints {
		res.MaxPoints = e.MaxPoints
	}
	res.DporNote = fmt.Sprintf("dpor (no preemption bound): complete=%v execs=%d sleep_blocked=%d races=%d distinct_final_states=%d restarts=%d wall=%.1fs capped=%q", e.Capped == "", e.Execs, e.Blocked, e.Races, len(finals), e.Restarts, time.Since(tb).Seconds(), e.Capped)
	res.PerBound = append(res.PerBound, res.DporNote)
	if e.Capped == "" {
		res.BoundDone = 99
	}
}

// CrossValidate explores one scenario twice without a preemption bound — the state-key search and the
// partial-order-reduced search — and compares the sets of final states and oracle outcomes reached.
// Used by the self-tests of the engine (a reduced search that loses a behaviour shows up here).
func CrossValidate(sc Scenario, elide bool, budget time.Duration) (ok bool, note string) {
	body, check := sc.Make()
	vrt.LocalElision = elide
	vrt.ResetShared()
	if err := vrt.CheckDeterminism(nil, body); err != nil {
		return false, "nondeterministic replay: " + err.Error()
	}
	fullF, fullO := map[uint64]struct{}{}, map[string]struct{}{}
	t0 := time.Now()
	ex := &vrt.Explorer{Bound: -1, Prune: true, Deadline: t0.Add(budget)}
	fullSched := map[uint64][]int{}
	ex.OnExec = func(x *vrt.Execution) bool {
		_, _, out, _ := check(x)
		if _, ok := fullSched[x.FinalKey]; !ok {
			fullSched[x.FinalKey] = x.Choices()
		}
		fullF[x.FinalKey] = struct{}{}
		fullO[out] = struct{}{}
		return true
	}
	ex.Explore(body)
	if ex.Capped != "" {
		return true, fmt.Sprintf("skipped: full search capped (%s) after %d execs", ex.Capped, ex.Execs)
	}
	w1 := time.Since(t0)
	dF, dO := map[uint64]struct{}{}, map[string]struct{}{}
	t1 := time.Now()
	de := &vrt.DPORExplorer{Deadline: t1.Add(budget)}
	de.OnExec = func(x *vrt.Execution) bool {
		_, _, out, _ := check(x)
		dF[x.FinalKey] = struct{}{}
		dO[out] = struct{}{}
		return true
	}
	de.Explore(body)
	if de.Capped != "" {
		return true, fmt.Sprintf("skipped: dpor capped (%s) after %d execs (full: %d execs, %d finals)", de.Capped, de.Execs, ex.Execs, len(fullF))
	}
	missF, missO, extraF := 0, 0, 0
	for k := range fullF {
		if _, ok := dF[k]; !ok {
			missF++
			if missF == 1 && os.Getenv("VERIF_XVAL_DEBUG") != "" {
				x := vrt.Run(fullSched[k], vrt.RunOpts{Verbose: true}, body)
				fmt.Println("MISSING final state reached by schedule", fullSched[k])
				for _, l := range x.Trace {
					fmt.Println("   ", l)
				}
			}
		}
	}
	for k := range dF {
		if _, ok := fullF[k]; !ok {
			extraF++
		}
	}
	for k := range fullO {
		if _, ok := dO[k]; !ok {
			missO++
		}
	}
	note = fmt.Sprintf("full: execs=%d pruned=%d finals=%d outcomes=%d wall=%.1fs | dpor: execs=%d blocked=%d races=%d finals=%d outcomes=%d wall=%.1fs | missing finals=%d outcomes=%d, extra finals=%d",
		ex.Execs, ex.Pruned, len(fullF), len(fullO), w1.Seconds(), de.Execs, de.Blocked, de.Races, len(dF), len(dO), time.Since(t1).Seconds(), missF, missO, extraF)
	return missF == 0 && missO == 0 && extraF == 0, note
}

// RunSharded explores every scenario in its own worker process (GOMAXPROCS=1, one scheduler per
// process), Workers at a time, and merges the results into the report. When the environment names
// a shard, this process is a worker: it explores that scenario, prints the result and exits.
func RunSharded(o *core.Options, r *core.Report, scs []Scenario, b Budget) []*Result {
	if s := os.Getenv("VERIF_SHARD"); s != "" {
		i, _ := strconv.Atoi(s)
		res := Explore(i, scs[i], b)
		out, _ := json.Marshal(res)
		fmt.Printf("\nRESULT %s\n", out)
		os.Exit(0)
	}
	results := make([]*Result, len(scs))
	var mu sync.Mutex
	exe, _ := os.Executable()
	r.Parallel(len(scs), func(i int) {
		cmd := exec.Command(exe, os.Args[1:]...)
		cmd.Env = append(os.Environ(), "VERIF_SHARD="+strconv.Itoa(i), "GOMAXPROCS=1")
		var stdout, stderr bytes.Buffer
		cmd.Stdout, cmd.Stderr = &stdout, &stderr
		err := cmd.Run()
		var res *Result
		sc := bufio.NewScanner(&stdout)
		sc.Buffer(make([]byte, 1<<20), 1<<28)
		for sc.Scan() {
			if bytes.HasPrefix(sc.Bytes(), []byte("RESULT ")) {
				res = &Result{}
				if json.Unmarshal(sc.Bytes()[7:], res) != nil {
					res = nil
				}
			}
		}
		mu.Lock()
		defer mu.Unlock()
		if res == nil {
			tail := stderr.String()
			if len(tail) > 1500 {
				tail = tail[len(tail)-1500:]
			}
			r.Violate("harness-worker-crashed", fmt.Sprintf("scenario %d (%s): worker died: %v\n%s", i, scs[i].Name, err, tail), map[string]any{"scenario": scs[i].Params, "scenario_index": i})
			return
		}
		results[i] = res
	})
	return results
}

// Merge folds worker results into the report.
func Merge(r *core.Report, results []*Result) {
	var execs, pruned, points, horizons int64
	states := 0
	minBound := 1 << 30
	outcomes := 0
	perScenario := []any{}
	for _, res := range results {
		if res == nil {
			continue
		}
		execs += res.Execs
		pruned += res.Pruned
		points += res.Points
		horizons += res.Horizons
		states += res.States
		outcomes += len(res.Outcomes)
		if res.BoundDone < minBound {
			minBound = res.BoundDone
		}
		for _, k := range res.Nontrivial {
			r.Nontrivial(k ^ uint64(res.Index)*0x9e3779b97f4a7c15)
		}
		if res.Capped != "" {
			r.NotExhaustive("scenario " + res.Name + " capped: " + res.Capped)
		}
		for _, v := range res.Viols {
			r.Violate(v.Signature, v.Desc, v)
		}
		perScenario = append(perScenario, map[string]any{"name": res.Name, "executions": res.Execs, "pruned": res.Pruned, "states": res.States, "bound_completed": res.BoundDone, "deviation_bound_completed": res.DevDone, "distinct_outcomes": len(res.Outcomes), "outcome_examples": outcomeExamples(res.Outcomes, 6), "max_points": res.MaxPoints, "wall_s": res.WallS, "capped": res.Capped, "best_effort_capped": res.BestEffort, "per_bound": res.PerBound})
		if res.Sample != nil {
			r.Sample(res.Sample)
		}
	}
	r.Eval(execs)
	r.Set("schedules_complete", execs)
	r.Set("schedules_pruned_at_expanded_state", pruned)
	r.Set("scheduling_points", points)
	r.Set("distinct_states_keyed", states)
	r.Set("horizon_hits_not_decided", horizons)
	r.Set("distinct_outcomes_total", outcomes)
	r.Set("min_preemption_bound_completed_over_scenarios", minBound)
	minDev := 1 << 30
	for _, res := range results {
		if res != nil && res.DevDone < minDev {
			minDev = res.DevDone
		}
	}
	if minDev < 1<<30 && minDev > 0 {
		r.Set("min_deviation_bound_completed_over_scenarios", minDev)
	}
	r.Set("scenarios", perScenario)
}

// ---------------------------------------------------------------------------
// Linearizability (Wing & Gong style search; histories here have <= 12 operations).

type Op struct {
	Thread int    `json:"t"`
	Call   int64  `json:"call"`
	Ret    int64  `json:"ret"` // 0 = pending (never returned)
	Name   string `json:"op"`
	Arg    int    `json:"arg,omitempty"`
	Val    int    `json:"val,omitempty"`
	OK     bool   `json:"ok"`
}

func (o Op) String() string {
	return fmt.Sprintf("T%d %s(%d)->(%d,%v)[%d,%d]", o.Thread, o.Name, o.Arg, o.Val, o.OK, o.Call, o.Ret)
}

// Model is a sequential specification: Step applies op to state and reports whether the recorded
// result is allowed; states are strings (memoised).
type Model struct {
	Init string
	Step func(state string, op Op) (next string, ok bool)
}

// Linearizable reports whether the history has a linearization. Pending operations may take effect
// (with any result the model allows — Step is called with the recorded zero result, so models must
// accept pending ops via op.Ret == 0) or not at all.
func Linearizable(h []Op, m Model) bool {
	n := len(h)
	if n > 62 {
		panic("history too long")
	}
	memo := map[string]bool{}
	var rec func(done uint64, state string) bool
	rec = func(done uint64, state string) bool {
		all := true
		for i := 0; i < n; i++ {
			if done&(1<<i) == 0 && h[i].Ret != 0 {
				all = false
			}
		}
		if all {
			return true
		}
		k := strconv.FormatUint(done, 16) + "|" + state
		if v, ok := memo[k]; ok {
			return v
		}
		// minimal ops: not done, and no other not-done completed op returned before its call
		for i := 0; i < n; i++ {
			if done&(1<<i) != 0 {
				continue
			}
			minimal := true
			for j := 0; j < n; j++ {
				if j != i && done&(1<<j) == 0 && h[j].Ret != 0 && h[j].Ret < h[i].Call {
					minimal = false
					break
				}
			}
			if !minimal {
				continue
			}
			if ns, ok := m.Step(state, h[i]); ok {
				if rec(done|1<<i, ns) {
					memo[k] = true
					return true
				}
			}
		}
		memo[k] = false
		return false
	}
	return rec(0, m.Init)
}

// outcomeExamples lists up to n distinct outcomes (with their execution counts) for the evidence file.
func outcomeExamples(m map[string]int, n int) []string {
	var ks []string
	for k := range m {
		ks = append(ks, k)
	}
	sort.Strings(ks)
	if len(ks) > n {
		ks = ks[:n]
	}
	for i, k := range ks {
		if len(k) > 300 {
			k = k[:300]
		}
		ks[i] = fmt.Sprintf("%dx %s", m[ks[i]], k)
	}
	return ks
}

// XVal is the engine self-test entry of a harness binary (VERIF_XVAL=1): every scenario (or the one named
// by VERIF_SHARD) is cross-validated; exit code 0 iff no reduced search lost a final state or outcome.
func XVal(scs []Scenario, elide bool, budget time.Duration) int {
	if s := os.Getenv("VERIF_SHARD"); s != "" {
		i, _ := strconv.Atoi(s)
		ok, note := CrossValidate(scs[i], elide, budget)
		fmt.Printf("XVAL %d ok=%v %s :: %s\n", i, ok, scs[i].Name, note)
		if !ok {
			return 1
		}
		return 0
	}
	exe, _ := os.Executable()
	var mu sync.Mutex
	bad := 0
	var wg sync.WaitGroup
	sem := make(chan struct{}, 14)
	for i := range scs {
		wg.Add(1)
		go func(i int) {
			defer wg.Done()
			sem <- struct{}{}
			defer func() { <-sem }()
			cmd := exec.Command(exe, os.Args[1:]...)
			cmd.Env = append(os.Environ(), "VERIF_SHARD="+strconv.Itoa(i), "GOMAXPROCS=1")
			out, err := cmd.CombinedOutput()
			mu.Lock()
			defer mu.Unlock()
			fmt.Print(string(out))
			if err != nil {
				bad++
			}
		}(i)
	}
	wg.Wait()
	fmt.Printf("XVAL-SUMMARY scenarios=%d failed=%d\n", len(scs), bad)
	if bad > 0 {
		return 1
	}
	return 0
}
