package e1

import (
	"bytes"
	"encoding/json"
	"fmt"
	"os"
	"os/exec"

	"github.com/openfga/openfga/internal/verifh/core"
)

// Sub is what a scheduler sub-binary (an instrumented build run by a free-running check) hands back
// on its SUBREPORT line.
type Sub struct {
	Scenarios  int      `json:"scenarios"`
	Execs      int64    `json:"schedules_complete"`
	Pruned     int64    `json:"schedules_pruned"`
	MinBound   int      `json:"min_preemption_bound_completed"`
	Capped     []string `json:"capped,omitempty"`
	Nontrivial []uint64 `json:"nontrivial"`
	Viols      []Viol   `json:"viols,omitempty"`
}

// Summarise folds per-scenario results into a Sub.
func Summarise(n int, results []*Result) Sub {
	sub := Sub{Scenarios: n, MinBound: 1 << 30}
	for _, res := range results {
		if res == nil {
			sub.Capped = append(sub.Capped, "worker crashed")
			continue
		}
		sub.Execs += res.Execs
		sub.Pruned += res.Pruned
		if res.BoundDone < sub.MinBound {
			sub.MinBound = res.BoundDone
		}
		if res.Capped != "" {
			sub.Capped = append(sub.Capped, res.Name+": "+res.Capped)
		}
		for _, k := range res.Nontrivial {
			sub.Nontrivial = append(sub.Nontrivial, k^uint64(res.Index)*0x9e3779b97f4a7c15)
		}
		sub.Viols = append(sub.Viols, res.Viols...)
	}
	return sub
}

// PrintSub writes the SUBREPORT line.
func PrintSub(sub Sub) {
	b, _ := json.Marshal(sub)
	fmt.Printf("\nSUBREPORT %s\n", b)
}

// MergeSub runs .build/bin/<bin> <prop> <tier> and merges its SUBREPORT into r under evidence key label.
func MergeSub(o *core.Options, r *core.Report, bin, prop, label, what string) {
	path := core.BinDir() + "/" + bin
	if _, err := os.Stat(path); err != nil {
		r.Violate("harness-sub-binary-missing/"+bin, "the instrumented harness was not built: "+err.Error(), nil)
		return
	}
	cmd := exec.Command(path, prop, o.Tier)
	cmd.Env = os.Environ()
	out, err := cmd.Output()
	var sub Sub
	found := false
	for _, line := range bytes.Split(out, []byte("\n")) {
		if bytes.HasPrefix(line, []byte("SUBREPORT ")) {
			found = json.Unmarshal(line[len("SUBREPORT "):], &sub) == nil
		}
	}
	if !found {
		msg := "no error"
		if err != nil {
			msg = err.Error()
		}
		r.Violate("harness-worker-crashed/"+bin, "the instrumented harness produced no report: "+msg, nil)
		return
	}
	r.Eval(sub.Execs)
	for _, k := range sub.Nontrivial {
		r.Nontrivial(k)
	}
	r.Set(label, map[string]any{"scenarios": sub.Scenarios, "schedules_complete": sub.Execs, "schedules_pruned_at_expanded_state": sub.Pruned,
		"min_preemption_bound_completed": sub.MinBound, "capped": sub.Capped, "what": what})
	if len(sub.Capped) > 0 {
		r.NotExhaustive(label + " scenarios capped: " + sub.Capped[0])
	}
	for _, v := range sub.Viols {
		r.Violate(v.Signature, v.Desc, v)
	}
}

// ReplaySub hands a replay file that holds a scheduler scenario (scenario + schedule) to the sub-binary that
// recorded it; it reports whether the file was of that kind and the sub-binary's exit code.
func ReplaySub(o *core.Options, bin string) (bool, int) {
	var v struct {
		Schedule []int           `json:"schedule"`
		Scenario json.RawMessage `json:"scenario"`
	}
	if err := core.LoadReplay(o.Replay, &v); err != nil || v.Scenario == nil || v.Schedule == nil {
		return false, 0
	}
	cmd := exec.Command(core.BinDir()+"/"+bin, o.Prop, "--replay", o.Replay)
	cmd.Env = os.Environ()
	cmd.Stdout, cmd.Stderr = os.Stdout, os.Stderr
	if err := cmd.Run(); err != nil {
		if ee, ok := err.(*exec.ExitError); ok {
			return true, ee.ExitCode()
		}
		fmt.Println("replay:", err)
		return true, 2
	}
	return true, 0
}
