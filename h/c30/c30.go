// Package c30 decides C30 "Expand mirrors the rewrite and the directly assigned users".
package c30

import (
	"encoding/json"
	"fmt"
	"sort"

	"github.com/openfga/openfga/internal/verifh/c04/kit"
	"github.com/openfga/openfga/internal/verifh/core"
	"github.com/openfga/openfga/internal/verifh/e2"
	"github.com/openfga/openfga/internal/verifh/ref"
	"github.com/openfga/openfga/pkg/server"
)

// Expected builds the tree the statement prescribes from the harness' own model representation and
// the tuples that are valid for it (stored ∪ contextual). Nothing of the code under test is consulted.
func Expected(m *ref.Model, tuples []ref.Tuple, obj, rel string) *kit.Tree {
	d := m.Types[ref.TypeOf(obj)][rel]
	if d == nil {
		return nil
	}
	name := obj + "#" + rel
	var build func(e *ref.Expr) *kit.Tree
	build = func(e *ref.Expr) *kit.Tree {
		switch e.K {
		case ref.KThis:
			set := map[string]bool{}
			for _, t := range tuples {
				if t.Obj == obj && t.Rel == rel && m.ValidTuple(t) {
					set[t.User] = true
				}
			}
			users := []string{}
			for u := range set {
				users = append(users, u)
			}
			sort.Strings(users)
			return &kit.Tree{Name: name, Kind: "users", Users: users}
		case ref.KComputed:
			return &kit.Tree{Name: name, Kind: "computed", Computed: obj + "#" + e.Rel}
		case ref.KTTU:
			set := map[string]bool{}
			for _, t := range tuples {
				if t.Obj == obj && t.Rel == e.Tupleset && m.ValidTuple(t) {
					// a valid tupleset tuple names an object (tupleset relations admit objects only)
					set[t.User+"#"+e.Rel] = true
				}
			}
			targets := []string{}
			for u := range set {
				targets = append(targets, u)
			}
			sort.Strings(targets)
			return &kit.Tree{Name: name, Kind: "ttu", Tupleset: obj + "#" + e.Tupleset, Targets: targets}
		case ref.KUnion:
			return &kit.Tree{Name: name, Kind: "union", Kids: []*kit.Tree{build(e.A), build(e.B)}}
		case ref.KInter:
			return &kit.Tree{Name: name, Kind: "intersection", Kids: []*kit.Tree{build(e.A), build(e.B)}}
		case ref.KDiff:
			return &kit.Tree{Name: name, Kind: "difference", Kids: []*kit.Tree{build(e.A), build(e.B)}}
		}
		return nil
	}
	return build(d.Rewrite)
}

func js(v any) string { b, _ := json.Marshal(v); return string(b) }

// Diff names the first mechanism-level difference between the expected and the observed tree
// ("" = equal). Leaf users are compared verbatim (sorted, duplicate-free is part of the statement);
// tuple-to-userset targets as sets plus a duplicate test (their order is the datastore's).
func Diff(exp, got *kit.Tree) string {
	switch {
	case exp == nil && got == nil:
		return ""
	case exp == nil || got == nil:
		return "node-missing"
	case exp.Kind != got.Kind:
		return "node-kind"
	case exp.Name != got.Name:
		return "node-name"
	}
	switch exp.Kind {
	case "users":
		if js(exp.Users) == js(got.Users) {
			return ""
		}
		if !sort.StringsAreSorted(got.Users) {
			return "leaf-users-unsorted"
		}
		for i := 1; i < len(got.Users); i++ {
			if got.Users[i] == got.Users[i-1] {
				return "leaf-users-duplicated"
			}
		}
		return "leaf-users-set"
	case "computed":
		if exp.Computed != got.Computed {
			return "computed-target"
		}
	case "ttu":
		if exp.Tupleset != got.Tupleset {
			return "ttu-tupleset-name"
		}
		g := e2.SortedCopy(got.Targets)
		for i := 1; i < len(g); i++ {
			if g[i] == g[i-1] {
				return "ttu-targets-duplicated"
			}
		}
		if js(exp.Targets) != js(g) {
			return "ttu-targets-set"
		}
	default:
		if len(exp.Kids) != len(got.Kids) {
			return "operand-count"
		}
		for i := range exp.Kids {
			if d := Diff(exp.Kids[i], got.Kids[i]); d != "" {
				return d
			}
		}
	}
	return ""
}

// Case is a replayable Expand case.
type Case struct {
	World      *ref.World  `json:"world"`       // all tuples (stored ∪ contextual)
	Contextual []ref.Tuple `json:"contextual"`  // the part passed as contextual tuples
	AlsoStored bool        `json:"also_stored"` // contextual tuples are additionally stored (duplicates)
	Obj        string      `json:"obj"`
	Rel        string      `json:"rel"`
	Expected   string      `json:"expected"`
	Got        string      `json:"got"`
}

func nontrivial(t *kit.Tree) bool {
	if t == nil {
		return false
	}
	if len(t.Users) > 0 || len(t.Targets) > 0 {
		return true
	}
	for _, k := range t.Kids {
		if nontrivial(k) {
			return true
		}
	}
	return false
}

func shape(t *kit.Tree) string {
	if t == nil {
		return "-"
	}
	s := t.Kind
	if len(t.Kids) > 0 {
		s += "("
		for _, k := range t.Kids {
			s += shape(k) + ","
		}
		s += ")"
	}
	return s
}

// one compares one Expand call with the expectation; returns the difference class.
func one(r *core.Report, env *e2.Env, w *ref.World, contextual []ref.Tuple, also bool, n e2.Node) {
	exp := Expected(w.M, w.Tuples, n.Obj, n.Rel)
	got, err := kit.Expand(env, n.Obj, n.Rel, contextual)
	r.Eval(1)
	r.Count("shape_"+shape(exp), 1)
	if nontrivial(exp) {
		r.Nontrivial(core.Hash(w.M.Types[ref.TypeOf(n.Obj)][n.Rel].Rewrite.String(), fmt.Sprint(w.M.Types[ref.TypeOf(n.Obj)][n.Rel].Restr), e2.TuplesStr(w.Tuples), e2.TuplesStr(contextual), fmt.Sprint(also), n.Obj, n.Rel))
	}
	d := ""
	gs := ""
	if err != nil {
		d = "expand-error"
		gs = e2.ErrOutcome(err).String() + " " + e2.ErrOutcome(err).Msg
	} else {
		d = Diff(exp, got)
		gs = got.String()
	}
	if d == "" {
		return
	}
	c := Case{World: w, Contextual: contextual, AlsoStored: also, Obj: n.Obj, Rel: n.Rel, Expected: exp.String(), Got: gs}
	r.Violate("expand/"+d, fmt.Sprintf("Expand(%s#%s) contextual{%s} expected %s got %s model{%s} tuples{%s}", n.Obj, n.Rel, e2.TuplesStr(contextual), exp, gs, w.M, e2.TuplesStr(w.Tuples)), c)
}

func validOnly(m *ref.Model, ts []ref.Tuple) (v []ref.Tuple) {
	for _, t := range ts {
		if m.ValidTuple(t) {
			v = append(v, t)
		}
	}
	return
}

func Run(o *core.Options) int {
	r := core.NewReport(o, "exploration",
		"every selected model x every tuple subset |T|<=K of the model's pool x every split of T into stored and contextual tuples (plus: T stored and passed again as contextual tuples) x every (object, relation) of the universe incl. tupleset and helper relations: Server.Expand tree vs the tree built from the harness' own rewrite AST and ref's valid tuples; sub-sweep with one stored tuple that is invalid for the model. non-trivial = expected tree has at least one leaf user or tuple-to-userset target; distinct by (relation definition, tuples, split, object, relation)")
	r.Assume("memory datastore", "universe 2 users/2 groups/2 docs; rewrites of depth<=1; one condition cx(x:int):=x<10 (Expand ignores conditions: users of conditioned tuples are listed)",
		"order of tuple-to-userset computed targets is not promised by the API (datastore read order) and compared as a duplicate-free set; leaf users are compared verbatim (sorted, distinct)",
		"a tuple-to-userset leaf is expected to list object#computedRelation for every valid tupleset tuple, also when the object's type does not define the computed relation (counted as ttu_target_without_relation)")
	if o.Replay != "" {
		return replay(o, r)
	}
	limit := 64
	if o.Thorough() {
		limit = 0
	}
	models, total := kit.Models(o, limit)
	k := 2
	if o.Thorough() {
		k = 3
	}
	r.Set("models_selected", len(models))
	r.Set("model_classes_total", total)
	r.Set("max_tuples", k)
	so := []server.OpenFGAServiceV1Option{server.WithRequestTimeout(0)}
	kit.Sweep(r, models, kit.SweepOpts{K: k, ServerOpts: so}, func(env *e2.Env, w *ref.World) {
		nodes := kit.AllNodes(w.M, w.U)
		for si, sp := range kit.Splits(w.Tuples) {
			stored, ctxl := sp[0], sp[1]
			if len(ctxl) > 0 {
				if err := env.Delete(ctxl, env.ModelID); err != nil {
					panic(err)
				}
			}
			if len(w.Tuples) == 2 && si == 1 {
				r.Sample(map[string]any{"model": w.M.String(), "stored": e2.TuplesStr(stored), "contextual": e2.TuplesStr(ctxl), "expand doc:1#r0": Expected(w.M, w.Tuples, "doc:1", "r0").String()})
			}
			for _, n := range nodes {
				one(r, env, w, ctxl, false, n)
			}
			if len(ctxl) > 0 {
				if err := env.Write(ctxl, env.ModelID); err != nil {
					panic(err)
				}
			}
			r.Count("splits", 1)
		}
		if len(w.Tuples) > 0 {
			// everything stored and passed again as contextual tuples: users still listed once
			for _, n := range nodes {
				one(r, env, w, w.Tuples, true, n)
			}
			r.Count("duplicate_variants", 1)
		}
		for _, t := range w.Tuples {
			// coverage note: TTU targets whose type lacks the computed relation
			for rel, d := range w.M.Types[ref.TypeOf(t.Obj)] {
				_ = rel
				if e := ttuOn(d.Rewrite, t.Rel); e != nil {
					if _, ok := w.M.Types[ref.TypeOf(t.User)][e.Rel]; !ok && w.M.ValidTuple(t) {
						r.Count("ttu_target_without_relation", 1)
					}
				}
			}
		}
	})
	// leftover sub-sweep: one stored tuple invalid for M (written under the permissive model) + |T|<=1
	lm := models
	if !o.Thorough() {
		lm = kit.Thin(models, 8)
	}
	r.Set("models_leftover_subsweep", len(lm))
	kit.Sweep(r, lm, kit.SweepOpts{K: 1, ServerOpts: so, Leftover: true}, func(env *e2.Env, w *ref.World) {
		r.Count("worlds_with_leftover_tuple", 1)
		nodes := kit.AllNodes(w.M, w.U)
		valid := validOnly(w.M, w.Tuples)
		for _, n := range nodes {
			one(r, env, w, nil, false, n)
		}
		if len(valid) > 0 {
			// the valid tuple passed as contextual tuple as well (duplicate), leftover only stored
			for _, n := range nodes {
				one(r, env, w, valid, true, n)
			}
		}
	})
	return r.Finish()
}

func ttuOn(e *ref.Expr, tupleset string) *ref.Expr {
	if e == nil {
		return nil
	}
	if e.K == ref.KTTU && e.Tupleset == tupleset {
		return e
	}
	if x := ttuOn(e.A, tupleset); x != nil {
		return x
	}
	return ttuOn(e.B, tupleset)
}

func replay(o *core.Options, r *core.Report) int {
	var c Case
	if err := core.LoadReplay(o.Replay, &c); err != nil {
		fmt.Println("replay:", err)
		return 2
	}
	env, err := e2.NewEnv(c.World.M, server.WithRequestTimeout(0))
	if err != nil {
		fmt.Println("model rejected:", err)
		return 2
	}
	defer env.Close()
	pm, _ := env.WriteModel(ref.Permissive())
	env.ModelID, _ = env.WriteModel(c.World.M)
	isCtx := map[string]bool{}
	for _, t := range c.Contextual {
		isCtx[t.String()] = true
	}
	for _, t := range c.World.Tuples {
		if isCtx[t.String()] && !c.AlsoStored {
			continue
		}
		id := env.ModelID
		if !c.World.M.ValidTuple(t) {
			id = pm
		}
		if err := env.Write([]ref.Tuple{t}, id); err != nil {
			fmt.Println("write:", err)
			return 2
		}
	}
	if c.World.U == nil {
		c.World.U = ref.DefaultUniverse()
	}
	one(r, env, c.World, c.Contextual, c.AlsoStored, e2.Node{Obj: c.Obj, Rel: c.Rel})
	exp := Expected(c.World.M, c.World.Tuples, c.Obj, c.Rel)
	got, err := kit.Expand(env, c.Obj, c.Rel, c.Contextual)
	fmt.Printf("replay: expected %s\n        got      %v (err=%v)\n", exp, got, err)
	return r.Finish()
}
