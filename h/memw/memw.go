// Package memw explores every interleaving (iterative preemption bounding) of CONCURRENT writers — and of
// readers that page through the changelog while the writers run — on the memory datastore
// (pkg/storage/memory, instrumented: sync -> vsync, time -> vtime). It is the schedule-quantified part of
// C14 (paginated reads return every item exactly once) and C15 (the changelog records tuple history), whose
// own checks enumerate sequential histories only.
//
// The clock is a harness object: timestamppb.Now() (google.golang.org/protobuf/types/known/timestamppb, built
// from an instrumented copy of its module) and the memory package's own time.Now() go through vtime.NowHook,
// which the harness points at a logical clock whose reads are visible operations of the scheduler and
// return strictly increasing instants, one millisecond apart. The changelog ULIDs of two Write calls
// therefore always differ in their 48-bit time component and compare by the instant the call read the clock
// (oklog/ulid's monotonic entropy only orders the entries of one call).
package memw

import (
	"context"
	"encoding/json"
	"errors"
	"fmt"
	"os"
	"sort"
	"strings"
	"time"

	openfgav1 "github.com/openfga/api/proto/openfga/v1"

	"github.com/openfga/openfga/internal/verifh/core"
	"github.com/openfga/openfga/internal/verifh/e1"
	"github.com/openfga/openfga/internal/verifrt/vrt"
	"github.com/openfga/openfga/internal/verifrt/vsync"
	"github.com/openfga/openfga/internal/verifrt/vtime"
	"github.com/openfga/openfga/pkg/storage"
	"github.com/openfga/openfga/pkg/storage/memory"
)

// Call is one datastore Write call: deletes and writes of tuples named by index.
type Call struct {
	Store   int   `json:"store,omitempty"`
	Deletes []int `json:"deletes,omitempty"`
	Writes  []int `json:"writes,omitempty"`
}

func (c Call) String() string {
	var parts []string
	for _, d := range c.Deletes {
		parts = append(parts, fmt.Sprintf("-t%d", d))
	}
	for _, w := range c.Writes {
		parts = append(parts, fmt.Sprintf("+t%d", w))
	}
	s := "Write(" + strings.Join(parts, ",") + ")"
	if c.Store != 0 {
		s += fmt.Sprintf("@s%d", c.Store)
	}
	return s
}

type Params struct {
	Name    string   `json:"name"`
	Init    []Call   `json:"init,omitempty"` // executed by the main thread before the threads start
	Threads [][]Call `json:"threads"`        // concurrent writer threads
	Readers int      `json:"readers,omitempty"`
	// concurrent readers: each walks ReadChanges of store 0 with page size 1 from the start to the end signal
}

func (p Params) String() string {
	var ts []string
	for _, t := range p.Threads {
		var os []string
		for _, c := range t {
			os = append(os, c.String())
		}
		ts = append(ts, strings.Join(os, ";"))
	}
	for i := 0; i < p.Readers; i++ {
		ts = append(ts, "walk(page=1)")
	}
	var in []string
	for _, c := range p.Init {
		in = append(in, c.String())
	}
	s := p.Name + " {" + strings.Join(ts, " || ") + "}"
	if len(in) > 0 {
		s = p.Name + " init[" + strings.Join(in, ";") + "] {" + strings.Join(ts, " || ") + "}"
	}
	return s
}

func (p Params) stores() int {
	n := 1
	for _, t := range append([][]Call{p.Init}, p.Threads...) {
		for _, c := range t {
			if c.Store+1 > n {
				n = c.Store + 1
			}
		}
	}
	return n
}

var storeIDs = []string{"01J000000000000000000STRA0", "01J000000000000000000STRB0"}

func tupleKey(i int) *openfgav1.TupleKey {
	return &openfgav1.TupleKey{Object: fmt.Sprintf("doc:d%d", i), Relation: "viewer", User: fmt.Sprintf("user:u%d", i)}
}
func keyName(o, r, u string) string { return o + "#" + r + "@" + u }
func tupleName(i int) string {
	k := tupleKey(i)
	return keyName(k.GetObject(), k.GetRelation(), k.GetUser())
}

// ---------------------------------------------------------------------------
// the harness clock

var clockObj = new(int)

// base of the logical clock (2024-01-01T00:00:00Z): a valid ULID time, in the past of the wall clock.
var base = time.Unix(1_704_067_200, 0).UTC()

type clock struct {
	tick int64
	by   []int // by[k-1] = logical thread that made the k-th read
}

// now: a visible WRITE on one scheduler object (so the order of all clock reads is part of every thread's
// history and of the state key); the k-th read of an execution returns base + k ms.
func (c *clock) now() time.Time {
	var t time.Time
	vrt.OpObj("clock.Now", clockObj, nil, func(s *uint64, ev uint64) (uint64, bool) {
		*s = *s + 1
		c.tick++
		c.by = append(c.by, vrt.ThreadID())
		t = base.Add(time.Duration(c.tick) * time.Millisecond)
		return uint64(c.tick), false
	})
	return t
}

func tickOf(t time.Time) int64 { return int64(t.Sub(base) / time.Millisecond) }

// ---------------------------------------------------------------------------
// records

type wrec struct {
	Thread, Idx  int // thread 0 = main (init)
	TID          int // scheduler thread index of the caller
	Call         Call
	Inv, Res     int64 // vrt.Stamp() before the call / after the return
	Tick0, Tick1 int64 // clock reads made by anyone before the call / before the return: the call's own reads are those of its thread in (Tick0, Tick1]
	Err          error
}

func (w wrec) String() string {
	r := "ok"
	if w.Err != nil {
		r = "ERR"
	}
	return fmt.Sprintf("T%d:%s=%s[%d,%d]", w.Thread, w.Call, r, w.Inv, w.Res)
}

type entry struct {
	Op   byte // 'W' | 'D'
	Key  string
	Tick int64 // the entry's timestamp on the logical clock
	TS   time.Time
}

func (e entry) String() string { return fmt.Sprintf("%c %s @%d", e.Op, e.Key, e.Tick) }
func (e entry) kind() string   { return string(e.Op) + " " + e.Key }
func (e entry) exact() bool    { return base.Add(time.Duration(e.Tick) * time.Millisecond).Equal(e.TS) }

type tokAt struct {
	Tok string
	Pos int // number of items of the walk returned up to and including the page that issued the token
}

type walk struct {
	Store    int
	PageSize int
	From     string
	FromPos  int // resumed walks: position of the token in the walk that issued it
	SrcPS    int // resumed walks: page size of the walk that issued the token
	Items    []entry
	Pages    []int
	Tokens   []tokAt
	End      string // "end" (storage.ErrNotFound, the documented end signal) or what went wrong
	FirstInv int64  // reader threads: stamp before the first / the last call
	LastInv  int64
	Thread   int
}

func entriesOf(ch []*openfgav1.TupleChange) []entry {
	var out []entry
	for _, c := range ch {
		op := byte('W')
		if c.GetOperation() == openfgav1.TupleOperation_TUPLE_OPERATION_DELETE {
			op = 'D'
		}
		k := c.GetTupleKey()
		ts := c.GetTimestamp().AsTime()
		out = append(out, entry{Op: op, Key: keyName(k.GetObject(), k.GetRelation(), k.GetUser()), Tick: tickOf(ts), TS: ts})
	}
	return out
}

const maxPages = 40

type state struct {
	p        Params
	ds       storage.OpenFGADatastore
	clk      *clock
	writes   []wrec
	walks    []walk // main thread, after all threads finished: page sizes 1, 2, 50 per store
	resumes  []walk // main thread: from every intermediate token
	readers  []walk // concurrent readers
	final    [][]string
	readErr  string
	finished bool
}

func (st *state) doWrite(thread, idx int, c Call) {
	var dels storage.Deletes
	var wrs storage.Writes
	for _, d := range c.Deletes {
		k := tupleKey(d)
		dels = append(dels, &openfgav1.TupleKeyWithoutCondition{Object: k.GetObject(), Relation: k.GetRelation(), User: k.GetUser()})
	}
	for _, w := range c.Writes {
		wrs = append(wrs, tupleKey(w))
	}
	r := wrec{Thread: thread, Idx: idx, TID: vrt.ThreadID(), Call: c}
	r.Inv = vrt.Stamp()
	r.Tick0 = st.clk.tick // no scheduling point between the stamp and the call's first operation
	r.Err = st.ds.Write(context.Background(), storeIDs[c.Store], dels, wrs)
	r.Tick1 = st.clk.tick
	r.Res = vrt.Stamp()
	st.writes = append(st.writes, r)
}

// walkFrom follows continuation tokens until the end signal. stamped: take a logical timestamp before every call.
func (st *state) walkFrom(store, pageSize int, from string, stamped bool) walk {
	w := walk{Store: store, PageSize: pageSize, From: from, Thread: vrt.ThreadID()}
	tok := from
	for n := 0; n < maxPages; n++ {
		if stamped {
			w.LastInv = vrt.Stamp()
			if n == 0 {
				w.FirstInv = w.LastInv
			}
		}
		ch, next, err := st.ds.ReadChanges(context.Background(), storeIDs[store], storage.ReadChangesFilter{}, storage.ReadChangesOptions{Pagination: storage.PaginationOptions{PageSize: pageSize, From: tok}})
		if err != nil {
			if errors.Is(err, storage.ErrNotFound) {
				w.End = "end"
			} else {
				w.End = "error: " + err.Error()
			}
			return w
		}
		if len(ch) == 0 {
			w.End = "empty page without the end signal"
			return w
		}
		w.Items = append(w.Items, entriesOf(ch)...)
		w.Pages = append(w.Pages, len(ch))
		w.Tokens = append(w.Tokens, tokAt{next, len(w.Items)})
		if next == "" {
			w.End = "page without a continuation token"
			return w
		}
		tok = next
	}
	w.End = fmt.Sprintf("no end signal after %d pages", maxPages)
	return w
}

func (st *state) readAll(store int) ([]string, error) {
	it, err := st.ds.Read(context.Background(), storeIDs[store], storage.ReadFilter{}, storage.ReadOptions{})
	if err != nil {
		return nil, err
	}
	defer it.Stop()
	var out []string
	for {
		t, err := it.Next(context.Background())
		if err != nil {
			if errors.Is(err, storage.ErrIteratorDone) {
				break
			}
			return nil, err
		}
		k := t.GetKey()
		out = append(out, keyName(k.GetObject(), k.GetRelation(), k.GetUser()))
	}
	sort.Strings(out)
	return out, nil
}

var pageSizes = []int{1, 2, 50}

func (st *state) body() {
	p := st.p
	vtime.NowHook = st.clk.now
	vrt.Obj(clockObj) // canonical name: created by thread 0 before any thread starts
	st.ds = memory.New()
	for i, c := range p.Init {
		st.doWrite(0, i, c)
	}
	var wg vsync.WaitGroup
	for i, t := range p.Threads {
		i, t := i, t
		wg.Add(1)
		vrt.Go(func() {
			defer wg.Done()
			for j, c := range t {
				st.doWrite(i+1, j, c)
			}
		})
	}
	st.readers = make([]walk, p.Readers)
	for i := 0; i < p.Readers; i++ {
		i := i
		wg.Add(1)
		vrt.Go(func() {
			defer wg.Done()
			st.readers[i] = st.walkFrom(0, 1, "", true)
		})
	}
	wg.Wait()
	// all threads finished: (a) full walks with page sizes 1, 2, 50; (b) resume from every intermediate token
	for s := 0; s < p.stores(); s++ {
		seen := map[string]bool{}
		var toks []walk
		for _, ps := range pageSizes {
			w := st.walkFrom(s, ps, "", false)
			st.walks = append(st.walks, w)
			for _, t := range w.Tokens {
				if t.Tok != "" && !seen[t.Tok] {
					seen[t.Tok] = true
					toks = append(toks, walk{Store: s, From: t.Tok, FromPos: t.Pos, SrcPS: ps})
				}
			}
		}
		for _, t := range toks {
			for _, ps := range []int{1, 50} {
				w := st.walkFrom(s, ps, t.From, false)
				w.FromPos, w.SrcPS = t.FromPos, t.SrcPS
				st.resumes = append(st.resumes, w)
			}
		}
		f, err := st.readAll(s)
		if err != nil {
			st.readErr = err.Error()
		}
		st.final = append(st.final, f)
	}
	st.finished = true
}

// ---------------------------------------------------------------------------
// oracle

func strs(es []entry) string {
	var out []string
	for _, e := range es {
		out = append(out, e.String())
	}
	return "[" + strings.Join(out, ", ") + "]"
}

func sameSeq(a, b []entry) bool {
	if len(a) != len(b) {
		return false
	}
	for i := range a {
		if a[i].Op != b[i].Op || a[i].Key != b[i].Key || a[i].Tick != b[i].Tick {
			return false
		}
	}
	return true
}

func ident(e entry) string { return fmt.Sprintf("%c|%s|%d", e.Op, e.Key, e.Tick) }

func firstDup(es []entry) (entry, bool) {
	seen := map[string]bool{}
	for _, e := range es {
		if seen[ident(e)] {
			return e, true
		}
		seen[ident(e)] = true
	}
	return entry{}, false
}

// itemsOf: the changelog entries a successful call must leave (multiset of "D key" / "W key").
func itemsOf(c Call) []string {
	var out []string
	for _, d := range c.Deletes {
		out = append(out, "D "+tupleName(d))
	}
	for _, w := range c.Writes {
		out = append(out, "W "+tupleName(w))
	}
	return out
}

// msDiff returns a-b and b-a as multisets.
func msDiff(a, b []string) (onlyA, onlyB []string) {
	m := map[string]int{}
	for _, x := range a {
		m[x]++
	}
	for _, x := range b {
		if m[x] > 0 {
			m[x]--
		} else {
			onlyB = append(onlyB, x)
		}
	}
	for x, n := range m {
		for ; n > 0; n-- {
			onlyA = append(onlyA, x)
		}
	}
	sort.Strings(onlyA)
	sort.Strings(onlyB)
	return
}

func kinds(es []entry) []string {
	var out []string
	for _, e := range es {
		out = append(out, e.kind())
	}
	return out
}

// apply replays one call on a tuple set; ok=false when a delete misses or a write finds its tuple.
func apply(set map[string]bool, c Call) bool {
	for _, d := range c.Deletes {
		if !set[tupleName(d)] {
			return false
		}
	}
	for _, w := range c.Writes {
		del := false
		for _, d := range c.Deletes {
			del = del || d == w
		}
		if set[tupleName(w)] && !del {
			return false
		}
	}
	for _, d := range c.Deletes {
		delete(set, tupleName(d))
	}
	for _, w := range c.Writes {
		set[tupleName(w)] = true
	}
	return true
}

type verdict struct{ sig, desc string }

func (st *state) judge() *verdict {
	p := st.p
	v := func(sig, f string, a ...any) *verdict { return &verdict{"memw/" + sig, fmt.Sprintf(f, a...)} }
	for _, w := range st.writes {
		if w.Thread == 0 && w.Err != nil {
			return &verdict{"harness-init-write-failed", w.String() + ": " + w.Err.Error()}
		}
	}
	if st.readErr != "" {
		return v("read-failed", "Read after all threads finished failed: %s", st.readErr)
	}
	for s := 0; s < p.stores(); s++ {
		var ok []wrec // successful calls on this store
		var failed []wrec
		var want []string
		for _, w := range st.writes {
			if w.Call.Store != s {
				continue
			}
			if w.Err == nil {
				ok = append(ok, w)
				want = append(want, itemsOf(w.Call)...)
			} else {
				failed = append(failed, w)
			}
		}
		// (1) every full walk returns one entry per item of a successful Write call, whatever the page size
		var L []entry
		for _, w := range st.walks {
			if w.Store != s {
				continue
			}
			what := fmt.Sprintf("store %d, walk from the start with page size %d after all writers finished", s, w.PageSize)
			if w.End != "end" {
				if strings.HasPrefix(w.End, "error") {
					return v("readchanges-error", "%s: %s; got so far %s", what, w.End, strs(w.Items))
				}
				return v("paginated-walk-does-not-end", "%s: %s; got %s", what, w.End, strs(w.Items))
			}
			for _, n := range w.Pages {
				if n > w.PageSize {
					return v("page-larger-than-page-size", "%s: a page held %d entries", what, n)
				}
			}
			if e, dup := firstDup(w.Items); dup {
				return v("paginated-walk-repeats-an-entry", "%s returned %s twice: %s", what, e, strs(w.Items))
			}
			missing, extra := msDiff(want, kinds(w.Items))
			if len(missing) > 0 {
				return v("paginated-walk-skips-committed-entries", "%s never returned %v (the entries of Write calls that returned nil); it returned %s (pages %v)", what, missing, strs(w.Items), w.Pages)
			}
			if len(extra) > 0 {
				return v("changelog-entry-of-no-successful-write", "%s returned %v, which no successful Write call accounts for; it returned %s", what, extra, strs(w.Items))
			}
			if w.PageSize == 50 {
				L = w.Items
			}
		}
		for _, w := range st.walks {
			if w.Store == s && !sameSeq(w.Items, L) {
				return v("walk-order-depends-on-page-size", "store %d: page size %d gave %s, page size 50 gave %s", s, w.PageSize, strs(w.Items), strs(L))
			}
		}
		for _, e := range L {
			if !e.exact() {
				return &verdict{"harness-clock-not-in-control", fmt.Sprintf("entry %s carries the timestamp %s, which the harness clock never returned", e, e.TS)}
			}
		}
		// (b) a walk resumed from any issued token returns exactly the rest
		for _, w := range st.resumes {
			if w.Store != s {
				continue
			}
			what := fmt.Sprintf("store %d, walk (page size %d) resumed from the token issued after %d entries by the page-size-%d walk", s, w.PageSize, w.FromPos, w.SrcPS)
			if w.End != "end" {
				return v("resumed-walk-does-not-end", "%s: %s; got %s", what, w.End, strs(w.Items))
			}
			if w.FromPos > len(L) {
				continue
			}
			rest := L[w.FromPos:]
			if sameSeq(w.Items, rest) {
				continue
			}
			before := map[string]bool{}
			for _, e := range L[:w.FromPos] {
				before[ident(e)] = true
			}
			for _, e := range w.Items {
				if before[ident(e)] {
					return v("resumed-walk-repeats-entries", "%s returned %s again; it returned %s, the rest of the changelog is %s", what, e, strs(w.Items), strs(rest))
				}
			}
			if len(w.Items) < len(rest) {
				return v("resumed-walk-skips-entries", "%s returned %s, the rest of the changelog is %s", what, strs(w.Items), strs(rest))
			}
			return v("resumed-walk-differs", "%s returned %s, the rest of the changelog is %s", what, strs(w.Items), strs(rest))
		}
		// (2) attribution of entries to calls through the timestamp (every clock read returns a fresh instant and
		// the clock knows which thread made it: the entry belongs to the call during which its thread read that
		// instant), contiguity, deletes before writes, real-time order
		idx := map[int][]int{} // index into ok -> positions in L
		for pos, e := range L {
			owner := -1
			if e.Tick >= 1 && e.Tick <= int64(len(st.clk.by)) {
				for i, w := range ok {
					if w.TID == st.clk.by[e.Tick-1] && e.Tick > w.Tick0 && e.Tick <= w.Tick1 {
						for _, k := range itemsOf(w.Call) {
							if k == e.kind() {
								owner = i
							}
						}
					}
				}
			}
			if owner < 0 {
				return v("entry-timestamp-outside-the-write-call-that-made-it", "store %d: entry %s of the changelog %s has a timestamp that no successful Write call with such an item read from the clock during the call (calls: %v)", s, e, strs(L), st.writes)
			}
			idx[owner] = append(idx[owner], pos)
		}
		for i, w := range ok {
			var mine []entry
			for _, pos := range idx[i] {
				mine = append(mine, L[pos])
			}
			if a, b := msDiff(itemsOf(w.Call), kinds(mine)); len(a)+len(b) > 0 {
				return v("entry-timestamp-outside-the-write-call-that-made-it", "store %d: %s is matched by the entries %s (by timestamp) of the changelog %s", s, w, strs(mine), strs(L))
			}
			sawWrite := false
			for k, pos := range idx[i] {
				if k > 0 && pos != idx[i][k-1]+1 {
					return v("entries-of-one-write-not-contiguous", "store %d: the entries of %s are at positions %v of the changelog %s", s, w, idx[i], strs(L))
				}
				if L[pos].Op == 'W' {
					sawWrite = true
				} else if sawWrite {
					return v("delete-entry-after-write-entry-of-the-same-request", "store %d: Write performs its deletes before its writes, but the changelog %s lists a write of %s before one of its deletes", s, strs(L), w)
				}
			}
		}
		for i, a := range ok {
			for j, b := range ok {
				if a.Res < b.Inv && len(idx[i]) > 0 && len(idx[j]) > 0 && idx[i][len(idx[i])-1] > idx[j][0] {
					return v("changelog-order-contradicts-real-time-order-of-writes", "store %d: %s returned before %s was invoked, but the changelog is %s", s, a, b, strs(L))
				}
			}
		}
		// (3) replaying the changelog reproduces Read
		set := map[string]bool{}
		for _, e := range L {
			if e.Op == 'W' {
				if set[e.Key] {
					return v("changelog-not-replayable", "store %d: %s writes a tuple that the preceding entries left present: %s", s, e, strs(L))
				}
				set[e.Key] = true
			} else {
				if !set[e.Key] {
					return v("changelog-not-replayable", "store %d: %s deletes a tuple that the preceding entries left absent: %s", s, e, strs(L))
				}
				delete(set, e.Key)
			}
		}
		var replayed []string
		for k := range set {
			replayed = append(replayed, k)
		}
		sort.Strings(replayed)
		if fmt.Sprint(replayed) != fmt.Sprint(st.final[s]) {
			return v("replay-of-changelog-differs-from-read", "store %d: replaying %s gives %v, Read returns %v", s, strs(L), replayed, st.final[s])
		}
		// a failed call needs a cause: a point between the successful calls (in changelog order), consistent with
		// real time, at which it is invalid — or, for ErrTransactionalWriteFailed, an overlapping call on one of its tuples
		order := make([]int, 0, len(ok))
		for i := range ok {
			if len(idx[i]) > 0 {
				order = append(order, i)
			}
		}
		sort.Slice(order, func(a, b int) bool { return idx[order[a]][0] < idx[order[b]][0] })
		for _, f := range failed {
			if !errors.Is(f.Err, storage.ErrInvalidWriteInput) && !errors.Is(f.Err, storage.ErrTransactionalWriteFailed) {
				return v("write-failed-with-undocumented-error", "store %d: %s failed with %q", s, f, f.Err)
			}
			justified := false
			if errors.Is(f.Err, storage.ErrTransactionalWriteFailed) {
				for _, o := range st.writes {
					if o.Call.Store == s && (o.Thread != f.Thread || o.Idx != f.Idx) && o.Inv < f.Res && f.Inv < o.Res {
						for _, a := range itemsOf(o.Call) {
							for _, b := range itemsOf(f.Call) {
								justified = justified || a[2:] == b[2:]
							}
						}
					}
				}
			} else {
				cur := map[string]bool{}
				for pos := 0; pos <= len(order); pos++ {
					// the failed call at position pos: after order[:pos], before order[pos:]
					consistent := true
					for k, oi := range order {
						if k < pos && ok[oi].Inv > f.Res || k >= pos && ok[oi].Res < f.Inv {
							consistent = false
						}
					}
					if consistent {
						probe := map[string]bool{}
						for k := range cur {
							probe[k] = true
						}
						if !apply(probe, f.Call) {
							justified = true
							break
						}
					}
					if pos < len(order) {
						apply(cur, ok[order[pos]].Call)
					}
				}
			}
			if !justified {
				return v("write-failed-without-cause", "store %d: %s failed with %q, but at no point consistent with the changelog %s and with real time is the call invalid (calls: %v)", s, f, f.Err, strs(L), st.writes)
			}
		}
		// (4) concurrent readers (store 0): no repetition, a prefix of the final order, nothing committed before
		// the walk's last call missing when the walk ran to the end signal
		if s != 0 {
			continue
		}
		for ri, w := range st.readers {
			what := fmt.Sprintf("concurrent walk %d (thread %d, page size 1, stamps %d..%d)", ri, w.Thread, w.FirstInv, w.LastInv)
			if strings.HasPrefix(w.End, "error") {
				return v("readchanges-error", "%s: %s", what, w.End)
			}
			if e, dup := firstDup(w.Items); dup {
				return v("concurrent-walk-repeats-an-entry", "%s returned %s twice: %s (final changelog %s)", what, e, strs(w.Items), strs(L))
			}
			if w.End != "end" {
				return v("paginated-walk-does-not-end", "%s: %s; got %s", what, w.End, strs(w.Items))
			}
			if len(w.Items) > len(L) || !sameSeq(w.Items, L[:len(w.Items)]) {
				// a subsequence (something skipped) or not even that (order)?
				k := 0
				for _, e := range L {
					if k < len(w.Items) && ident(w.Items[k]) == ident(e) {
						k++
					}
				}
				if k == len(w.Items) {
					return v("concurrent-walk-skips-an-entry", "%s returned %s, which is not a prefix of the final changelog %s: an entry that precedes a returned one was never returned", what, strs(w.Items), strs(L))
				}
				return v("concurrent-walk-out-of-order", "%s returned %s; the final changelog is %s", what, strs(w.Items), strs(L))
			}
			got := map[string]bool{}
			for _, e := range w.Items {
				got[ident(e)] = true
			}
			for i, wr := range ok {
				if wr.Res < w.LastInv {
					for _, pos := range idx[i] {
						if !got[ident(L[pos])] {
							return v("concurrent-walk-ends-before-an-entry-committed-earlier", "%s got the end signal from a call invoked after %s had returned, yet never returned its entry %s; it returned %s (final changelog %s)", what, wr, L[pos], strs(w.Items), strs(L))
						}
					}
				}
			}
		}
	}
	return nil
}

func (st *state) outcome(x *vrt.Execution) string {
	ws := append([]wrec{}, st.writes...)
	sort.SliceStable(ws, func(i, j int) bool {
		if ws[i].Thread != ws[j].Thread {
			return ws[i].Thread < ws[j].Thread
		}
		return ws[i].Idx < ws[j].Idx
	})
	var parts []string
	for _, w := range ws {
		r := "ok"
		if w.Err != nil {
			r = "ERR"
		}
		parts = append(parts, fmt.Sprintf("T%d.%d=%s", w.Thread, w.Idx, r))
	}
	for _, w := range st.walks {
		if w.PageSize == 50 || w.End != "end" {
			parts = append(parts, fmt.Sprintf("s%d/ps%d:%s:%s", w.Store, w.PageSize, strings.Join(kinds(w.Items), ","), w.End))
		} else {
			parts = append(parts, fmt.Sprintf("s%d/ps%d:%d", w.Store, w.PageSize, len(w.Items)))
		}
	}
	for i, w := range st.readers {
		parts = append(parts, fmt.Sprintf("R%d:%d:%s", i, len(w.Items), w.End))
	}
	return fmt.Sprintf("dead=%v live=%v panics=%d finished=%v %s", x.Deadlock, x.Livelock, len(x.Panics), st.finished, strings.Join(parts, " "))
}

func scenario(p Params) e1.Scenario {
	return e1.Scenario{Name: p.String(), Params: p, Make: func() (func(), func(x *vrt.Execution) (string, string, string, uint64)) {
		var st *state
		body := func() {
			st = &state{p: p, clk: &clock{}}
			st.body()
		}
		check := func(x *vrt.Execution) (string, string, string, uint64) {
			outcome := st.outcome(x)
			key := core.Hash(outcome)
			desc := func(what string) string { return fmt.Sprintf("%s | %s | %s | %s", what, p, outcome, x.Summary()) }
			switch {
			case len(x.Panics) > 0:
				return "memw/panic", desc("panic: " + x.Panics[0]), outcome, key
			case x.Livelock:
				return "memw/livelock", desc("livelock"), outcome, key
			case x.Deadlock || !st.finished:
				return "memw/deadlock", desc("deadlock; stuck: " + strings.Join(x.Stuck, ",")), outcome, key
			}
			if vd := st.judge(); vd != nil {
				return vd.sig, desc(vd.desc), outcome, key
			}
			return "", "", outcome, key
		}
		return body, check
	}}
}

// Scenarios: 2-3 writer threads with 1-2 Write calls each, with and without concurrent readers.
func Scenarios(thorough bool) []e1.Scenario {
	W := func(ws ...int) Call { return Call{Writes: ws} }
	D := func(ds ...int) Call { return Call{Deletes: ds} }
	ps := []Params{
		{Name: "two-writers", Threads: [][]Call{{W(1)}, {W(2)}}},
		{Name: "two-writers-two-calls", Threads: [][]Call{{W(1), W(2)}, {W(3), W(4)}}},
		{Name: "writes-and-deletes", Init: []Call{W(1, 2)}, Threads: [][]Call{{{Deletes: []int{1}, Writes: []int{3}}}, {D(2), W(4, 5)}}},
		{Name: "same-tuple-written-twice", Threads: [][]Call{{W(1), W(2)}, {W(1)}}},
		{Name: "same-tuple-deleted-twice", Init: []Call{W(1)}, Threads: [][]Call{{D(1)}, {D(1), W(3)}}},
		{Name: "write-delete-vs-write", Threads: [][]Call{{W(1), D(1)}, {W(1)}}},
		{Name: "three-writers", Threads: [][]Call{{W(1)}, {W(2)}, {W(3), D(3)}}},
		{Name: "two-stores", Threads: [][]Call{{W(1), W(2)}, {{Store: 1, Writes: []int{1}}, {Store: 1, Deletes: []int{1}}}}},
		{Name: "two-writers-one-reader", Threads: [][]Call{{W(1)}, {W(2)}}, Readers: 1},
		{Name: "reader-with-initial-entries", Init: []Call{W(1)}, Threads: [][]Call{{{Deletes: []int{1}, Writes: []int{2}}}, {W(3)}}, Readers: 1},
		{Name: "three-calls-one-reader", Threads: [][]Call{{W(1), W(2)}, {W(3)}}, Readers: 1},
	}
	if thorough {
		ps = append(ps,
			Params{Name: "three-writers-two-calls", Threads: [][]Call{{W(1), W(2)}, {W(3), D(3)}, {W(4), W(5)}}},
			Params{Name: "three-writers-one-reader", Threads: [][]Call{{W(1)}, {W(2)}, {W(3)}}, Readers: 1},
			Params{Name: "two-writers-two-readers", Threads: [][]Call{{W(1)}, {W(2)}}, Readers: 2},
			Params{Name: "conflict-with-reader", Init: []Call{W(1)}, Threads: [][]Call{{D(1), W(1)}, {D(1)}}, Readers: 1},
		)
	}
	var out []e1.Scenario
	for _, p := range ps {
		out = append(out, scenario(p))
	}
	return out
}

// Relevant: which verdicts belong to the property. C14 is about pagination (every item exactly once, in the
// documented order, resumable); what the entries say about history (timestamps, replay = Read, causes of failed
// writes) is C15's. Deadlocks, panics and harness errors belong to both.
func Relevant(prop, signature string) bool {
	if prop == "C14" {
		for _, s := range []string{"entry-timestamp-outside", "changelog-not-replayable", "replay-of-changelog-differs-from-read", "write-failed-"} {
			if strings.HasPrefix(signature, "memw/"+s) {
				return false
			}
		}
	}
	return true
}

func Budget(thorough bool) e1.Budget {
	// No state-key pruning: the process-global ULID entropy source (oklog/ulid's locked monotonic reader, drawn
	// from inside Write) is shared state that is not a scheduler object. No local-object elision: the only
	// objects are the datastore's locks, the clock and the stamps, all shared.
	// quick: bounds 0, 1, 2 must complete (seconds); bound 3 and the unbounded search are best effort inside PerScen
	b := e1.Budget{Bounds: []int{0, 1, 2, 3, -1}, Required: 3, Prune: false, Elide: false, PerScen: 35 * time.Second, RequiredPerScen: 50 * time.Second, DevBounds: []int{1, 2}, DevRequired: 1, DevPerScen: 6 * time.Second}
	if thorough {
		b.Bounds = []int{0, 1, 2, 3, 4, -1}
		b.Required = 4
		b.PerScen, b.RequiredPerScen = 12*time.Minute, 12*time.Minute
	}
	if d, err := time.ParseDuration(os.Getenv("VERIF_PERSCEN")); err == nil { // development aid
		b.PerScen = d
	}
	return b
}

// Replay re-executes one recorded schedule twice and judges it.
func Replay(o *core.Options, r *core.Report, v e1.Viol) {
	var p Params
	b, _ := json.Marshal(v.Scenario)
	if err := json.Unmarshal(b, &p); err != nil || len(p.Threads) == 0 {
		fmt.Println("replay: not a memw scenario:", err)
		r.Violate("harness-replay-unreadable", "the replay file does not hold a memw scenario", v)
		return
	}
	var outs []string
	var sig, desc string
	for i := 0; i < 2; i++ {
		vrt.LocalElision = false
		vrt.ResetShared()
		body, check := scenario(p).Make()
		x := vrt.Run(v.Schedule, vrt.RunOpts{Verbose: true}, body)
		s, d, outcome, _ := check(x)
		sig, desc = s, d
		r.Eval(1)
		outs = append(outs, outcome+" || "+strings.Join(x.Trace, ";"))
		fmt.Printf("replay %d: scenario %s\n  outcome: %s\n  verdict: %q\n  %s\n", i+1, p, outcome, s, d)
		if i == 0 && os.Getenv("VERIF_TRACE") != "" {
			for _, l := range x.Trace {
				fmt.Println("   ", l)
			}
		}
	}
	if outs[0] != outs[1] {
		r.Violate("harness-nondeterministic-replay", "two replays of the same schedule differ", v)
		return
	}
	fmt.Println("replay deterministic: two executions of the schedule gave identical traces and observations")
	if sig != "" {
		r.Violate(sig, desc, v)
	}
}
