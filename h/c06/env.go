// Package c06 decides C06 "ListUsers returns exactly the permitted users".
package c06

import (
	"context"
	"strings"
	"sync/atomic"
	"time"

	openfgav1 "github.com/openfga/api/proto/openfga/v1"

	"github.com/openfga/openfga/internal/verifh/e2"
	"github.com/openfga/openfga/internal/verifh/ref"
	"github.com/openfga/openfga/pkg/server"
	"github.com/openfga/openfga/pkg/storage"
	"github.com/openfga/openfga/pkg/storage/memory"
)

// countDS wraps the memory datastore and counts the tuple reads of the request whose context
// carries a counter (used only for the zero-read reduction and for coverage counters).
type countDS struct{ storage.OpenFGADatastore }

type readsKey struct{}

func hit(ctx context.Context) {
	if c, ok := ctx.Value(readsKey{}).(*atomic.Int64); ok {
		c.Add(1)
	}
}

func (p *countDS) Read(ctx context.Context, store string, f storage.ReadFilter, o storage.ReadOptions) (storage.TupleIterator, error) {
	hit(ctx)
	return p.OpenFGADatastore.Read(ctx, store, f, o)
}

func (p *countDS) ReadPage(ctx context.Context, store string, f storage.ReadFilter, o storage.ReadPageOptions) ([]*openfgav1.Tuple, string, error) {
	hit(ctx)
	return p.OpenFGADatastore.ReadPage(ctx, store, f, o)
}

func (p *countDS) ReadUserTuple(ctx context.Context, store string, f storage.ReadUserTupleFilter, o storage.ReadUserTupleOptions) (*openfgav1.Tuple, error) {
	hit(ctx)
	return p.OpenFGADatastore.ReadUserTuple(ctx, store, f, o)
}

func (p *countDS) ReadUsersetTuples(ctx context.Context, store string, f storage.ReadUsersetTuplesFilter, o storage.ReadUsersetTuplesOptions) (storage.TupleIterator, error) {
	hit(ctx)
	return p.OpenFGADatastore.ReadUsersetTuples(ctx, store, f, o)
}

func (p *countDS) ReadStartingWithUser(ctx context.Context, store string, f storage.ReadStartingWithUserFilter, o storage.ReadStartingWithUserOptions) (storage.TupleIterator, error) {
	hit(ctx)
	return p.OpenFGADatastore.ReadStartingWithUser(ctx, store, f, o)
}

type result struct {
	Users []string
	Err   error
	Reads int64
}

type zeroRes struct {
	res  result
	uses int
}

type env struct {
	*e2.Env
	zero map[string]*zeroRes
}

func newEnv(m *ref.Model) (*env, error) {
	ds := &countDS{memory.New()}
	s := e2.NewServer(ds, server.WithRequestTimeout(0), server.WithListUsersDeadline(30*time.Second))
	e := &env{Env: &e2.Env{S: s, DS: ds, M: m}, zero: map[string]*zeroRes{}}
	if err := e.Env.NewStore(); err != nil {
		s.Close()
		return nil, err
	}
	return e, nil
}

func (e *env) call(q Request) result {
	var n atomic.Int64
	ctx := context.WithValue(context.Background(), readsKey{}, &n)
	i := strings.IndexByte(q.Obj, ':')
	resp, err := e.S.ListUsers(ctx, &openfgav1.ListUsersRequest{StoreId: e.StoreID, AuthorizationModelId: e.ModelID,
		Object: &openfgav1.Object{Type: q.Obj[:i], Id: q.Obj[i+1:]}, Relation: q.Rel,
		UserFilters: []*openfgav1.UserTypeFilter{{Type: q.FilterType, Relation: q.FilterRel}}, Context: e2.ReqCtx(q.ReqCtx)})
	res := result{Err: err, Reads: n.Load()}
	for _, u := range resp.GetUsers() {
		res.Users = append(res.Users, e2.UserString(u))
	}
	return res
}
