package c06

import (
	"fmt"
	"os"
	"runtime/debug"
	"runtime/pprof"
	"sort"
	"strings"
	"time"

	"github.com/openfga/openfga/internal/verifh/core"
	"github.com/openfga/openfga/internal/verifh/e2"
	"github.com/openfga/openfga/internal/verifh/ref"
)

type Request struct {
	Obj        string `json:"object"`
	Rel        string `json:"relation"`
	FilterType string `json:"filter_type"`
	FilterRel  string `json:"filter_relation,omitempty"`
	ReqCtx     *int   `json:"reqctx,omitempty"`
}

func (q Request) filter() string {
	if q.FilterRel != "" {
		return q.FilterType + "#" + q.FilterRel
	}
	return q.FilterType
}

func (q Request) String() string {
	return fmt.Sprintf("ListUsers(%s#%s filter=%s ctx=%s)", q.Obj, q.Rel, q.filter(), e2.CtxStr(q.ReqCtx))
}

var filters = [][2]string{{"user", ""}, {"group", ""}, {"doc", ""}, {"group", "member"}, {"doc", "r1"}, {"doc", "r0"}}

type Case struct {
	World      *ref.World `json:"world"`
	Req        Request    `json:"request"`
	Got        []string   `json:"got"`
	Err        string     `json:"err,omitempty"`
	RefT       []string   `json:"ref_permitted_entries"`
	RefE       []string   `json:"ref_unevaluable_entries,omitempty"`
	MustReturn []string   `json:"ref_must_be_returned_or_covered"`
	Seen       string     `json:"seen,omitempty"`
}

// expectation from the reference semantics only.
type expectation struct {
	refT []string // candidate entries (universe objects + typed wildcard, or universe usersets) with strong = T
	refE []string // candidate entries with E in the strong or the weak-at-tuple table
	must []string // entries the completeness clause demands: they appear in the tuples and have strong = T
}

// candidates: every entry of the filter's shape over the universe.
func candidates(w *ref.World, q Request) []string {
	var out []string
	for _, o := range w.U[q.FilterType] {
		if q.FilterRel != "" {
			out = append(out, o+"#"+q.FilterRel)
		} else {
			out = append(out, o)
		}
	}
	if q.FilterRel == "" {
		out = append(out, q.FilterType+":*")
	}
	return out
}

func strong(w *ref.World, q Request, entry string) ref.TV {
	return w.Table(entry, q.ReqCtx, false)[q.Obj+"#"+q.Rel]
}

// appears: the concrete user / userset occurs in the stored tuples.
func appears(w *ref.World, entry string) bool {
	for _, t := range w.Tuples {
		if t.User == entry {
			return true
		}
		if !strings.Contains(entry, "#") {
			if uo, _ := ref.SplitUser(t.User); uo == entry || t.Obj == entry {
				return true
			}
		}
	}
	return false
}

func expect(w *ref.World, q Request) expectation {
	var ex expectation
	node := q.Obj + "#" + q.Rel
	for _, c := range candidates(w, q) {
		s := w.Table(c, q.ReqCtx, false)[node]
		wk := w.Table(c, q.ReqCtx, true)[node]
		if s == ref.E || wk == ref.E {
			ex.refE = append(ex.refE, c)
		}
		if s == ref.T {
			ex.refT = append(ex.refT, c)
			if !ref.IsWild(c) && appears(w, c) {
				ex.must = append(ex.must, c)
			}
		}
	}
	return ex
}

func reachedUnevaluable(w *ref.World, q Request) bool {
	for i := range w.ReachedTuples(q.Obj, q.Rel) {
		if t := w.Tuples[i]; w.Valid(t) && ref.CondVal(t, q.ReqCtx) == ref.E {
			return true
		}
	}
	return false
}

// judge is the oracle: "" = acceptable.
func judge(w *ref.World, q Request, ex expectation, res result) (string, string) {
	seen := map[string]int{}
	for _, u := range res.Users {
		seen[u]++
	}
	for _, u := range res.Users {
		uo, ur := ref.SplitUser(u)
		if ref.TypeOf(uo) != q.FilterType || ur != q.FilterRel || (ur != "" && ref.IsWild(uo)) {
			return "filter-mismatch", fmt.Sprintf("returned %s for filter %s", u, q.filter())
		}
		if v := strong(w, q, u); v != ref.T {
			kind := "user"
			if ref.IsWild(uo) {
				kind = "wildcard"
			} else if ur != "" {
				kind = "userset"
			}
			return "unsound-" + kind, fmt.Sprintf("returned %s whose reference value is %s", u, v)
		}
	}
	for u, n := range seen {
		if n > 1 {
			return "duplicate-user", fmt.Sprintf("%s returned %d times", u, n)
		}
	}
	if res.Err != nil {
		if len(ex.refE) > 0 {
			return "", ""
		}
		// The statement constrains responses, not failures: a request whose top-down expansion meets a
		// valid tuple that is unevaluable under the request context may fail with validation_error (2000)
		// even when the reference decides every candidate without that tuple.
		if reachedUnevaluable(w, q) && e2.ErrOutcome(res.Err).Code == "2000" {
			return "", ""
		}
		return "spurious-failure", "the request failed: " + e2.ErrOutcome(res.Err).Msg
	}
	if len(ex.refE) > 0 {
		return "", "" // soundness only
	}
	var missing []string
	for _, u := range ex.must {
		if seen[u] == 0 && seen[q.FilterType+":*"] == 0 {
			missing = append(missing, u)
		}
	}
	if len(missing) == 0 {
		return "", ""
	}
	desc := fmt.Sprintf("permitted users appearing in the tuples neither returned nor covered by a returned wildcard: %v", missing)
	if w.CycleUnderExclusion(q.Obj, q.Rel) {
		return "missing-user/cycle-in-exclusion-subtrahend", desc
	}
	if q.FilterRel != "" {
		return "missing-userset", desc
	}
	return "missing-user", desc
}

func mkCase(w *ref.World, q Request, ex expectation, res result) Case {
	c := Case{World: w, Req: q, Got: res.Users, RefT: ex.refT, RefE: ex.refE, MustReturn: ex.must}
	if res.Err != nil {
		c.Err = e2.ErrOutcome(res.Err).String() + " " + e2.ErrOutcome(res.Err).Msg
	}
	return c
}

func nodes(w *ref.World) []e2.Node {
	out := e2.RequestNodes(w.U)
	for _, o := range w.U["doc"] {
		out = append(out, e2.Node{Obj: o, Rel: "parent"})
	}
	return out
}

type runner struct{ r *core.Report }

func (x *runner) one(e *env, w *ref.World, q Request, ex expectation) result {
	r := x.r
	// Reduction (as in C05): a request that made no tuple read has observed nothing of the world; its real
	// result is re-used in the other worlds of the model (and re-confirmed on every 32nd use) and judged
	// against each world's own expectation.
	key := q.Obj + "|" + q.Rel + "|" + q.filter() + "|" + e2.CtxStr(q.ReqCtx)
	var res result
	reused := false
	if z, ok := e.zero[key]; ok {
		z.uses++
		if z.uses%32 != 0 {
			res, reused = z.res, true
			r.Count("zero_read_results_reused", 1)
		}
	}
	if !reused {
		res = e.call(q)
		r.Eval(1)
		if z, ok := e.zero[key]; ok {
			if res.Reads != 0 || fmt.Sprint(res.Users, res.Err) != fmt.Sprint(z.res.Users, z.res.Err) {
				r.Violate("harness-zero-read-execution-not-stable", q.String()+": a request that made no read in one world behaves differently in another world of the same model", mkCase(w, q, ex, res))
				delete(e.zero, key)
			}
		} else if res.Reads == 0 {
			e.zero[key] = &zeroRes{res: res}
		}
	}
	sig, desc := judge(w, q, ex, res)
	if sig == "" {
		return res
	}
	base := sig
	if w.M.Flat {
		sig += "/" + w.M.Signature()
	}
	again := 0
	for i := 0; i < 5; i++ {
		if s2, _ := judge(w, q, ex, e.call(q)); s2 == base {
			again++
		}
	}
	c := mkCase(w, q, ex, res)
	c.Seen = fmt.Sprintf("1+%d/5", again)
	if again == 0 {
		r.Anomaly(map[string]any{"signature": sig, "desc": desc, "case": c})
		return res
	}
	r.Violate(sig, fmt.Sprintf("%s: got %v err=%q; %s; model{%s} tuples{%s}", q, res.Users, c.Err, desc, w.M, e2.TuplesStr(w.Tuples)), c)
	return res
}

func (x *runner) world(e *env, w *ref.World) {
	r := x.r
	for _, rc := range e2.ReqContexts(w) {
		for _, n := range nodes(w) {
			if w.M.Types[ref.TypeOf(n.Obj)][n.Rel] == nil {
				continue
			}
			for _, f := range filters {
				q := Request{Obj: n.Obj, Rel: n.Rel, FilterType: f[0], FilterRel: f[1], ReqCtx: rc}
				ex := expect(w, q)
				nt := len(ex.refT) > 0 || len(ex.refE) > 0
				if nt {
					r.Nontrivial(core.Hash(w.M.String(), e2.TuplesStr(w.Tuples), q.Obj, q.Rel, q.filter(), e2.CtxStr(rc)))
				}
				res := x.one(e, w, q, ex)
				switch {
				case len(ex.refE) > 0 && res.Err != nil:
					r.Count("unevaluable_requests_failed", 1)
				case len(ex.refE) > 0:
					r.Count("unevaluable_requests_answered", 1)
				case res.Err != nil:
					r.Count("failed_on_reached_unevaluable_tuple_that_decides_no_entry", 1)
				}
				for _, u := range res.Users {
					if ref.IsWild(u) {
						r.Count("responses_with_wildcard", 1)
						break
					}
				}
				if len(ex.must) > 0 && len(ex.refE) == 0 {
					r.Count("requests_with_completeness_obligation", 1)
				}
				if nt && len(w.Tuples) == 2 && len(ex.refT) > 1 {
					r.Sample(map[string]any{"model": w.M.String(), "tuples": e2.TuplesStr(w.Tuples), "request": q.String(), "ref_permitted_entries": ex.refT, "ref_must_return_or_cover": ex.must, "returned": e2.SortedCopy(res.Users)})
				}
			}
		}
	}
}

func every(ms []*ref.Model, stride int) []*ref.Model {
	var out []*ref.Model
	for i := 0; i < len(ms); i += stride {
		out = append(out, ms[i])
	}
	return out
}

func (x *runner) sweep(name string, models []*ref.Model, u ref.Universe, k, minTuples, maxWorlds int) {
	r := x.r
	t0 := time.Now()
	defer func() { r.Set("phase_wall_s/"+name, time.Since(t0).Seconds()) }()
	type job struct {
		m    *ref.Model
		pool []ref.Tuple
	}
	jobs := make([]job, len(models))
	for i, m := range models {
		jobs[i] = job{m, ref.RelevantPool(m, u)}
	}
	sort.SliceStable(jobs, func(i, j int) bool { return len(jobs[i].pool) > len(jobs[j].pool) })
	r.Parallel(len(jobs), func(i int) {
		j := jobs[i]
		e, err := newEnv(j.m)
		if err != nil {
			r.Count("models_rejected_by_server", 1)
			return
		}
		defer e.Close()
		r.Count("models/"+name, 1)
		worlds := 0
		ref.Subsets(j.pool, k, func(ts []ref.Tuple) {
			if r.Expired() || len(ts) < minTuples {
				return
			}
			if maxWorlds > 0 && worlds >= maxWorlds {
				if worlds == maxWorlds {
					r.NotExhaustive("per-model world cap in the |T|<=3 sub-sweep")
					worlds++
				}
				return
			}
			worlds++
			all := append([]ref.Tuple{}, ts...)
			if err := e.Write(all, e.ModelID); err != nil {
				r.Violate("harness-write-rejected", "a pool tuple was rejected by Write: "+err.Error(), map[string]any{"model": j.m, "tuples": all})
				return
			}
			r.Count("worlds", 1)
			r.Count("worlds/"+name, 1)
			x.world(e, &ref.World{M: j.m, Tuples: all, U: u})
			if err := e.Delete(all, e.ModelID); err != nil {
				panic(fmt.Sprintf("delete: %v", err))
			}
		})
	})
}

func Run(o *core.Options) int {
	r := core.NewReport(o, "exploration",
		"every model of the bounded family (one per r0-signature class, every stride-th class in quick) x every tuple subset of size<=2 of the model's pool (size 3 on a subset of the models) x every object node {doc r0, doc r1, doc parent, group member} x filters {user, group, doc, group#member, doc#r1, doc#r0} x request contexts {none,x=1,x=20}; Server.ListUsers vs independent 3-valued least-fixpoint reference evaluated for every candidate entry (objects, typed wildcard, usersets); non-trivial = some candidate entry has reference value T or E; distinct by (model,tuples,object,relation,filter,context)")
	r.Assume("memory datastore behind a read-counting wrapper",
		"ListUsersResponse of this API version has only `users` (no excluded_users)",
		"a returned typed wildcard T:* is judged by the reference value for the subject T:*; it covers every concrete user of type T for completeness",
		"completeness obligation: concrete users (usersets for userset filters) that occur in the stored tuples and have reference value T",
		"universe 2 users/2 groups/2 docs; rewrites of depth<=1; one condition cx(x:int):=x<10; ListUsers deadline raised to 30 s",
		"a deviation is re-executed 5x and is a verdict only if it shows again (result channel order is schedule dependent)")
	debug.SetGCPercent(800)
	if o.Replay != "" {
		return replay(o, r)
	}
	x := &runner{r}
	all := e2.ValidModels(ref.Family(ref.FamilyOpts{Conds: true}))
	reps := ref.Representatives(all, 1, o.Seed)
	stride, k3stride, k3cap := 12, 96, 0
	main := reps
	if o.Thorough() {
		main = ref.Representatives(all, 2, o.Seed)
		stride, k3stride, k3cap = 1, 24, 0
	}
	for _, a := range o.Args { // development override: "stride=N"
		if strings.HasPrefix(a, "cpuprofile=") {
			f, _ := os.Create(strings.TrimPrefix(a, "cpuprofile="))
			_ = pprof.StartCPUProfile(f)
			defer pprof.StopCPUProfile()
		}
		var n, m int
		if _, err := fmt.Sscanf(a, "stride=%d", &n); err == nil {
			stride = n
		}
		if _, err := fmt.Sscanf(a, "k3=%d,%d", &n, &m); err == nil {
			k3stride, k3cap = n, m
		}
	}
	if !o.Thorough() {
		main = every(reps, stride)
	}
	r.Set("representative_models", len(reps))
	r.Set("main_sweep_models", len(main))
	r.Set("main_sweep_class_stride", stride)
	r.Set("max_tuples_main_sweep", 2)
	r.Set("max_tuples_k3_sweep", 3)
	if !o.Thorough() {
		r.Set("bound_note", fmt.Sprintf("quick runs every %d-th signature class of the family (thorough: all classes, 2 models per class, with |T|=3 on every 24th class; quick: |T|=3 on every 96th class)", stride))
	}
	// nested set operators over one object (ref.FlatFamily), up to 4 tuples (6 in thorough)
	{
		kf := 4
		if o.Thorough() {
			kf = 6
		}
		flat := e2.ValidModels(ref.FlatFamily())
		r.Set("flat_family_models", len(flat))
		r.Set("max_tuples_flat_sweep", kf)
		x.sweep("flat", flat, ref.FlatUniverse(), kf, 1, 0)
	}
	// n-ary union / intersection nodes (ref.NaryFamily): operand order and operand-set sizes over three documents
	{
		nary := e2.ValidModels(ref.NaryFamily())
		r.Set("nary_family_models", len(nary))
		x.sweep("nary", nary, ref.NaryUniverse(), 4, 1, 0)
	}
	if stride <= len(reps) {
		x.sweep("main", main, ref.DefaultUniverse(), 2, 1, 0)
	}
	if k3stride > 0 {
		k3 := every(reps, k3stride)
		r.Set("k3_sweep_models", len(k3))
		x.sweep("k3", k3, ref.DefaultUniverse(), 3, 3, k3cap)
	}
	return r.Finish()
}

func replay(o *core.Options, r *core.Report) int {
	var c Case
	if err := core.LoadReplay(o.Replay, &c); err != nil {
		fmt.Println("replay:", err)
		return 2
	}
	if c.World.U == nil {
		c.World.U = ref.DefaultUniverse()
	}
	e, err := newEnv(c.World.M)
	if err != nil {
		fmt.Println("model rejected:", err)
		return 2
	}
	defer e.Close()
	if err := e.Write(c.World.Tuples, e.ModelID); err != nil {
		fmt.Println("write:", err)
		return 2
	}
	ex := expect(c.World, c.Req)
	for i := 0; i < 5; i++ {
		res := e.call(c.Req)
		r.Eval(1)
		sig, desc := judge(c.World, c.Req, ex, res)
		fmt.Printf("replay %d: got=%v err=%v refT=%v refE=%v must=%v verdict=%q %s\n", i, res.Users, res.Err, ex.refT, ex.refE, ex.must, sig, desc)
		if sig != "" {
			r.Violate(sig, "replayed: "+desc, mkCase(c.World, c.Req, ex, res))
		}
	}
	return r.Finish()
}
