package checks

import (
	"context"
	"errors"
	"fmt"
	"sort"
	"strings"
	"sync"
	"time"

	openfgav1 "github.com/openfga/api/proto/openfga/v1"
	"golang.org/x/sync/singleflight"

	"github.com/openfga/openfga/internal/verifh/cachex"
	"github.com/openfga/openfga/internal/verifh/core"
	"github.com/openfga/openfga/pkg/storage"
	"github.com/openfga/openfga/pkg/storage/memory"
	"github.com/openfga/openfga/pkg/storage/storagewrappers"
	"github.com/openfga/openfga/pkg/tuple"
)

// c09Seam: cache transparency at the iterator seam. For BOTH caching readers (storagewrappers.CachedDatastore, the
// reader of the default engine and of ListObjects, and storagewrappers.CachedTupleReader, the reader of the
// weighted-graph Check), every read shape the engines issue, every insertion order of a small tuple set and every
// way the first reader consumes its iterator (drain, stop after k items, Head then stop, stop at once), the
// iterator handed to the NEXT identical read is compared with an uncached read of the same store:
//   - same tuples (a partially consumed first read must never surface as a shorter result);
//   - an iterator of the weighted-graph reader that claims IsOrdered() must yield non-descending keys in the field
//     its consumers map it by (the user for Read / ReadUsersetTuples, the object for ReadStartingWithUser) — the
//     claim switches on ordering-based pruning in internal/check, so a cached iterator that claims more than its
//     data delivers changes answers only under particular producer interleavings. (CachedDatastore's hit
//     iterators are StaticIterators, which always claim to be ordered; nothing on the paths that reader serves
//     consults the claim, so it is not judged there — the first version of this check did and was wrong to.)
//   - the weighted-graph reader's iterators must make the same claim as the uncached iterator (hit, miss, uncached
//     are interchangeable for the engine).
func c09Seam(r *core.Report) {
	const store = "01HVMMBCMGZNT3SED4CT2KA89Q"
	tk := tuple.NewTupleKey
	type shape struct {
		name   string
		byUser bool // consumers map the result by user (else by object)
		tuples []*openfgav1.TupleKey
		read   func(ctx context.Context, ds storage.RelationshipTupleReader) (storage.TupleIterator, error)
		// other: a DIFFERENT query with an overlapping filter, issued after the reads above: it must be answered
		// like its own uncached read (entries of one query never answer another)
		other func(ctx context.Context, ds storage.RelationshipTupleReader) (storage.TupleIterator, error)
	}
	rswu := func(users ...string) func(ctx context.Context, ds storage.RelationshipTupleReader) (storage.TupleIterator, error) {
		return func(ctx context.Context, ds storage.RelationshipTupleReader) (storage.TupleIterator, error) {
			var uf []*openfgav1.ObjectRelation
			for _, u := range users {
				uf = append(uf, &openfgav1.ObjectRelation{Object: u})
			}
			return ds.ReadStartingWithUser(ctx, store, storage.ReadStartingWithUserFilter{ObjectType: "doc", Relation: "viewer", UserFilter: uf}, storage.ReadStartingWithUserOptions{})
		}
	}
	shapes := []shape{
		{"Read(doc:1,parent) [tupleset of a tuple-to-userset]", true,
			[]*openfgav1.TupleKey{tk("doc:1", "parent", "folder:z"), tk("doc:1", "parent", "folder:a"), tk("doc:1", "parent", "folder:m")},
			func(ctx context.Context, ds storage.RelationshipTupleReader) (storage.TupleIterator, error) {
				return ds.Read(ctx, store, storage.ReadFilter{Object: "doc:1", Relation: "parent"}, storage.ReadOptions{})
			}, nil},
		{"ReadUsersetTuples(doc:1,viewer)", true,
			[]*openfgav1.TupleKey{tk("doc:1", "viewer", "group:z#member"), tk("doc:1", "viewer", "group:a#member"), tk("doc:1", "viewer", "group:m#member")},
			func(ctx context.Context, ds storage.RelationshipTupleReader) (storage.TupleIterator, error) {
				return ds.ReadUsersetTuples(ctx, store, storage.ReadUsersetTuplesFilter{Object: "doc:1", Relation: "viewer"}, storage.ReadUsersetTuplesOptions{})
			}, nil},
		{"ReadStartingWithUser(doc,viewer,[user:a])", false,
			[]*openfgav1.TupleKey{tk("doc:z", "viewer", "user:a"), tk("doc:a", "viewer", "user:a"), tk("doc:m", "viewer", "user:a")},
			func(ctx context.Context, ds storage.RelationshipTupleReader) (storage.TupleIterator, error) {
				return ds.ReadStartingWithUser(ctx, store, storage.ReadStartingWithUserFilter{ObjectType: "doc", Relation: "viewer", UserFilter: []*openfgav1.ObjectRelation{{Object: "user:a"}}}, storage.ReadStartingWithUserOptions{})
			}, nil},
		{"ReadStartingWithUser(doc,viewer,[user:a,user:*]) sorted", false,
			[]*openfgav1.TupleKey{tk("doc:z", "viewer", "user:a"), tk("doc:a", "viewer", "user:*"), tk("doc:m", "viewer", "user:a")},
			func(ctx context.Context, ds storage.RelationshipTupleReader) (storage.TupleIterator, error) {
				return ds.ReadStartingWithUser(ctx, store, storage.ReadStartingWithUserFilter{ObjectType: "doc", Relation: "viewer", UserFilter: []*openfgav1.ObjectRelation{{Object: "user:a"}, {Object: "user:*"}}}, storage.ReadStartingWithUserOptions{WithResultsSortedAscending: true})
			}, nil},
	}
	three := []*openfgav1.TupleKey{tk("doc:c", "viewer", "user:c"), tk("doc:d", "viewer", "user:d"), tk("doc:a", "viewer", "user:a")}
	shapes = append(shapes,
		shape{name: "ReadStartingWithUser(doc,viewer,[user:a,user:b,user:c]) then [user:a,user:b,user:d]", tuples: three, read: rswu("user:a", "user:b", "user:c"), other: rswu("user:a", "user:b", "user:d")},
		shape{name: "ReadStartingWithUser(doc,viewer,[user:a,user:b,user:c]) then [user:a,user:b]", tuples: three, read: rswu("user:a", "user:b", "user:c"), other: rswu("user:a", "user:b")},
		shape{name: "ReadStartingWithUser(doc,viewer,[user:a,user:b]) then [user:a,user:b,user:c,user:d]", tuples: three, read: rswu("user:a", "user:b"), other: rswu("user:a", "user:b", "user:c", "user:d")},
		shape{name: "ReadStartingWithUser(doc,viewer,[user:c]) then [user:c,user:d]", tuples: three, read: rswu("user:c"), other: rswu("user:c", "user:d")})
	type obs struct {
		seq     []string
		ordered bool
		err     string
	}
	take := func(it storage.TupleIterator, byUser bool) obs {
		o := obs{ordered: it.IsOrdered()}
		defer it.Stop()
		for {
			t, err := it.Next(context.Background())
			if err != nil {
				if !errors.Is(err, storage.ErrIteratorDone) {
					o.err = err.Error()
				}
				return o
			}
			o.seq = append(o.seq, tuple.TupleKeyToString(t.GetKey()))
		}
	}
	keyOf := func(s string, byUser bool) string {
		// object#relation@user
		at := strings.LastIndex(s, "@")
		if byUser {
			return s[at+1:]
		}
		return s[:strings.Index(s, "#")]
	}
	sortedBy := func(seq []string, byUser bool) bool {
		for i := 1; i < len(seq); i++ {
			if keyOf(seq[i-1], byUser) > keyOf(seq[i], byUser) {
				return false
			}
		}
		return true
	}
	perms := [][]int{{0, 1, 2}, {0, 2, 1}, {1, 0, 2}, {1, 2, 0}, {2, 0, 1}, {2, 1, 0}}
	consume := []string{"drain", "stop-at-once", "head-then-stop", "one-then-stop", "two-then-stop"}
	readers := []string{"CachedDatastore", "CachedTupleReader"}
	type seamCase struct {
		Reader  string   `json:"reader"`
		Shape   string   `json:"shape"`
		Insert  []string `json:"insertion_order"`
		First   string   `json:"first_read"`
		Which   string   `json:"judged_iterator"`
		Got     []string `json:"got"`
		Ordered bool     `json:"claims_ordered"`
		Want    []string `json:"uncached"`
	}
	var hits, orderedClaims int64
	for _, rd := range readers {
		for _, sh := range shapes {
			for _, p := range perms {
				for _, cons := range consume {
					ctx := context.Background()
					mem := memory.New()
					var ins []string
					for _, i := range p {
						if err := mem.Write(ctx, store, nil, []*openfgav1.TupleKey{sh.tuples[i]}); err != nil {
							r.Violate("harness-seam-setup", err.Error(), nil)
							return
						}
						ins = append(ins, tuple.TupleKeyToString(sh.tuples[i]))
					}
					cache := cachex.New()
					var wg sync.WaitGroup
					var cds storage.RelationshipTupleReader
					if rd == "CachedDatastore" {
						cds = storagewrappers.NewCachedDatastore(ctx, mem, cache, 100, time.Hour, &singleflight.Group{}, &wg)
					} else {
						cds = storagewrappers.NewCachedTupleReader(ctx, mem, cache, 100, time.Hour, &singleflight.Group{}, &wg, time.Second)
					}
					it0, err := sh.read(ctx, mem)
					if err != nil {
						r.Violate("harness-seam-setup", err.Error(), nil)
						return
					}
					want := take(it0, sh.byUser)
					judge := func(which string, o obs, wasHit bool) {
						r.Eval(1)
						c := seamCase{Reader: rd, Shape: sh.name, Insert: ins, First: cons, Which: which, Got: o.seq, Ordered: o.ordered, Want: want.seq}
						a, b := append([]string{}, o.seq...), append([]string{}, want.seq...)
						sort.Strings(a)
						sort.Strings(b)
						switch {
						case o.err != "":
							r.Violate("seam/cached-read-failed/"+rd, o.err, c)
						case strings.Join(a, ",") != strings.Join(b, ","):
							r.Violate("seam/cached-iterator-differs-from-uncached-read/"+rd+"/"+which, fmt.Sprintf("%s %s after a first read that was %s: got %v, the store holds %v", rd, sh.name, cons, o.seq, want.seq), c)
						case rd == "CachedTupleReader" && o.ordered && !sortedBy(o.seq, sh.byUser):
							r.Violate("seam/iterator-claims-ordered-but-yields-unsorted-keys/"+rd+"/"+which, fmt.Sprintf("%s %s (%s iterator) reports IsOrdered()=true and yields %v", rd, sh.name, which, o.seq), c)
						case rd == "CachedTupleReader" && o.ordered != want.ordered:
							r.Violate("seam/cached-iterator-ordering-claim-differs-from-uncached/"+rd+"/"+which, fmt.Sprintf("%s %s: the %s iterator reports IsOrdered()=%v, the uncached iterator %v", rd, sh.name, which, o.ordered, want.ordered), c)
						}
						if o.ordered {
							orderedClaims++
						}
						if wasHit {
							hits++
						}
						r.Nontrivial(core.Hash("c09seam", rd, sh.name, fmt.Sprint(p), cons, which))
					}
					// first read, consumed as scripted
					it1, err := sh.read(ctx, cds)
					if err != nil {
						r.Violate("seam/cached-read-failed/"+rd, err.Error(), nil)
						continue
					}
					switch cons {
					case "drain":
						judge("miss", take(it1, sh.byUser), false)
					case "stop-at-once":
						it1.Stop()
					case "head-then-stop":
						_, _ = it1.Head(ctx)
						it1.Stop()
					case "one-then-stop":
						_, _ = it1.Next(ctx)
						it1.Stop()
					case "two-then-stop":
						_, _ = it1.Next(ctx)
						_, _ = it1.Next(ctx)
						it1.Stop()
					}
					wg.Wait()
					sets := cache.Sets
					// second and third identical reads
					for k := 0; k < 2; k++ {
						it2, err := sh.read(ctx, cds)
						if err != nil {
							r.Violate("seam/cached-read-failed/"+rd, err.Error(), nil)
							break
						}
						hit := strings.Contains(fmt.Sprintf("%T", it2), "achedIterator") || strings.Contains(fmt.Sprintf("%T", it2), "cachedTupleIterator") || strings.Contains(fmt.Sprintf("%T", it2), "StaticIterator")
						judge(map[bool]string{true: "hit", false: "later-read"}[hit], take(it2, sh.byUser), hit)
						wg.Wait()
					}
					_ = sets
					if sh.other != nil {
						itU, err1 := sh.other(ctx, mem)
						itC, err2 := sh.other(ctx, cds)
						if err1 == nil && err2 == nil {
							wantO, gotO := take(itU, sh.byUser), take(itC, sh.byUser)
							a, b := append([]string{}, gotO.seq...), append([]string{}, wantO.seq...)
							sort.Strings(a)
							sort.Strings(b)
							r.Eval(1)
							if strings.Join(a, ",") != strings.Join(b, ",") {
								r.Violate("seam/query-answered-from-the-entry-of-a-different-query/"+rd, fmt.Sprintf("%s %s: the second query returned %v, the store holds %v for it", rd, sh.name, gotO.seq, wantO.seq),
									seamCase{Reader: rd, Shape: sh.name, Insert: ins, First: cons, Which: "other-query", Got: gotO.seq, Want: wantO.seq})
							}
							wg.Wait()
						}
					}
					mem.Close()
				}
			}
		}
	}
	r.Set("iterator_cache_seam", map[string]any{"readers": readers, "read_shapes": len(shapes), "insertion_orders": len(perms), "first_read_consumptions": consume, "judged_iterators_served_from_cache": hits, "iterators_claiming_ordered": orderedClaims})
	if hits == 0 {
		r.Violate("harness-seam-vacuous", "no judged iterator was served from the cache", nil)
	}
}
