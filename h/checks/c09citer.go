package checks

import (
	"bytes"
	"encoding/json"
	"fmt"
	"os"
	"os/exec"

	"github.com/openfga/openfga/internal/verifh/core"
	"github.com/openfga/openfga/internal/verifh/e1"
)

// c09CachedIterators runs the scheduler-based exploration of concurrent readers of one CachedDatastore
// (binary "citer": an instrumented build of pkg/storage/storagewrappers and x/sync/singleflight, see
// h/citer) and merges its summary: the schedule-quantified part of C09.
func c09CachedIterators(o *core.Options, r *core.Report) {
	bin := core.BinDir() + "/citer"
	if _, err := os.Stat(bin); err != nil {
		r.Violate("harness-citer-binary-missing", "the instrumented cached-iterator harness was not built: "+err.Error(), nil)
		return
	}
	cmd := exec.Command(bin, "C09", o.Tier)
	cmd.Env = os.Environ()
	out, err := cmd.Output()
	var sub struct {
		Scenarios   int       `json:"scenarios"`
		Execs       int64     `json:"schedules_complete"`
		Pruned      int64     `json:"schedules_pruned"`
		MinBound    int       `json:"min_preemption_bound_completed"`
		Unbounded   int       `json:"scenarios_completed_unbounded"`
		Capped      []string  `json:"capped"`
		BestEffort  int       `json:"scenarios_whose_unbounded_search_was_cut"`
		Nontrivial  []uint64  `json:"nontrivial"`
		Outcomes    int       `json:"distinct_outcomes"`
		Viols       []e1.Viol `json:"viols"`
		PerScenario []string  `json:"per_scenario"`
	}
	found := false
	for _, line := range bytes.Split(out, []byte("\n")) {
		if bytes.HasPrefix(line, []byte("SUBREPORT ")) {
			found = json.Unmarshal(line[len("SUBREPORT "):], &sub) == nil
		}
	}
	if !found {
		r.Violate("harness-worker-crashed", "cached-iterator harness produced no report: "+errString(err), nil)
		return
	}
	r.Eval(sub.Execs)
	for _, k := range sub.Nontrivial {
		r.Nontrivial(k)
	}
	r.Set("cached_iterator_interleavings", map[string]any{"scenarios": sub.Scenarios, "schedules_complete": sub.Execs, "schedules_pruned_at_expanded_state": sub.Pruned,
		"min_preemption_bound_completed": sub.MinBound, "scenarios_completed_unbounded": sub.Unbounded, "scenarios_whose_unbounded_search_was_cut_by_the_budget": sub.BestEffort,
		"capped": sub.Capped, "distinct_outcomes": sub.Outcomes, "per_scenario": sub.PerScenario,
		"what": "2-3 threads over ONE storagewrappers.CachedDatastore (harness-owned cache/contexts/logical clock as scheduler-visible objects, maxResultSize 4, inner datastore serving a fixed list of n<=3 tuples): each thread does one Read/ReadUsersetTuples/ReadStartingWithUser on the same key (some scenarios: two keys), consumes k of n tuples (every k in 0..n+1), Stops; variants: inner iterator fails at position j, request or datastore context cancelled by another thread, store/entity invalidation entry written by another thread, result >= maxResultSize; every interleaving within preemption bounds 0,1,2 (required) and unbounded (99 = completed) with state-key pruning. Oracle per interleaving: readers see in-order prefixes (complete when told done); every iterator entry ever Set holds exactly the complete list, is below maxResultSize, carries the initialisation time of a missing reader whose inner iterator did not fail, is not written by a goroutine that started after the datastore context was cancelled or after a newer invalidation was already in the cache; a hit never serves an entry older than an invalidation written before the lookup; a fresh reader afterwards reads the complete list; no deadlock/panic/cache activity after the WaitGroup drained; every inner iterator stopped and not used after Stop. Non-trivial = distinct outcomes in which a cache Set happened or two background drains overlapped"})
	if len(sub.Capped) > 0 {
		r.NotExhaustive(fmt.Sprintf("cached-iterator scenarios capped inside a required preemption bound (%d): %s", len(sub.Capped), sub.Capped[0]))
	}
	for _, v := range sub.Viols {
		r.Violate(v.Signature, v.Desc, v)
	}
}

// c09ReplayCiter hands a replay file that holds a scheduler scenario (scenario + schedule) to the citer
// binary; it reports whether the file was of that kind and the exit code.
func c09ReplayCiter(o *core.Options) (bool, int) {
	var v struct {
		Schedule []int           `json:"schedule"`
		Scenario json.RawMessage `json:"scenario"`
	}
	if err := core.LoadReplay(o.Replay, &v); err != nil || v.Scenario == nil || v.Schedule == nil {
		return false, 0
	}
	cmd := exec.Command(core.BinDir()+"/citer", "C09", "--replay", o.Replay)
	cmd.Env = os.Environ()
	cmd.Stdout, cmd.Stderr = os.Stdout, os.Stderr
	if err := cmd.Run(); err != nil {
		if ee, ok := err.(*exec.ExitError); ok {
			return true, ee.ExitCode()
		}
		fmt.Println("replay:", err)
		return true, 2
	}
	return true, 0
}
