package checks

import (
	"context"
	"fmt"
	"os"
	"sort"
	"strings"
	"sync"
	"time"

	openfgav1 "github.com/openfga/api/proto/openfga/v1"

	"github.com/openfga/openfga/internal/graph"
	"github.com/openfga/openfga/internal/verifh/core"
	"github.com/openfga/openfga/internal/verifh/e2"
	"github.com/openfga/openfga/internal/verifh/ref"
	"github.com/openfga/openfga/pkg/server"
	"github.com/openfga/openfga/pkg/server/commands"
	"github.com/openfga/openfga/pkg/typesystem"
)

func init() { Registry["C02"] = C02 }

type v1cfg struct {
	Name     string
	Breadth  uint32
	Reads    uint32
	Throttle bool
}

var v1cfgs = []v1cfg{
	{"default", 10, 1 << 31, false},
	{"breadth1-reads1", 1, 1, false},
	{"breadth2-throttle", 2, 1 << 31, true},
}

type v1engine struct {
	cfg      v1cfg
	sp       *Scripted
	resolver graph.CheckResolver
	closer   func()
}

func newV1Engine(c v1cfg) *v1engine {
	sp := NewScripted()
	opts := []graph.CheckResolverOrderedBuilderOpt{
		graph.WithLocalCheckerOpts([]graph.LocalCheckerOption{
			graph.WithResolveNodeBreadthLimit(c.Breadth),
			graph.WithMaxResolutionDepth(25),
			graph.WithPlanner(sp),
		}...),
	}
	if c.Throttle {
		opts = append(opts, graph.WithDispatchThrottlingCheckResolverOpts(true,
			graph.WithDispatchThrottlingCheckResolverConfig(graph.DispatchThrottlingCheckResolverConfig{DefaultThreshold: 1, MaxThreshold: 1}),
			graph.WithConstantRateThrottler(20*time.Microsecond, "verif")))
	}
	r, closer, err := graph.NewOrderedCheckResolvers(opts...).Build()
	if err != nil {
		panic(err)
	}
	return &v1engine{cfg: c, sp: sp, resolver: r, closer: closer}
}

// check runs one Check through commands.CheckQuery over this engine's resolver chain.
func (e *v1engine) check(env *e2.Env, ts *typesystem.TypeSystem, o, r, sub string, rc *int, ctxTuples ...ref.Tuple) e2.Outcome {
	return e.checkCtx(context.Background(), env, ts, o, r, sub, rc, ctxTuples...)
}

func (e *v1engine) checkCtx(ctx context.Context, env *e2.Env, ts *typesystem.TypeSystem, o, r, sub string, rc *int, ctxTuples ...ref.Tuple) e2.Outcome {
	q := commands.NewCheckCommand(env.DS, e.resolver, ts, commands.WithCheckCommandMaxConcurrentReads(e.cfg.Reads))
	params := &commands.CheckCommandParams{StoreID: env.StoreID,
		TupleKey: &openfgav1.CheckRequestTupleKey{Object: o, Relation: r, User: sub}, Context: e2.ReqCtx(rc)}
	if len(ctxTuples) > 0 {
		params.ContextualTuples = &openfgav1.ContextualTupleKeys{TupleKeys: e2.ToTKs(ctxTuples)}
	}
	res, err := q.Execute(ctx, params)
	if err != nil {
		return e2.ErrOutcome(err)
	}
	if res.Allowed {
		return e2.Outcome{V: "T"}
	}
	return e2.Outcome{V: "F"}
}

type stratCase struct {
	e2.CheckCase
	Outcomes map[string]string `json:"outcomes_by_config_and_assignment"`
}

func planName(k string) string {
	// plan keys are binary; keep the printable part for reports
	var b strings.Builder
	for _, c := range k {
		if c >= 32 && c < 127 {
			b.WriteRune(c)
		} else {
			b.WriteByte('.')
		}
	}
	return b.String()
}

func C02(o *core.Options) int {
	r := core.NewReport(o, "exploration",
		"for every world (model family representatives x tuple subsets of size<=2) and every request: commands.CheckQuery over the real resolver chain with a scripted planner, under EVERY assignment of an offered strategy to every consulted plan key (closure), x 3 tuning corners (breadth limit, read concurrency, dispatch throttling; in quick the two non-default corners run the default assignment only), each run twice; plus the request set of each world run concurrently on one resolver; plus ListObjects through servers with different pipeline/breadth tunings; oracle: one outcome per request, equal to the reference; non-trivial = requests for which some plan key offered more than one strategy (distinct by world+request)")
	r.Assume("memory datastore; whole-engine runs use the Go scheduler's own interleaving (one per run); schedule-quantified clauses are decided by the E1 harnesses (C21/C22)",
		"model family as in C01 (quick: one model of every 96th r0-signature class, of every 6th twin-branch class and of every 24th mixed-parent tuple-to-userset class, rotated by VERIF_SEED; thorough: every class); chains with a leftover tuple: 5 recursive models over three groups / three docs, two valid tuples plus one stored tuple the model does not admit")
	if o.Replay != "" {
		return replayC02(o, r)
	}
	all := e2.ValidModels(ref.Family(ref.FamilyOpts{Conds: true}))
	reps := ref.Representatives(all, 1, o.Seed)
	var models []*ref.Model
	stride, r1stride, twinstride := 96, 24, 6
	if o.Thorough() {
		stride, r1stride, twinstride = 1, 1, 1
	}
	for i, m := range reps {
		// quick: every 96th class, every 6th twin-branch class and every 24th mixed-parent TTU class (rotated by the seed)
		k := i + int(o.Seed)
		if k%stride == 0 || (m.IsTwin() && k%twinstride == 0) || (strings.Contains(m.Signature(), "|r1=") && k%r1stride == 0) {
			models = append(models, m)
		}
	}
	if os.Getenv("VERIF_ONLY_FLAT") != "" { // development aid
		models = nil
	}
	if os.Getenv("VERIF_ONLY_WIDE") != "" { // development aid
		c02Wide(o, r)
		return r.Finish()
	}
	if os.Getenv("VERIF_ONLY_FASTPATH") != "" { // development aid
		c02FastPaths(o, r)
		return r.Finish()
	}
	r.Set("models_in_family", len(models))
	nodes := e2.RequestNodes(ref.DefaultUniverse())
	subjects := []string{"user:a", "user:*", "group:1#member", "doc:2#r1"}
	allSubjects := subjects
	var engPool sync.Pool
	engPool.New = func() any {
		var es []*v1engine
		for _, c := range v1cfgs {
			es = append(es, newV1Engine(c))
		}
		return es
	}
	tsCache := sync.Map{}
	body := func(env *e2.Env, w *ref.World) {
		if len(w.Tuples) == 0 {
			return
		}
		var ts *typesystem.TypeSystem
		if v, ok := tsCache.Load(env.ModelID); ok {
			ts = v.(*typesystem.TypeSystem)
		} else {
			tds, conds := w.M.Proto()
			t, err := typesystem.NewAndValidate(context.Background(), &openfgav1.AuthorizationModel{Id: env.ModelID, SchemaVersion: "1.1", TypeDefinitions: tds, Conditions: conds})
			if err != nil {
				panic(err)
			}
			tsCache.Store(env.ModelID, t)
			ts = t
		}
		engines := engPool.Get().([]*v1engine)
		defer engPool.Put(engines)
		type reqT struct {
			n   e2.Node
			sub string
			rc  *int
		}
		var reqs []reqT
		seq := map[string]string{}
		for _, rc := range e2.ReqContexts(w) {
			for _, sub := range subjects {
				for _, n := range nodes {
					if !e2.ValidRequest(w.M, n.Obj, n.Rel, sub) {
						continue
					}
					strong, weak := w.Holds(n.Obj, n.Rel, sub, rc)
					outcomes := map[string]string{}
					multi := false
					for _, eng := range engines {
						one := func(a map[string]string) (map[string][]string, map[string]string) {
							eng.sp.Reset(a)
							got := eng.check(env, ts, n.Obj, n.Rel, sub, rc)
							again := eng.check(env, ts, n.Obj, n.Rel, sub, rc)
							r.Eval(2)
							off, ch := eng.sp.Snapshot()
							var lbl []string
							for k, v := range ch {
								if len(off[k]) > 1 {
									multi = true
									lbl = append(lbl, planName(k)+"="+v)
								}
							}
							sort.Strings(lbl)
							id := eng.cfg.Name + "{" + strings.Join(lbl, ",") + "}"
							outcomes[id] = got.V
							if eng == engines[0] && len(a) == 0 {
								seq[fmt.Sprint(n, sub, e2.CtxStr(rc))] = got.V
							}
							if again.V != got.V {
								outcomes[id+"#repeat"] = again.V
							}
							return off, ch
						}
						if !o.Thorough() && eng != engines[0] {
							// quick: the tuning corners run the default assignment only; the closure of all
							// assignments is enumerated on the default tuning (thorough: on every tuning)
							one(map[string]string{})
							continue
						}
						_, capped := EnumerateAssignments(one, 64)
						if capped {
							r.NotExhaustive("assignment closure cap (64) hit")
						}
					}
					if multi {
						r.Nontrivial(core.Hash(w.M.String(), e2.TuplesStr(w.Tuples), sub, e2.CtxStr(rc), n.Obj, n.Rel))
					}
					reqs = append(reqs, reqT{n, sub, rc})
					distinct := map[string]bool{}
					for _, v := range outcomes {
						distinct[v] = true
					}
					// every outcome must be acceptable w.r.t. the reference, and all must agree
					var sigs []string
					for id, v := range outcomes {
						if vd := e2.Verdict(v, strong, weak); vd != "" {
							sigs = append(sigs, e2.DecisionSignature(vd, w, n.Obj, n.Rel, rc))
							_ = id
						}
					}
					if len(distinct) > 1 || len(sigs) > 0 {
						sort.Strings(sigs)
						sigs = compact(sigs)
						sig := strings.Join(sigs, "+")
						if len(distinct) > 1 {
							if sig == "" {
								sig = "both-outcomes-acceptable"
								uneval := false
								for _, t := range w.Tuples {
									if w.Valid(t) && ref.CondVal(t, rc) == ref.E {
										uneval = true
									}
								}
								if uneval && !distinct["T"] {
									sig = "failure-vs-deny-on-unevaluable-condition"
								}
							}
							sig = "strategy-or-tuning-dependent-outcome/" + sig
						}
						c := stratCase{CheckCase: e2.CheckCase{World: w, Obj: n.Obj, Rel: n.Rel, Subject: sub, ReqCtx: rc, Strong: strong.String(), Weak: weak.String()}, Outcomes: outcomes}
						r.Violate(sig, fmt.Sprintf("Check(%s#%s@%s ctx=%s) outcomes=%v ref=%s/%s model{%s} tuples{%s}", n.Obj, n.Rel, sub, e2.CtxStr(rc), outcomes, strong, weak, w.M, e2.TuplesStr(w.Tuples)), c)
					}
				}
			}
		}
		if len(w.Tuples) == 2 {
			r.Sample(map[string]any{"model": w.M.String(), "tuples": e2.TuplesStr(w.Tuples), "requests": len(reqs)})
		}
		// concurrency clause: all requests of the world at once on the default engine, default assignment
		eng := engines[0]
		eng.sp.Reset(map[string]string{})
		var wg sync.WaitGroup
		res := make([]string, len(reqs))
		for i, q := range reqs {
			wg.Add(1)
			go func() {
				defer wg.Done()
				res[i] = eng.check(env, ts, q.n.Obj, q.n.Rel, q.sub, q.rc).V
			}()
		}
		wg.Wait()
		r.Eval(int64(len(reqs)))
		for i, q := range reqs {
			want := seq[fmt.Sprint(q.n, q.sub, e2.CtxStr(q.rc))]
			if res[i] != want {
				// 5/5 rule for free-running concurrency
				same := 0
				for k := 0; k < 5; k++ {
					var wg2 sync.WaitGroup
					out := make([]string, len(reqs))
					for j, q2 := range reqs {
						wg2.Add(1)
						go func() {
							defer wg2.Done()
							out[j] = eng.check(env, ts, q2.n.Obj, q2.n.Rel, q2.sub, q2.rc).V
						}()
					}
					wg2.Wait()
					if out[i] == res[i] {
						same++
					}
				}
				c := map[string]any{"world": w, "request": fmt.Sprint(q.n, q.sub, e2.CtxStr(q.rc)), "sequential": want, "concurrent": res[i], "reproduced": same}
				if same == 5 {
					r.Violate("concurrent-requests-change-answer", fmt.Sprintf("request %v answers %s alone and %s when run with the world's other requests", q, want, res[i]), c)
				} else {
					r.Anomaly(c)
				}
			}
		}
	}
	phase := time.Now()
	lap := func(name string) {
		r.Set("phase_wall_s/"+name, time.Since(phase).Seconds())
		phase = time.Now()
	}
	// the narrow, schedule- and seam-level parts first: they must not be the ones a deadline cuts
	c02Reducers(o, r)
	lap("reducers")
	c02FastPaths(o, r)
	lap("fastpaths")
	c02Wide(o, r)
	lap("listobjects-wide")
	c02ListObjects(o, r, models)
	lap("listobjects")
	so := e2.SweepOpts{K: 2, ServerOpts: []server.OpenFGAServiceV1Option{server.WithRequestTimeout(0)}}
	// chains with a leftover tuple: recursive relations over THREE objects, two valid tuples and one stored tuple
	// that the model in use does not admit (it differs from an admitted one in its condition, shape or type; it
	// was written under a permissive model). Every strategy must ignore it at every depth of the expansion.
	cu := ref.Universe{"user": {"user:a"}, "group": {"group:1", "group:2", "group:3"}, "doc": {"doc:1", "doc:2", "doc:3"}}
	co := so
	co.U, co.Leftover, co.FullPool = cu, true, true
	co.LeftFilter = func(m *ref.Model, t ref.Tuple) bool {
		d := m.Types[ref.TypeOf(t.Obj)][t.Rel]
		if d == nil || !ref.HasThis(d.Rewrite) {
			return false
		}
		for _, rs := range d.Restr {
			if rs.Type == ref.TypeOf(t.User) {
				return true // same user type as an admitted restriction: condition, shape or relation differs
			}
		}
		return false
	}
	nodes = e2.RequestNodes(cu)
	subjects = []string{"user:a"}
	objOf := func(u string) string {
		if i := strings.IndexByte(u, '#'); i >= 0 {
			return u[:i]
		}
		return u
	}
	e2.Sweep(r, chainModels(), co, func(env *e2.Env, w *ref.World) {
		// only chains: a valid tuple leads to the leftover tuple's object and the leftover tuple leads to
		// the object of the other valid tuple (the leftover sits at depth >= 2 of an expansion)
		if len(w.Tuples) != 3 {
			return
		}
		lf, a, b := w.Tuples[2], w.Tuples[0], w.Tuples[1]
		chain := func(t1, t2 ref.Tuple) bool {
			return objOf(t1.User) == lf.Obj && objOf(lf.User) == t2.Obj && t1.Obj != t2.Obj
		}
		if !chain(a, b) && !chain(b, a) {
			return
		}
		r.Count("worlds_chain_with_leftover_tuple", 1)
		body(env, w)
	})
	nodes, subjects = e2.RequestNodes(ref.DefaultUniverse()), allSubjects
	lap("chains-with-leftover")
	// operand order inside the weight-1 relation: group#member = a set operation whose COMPUTED operand comes
	// before (and after) the direct assignment - an order the DSL cannot write but the API accepts - reached through
	// a userset and through a tuple-to-userset, up to 3 tuples
	oo := so
	oo.K, oo.U = 3, ref.Universe{"user": {"user:a"}, "group": {"group:1", "group:2"}, "doc": {"doc:1"}}
	nodes = e2.RequestNodes(oo.U)
	subjects = []string{"user:a"}
	e2.Sweep(r, operandOrderModels(), oo, func(env *e2.Env, w *ref.World) {
		r.Count("worlds_operand_order", 1)
		body(env, w)
	})
	nodes, subjects = e2.RequestNodes(ref.DefaultUniverse()), allSubjects
	lap("operand-order")
	// nested set operators over one object (ref.FlatFamily), up to 4 tuples
	so.K, so.U = 4, ref.FlatUniverse()
	nodes = e2.RequestNodes(so.U)
	flat := e2.ValidModels(ref.FlatFamily())
	if !o.Thorough() {
		flat = ref.EveryNth(flat, 4, int(o.Seed))
	}
	r.Set("flat_family_models", len(flat))
	e2.Sweep(r, flat, so, func(env *e2.Env, w *ref.World) {
		r.Count("worlds_flat_family", 1)
		body(env, w)
	})
	nodes = e2.RequestNodes(ref.DefaultUniverse())
	lap("flat")
	// the broad family sweep last: it is the part an internal deadline may cut
	so.K, so.U = 2, nil
	e2.Sweep(r, models, so, body)
	lap("main")
	return r.Finish()
}

func compact(s []string) []string {
	var out []string
	for i, x := range s {
		if i == 0 || x != s[i-1] {
			out = append(out, x)
		}
	}
	return out
}

// c02ListObjects: the set returned by ListObjects must not depend on engine or tuning.
func c02ListObjects(o *core.Options, r *core.Report, models []*ref.Model) {
	tunings := c02Tunings()
	sub := models
	if !o.Thorough() && len(sub) > 20 {
		sub = sub[:20]
	}
	u := ref.DefaultUniverse()
	r.Parallel(len(sub), func(i int) {
		m := sub[i]
		var envs []*e2.Env
		for _, t := range tunings {
			env, err := e2.NewEnv(m, append([]server.OpenFGAServiceV1Option{server.WithRequestTimeout(0)}, t.opts...)...)
			if err != nil {
				return
			}
			defer env.Close()
			envs = append(envs, env)
		}
		pool := ref.RelevantPool(m, u)
		ref.Subsets(pool, 2, func(ts []ref.Tuple) {
			if len(ts) == 0 || r.Expired() {
				return
			}
			for _, env := range envs {
				if err := env.Write(ts, env.ModelID); err != nil {
					panic(err)
				}
			}
			w := &ref.World{M: m, Tuples: append([]ref.Tuple{}, ts...), U: u}
			for _, rc := range e2.ReqContexts(w) {
				for _, s := range []string{"user:a", "group:1#member"} {
					for _, tr := range [][2]string{{"doc", "r0"}, {"group", "member"}} {
						if !e2.ValidRequest(m, u[tr[0]][0], tr[1], s) {
							continue
						}
						anyE := false
						var want []string
						for _, ob := range u[tr[0]] {
							st, wk := w.Holds(ob, tr[1], s, rc)
							if st == ref.E || wk == ref.E {
								anyE = true
							}
							if st == ref.T {
								want = append(want, ob)
							}
						}
						if anyE {
							continue
						}
						outs := map[string]string{}
						for ti, env := range envs {
							got, err := env.ListObjects(tr[0], tr[1], s, rc, nil)
							r.Eval(1)
							if err != nil {
								outs[tunings[ti].name] = "ERR " + e2.ErrOutcome(err).Msg
								continue
							}
							outs[tunings[ti].name] = fmt.Sprint(e2.SortedCopy(got))
						}
						if len(want) > 0 {
							r.Nontrivial(core.Hash("LO", m.String(), e2.TuplesStr(ts), s, e2.CtxStr(rc), tr[0], tr[1]))
						}
						wantS := fmt.Sprint(want)
						if want == nil {
							wantS = "[]"
						}
						bad := false
						for _, v := range outs {
							if v != wantS {
								bad = true
							}
						}
						if bad {
							sig := "listobjects-set-differs-from-reference"
							for _, ob := range want {
								if w.CycleUnderExclusion(ob, tr[1]) {
									sig += "/cycle-in-exclusion-subtrahend"
									break
								}
							}
							if sig == "listobjects-set-differs-from-reference" {
								// only failures, and some valid tuple is unevaluable under the request context although
								// it decides no object: which tunings consult it is engine dependent
								uneval := false
								for _, t := range ts {
									if w.Valid(t) && ref.CondVal(t, rc) == ref.E {
										uneval = true
									}
								}
								var failing []string
								onlyFailures := true
								for name, v := range outs {
									if strings.HasPrefix(v, "ERR") {
										failing = append(failing, name)
									} else if v != wantS {
										onlyFailures = false
									}
								}
								sort.Strings(failing)
								if uneval && onlyFailures && len(failing) > 0 {
									// which engines consult the undecisive tuple depends on the model shape (reverse expansion
									// from the user reaches it, the weighted graph prunes it, or the other way round): the set of
									// failing tunings is a parameter of ONE mechanism, not part of its identity
									which := "engine-dependent"
									if len(failing) == len(outs) {
										which = "every-tuning"
									}
									sig += "/failure-on-unevaluable-condition-that-decides-no-object/" + which
								}
							}
							r.Violate(sig, fmt.Sprintf("ListObjects(%s#%s@%s ctx=%s) by tuning=%v reference=%s model{%s} tuples{%s}", tr[0], tr[1], s, e2.CtxStr(rc), outs, wantS, m, e2.TuplesStr(ts)),
								map[string]any{"world": w, "type": tr[0], "rel": tr[1], "subject": s, "reqctx": rc, "by_tuning": outs, "reference": want})
						}
					}
				}
			}
			for _, env := range envs {
				if err := env.Delete(ts, env.ModelID); err != nil {
					panic(err)
				}
			}
			r.Count("listobjects_worlds", 1)
		})
	})
}

func replayC02(o *core.Options, r *core.Report) int {
	var fp struct {
		Case *fpCase `json:"fastpath_case"`
	}
	if err := core.LoadReplay(o.Replay, &fp); err == nil && fp.Case != nil {
		for i := 0; i < 5; i++ {
			res := fpRun(*fp.Case)
			r.Eval(1)
			sig, desc := fpJudge(*fp.Case, res)
			fmt.Printf("replay %d: %s -> %d ids, errs=%v verdict=%q %s\n", i, fp.Case, len(res.Items), res.Errs, sig, desc)
			if sig != "" {
				r.Violate(sig, "replayed: "+desc, map[string]any{"fastpath_case": fp.Case})
			}
		}
		return r.Finish()
	}
	var c stratCase
	if err := core.LoadReplay(o.Replay, &c); err != nil || c.World == nil {
		fmt.Println("replay: cannot load a Check case (ListObjects cases are replayed by re-running the check):", err)
		return 2
	}
	env, err := e2.NewEnv(c.World.M, server.WithRequestTimeout(0))
	if err != nil {
		fmt.Println(err)
		return 2
	}
	defer env.Close()
	if err := env.Write(c.World.Tuples, env.ModelID); err != nil {
		fmt.Println(err)
		return 2
	}
	tds, conds := c.World.M.Proto()
	ts, _ := typesystem.NewAndValidate(context.Background(), &openfgav1.AuthorizationModel{Id: env.ModelID, SchemaVersion: "1.1", TypeDefinitions: tds, Conditions: conds})
	if c.World.U == nil {
		c.World.U = ref.DefaultUniverse()
	}
	strong, weak := c.World.Holds(c.Obj, c.Rel, c.Subject, c.ReqCtx)
	outs := map[string]string{}
	for _, cfg := range v1cfgs {
		eng := newV1Engine(cfg)
		EnumerateAssignments(func(a map[string]string) (map[string][]string, map[string]string) {
			eng.sp.Reset(a)
			got := eng.check(env, ts, c.Obj, c.Rel, c.Subject, c.ReqCtx)
			r.Eval(1)
			off, ch := eng.sp.Snapshot()
			outs[cfg.Name+"{"+assignKeyPrintable(ch, off)+"}"] = got.V
			return off, ch
		}, 64)
		eng.closer()
	}
	fmt.Printf("reference=%s/%s outcomes=%v\n", strong, weak, outs)
	distinct := map[string]bool{}
	bad := false
	for _, v := range outs {
		distinct[v] = true
		if e2.Verdict(v, strong, weak) != "" {
			bad = true
		}
	}
	if len(distinct) > 1 || bad {
		r.Violate("replayed", fmt.Sprint(outs), c)
	}
	return r.Finish()
}

func assignKeyPrintable(ch map[string]string, off map[string][]string) string {
	var l []string
	for k, v := range ch {
		if len(off[k]) > 1 {
			l = append(l, planName(k)+"="+v)
		}
	}
	sort.Strings(l)
	return strings.Join(l, ",")
}

// chainModels: recursive relations (userset and tuple-to-userset) whose restrictions carry conditions, so that a
// stored tuple can be inadmissible by its condition alone.
func chainModels() []*ref.Model {
	user, userC := ref.Restr{Type: "user"}, ref.Restr{Type: "user", Cond: "cx"}
	mem, memC := ref.Restr{Type: "group", Rel: "member"}, ref.Restr{Type: "group", Rel: "member", Cond: "cx"}
	r0C := ref.Restr{Type: "doc", Rel: "r0", Cond: "cx"}
	docC := ref.Restr{Type: "doc", Cond: "cx"}
	mk := func(group, doc map[string]*ref.RelDef) *ref.Model {
		return &ref.Model{Conds: true, Types: map[string]map[string]*ref.RelDef{"user": {}, "group": group, "doc": doc}}
	}
	return []*ref.Model{
		mk(map[string]*ref.RelDef{"member": rd(ref.This(), user, memC)}, map[string]*ref.RelDef{}),
		mk(map[string]*ref.RelDef{"member": rd(ref.This(), userC, mem)}, map[string]*ref.RelDef{}),
		mk(map[string]*ref.RelDef{}, map[string]*ref.RelDef{"parent": rd(ref.This(), docC), "r0": rd(ref.Bin(ref.KUnion, ref.This(), ref.TTU("parent", "r0")), user)}),
		mk(map[string]*ref.RelDef{}, map[string]*ref.RelDef{"r0": rd(ref.This(), user, r0C)}),
		mk(map[string]*ref.RelDef{"member": rd(ref.This(), user, memC)}, map[string]*ref.RelDef{"r0": rd(ref.This(), mem)}),
	}
}

// operandOrderModels: see the operand-order sweep in C02.
func operandOrderModels() []*ref.Model {
	user := ref.Restr{Type: "user"}
	var out []*ref.Model
	for _, mem := range []*ref.Expr{
		ref.Bin(ref.KUnion, ref.Comp("banned"), ref.This()), ref.Bin(ref.KInter, ref.Comp("banned"), ref.This()), ref.Bin(ref.KDiff, ref.Comp("banned"), ref.This()),
		ref.Bin(ref.KUnion, ref.This(), ref.Comp("banned")), ref.Bin(ref.KInter, ref.This(), ref.Comp("banned")),
		ref.NaryOf(ref.KUnion, ref.Comp("banned"), ref.This(), ref.Comp("r1")), ref.NaryOf(ref.KInter, ref.Comp("banned"), ref.This(), ref.Comp("r1")),
	} {
		group := func() map[string]*ref.RelDef {
			return map[string]*ref.RelDef{"member": rd(mem, user), "banned": rd(ref.This(), user), "r1": rd(ref.This(), user)}
		}
		out = append(out,
			&ref.Model{Types: map[string]map[string]*ref.RelDef{"user": {}, "group": group(), "doc": {"r0": rd(ref.This(), ref.Restr{Type: "group", Rel: "member"}), "r1": rd(ref.This(), user)}}},
			&ref.Model{Types: map[string]map[string]*ref.RelDef{"user": {}, "group": group(), "doc": {"parent": rd(ref.This(), ref.Restr{Type: "group"}), "r0": rd(ref.TTU("parent", "member")), "r1": rd(ref.This(), user)}}})
	}
	return out
}

type c02Tun struct {
	name string
	opts []server.OpenFGAServiceV1Option
}

func c02Tunings() []c02Tun {
	return []c02Tun{
		{"default", nil},
		{"breadth1-reads1", []server.OpenFGAServiceV1Option{server.WithResolveNodeBreadthLimit(1), server.WithMaxConcurrentReadsForListObjects(1), server.WithMaxConcurrentReadsForCheck(1)}},
		{"pipeline-1-1-1", []server.OpenFGAServiceV1Option{server.WithExperimentals("pipeline_list_objects"), server.WithListObjectsPipelineEnabled(true), server.WithListObjectsChunkSize(1), server.WithListObjectsBufferCapacity(1), server.WithListObjectsNumProcs(1)}},
		{"pipeline-2-2-3", []server.OpenFGAServiceV1Option{server.WithExperimentals("pipeline_list_objects"), server.WithListObjectsPipelineEnabled(true), server.WithListObjectsChunkSize(2), server.WithListObjectsBufferCapacity(2), server.WithListObjectsNumProcs(3)}},
		{"weighted", []server.OpenFGAServiceV1Option{server.WithExperimentals("enable-list-objects-optimizations")}},
	}
}

// c02Wide: ListObjects on wide recursive worlds under every tuning (see the comment inside).
func c02Wide(o *core.Options, r *core.Report) {
	tunings := c02Tunings()
	// wide recursive worlds: far more objects than any internal buffer of the small tunings holds (queues, chunks,
	// breadth limits): a recursive tuple-to-userset with N children of one root, the same two levels deep, and a
	// recursive userset with N groups under one root; the result must be complete and equal for every tuning
	{
		user := ref.Restr{Type: "user"}
		mt := &ref.Model{Types: map[string]map[string]*ref.RelDef{"user": {}, "doc": {"parent": rd(ref.This(), ref.Restr{Type: "doc"}), "r0": rd(ref.Bin(ref.KUnion, ref.This(), ref.TTU("parent", "r0")), user)}}}
		mg := &ref.Model{Types: map[string]map[string]*ref.RelDef{"user": {}, "group": {"member": rd(ref.This(), user, ref.Restr{Type: "group", Rel: "member"})}}}
		type wide struct {
			name     string
			m        *ref.Model
			typ, rel string
			ts       []ref.Tuple
			want     []string
		}
		var ws []wide
		sizes := []int{40, 300}
		for _, n := range sizes {
			a := wide{name: fmt.Sprintf("ttu-fan-out-%d", n), m: mt, typ: "doc", rel: "r0", ts: []ref.Tuple{{Obj: "doc:root", Rel: "r0", User: "user:a"}}, want: []string{"doc:root"}}
			b := wide{name: fmt.Sprintf("userset-fan-out-%d", n), m: mg, typ: "group", rel: "member", ts: []ref.Tuple{{Obj: "group:root", Rel: "member", User: "user:a"}}, want: []string{"group:root"}}
			for i := 0; i < n; i++ {
				a.ts = append(a.ts, ref.Tuple{Obj: fmt.Sprintf("doc:c%03d", i), Rel: "parent", User: "doc:root"})
				a.want = append(a.want, fmt.Sprintf("doc:c%03d", i))
				b.ts = append(b.ts, ref.Tuple{Obj: fmt.Sprintf("group:c%03d", i), Rel: "member", User: "group:root#member"})
				b.want = append(b.want, fmt.Sprintf("group:c%03d", i))
			}
			ws = append(ws, a, b)
		}
		two := wide{name: "ttu-two-levels-20x15", m: mt, typ: "doc", rel: "r0", ts: []ref.Tuple{{Obj: "doc:root", Rel: "r0", User: "user:a"}}, want: []string{"doc:root"}}
		for i := 0; i < 20; i++ {
			mid := fmt.Sprintf("doc:m%02d", i)
			two.ts = append(two.ts, ref.Tuple{Obj: mid, Rel: "parent", User: "doc:root"})
			two.want = append(two.want, mid)
			for j := 0; j < 15; j++ {
				leaf := fmt.Sprintf("doc:l%02d-%02d", i, j)
				two.ts = append(two.ts, ref.Tuple{Obj: leaf, Rel: "parent", User: mid})
				two.want = append(two.want, leaf)
			}
		}
		ws = append(ws, two)
		r.Parallel(len(ws)*len(tunings), func(k int) {
			w, t := ws[k/len(tunings)], tunings[k%len(tunings)]
			env, err := e2.NewEnv(w.m, append([]server.OpenFGAServiceV1Option{server.WithRequestTimeout(0), server.WithListObjectsMaxResults(5000), server.WithListObjectsDeadline(20 * time.Second)}, t.opts...)...)
			if err != nil {
				return
			}
			defer env.Close()
			for at := 0; at < len(w.ts); at += 90 {
				end := at + 90
				if end > len(w.ts) {
					end = len(w.ts)
				}
				if err := env.Write(w.ts[at:end], env.ModelID); err != nil {
					panic(err)
				}
			}
			got, err := env.ListObjects(w.typ, w.rel, "user:a", nil, nil)
			r.Eval(1)
			r.Count("listobjects_wide_worlds", 1)
			r.Nontrivial(core.Hash("c02wide", w.name, t.name))
			want := append([]string{}, w.want...)
			sort.Strings(want)
			g := append([]string{}, got...)
			sort.Strings(g)
			if err != nil || strings.Join(g, ",") != strings.Join(want, ",") {
				r.Violate("listobjects-wide-world-incomplete-or-failed/"+t.name, fmt.Sprintf("ListObjects(%s#%s@user:a) on %s with tuning %s: %d of %d objects (err=%v)", w.typ, w.rel, w.name, t.name, len(g), len(want), err),
					map[string]any{"world": w.name, "tuning": t.name, "got": len(g), "want": len(want)})
			}
		})
	}
}
