package checks

import "github.com/openfga/openfga/internal/verifh/core"

// Registry maps a property id to its check.
var Registry = map[string]func(o *core.Options) int{}
