package checks

import (
	"context"
	"errors"
	"fmt"
	"sort"
	"strings"
	"sync"
	"time"

	openfgav1 "github.com/openfga/api/proto/openfga/v1"
	"golang.org/x/sync/singleflight"

	"github.com/openfga/openfga/internal/verifh/cachex"
	"github.com/openfga/openfga/internal/verifh/core"
	"github.com/openfga/openfga/pkg/storage"
	"github.com/openfga/openfga/pkg/storage/cache/keys"
	"github.com/openfga/openfga/pkg/storage/memory"
	"github.com/openfga/openfga/pkg/storage/storagewrappers"
	"github.com/openfga/openfga/pkg/tuple"
)

// c11Seam decides the consumer side of the invalidation protocol at its own seam: the real CachedDatastore
// over a memory datastore and a harness cache, with the invalidation markers the cache controller writes
// (store-wide entry and per-entity entries) placed by the harness in EVERY combination of {absent, older than
// the cached entry, newer than the cached entry} for every marker key a cached read consults. A read whose
// entry is older than any one of its markers must be answered from the datastore; the read shapes cover one,
// two and three per-entity keys (ReadStartingWithUser with several subjects is what the engines issue for a
// relation that admits a typed wildcard). The Server-API histories and the clock-controlled controller
// harness reach these combinations only through long histories (two partial invalidation runs with clock
// advances between them); here they are enumerated directly.
func c11Seam(r *core.Report) {
	const store = "01HVMMBCMGZNT3SED4CT2KA89Q"
	type shape struct {
		name   string
		read   func(ctx context.Context, ds storage.RelationshipTupleReader) (storage.TupleIterator, error)
		marks  []keys.Key // per-entity invalidation keys the read consults, in the order it lists them
		before []*openfgav1.TupleKey
		after  *openfgav1.TupleKey // written between the first read and the judged read (matches the filter)
	}
	uot := func(u string) keys.Key { return storage.InvalidIteratorByUserObjectTypeCacheKey(store, u, "doc") }
	swu := func(users ...string) func(ctx context.Context, ds storage.RelationshipTupleReader) (storage.TupleIterator, error) {
		return func(ctx context.Context, ds storage.RelationshipTupleReader) (storage.TupleIterator, error) {
			var uf []*openfgav1.ObjectRelation
			for _, u := range users {
				if o, rel := tuple.SplitObjectRelation(u); rel != "" {
					uf = append(uf, &openfgav1.ObjectRelation{Object: o, Relation: rel})
				} else {
					uf = append(uf, &openfgav1.ObjectRelation{Object: u})
				}
			}
			return ds.ReadStartingWithUser(ctx, store, storage.ReadStartingWithUserFilter{ObjectType: "doc", Relation: "viewer", UserFilter: uf}, storage.ReadStartingWithUserOptions{})
		}
	}
	tk := tuple.NewTupleKey
	shapes := []shape{
		{"Read(doc:1,viewer)", func(ctx context.Context, ds storage.RelationshipTupleReader) (storage.TupleIterator, error) {
			return ds.Read(ctx, store, storage.ReadFilter{Object: "doc:1", Relation: "viewer"}, storage.ReadOptions{})
		}, []keys.Key{storage.InvalidIteratorByObjectRelationCacheKey(store, "doc:1", "viewer")}, []*openfgav1.TupleKey{tk("doc:1", "viewer", "user:a")}, tk("doc:1", "viewer", "user:b")},
		{"ReadUsersetTuples(doc:1,viewer)", func(ctx context.Context, ds storage.RelationshipTupleReader) (storage.TupleIterator, error) {
			return ds.ReadUsersetTuples(ctx, store, storage.ReadUsersetTuplesFilter{Object: "doc:1", Relation: "viewer"}, storage.ReadUsersetTuplesOptions{})
		}, []keys.Key{storage.InvalidIteratorByObjectRelationCacheKey(store, "doc:1", "viewer")}, []*openfgav1.TupleKey{tk("doc:1", "viewer", "group:1#member")}, tk("doc:1", "viewer", "group:2#member")},
		{"ReadStartingWithUser(doc,viewer,[user:a])", swu("user:a"), []keys.Key{uot("user:a")}, []*openfgav1.TupleKey{tk("doc:1", "viewer", "user:a")}, tk("doc:2", "viewer", "user:a")},
		{"ReadStartingWithUser(doc,viewer,[user:a,user:*]) write for the first subject", swu("user:a", "user:*"), []keys.Key{uot("user:a"), uot("user:*")}, []*openfgav1.TupleKey{tk("doc:1", "viewer", "user:a")}, tk("doc:2", "viewer", "user:a")},
		{"ReadStartingWithUser(doc,viewer,[user:a,user:*]) write for the second subject", swu("user:a", "user:*"), []keys.Key{uot("user:a"), uot("user:*")}, []*openfgav1.TupleKey{tk("doc:1", "viewer", "user:a")}, tk("doc:2", "viewer", "user:*")},
		{"ReadStartingWithUser(doc,viewer,[group:1#member,user:a,user:*]) write for the last subject", swu("group:1#member", "user:a", "user:*"), []keys.Key{uot("group:1#member"), uot("user:a"), uot("user:*")}, []*openfgav1.TupleKey{tk("doc:1", "viewer", "group:1#member")}, tk("doc:2", "viewer", "user:*")},
		{"ReadStartingWithUser(doc,viewer,[group:1#member,user:a,user:*]) write for the middle subject", swu("group:1#member", "user:a", "user:*"), []keys.Key{uot("group:1#member"), uot("user:a"), uot("user:*")}, []*openfgav1.TupleKey{tk("doc:1", "viewer", "user:*")}, tk("doc:2", "viewer", "user:a")},
	}
	drain := func(it storage.TupleIterator) (string, error) {
		defer it.Stop()
		var out []string
		for {
			t, err := it.Next(context.Background())
			if err != nil {
				if errors.Is(err, storage.ErrIteratorDone) {
					break
				}
				return "", err
			}
			out = append(out, tuple.TupleKeyToString(t.GetKey()))
		}
		sort.Strings(out)
		return strings.Join(out, ","), nil
	}
	type seamCase struct {
		Shape   string   `json:"shape"`
		Markers []string `json:"markers"` // store-wide first, then the per-entity keys in the read's order
		Got     string   `json:"got"`
		Want    string   `json:"want"`
	}
	const absent, older, newer = 0, 1, 2
	names := []string{"absent", "older-than-entry", "newer-than-entry"}
	var hits, fresh int64
	for _, rd := range []string{"CachedDatastore", "CachedTupleReader"} {
		for _, sh := range shapes {
			n := 1 + len(sh.marks)
			total := 1
			for i := 0; i < n; i++ {
				total *= 3
			}
			for code := 0; code < total; code++ {
				st := make([]int, n)
				for i, c := 0, code; i < n; i, c = i+1, c/3 {
					st[i] = c % 3
				}
				mkeys := append([]keys.Key{storage.InvalidIteratorCacheKey(store)}, sh.marks...)
				mem := memory.New()
				ctx := context.Background()
				if err := mem.Write(ctx, store, nil, sh.before); err != nil {
					r.Violate("harness-seam-setup", err.Error(), nil)
					return
				}
				cache := cachex.New()
				var wg sync.WaitGroup
				var cds storage.RelationshipTupleReader
				if rd == "CachedDatastore" {
					cds = storagewrappers.NewCachedDatastore(ctx, mem, cache, 100, time.Hour, &singleflight.Group{}, &wg)
				} else {
					// the reader of the weighted-graph Check has its own copy of the marker logic (tryGetFromCache)
					cds = storagewrappers.NewCachedTupleReader(ctx, mem, cache, 100, time.Hour, &singleflight.Group{}, &wg, time.Second)
				}
				set := func(which int) {
					now := time.Now()
					for i, k := range mkeys {
						if st[i] == which {
							cache.Set(k, &storage.InvalidEntityCacheEntry{LastModified: now}, time.Hour)
						}
					}
				}
				set(older)
				time.Sleep(200 * time.Microsecond)
				it, err := sh.read(ctx, cds)
				if err != nil {
					r.Violate("harness-seam-setup", err.Error(), nil)
					return
				}
				first, _ := drain(it)
				wg.Wait()
				if err := mem.Write(ctx, store, nil, []*openfgav1.TupleKey{sh.after}); err != nil {
					r.Violate("harness-seam-setup", err.Error(), nil)
					return
				}
				time.Sleep(200 * time.Microsecond)
				set(newer)
				it, err = sh.read(ctx, cds)
				if err != nil {
					r.Violate("cached-read-failed", err.Error(), nil)
					continue
				}
				got, _ := drain(it)
				wg.Wait()
				mem.Close()
				it2, _ := sh.read(ctx, memoryOf(sh.before, sh.after, store))
				want, _ := drain(it2)
				r.Eval(1)
				var ms []string
				anyNewer := false
				for i := range mkeys {
					ms = append(ms, names[st[i]])
					anyNewer = anyNewer || st[i] == newer
				}
				c := seamCase{Shape: rd + " " + sh.name, Markers: ms, Got: got, Want: want}
				r.Nontrivial(core.Hash("c11seam", rd, sh.name, fmt.Sprint(st)))
				switch {
				case anyNewer && got != want:
					which := 0
					for i := range mkeys {
						if st[i] == newer {
							which = i
						}
					}
					pos := "store-wide"
					if which > 0 {
						pos = fmt.Sprintf("entity-key-%d-of-%d", which, len(sh.marks))
					}
					r.Violate("seam/stale-entry-served-although-an-invalidation-marker-is-newer/"+rd+"/"+pos, fmt.Sprintf("%s with markers %v: the cached read returned [%s] (the entry populated before the write, [%s]) although a marker newer than the entry exists; the store holds [%s]", sh.name, ms, got, first, want), c)
				case got == want:
					fresh++
				default:
					hits++ // no newer marker: the cached (now stale) entry may be served
				}
				if code == total-1 || code == 5 {
					r.Sample(c)
				}
			}
		}
	}
	r.Set("invalidation_marker_seam", map[string]any{"read_shapes": len(shapes), "cases_answered_from_cache": hits, "cases_answered_fresh": fresh,
		"what": "real CachedDatastore and CachedTupleReader over memory + harness cache; every {absent, older, newer} assignment to the store-wide marker and the per-entity markers of reads consulting 1, 2 and 3 per-entity keys; a read must not serve its entry when any marker is newer"})
	if hits == 0 {
		r.Violate("harness-seam-vacuous", "no case was answered from the cache: the seam enumeration does not exercise cached entries", nil)
	}
}

func memoryOf(before []*openfgav1.TupleKey, after *openfgav1.TupleKey, store string) storage.RelationshipTupleReader {
	m := memory.New()
	_ = m.Write(context.Background(), store, nil, append(append([]*openfgav1.TupleKey{}, before...), after))
	return m
}
