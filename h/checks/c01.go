package checks

import (
	"fmt"
	"os"
	"strings"
	"time"

	"github.com/openfga/openfga/internal/verifh/core"
	"github.com/openfga/openfga/internal/verifh/e2"
	"github.com/openfga/openfga/internal/verifh/ref"
	"github.com/openfga/openfga/pkg/server"
)

func init() { Registry["C01"] = C01 }

func c01Models(o *core.Options) []*ref.Model {
	all := e2.ValidModels(ref.Family(ref.FamilyOpts{Conds: true, Deep: o.Thorough()}))
	if f := os.Getenv("VERIF_MODEL_FILTER"); f != "" { // development aid: restrict to models whose text contains f
		var sel []*ref.Model
		for _, m := range all {
			if strings.Contains(m.String(), f) {
				sel = append(sel, m)
			}
		}
		all = sel
	}
	if o.Thorough() {
		return ref.Representatives(all, 4, o.Seed)
	}
	return ref.Representatives(all, 1, o.Seed)
}

func C01(o *core.Options) int {
	r := core.NewReport(o, "exploration",
		"every model of the bounded family (one per r0-signature class in quick) x every tuple subset of size<=K of the model's pool x 5 subjects x request contexts {none,x=1,x=20} x every (object,relation); Server.Check vs independent 3-valued least-fixpoint reference; non-trivial = reference value T or E; distinct by (model,tuples,subject,context,object,relation)")
	r.Assume("memory datastore", "planner strategy is the server's own (random) choice here; every assignment is forced in C02",
		"universe 2 users/2 groups/2 docs; rewrites of depth<=1 (2 in thorough); one condition cx(x:int):=x<10")
	if o.Replay != "" {
		return replayCheck(o, r)
	}
	models := c01Models(o)
	k := 2
	opts := e2.SweepOpts{K: k, ServerOpts: []server.OpenFGAServiceV1Option{server.WithRequestTimeout(0)}}
	r.Set("models_in_family", len(models))
	r.Set("max_tuples", k)
	nodes := e2.RequestNodes(ref.DefaultUniverse())
	run := func(env *e2.Env, w *ref.World) {
		for _, rc := range e2.ReqContexts(w) {
			for _, sub := range e2.Subjects {
				for _, n := range nodes {
					if !e2.ValidRequest(w.M, n.Obj, n.Rel, sub) {
						continue
					}
					strong, weak := w.Holds(n.Obj, n.Rel, sub, rc)
					got := env.Check(n.Obj, n.Rel, sub, rc, w.Contextual)
					r.Eval(1)
					if strong != ref.F || weak != ref.F {
						r.Nontrivial(core.Hash(w.M.String(), e2.TuplesStr(w.Tuples), sub, e2.CtxStr(rc), n.Obj, n.Rel))
					}
					v := e2.Verdict(got.V, strong, weak)
					if v == "" || e2.AltAccepts(w, got.V, n.Obj, n.Rel, sub, rc) {
						continue
					}
					// re-decide: the deviation must show again in 5 re-executions
					again := 0
					for i := 0; i < 5; i++ {
						if g := env.Check(n.Obj, n.Rel, sub, rc, w.Contextual); e2.Verdict(g.V, strong, weak) == v {
							again++
						}
					}
					c := e2.CheckCase{World: w, Obj: n.Obj, Rel: n.Rel, Subject: sub, ReqCtx: rc, Got: got.String() + " " + got.Msg, Strong: strong.String(), Weak: weak.String(), Seen: fmt.Sprintf("1+%d/5", again)}
					if again == 0 {
						r.Anomaly(c)
						continue
					}
					sg := e2.DecisionSignature(v, w, n.Obj, n.Rel, rc)
					if w.Alt != nil && !strings.Contains(sg, "/") {
						sg += "/contextual-tuple-with-the-key-of-a-stored-tuple"
					}
					r.Violate(sg,
						fmt.Sprintf("Check(%s#%s@%s ctx=%s)=%s ref=%s/%s model{%s} tuples{%s}", n.Obj, n.Rel, sub, e2.CtxStr(rc), got, strong, weak, w.M, e2.TuplesStr(w.Tuples)), c)
				}
			}
		}
		if w.HasTupleCycle() {
			r.Count("worlds_with_tuple_cycle", 1)
		}
	}
	if os.Getenv("VERIF_ONLY_SHADOW") != "" { // development aid
		if !o.Thorough() {
			e2.ShadowExtraStride = 6
		}
		e2.ShadowSweep(r, models, opts, func(env *e2.Env, w *ref.World) { run(env, w) })
		return r.Finish()
	}
	// the bulk sweep runs last: the narrower passes below must not be the ones a deadline cuts
	mainSweep := func() {
		e2.Sweep(r, models, opts, func(env *e2.Env, w *ref.World) {
			if len(w.Tuples) == 0 {
				return
			}
			if len(w.Tuples) == 2 {
				r.Sample(map[string]any{"model": w.M.String(), "tuples": e2.TuplesStr(w.Tuples)})
			}
			run(env, w)
		})
	}
	phase := time.Now()
	lap := func(name string) {
		r.Set("phase_wall_s/"+name, time.Since(phase).Seconds())
		phase = time.Now()
	}
	// three-tuple chains on a reduced universe (1 user, 1 group, 2 docs): the tuple-to-userset classes
	// with mixed parent types and the twin-branch classes in quick, every class in thorough
	var k3 []*ref.Model
	nMask := 0
	for _, m := range models {
		mask := m.MaskableRows()
		if mask {
			nMask++
		}
		// in quick every 2nd class whose rows can mask each other (rotated by the seed)
		if o.Thorough() || m.IsTwin() || strings.Contains(m.Signature(), "|r1=") || (mask && (nMask+int(o.Seed))%2 == 0) {
			k3 = append(k3, m)
		}
	}
	u3 := ref.Universe{"user": {"user:a"}, "group": {"group:1"}, "doc": {"doc:1", "doc:2"}}
	nodes3 := e2.RequestNodes(u3)
	o3 := opts
	o3.K, o3.U = 3, u3
	save := nodes
	nodes = nodes3 // the sweeps run one after the other; run() reads nodes
	e2.Sweep(r, k3, o3, func(env *e2.Env, w *ref.World) {
		if len(w.Tuples) != 3 {
			return
		}
		r.Count("worlds_with_three_tuples", 1)
		run(env, w)
	})
	lap("k3")
	// nested set operators over one object (ref.FlatFamily): every tuple subset of size <= 4
	fu := ref.FlatUniverse()
	of := opts
	of.K, of.U = 4, fu
	nodes = e2.RequestNodes(fu)
	flat := e2.ValidModels(ref.FlatFamily())
	if o.Thorough() {
		of.K = 6
	}
	r.Set("flat_family_models", len(flat))
	e2.Sweep(r, flat, of, func(env *e2.Env, w *ref.World) {
		if len(w.Tuples) == 0 {
			return
		}
		r.Count("worlds_flat_family", 1)
		run(env, w)
	})
	lap("flat")
	// n-ary union / intersection nodes over three documents (ref.NaryFamily): every tuple subset of size <= 4
	nu := ref.NaryUniverse()
	on := opts
	on.K, on.U = 4, nu
	nodes = e2.RequestNodes(nu)
	e2.Sweep(r, e2.ValidModels(ref.NaryFamily()), on, func(env *e2.Env, w *ref.World) {
		if len(w.Tuples) == 0 {
			return
		}
		r.Count("worlds_nary_family", 1)
		run(env, w)
	})
	nodes = save
	lap("nary")
	// contextual tuple with the key of a stored tuple (different condition/context)
	if !o.Thorough() {
		e2.ShadowExtraStride = 6
	}
	e2.ShadowSweep(r, models, opts, func(env *e2.Env, w *ref.World) { run(env, w) })
	lap("shadow")
	// leftover tuples: one tuple invalid for M, plus |T|<=1
	lo := opts
	lo.K = 1
	lo.Leftover = true
	lm := ref.Representatives(models, 1, o.Seed)
	if !o.Thorough() && len(lm) > 20 {
		lm = lm[:20]
	}
	e2.Sweep(r, lm, lo, func(env *e2.Env, w *ref.World) {
		r.Count("worlds_with_leftover_tuple", 1)
		run(env, w)
	})
	lap("leftover")
	mainSweep()
	lap("main")
	return r.Finish()
}

func replayCheck(o *core.Options, r *core.Report) int {
	var c e2.CheckCase
	if err := core.LoadReplay(o.Replay, &c); err != nil {
		fmt.Println("replay:", err)
		return 2
	}
	env, err := e2.NewEnv(c.World.M, server.WithRequestTimeout(0))
	if err != nil {
		fmt.Println("model rejected:", err)
		return 2
	}
	defer env.Close()
	pm, _ := env.WriteModel(ref.Permissive())
	env.ModelID, _ = env.WriteModel(c.World.M)
	for _, t := range c.World.Tuples {
		id := env.ModelID
		if !c.World.M.ValidTuple(t) {
			id = pm
		}
		if err := env.Write([]ref.Tuple{t}, id); err != nil {
			fmt.Println("write:", err)
			return 2
		}
	}
	if c.World.U == nil {
		c.World.U = ref.DefaultUniverse()
	}
	strong, weak := c.World.Holds(c.Obj, c.Rel, c.Subject, c.ReqCtx)
	for i := 0; i < 5; i++ {
		got := env.Check(c.Obj, c.Rel, c.Subject, c.ReqCtx, nil)
		r.Eval(1)
		v := e2.Verdict(got.V, strong, weak)
		fmt.Printf("replay %d: Check=%s ref=%s/%s verdict=%q\n", i, got, strong, weak, v)
		if v != "" {
			r.Violate(e2.DecisionSignature(v, c.World, c.Obj, c.Rel, c.ReqCtx), "replayed", c)
		}
	}
	return r.Finish()
}
