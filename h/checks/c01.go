package checks

import (
	"fmt"
	"strings"

	"github.com/openfga/openfga/internal/verifh/core"
	"github.com/openfga/openfga/internal/verifh/e2"
	"github.com/openfga/openfga/internal/verifh/ref"
	"github.com/openfga/openfga/pkg/server"
)

func init() { Registry["C01"] = C01 }

var (
	one, twenty = 1, 20
	Subjects    = []string{"user:a", "user:*", "group:1#member", "doc:2#r1", "doc:1#r0"}
)

type Node struct{ Obj, Rel string }

func RequestNodes(u ref.Universe) []Node {
	var out []Node
	for _, o := range u["doc"] {
		out = append(out, Node{o, "r0"}, Node{o, "r1"})
	}
	for _, g := range u["group"] {
		out = append(out, Node{g, "member"})
	}
	return out
}

func ReqContexts(w *ref.World) []*int {
	for _, t := range w.Tuples {
		if t.Cond != "" {
			return []*int{nil, &one, &twenty}
		}
	}
	return []*int{nil}
}

func ctxStr(x *int) string {
	if x == nil {
		return "-"
	}
	return fmt.Sprint(*x)
}

func tuplesStr(ts []ref.Tuple) string {
	var s []string
	for _, t := range ts {
		s = append(s, t.String())
	}
	return strings.Join(s, " ")
}

// CheckCase is a replayable decision case.
type CheckCase struct {
	World   *ref.World `json:"world"`
	Obj     string     `json:"obj"`
	Rel     string     `json:"rel"`
	Subject string     `json:"subject"`
	ReqCtx  *int       `json:"reqctx,omitempty"`
	Got     string     `json:"got"`
	Strong  string     `json:"ref_strong"`
	Weak    string     `json:"ref_weak_at_tuple"`
	Config  string     `json:"config,omitempty"`
	Seen    string     `json:"seen,omitempty"`
}

// Verdict classifies an engine outcome against the reference ("" = acceptable).
func Verdict(got string, strong, weak ref.TV) string {
	switch got {
	case "T":
		if strong != ref.T {
			return "V1-unsound-allow"
		}
	case "F":
		if strong != ref.F && weak != ref.F {
			if strong == ref.T {
				return "V2-wrong-deny"
			}
			return "V3-missed-failure"
		}
	case "ERR":
		if strong != ref.E && weak != ref.E {
			return "V4-spurious-failure"
		}
	}
	return ""
}

// unevaluableWithSibling: some valid tuple is unevaluable under the request context while another valid
// tuple of the same (object, relation) — i.e. of the same filtered read — is evaluable.
func unevaluableWithSibling(w *ref.World, reqctx *int) bool {
	for _, t := range w.Tuples {
		if !w.Valid(t) || ref.CondVal(t, reqctx) != ref.E {
			continue
		}
		for _, t2 := range w.Tuples {
			if t2.Obj == t.Obj && t2.Rel == t.Rel && t2.User != t.User && w.Valid(t2) && ref.CondVal(t2, reqctx) != ref.E {
				return true
			}
		}
	}
	return false
}

// unevaluableUnreached: some valid tuple is unevaluable under the request context although a top-down
// evaluation of (o, r) never consults it.
func unevaluableUnreached(w *ref.World, o, r string, reqctx *int) bool {
	reached := w.ReachedTuples(o, r)
	for i, t := range w.Tuples {
		if w.Valid(t) && ref.CondVal(t, reqctx) == ref.E && !reached[i] {
			return true
		}
	}
	return false
}

// DecisionSignature refines a verdict class with mechanism evidence computed from the case itself.
func DecisionSignature(v string, w *ref.World, o, r string, reqctx *int) string {
	switch {
	case (v == "V2-wrong-deny" || v == "V3-missed-failure") && w.CycleUnderExclusion(o, r):
		return v + "/cycle-in-exclusion-subtrahend"
	case v == "V3-missed-failure" && unevaluableWithSibling(w, reqctx):
		return v + "/unevaluable-tuple-with-evaluable-sibling"
	case v == "V4-spurious-failure" && unevaluableUnreached(w, o, r, reqctx):
		return v + "/unevaluable-condition-on-unreached-tuple"
	}
	return v
}

func c01Models(o *core.Options) []*ref.Model {
	all := e2.ValidModels(ref.Family(ref.FamilyOpts{Conds: true, Deep: o.Thorough()}))
	if o.Thorough() {
		return ref.Representatives(all, 4, o.Seed)
	}
	return ref.Representatives(all, 1, o.Seed)
}

func C01(o *core.Options) int {
	r := core.NewReport(o, "exploration",
		"every model of the bounded family (one per r0-signature class in quick) x every tuple subset of size<=K of the model's pool x 5 subjects x request contexts {none,x=1,x=20} x every (object,relation); Server.Check vs independent 3-valued least-fixpoint reference; non-trivial = reference value T or E; distinct by (model,tuples,subject,context,object,relation)")
	r.Assume("memory datastore", "planner strategy is the server's own (random) choice here; every assignment is forced in C02",
		"universe 2 users/2 groups/2 docs; rewrites of depth<=1 (2 in thorough); one condition cx(x:int):=x<10")
	if o.Replay != "" {
		return replayCheck(o, r)
	}
	models := c01Models(o)
	k := 2
	opts := e2.SweepOpts{K: k, ServerOpts: []server.OpenFGAServiceV1Option{server.WithRequestTimeout(0)}}
	r.Set("models_in_family", len(models))
	r.Set("max_tuples", k)
	nodes := RequestNodes(ref.DefaultUniverse())
	run := func(env *e2.Env, w *ref.World) {
		for _, rc := range ReqContexts(w) {
			for _, sub := range Subjects {
				for _, n := range nodes {
					if !e2.ValidRequest(w.M, n.Obj, n.Rel, sub) {
						continue
					}
					strong, weak := w.Holds(n.Obj, n.Rel, sub, rc)
					got := env.Check(n.Obj, n.Rel, sub, rc, nil)
					r.Eval(1)
					if strong != ref.F || weak != ref.F {
						r.Nontrivial(core.Hash(w.M.String(), tuplesStr(w.Tuples), sub, ctxStr(rc), n.Obj, n.Rel))
					}
					v := Verdict(got.V, strong, weak)
					if v == "" {
						continue
					}
					// re-decide: the deviation must show again in 5 re-executions
					again := 0
					for i := 0; i < 5; i++ {
						if g := env.Check(n.Obj, n.Rel, sub, rc, nil); Verdict(g.V, strong, weak) == v {
							again++
						}
					}
					c := CheckCase{World: w, Obj: n.Obj, Rel: n.Rel, Subject: sub, ReqCtx: rc, Got: got.String() + " " + got.Msg, Strong: strong.String(), Weak: weak.String(), Seen: fmt.Sprintf("1+%d/5", again)}
					if again == 0 {
						r.Anomaly(c)
						continue
					}
					r.Violate(DecisionSignature(v, w, n.Obj, n.Rel, rc),
						fmt.Sprintf("Check(%s#%s@%s ctx=%s)=%s ref=%s/%s model{%s} tuples{%s}", n.Obj, n.Rel, sub, ctxStr(rc), got, strong, weak, w.M, tuplesStr(w.Tuples)), c)
				}
			}
		}
		if w.HasTupleCycle() {
			r.Count("worlds_with_tuple_cycle", 1)
		}
	}
	e2.Sweep(r, models, opts, func(env *e2.Env, w *ref.World) {
		if len(w.Tuples) == 0 {
			return
		}
		if len(w.Tuples) == 2 {
			r.Sample(map[string]any{"model": w.M.String(), "tuples": tuplesStr(w.Tuples)})
		}
		run(env, w)
	})
	// leftover tuples: one tuple invalid for M, plus |T|<=1
	lo := opts
	lo.K = 1
	lo.Leftover = true
	lm := ref.Representatives(models, 1, o.Seed)
	if !o.Thorough() && len(lm) > 40 {
		lm = lm[:40]
	}
	e2.Sweep(r, lm, lo, func(env *e2.Env, w *ref.World) {
		r.Count("worlds_with_leftover_tuple", 1)
		run(env, w)
	})
	return r.Finish()
}

func replayCheck(o *core.Options, r *core.Report) int {
	var c CheckCase
	if err := core.LoadReplay(o.Replay, &c); err != nil {
		fmt.Println("replay:", err)
		return 2
	}
	env, err := e2.NewEnv(c.World.M, server.WithRequestTimeout(0))
	if err != nil {
		fmt.Println("model rejected:", err)
		return 2
	}
	defer env.Close()
	pm, _ := env.WriteModel(ref.Permissive())
	env.ModelID, _ = env.WriteModel(c.World.M)
	for _, t := range c.World.Tuples {
		id := env.ModelID
		if !c.World.M.ValidTuple(t) {
			id = pm
		}
		if err := env.Write([]ref.Tuple{t}, id); err != nil {
			fmt.Println("write:", err)
			return 2
		}
	}
	if c.World.U == nil {
		c.World.U = ref.DefaultUniverse()
	}
	strong, weak := c.World.Holds(c.Obj, c.Rel, c.Subject, c.ReqCtx)
	for i := 0; i < 5; i++ {
		got := env.Check(c.Obj, c.Rel, c.Subject, c.ReqCtx, nil)
		r.Eval(1)
		v := Verdict(got.V, strong, weak)
		fmt.Printf("replay %d: Check=%s ref=%s/%s verdict=%q\n", i, got, strong, weak, v)
		if v != "" {
			r.Violate(DecisionSignature(v, c.World, c.Obj, c.Rel, c.ReqCtx), "replayed", c)
		}
	}
	return r.Finish()
}
