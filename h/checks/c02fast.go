package checks

import (
	"context"
	"errors"
	"fmt"
	"sort"
	"strings"
	"time"

	"github.com/openfga/openfga/internal/check"
	"github.com/openfga/openfga/internal/graph"
	"github.com/openfga/openfga/internal/iterator"
	"github.com/openfga/openfga/internal/verifh/core"
	"github.com/openfga/openfga/pkg/storage"
)

// The weight-2 strategy of the default engine evaluates union / intersection / exclusion of object-id
// streams with merge algorithms over batches (internal/graph/weight_two_resolver.go). The worlds of the
// C02 sweep hold two objects; the batch logic (flush above 100 ids, several source messages per stream,
// drain of the base after the subtrahend ended) needs hundreds. This part enumerates the stream shapes
// directly at that seam: every combination of the size / membership / chunking patterns below, fed the
// way fastPathOperationSetup feeds them, read eagerly and lazily, against plain set algebra.

type fpStream struct {
	Pattern string `json:"pattern"` // which ids of the universe the stream holds
	Chunk   string `json:"chunk"`   // how they are cut into source messages
	ErrAt   int    `json:"err_at"`  // -1, or: the k-th source message is an error
}

type fpCase struct {
	Engine  string     `json:"engine,omitempty"` // "" = default engine's weight-2 fast paths; "v2" = weighted-graph engine's bottom-up resolvers
	Op      string     `json:"op"`
	Inner   string     `json:"inner,omitempty"` // nested: Op(Inner(s0,s1), s2)
	N       int        `json:"n"`
	Streams []fpStream `json:"streams"`
	Lazy    bool       `json:"lazy"`      // the consumer reads the iterators only after the output channel closed
	Prefill bool       `json:"prefilled"` // sources are filled and closed before the operation starts
}

func (c fpCase) String() string {
	var ss []string
	for _, s := range c.Streams {
		e := ""
		if s.ErrAt >= 0 {
			e = fmt.Sprintf("!err@%d", s.ErrAt)
		}
		ss = append(ss, s.Pattern+"/"+s.Chunk+e)
	}
	op := c.Op
	if c.Inner != "" {
		op = c.Op + "(" + c.Inner + "(s0,s1),s2)"
	}
	if c.Engine != "" {
		op = c.Engine + ":" + op
	}
	return fmt.Sprintf("%s N=%d [%s] lazy=%v prefilled=%v", op, c.N, strings.Join(ss, " "), c.Lazy, c.Prefill)
}

var errFpInjected = errors.New("injected source error")

func fpID(i int) string { return fmt.Sprintf("doc:%04d", i) }

func fpMembers(pattern string, n int) []int {
	var out []int
	for i := 0; i < n; i++ {
		in := false
		switch pattern {
		case "all":
			in = true
		case "none":
		case "evens":
			in = i%2 == 0
		case "odds":
			in = i%2 == 1
		case "first":
			in = i == 0
		case "last":
			in = i == n-1
		case "low-half":
			in = i < n/2
		case "high-half":
			in = i >= n/2
		case "all-but-last":
			in = i != n-1
		case "all-but-first":
			in = i != 0
		case "thirds":
			in = i%3 == 0
		}
		if in {
			out = append(out, i)
		}
	}
	return out
}

// fpChunks cuts ids into the item lists of the source messages (an empty list = an empty iterator).
func fpChunks(chunk string, ids []int) [][]int {
	cut := func(size int) [][]int {
		var out [][]int
		for i := 0; i < len(ids); i += size {
			j := i + size
			if j > len(ids) {
				j = len(ids)
			}
			out = append(out, ids[i:j])
		}
		return out
	}
	switch chunk {
	case "whole":
		return [][]int{ids}
	case "ones":
		return cut(1)
	case "50s":
		return cut(50)
	case "101s":
		return cut(101)
	case "1+rest":
		if len(ids) < 2 {
			return [][]int{ids}
		}
		return [][]int{ids[:1], ids[1:]}
	case "rest+1":
		if len(ids) < 2 {
			return [][]int{ids}
		}
		return [][]int{ids[:len(ids)-1], ids[len(ids)-1:]}
	case "empties":
		// empty iterators before, between and after
		out := [][]int{{}}
		for _, c := range cut(60) {
			out = append(out, c, []int{})
		}
		return out
	case "no-message":
		if len(ids) == 0 {
			return nil // the source closes without any message
		}
		return [][]int{ids}
	}
	panic("chunk " + chunk)
}

func fpSet(ids []int) map[int]bool {
	m := map[int]bool{}
	for _, i := range ids {
		m[i] = true
	}
	return m
}

func fpApply(op string, sets []map[int]bool, n int) []int {
	var out []int
	for i := 0; i < n; i++ {
		var in bool
		switch op {
		case "union":
			for _, s := range sets {
				in = in || s[i]
			}
		case "intersection":
			in = true
			for _, s := range sets {
				in = in && s[i]
			}
		default:
			in = sets[0][i] && !sets[1][i]
		}
		if in {
			out = append(out, i)
		}
	}
	return out
}

// fpExpected: the result; with an injected error also the result under the other extreme continuation
// of the failing stream (everything after the last id it delivered). When the two agree the operation
// may finish without reporting the error (it never needed the rest of that stream).
func fpExpected(c fpCase) (exp []int, determined bool, hasErr bool) {
	eval := func(extreme bool) []int {
		var sets []map[int]bool
		for _, s := range c.Streams {
			ids := fpMembers(s.Pattern, c.N)
			if s.ErrAt >= 0 {
				hasErr = true
				var kept []int
				for k, ch := range fpChunks(s.Chunk, ids) {
					if k >= s.ErrAt {
						break
					}
					kept = append(kept, ch...)
				}
				if extreme {
					last := -1
					if len(kept) > 0 {
						last = kept[len(kept)-1]
					}
					for i := last + 1; i < c.N; i++ {
						kept = append(kept, i)
					}
				}
				ids = kept
			}
			sets = append(sets, fpSet(ids))
		}
		if c.Inner != "" {
			in := fpSet(fpApply(c.Inner, sets[:2], c.N))
			return fpApply(c.Op, []map[int]bool{in, sets[2]}, c.N)
		}
		return fpApply(c.Op, sets, c.N)
	}
	a := eval(false)
	if !hasErr {
		return a, true, false
	}
	b := eval(true)
	return a, fmt.Sprint(a) == fmt.Sprint(b), true
}

type fpResult struct {
	Items    []string
	Errs     []string
	TimedOut bool
}

func fpRun(c fpCase) fpResult {
	ctx, cancel := context.WithTimeout(context.Background(), 20*time.Second)
	defer cancel()
	var sources []chan *iterator.Msg
	for _, s := range c.Streams {
		chunks := fpChunks(s.Chunk, fpMembers(s.Pattern, c.N))
		var msgs []*iterator.Msg
		for k, ch := range chunks {
			if k == s.ErrAt {
				msgs = append(msgs, &iterator.Msg{Err: errFpInjected})
				break
			}
			items := make([]string, len(ch))
			for i, id := range ch {
				items[i] = fpID(id)
			}
			msgs = append(msgs, &iterator.Msg{Iter: storage.NewStaticIterator[string](items)})
		}
		if s.ErrAt >= len(chunks) {
			msgs = append(msgs, &iterator.Msg{Err: errFpInjected})
		}
		var src chan *iterator.Msg
		if c.Prefill {
			src = make(chan *iterator.Msg, len(msgs)+1)
			for _, m := range msgs {
				src <- m
			}
			close(src)
		} else {
			src = make(chan *iterator.Msg)
			go func() {
				defer close(src)
				for _, m := range msgs {
					select {
					case src <- m:
					case <-ctx.Done():
						return
					}
				}
			}()
		}
		sources = append(sources, src)
	}
	run := graph.VerifFastPath
	if c.Engine == "v2" {
		run = check.VerifBottomUp
	}
	var out chan *iterator.Msg
	if c.Inner != "" {
		inner := run(ctx, c.Inner, sources[:2])
		out = run(ctx, c.Op, []chan *iterator.Msg{inner, sources[2]})
	} else {
		out = run(ctx, c.Op, sources)
	}
	var res fpResult
	read := func(m *iterator.Msg) {
		if m.Err != nil {
			res.Errs = append(res.Errs, m.Err.Error())
			return
		}
		for {
			t, err := m.Iter.Next(ctx)
			if err != nil {
				m.Iter.Stop()
				if !storage.IterIsDoneOrCancelled(err) {
					res.Errs = append(res.Errs, err.Error())
				}
				return
			}
			res.Items = append(res.Items, t)
		}
	}
	var held []*iterator.Msg
	for {
		select {
		case m, ok := <-out:
			if !ok {
				for _, h := range held {
					read(h)
				}
				return res
			}
			if c.Lazy {
				held = append(held, m)
			} else {
				read(m)
			}
		case <-ctx.Done():
			res.TimedOut = true
			return res
		}
	}
}

func fpJudge(c fpCase, res fpResult) (string, string) {
	sig, desc := fpJudge0(c, res)
	if sig != "" && c.Engine != "" {
		sig = strings.Replace(sig, "fastpath-", "bottomup-", 1)
	}
	return sig, desc
}

func fpJudge0(c fpCase, res fpResult) (string, string) {
	if res.TimedOut {
		return "fastpath-output-never-closes/" + c.Op, "the output channel was not closed within 20 s"
	}
	exp, determined, hasErr := fpExpected(c)
	want := make([]string, len(exp))
	for i, id := range exp {
		want[i] = fpID(id)
	}
	if !hasErr && len(res.Errs) > 0 {
		return "fastpath-spurious-error/" + c.Op, "error message without any source error: " + res.Errs[0]
	}
	if !sort.StringsAreSorted(res.Items) {
		return "fastpath-output-not-sorted/" + c.Op, "the ids of the output are not in ascending order (an enclosing operation merges them as sorted)"
	}
	for i := 1; i < len(res.Items); i++ {
		if res.Items[i] == res.Items[i-1] {
			return "fastpath-duplicate-id/" + c.Op, "id " + res.Items[i] + " is in the output twice"
		}
	}
	if len(res.Errs) > 0 {
		// failure reported: what was delivered before must still be sound under every continuation; with
		// the extreme continuations {nothing, everything} soundness w.r.t. union of both results
		return "", ""
	}
	if hasErr && !determined {
		return "fastpath-source-error-swallowed/" + c.Op, fmt.Sprintf("a source stream failed, the result depends on the rest of that stream, and the output ends without an error (%d ids delivered)", len(res.Items))
	}
	if strings.Join(res.Items, ",") != strings.Join(want, ",") {
		miss, extra := fpDiff(want, res.Items)
		return "fastpath-wrong-result/" + c.Op, fmt.Sprintf("got %d ids, want %d; missing %v unexpected %v", len(res.Items), len(want), miss, extra)
	}
	return "", ""
}

func fpDiff(want, got []string) (miss, extra []string) {
	w, g := map[string]bool{}, map[string]bool{}
	for _, x := range want {
		w[x] = true
	}
	for _, x := range got {
		g[x] = true
	}
	for _, x := range want {
		if !g[x] && len(miss) < 5 {
			miss = append(miss, x)
		}
	}
	for _, x := range got {
		if !w[x] && len(extra) < 5 {
			extra = append(extra, x)
		}
	}
	return
}

func fpCases(thorough bool) []fpCase {
	sizes := []int{0, 1, 3, 101, 102, 203}
	patterns := []string{"all", "none", "evens", "odds", "first", "last", "low-half", "high-half"}
	chunks := []string{"whole", "ones", "101s", "rest+1", "empties"}
	if thorough {
		sizes = []int{0, 1, 2, 3, 100, 101, 102, 150, 201, 202, 203, 305}
		patterns = append(patterns, "all-but-last", "all-but-first", "thirds")
		chunks = append(chunks, "50s", "1+rest", "no-message")
	}
	var out []fpCase
	modes := [][2]bool{{false, false}, {false, true}, {true, false}, {true, true}}
	for _, op := range []string{"union", "intersection", "difference"} {
		for _, n := range sizes {
			for _, p0 := range patterns {
				for _, p1 := range patterns {
					for _, c0 := range chunks {
						for _, c1 := range chunks {
							for _, m := range modes {
								out = append(out, fpCase{Op: op, N: n, Lazy: m[0], Prefill: m[1], Streams: []fpStream{{p0, c0, -1}, {p1, c1, -1}}})
							}
						}
					}
				}
			}
		}
	}
	// three streams and nested operations on a reduced alphabet
	p3 := []string{"all", "evens", "low-half", "last"}
	c3 := []string{"whole", "101s", "empties"}
	n3 := []int{3, 102, 203}
	if thorough {
		p3 = []string{"all", "none", "evens", "odds", "low-half", "high-half", "last"}
		n3 = []int{1, 3, 101, 102, 203, 305}
	}
	for _, n := range n3 {
		for _, pa := range p3 {
			for _, pb := range p3 {
				for _, pc := range p3 {
					for _, ch := range c3 {
						st := []fpStream{{pa, ch, -1}, {pb, "whole", -1}, {pc, ch, -1}}
						for _, lazy := range []bool{false, true} {
							for _, op := range []string{"union", "intersection"} {
								out = append(out, fpCase{Op: op, N: n, Lazy: lazy, Prefill: true, Streams: st})
							}
							for _, op := range []string{"union", "intersection", "difference"} {
								for _, in := range []string{"union", "intersection", "difference"} {
									out = append(out, fpCase{Op: op, Inner: in, N: n, Lazy: lazy, Prefill: false, Streams: st})
								}
							}
						}
					}
				}
			}
		}
	}
	// one failing source message at every position
	for _, op := range []string{"union", "intersection", "difference"} {
		for _, n := range []int{3, 102, 203} {
			for _, p0 := range []string{"all", "evens", "low-half", "none"} {
				for _, p1 := range []string{"all", "odds", "high-half", "none"} {
					for _, ch := range []string{"whole", "101s", "ones"} {
						if ch == "ones" && n > 3 {
							continue
						}
						for which := 0; which < 2; which++ {
							nm := len(fpChunks(ch, fpMembers([]string{p0, p1}[which], n)))
							for k := 0; k <= nm; k++ {
								st := []fpStream{{p0, ch, -1}, {p1, ch, -1}}
								st[which].ErrAt = k
								for _, lazy := range []bool{false, true} {
									out = append(out, fpCase{Op: op, N: n, Lazy: lazy, Prefill: true, Streams: st})
								}
							}
						}
					}
				}
			}
		}
	}
	return out
}

// c02FastPaths is part of C02: the weight-2 strategy's stream algebra against the set algebra that the
// default strategy computes tuple by tuple.
func c02FastPaths(o *core.Options, r *core.Report) { streamAlgebra(o, r, "") }

// c03BottomUp is part of C03: the same enumeration on the weighted-graph engine's bottom-up resolvers.
func c03BottomUp(o *core.Options, r *core.Report) { streamAlgebra(o, r, "v2") }

func streamAlgebra(o *core.Options, r *core.Report, engine string) {
	cases := fpCases(o.Thorough())
	for i := range cases {
		cases[i].Engine = engine
	}
	r.Set("fastpath_stream_cases", len(cases))
	r.Parallel(len(cases), func(i int) {
		if r.Expired() {
			return
		}
		c := cases[i]
		res := fpRun(c)
		r.Eval(1)
		exp, _, _ := fpExpected(c)
		if len(exp) > 0 {
			r.Nontrivial(core.Hash("fastpath", c.String()))
		}
		sig, desc := fpJudge(c, res)
		if sig == "" {
			return
		}
		again := 0
		for k := 0; k < 5; k++ {
			if s2, _ := fpJudge(c, fpRun(c)); s2 == sig {
				again++
			}
		}
		if again == 0 {
			r.Anomaly(map[string]any{"signature": sig, "case": c, "desc": desc})
			return
		}
		r.Violate(sig, fmt.Sprintf("%s: %s (seen 1+%d/5)", c, desc, again), map[string]any{"fastpath_case": c})
	})
}
