package checks

import (
	"bytes"
	"encoding/json"
	"os"
	"os/exec"

	"github.com/openfga/openfga/internal/verifh/core"
	"github.com/openfga/openfga/internal/verifh/e1"
)

// c02Reducers runs the scheduler-based exploration of the set-operation reducers (binary "red": an
// instrumented build of internal/graph, internal/concurrency and sourcegraph/conc) and merges its
// summary: the schedule-quantified part of C02.
func c02Reducers(o *core.Options, r *core.Report) {
	bin := core.BinDir() + "/red"
	if _, err := os.Stat(bin); err != nil {
		r.Violate("harness-reducer-binary-missing", "the instrumented reducer harness was not built: "+err.Error(), nil)
		return
	}
	cmd := exec.Command(bin, "C02", o.Tier)
	cmd.Env = os.Environ()
	out, err := cmd.Output()
	var sub struct {
		Scenarios  int       `json:"scenarios"`
		Execs      int64     `json:"schedules_complete"`
		Pruned     int64     `json:"schedules_pruned"`
		MinBound   int       `json:"min_preemption_bound_completed"`
		Capped     []string  `json:"capped"`
		Nontrivial []uint64  `json:"nontrivial"`
		Viols      []e1.Viol `json:"viols"`
	}
	found := false
	for _, line := range bytes.Split(out, []byte("\n")) {
		if bytes.HasPrefix(line, []byte("SUBREPORT ")) {
			found = json.Unmarshal(line[len("SUBREPORT "):], &sub) == nil
		}
	}
	if !found {
		r.Violate("harness-worker-crashed", "reducer harness produced no report: "+errString(err), nil)
		return
	}
	r.Eval(sub.Execs)
	for _, k := range sub.Nontrivial {
		r.Nontrivial(k)
	}
	r.Set("reducer_interleavings", map[string]any{"scenarios": sub.Scenarios, "schedules_complete": sub.Execs, "schedules_pruned_at_expanded_state": sub.Pruned,
		"min_preemption_bound_completed": sub.MinBound, "capped": sub.Capped,
		"what": "union/intersection/exclusion of internal/graph/check.go with scripted operands {T,F,F+cycle,error,panic,blocks-until-cancelled}, every interleaving (99 = unbounded search completed) against the strong-Kleene table; no goroutine left behind"})
	if len(sub.Capped) > 0 {
		r.NotExhaustive("reducer scenarios capped: " + sub.Capped[0])
	}
	for _, v := range sub.Viols {
		r.Violate(v.Signature, v.Desc, v)
	}
}

func errString(err error) string {
	if err == nil {
		return "no error"
	}
	return err.Error()
}
