package checks

import (
	"bytes"
	"encoding/json"
	"fmt"
	"os"
	"os/exec"

	"github.com/openfga/openfga/internal/verifh/core"
	"github.com/openfga/openfga/internal/verifh/e1"
)

// c11ClockControlled runs the component-level, clock-controlled part of C11 (binary "cctl": instrumented build
// of internal/cachecontroller, internal/graph, internal/concurrency, pkg/storage/storagewrappers, x/sync/singleflight and sourcegraph/conc with
// time and the controller's context timeout on a harness clock, see h/cctl) and merges its summary: what the
// Server-API histories above cannot decide on the real clock (clock advances, TTL expiry, the iterator-TTL
// window, the minimum invalidation interval, runs overlapping with requests and writes).
func c11ClockControlled(o *core.Options, r *core.Report) {
	bin := core.BinDir() + "/cctl"
	if _, err := os.Stat(bin); err != nil {
		r.Violate("harness-sub-binary-missing/cctl", "the instrumented cache-controller harness was not built: "+err.Error(), nil)
		return
	}
	cmd := exec.Command(bin, "C11", o.Tier)
	cmd.Env = os.Environ()
	out, err := cmd.Output()
	var sub struct {
		Histories   []json.RawMessage `json:"histories"`
		States      int64             `json:"states"`
		Transitions int64             `json:"transitions"`
		Scenarios   int               `json:"scenarios"`
		Execs       int64             `json:"schedules_complete"`
		Pruned      int64             `json:"schedules_pruned"`
		MinBound    int               `json:"min_preemption_bound_completed"`
		Unbounded   int               `json:"scenarios_completed_unbounded"`
		Capped      []string          `json:"capped"`
		BestEffort  int               `json:"scenarios_whose_unbounded_search_was_cut"`
		Nontrivial  []uint64          `json:"nontrivial"`
		Outcomes    int               `json:"distinct_outcomes"`
		Viols       []e1.Viol         `json:"viols"`
		PerScenario []string          `json:"per_scenario"`
	}
	found := false
	for _, line := range bytes.Split(out, []byte("\n")) {
		if bytes.HasPrefix(line, []byte("SUBREPORT ")) {
			found = json.Unmarshal(line[len("SUBREPORT "):], &sub) == nil
		}
	}
	if !found {
		r.Violate("harness-worker-crashed/cctl", "cache-controller harness produced no report: "+errString(err), nil)
		return
	}
	r.Eval(sub.Execs + sub.Transitions)
	for _, k := range sub.Nontrivial {
		r.Nontrivial(k)
	}
	r.Set("clock_controlled_component_level", map[string]any{
		"histories":                          sub.Histories,
		"history_states":                     sub.States,
		"history_transitions":                sub.Transitions,
		"interleaving_scenarios":             sub.Scenarios,
		"schedules_complete":                 sub.Execs,
		"schedules_pruned_at_expanded_state": sub.Pruned,
		"min_preemption_bound_completed":     sub.MinBound,
		"scenarios_completed_unbounded":      sub.Unbounded,
		"scenarios_whose_unbounded_search_was_cut_by_the_budget": sub.BestEffort,
		"capped": sub.Capped, "distinct_outcomes": sub.Outcomes, "per_scenario": sub.PerScenario,
		"what": "ONE cachecontroller.InMemoryCacheController and ONE storagewrappers.CachedDatastore (real code, instrumented) over a harness-owned cache with TTLs on a harness clock (an entry is gone once clock >= set time + ttl), a stub datastore (tuple list; changelog stamped with the harness clock; ReadChanges newest first with the caller's page size, one bulk write fills a page) and a harness clock that also carries the controller's 1 s context timeout; controller interval 10 s, iterator TTL 30 s, query TTL 60 s. (1) HISTORIES: breadth-first search over all sequences of {write/delete of 2 tuples, bulk write of one changelog page, cached Read / ReadUsersetTuples / ReadStartingWithUser consumed to the end, Check through the REAL graph.CachedCheckResolver (instrumented internal/graph over the harness cache, scripted delegate answering from the stub store, request carrying DetermineInvalidationTime's answer), trigger = DetermineInvalidationTime or InvalidateIfNeeded + the spawned run to completion (thorough: also a changelog read that exceeds the timeout / fails), clock advance just below / just above each of the three thresholds} up to the depth bound, states deduplicated by a canonical form with times relative to now (soundness argument in h/cctl/hist.go and canon.go; cross-checked against a conservative form and against full replays); after every event: once a run that started after the last write has completed, a cached read returns exactly the store's tuples for its key and a cached Check answers what the store holds, and no read or Check ever returns content its key never held; configurations: controller + iterator cache, controller + query cache, each also with 10 % TTL jitter at its maximal draw. (2) INTERLEAVINGS: writer, cached reader (inner iterators that query at open as the memory backend does, or at the first Next as the SQL backends do), triggers, clock advances and the goroutines the code spawns (the run, its changelog read, the cached datastore's background flush) under the scheduler, preemption bounds 0,1,2 required, unbounded best effort, state-key pruning; per interleaving: no deadlock / panic / goroutine or in-flight entry left, reads return content the key held, and after quiescence (with a qualifying run, and again after one more run) fresh reads equal the store",
	})
	if len(sub.Capped) > 0 {
		r.NotExhaustive(fmt.Sprintf("clock-controlled C11 searches capped inside a required bound (%d): %s", len(sub.Capped), sub.Capped[0]))
	}
	for _, v := range sub.Viols {
		r.Violate(v.Signature, v.Desc, v)
	}
}
