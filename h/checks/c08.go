package checks

import (
	"context"
	"fmt"
	"sort"
	"strings"
	"time"

	openfgav1 "github.com/openfga/api/proto/openfga/v1"

	"github.com/openfga/openfga/internal/check"
	"github.com/openfga/openfga/internal/graph"
	"github.com/openfga/openfga/internal/verifh/cachex"
	"github.com/openfga/openfga/internal/verifh/core"
	"github.com/openfga/openfga/internal/verifh/e2"
	"github.com/openfga/openfga/internal/verifh/ref"
	"github.com/openfga/openfga/pkg/server"
	"github.com/openfga/openfga/pkg/storage"
)

func init() { Registry["C08"] = C08 }

// renderCacheValue drops timestamps: the property can only observe the cached decision / tuples.
func renderCacheValue(_ string, v any) string {
	switch e := v.(type) {
	case *graph.CheckResponseCacheEntry:
		return fmt.Sprintf("v1:%v", e.CheckResponse.GetAllowed())
	case *check.ResponseCacheEntry:
		return fmt.Sprintf("v2:%v", e.Res.GetAllowed())
	case *storage.TupleIteratorCacheEntry:
		var s []string
		for _, t := range e.Tuples {
			s = append(s, t.ObjectType+":"+t.ObjectID+"#"+t.Relation+"@"+t.User)
		}
		return "it:" + strings.Join(s, ",")
	}
	return fmt.Sprintf("%T", v)
}

type cacheReq struct {
	Kind string   `json:"kind"` // check | batch | listobjects
	Objs []string `json:"objs,omitempty"`
	Rel  string   `json:"rel"`
	Sub  string   `json:"sub"`
}

func (q cacheReq) String() string { return fmt.Sprintf("%s(%v#%s@%s)", q.Kind, q.Objs, q.Rel, q.Sub) }

func runCacheReq(env *e2.Env, q cacheReq) string {
	switch q.Kind {
	case "check":
		return env.Check(q.Objs[0], q.Rel, q.Sub, nil, nil).V
	case "batch":
		req := &openfgav1.BatchCheckRequest{StoreId: env.StoreID, AuthorizationModelId: env.ModelID}
		for i, o := range q.Objs {
			req.Checks = append(req.Checks, &openfgav1.BatchCheckItem{CorrelationId: fmt.Sprintf("c%d", i), TupleKey: &openfgav1.CheckRequestTupleKey{Object: o, Relation: q.Rel, User: q.Sub}})
		}
		resp, err := env.S.BatchCheck(context.Background(), req)
		if err != nil {
			return "ERR"
		}
		var out []string
		for i := range q.Objs {
			r := resp.GetResult()[fmt.Sprintf("c%d", i)]
			switch {
			case r == nil:
				out = append(out, "missing")
			case r.GetError() != nil:
				out = append(out, "ERR")
			case r.GetAllowed():
				out = append(out, "T")
			default:
				out = append(out, "F")
			}
		}
		return strings.Join(out, ",")
	case "listobjects":
		got, err := env.ListObjects(ref.TypeOf(q.Objs[0]), q.Rel, q.Sub, nil, nil)
		if err != nil {
			return "ERR"
		}
		return fmt.Sprint(e2.SortedCopy(got))
	}
	return "?"
}

// refAnswer is the reference answer of a request in the same rendering.
func refAnswer(w *ref.World, q cacheReq) string {
	one := func(o string) string {
		s, _ := w.Holds(o, q.Rel, q.Sub, nil)
		return s.String()
	}
	switch q.Kind {
	case "check":
		return one(q.Objs[0])
	case "batch":
		var out []string
		for _, o := range q.Objs {
			out = append(out, one(o))
		}
		return strings.Join(out, ",")
	case "listobjects":
		var out []string
		for _, o := range w.U[ref.TypeOf(q.Objs[0])] {
			if one(o) == "T" {
				out = append(out, o)
			}
		}
		sort.Strings(out)
		if out == nil {
			return "[]"
		}
		return fmt.Sprint(out)
	}
	return "?"
}

type cacheWorld struct {
	Name   string
	M      *ref.Model
	Pool   []ref.Tuple
	Reqs   []cacheReq
	U      ref.Universe
	MaxSet int
}

func cycleRichWorlds(thorough bool) []cacheWorld {
	ms := map[string]*ref.Model{
		"two-rel-cycle": {Types: map[string]map[string]*ref.RelDef{"user": {}, "doc": {"r0": {Rewrite: ref.This(), Restr: []ref.Restr{{Type: "user"}, {Type: "doc", Rel: "r1"}}}, "r1": {Rewrite: ref.This(), Restr: []ref.Restr{{Type: "user"}, {Type: "doc", Rel: "r0"}}}}}},
		"rec-userset":   {Types: map[string]map[string]*ref.RelDef{"user": {}, "group": {"member": {Rewrite: ref.This(), Restr: []ref.Restr{{Type: "user"}, {Type: "group", Rel: "member"}}}}}},
		"rec-ttu":       {Types: map[string]map[string]*ref.RelDef{"user": {}, "doc": {"parent": {Rewrite: ref.This(), Restr: []ref.Restr{{Type: "doc"}}}, "r0": {Rewrite: ref.Bin(ref.KUnion, ref.This(), ref.TTU("parent", "r0")), Restr: []ref.Restr{{Type: "user"}}}}}},
	}
	var out []cacheWorld
	{
		u := ref.Universe{"user": {"user:a"}, "doc": {"doc:1", "doc:2"}}
		w := cacheWorld{Name: "two-rel-cycle", M: ms["two-rel-cycle"], U: u, MaxSet: 5}
		for _, o := range u["doc"] {
			for _, o2 := range u["doc"] {
				w.Pool = append(w.Pool, ref.Tuple{Obj: o, Rel: "r0", User: o2 + "#r1"}, ref.Tuple{Obj: o, Rel: "r1", User: o2 + "#r0"})
			}
			w.Pool = append(w.Pool, ref.Tuple{Obj: o, Rel: "r0", User: "user:a"}, ref.Tuple{Obj: o, Rel: "r1", User: "user:a"})
		}
		for _, o := range u["doc"] {
			w.Reqs = append(w.Reqs, cacheReq{Kind: "check", Objs: []string{o}, Rel: "r0", Sub: "user:a"}, cacheReq{Kind: "check", Objs: []string{o}, Rel: "r1", Sub: "user:a"})
		}
		w.Reqs = append(w.Reqs, cacheReq{Kind: "listobjects", Objs: []string{"doc:1"}, Rel: "r0", Sub: "user:a"}, cacheReq{Kind: "batch", Objs: []string{"doc:1", "doc:2"}, Rel: "r1", Sub: "user:a"})
		out = append(out, w)
	}
	{
		u := ref.Universe{"user": {"user:a"}, "group": {"group:1", "group:2", "group:3"}}
		w := cacheWorld{Name: "rec-userset", M: ms["rec-userset"], U: u, MaxSet: 4}
		for _, o := range u["group"] {
			for _, o2 := range u["group"] {
				if o != o2 {
					w.Pool = append(w.Pool, ref.Tuple{Obj: o, Rel: "member", User: o2 + "#member"})
				}
			}
			w.Pool = append(w.Pool, ref.Tuple{Obj: o, Rel: "member", User: "user:a"})
			w.Reqs = append(w.Reqs, cacheReq{Kind: "check", Objs: []string{o}, Rel: "member", Sub: "user:a"})
		}
		w.Reqs = append(w.Reqs, cacheReq{Kind: "listobjects", Objs: []string{"group:1"}, Rel: "member", Sub: "user:a"})
		out = append(out, w)
	}
	{
		u := ref.Universe{"user": {"user:a"}, "doc": {"doc:1", "doc:2", "doc:3"}}
		w := cacheWorld{Name: "rec-ttu", M: ms["rec-ttu"], U: u, MaxSet: 4}
		for _, o := range u["doc"] {
			for _, o2 := range u["doc"] {
				if o != o2 {
					w.Pool = append(w.Pool, ref.Tuple{Obj: o, Rel: "parent", User: o2})
				}
			}
			w.Pool = append(w.Pool, ref.Tuple{Obj: o, Rel: "r0", User: "user:a"})
			w.Reqs = append(w.Reqs, cacheReq{Kind: "check", Objs: []string{o}, Rel: "r0", Sub: "user:a"})
		}
		w.Reqs = append(w.Reqs, cacheReq{Kind: "listobjects", Objs: []string{"doc:1"}, Rel: "r0", Sub: "user:a"})
		out = append(out, w)
	}
	if !thorough {
		out[1].MaxSet, out[2].MaxSet = 3, 3
	}
	return out
}

// orders enumerates the insertion orders that differ in the relative order of tuples sharing an
// (object, relation): only that order is observable in a read result.
func insertionOrders(ts []ref.Tuple, fn func([]ref.Tuple)) {
	groups := map[string][]int{}
	var gk []string
	for i, t := range ts {
		k := t.Obj + "#" + t.Rel
		if _, ok := groups[k]; !ok {
			gk = append(gk, k)
		}
		groups[k] = append(groups[k], i)
	}
	cur := make([]ref.Tuple, 0, len(ts))
	var rec func(gi int)
	var perm func(idx []int, k int, then func())
	perm = func(idx []int, k int, then func()) {
		if k == len(idx) {
			then()
			return
		}
		for i := k; i < len(idx); i++ {
			idx[k], idx[i] = idx[i], idx[k]
			perm(idx, k+1, then)
			idx[k], idx[i] = idx[i], idx[k]
		}
	}
	rec = func(gi int) {
		if gi == len(gk) {
			fn(append([]ref.Tuple{}, cur...))
			return
		}
		idx := append([]int{}, groups[gk[gi]]...)
		perm(idx, 0, func() {
			n := len(cur)
			for _, i := range idx {
				cur = append(cur, ts[i])
			}
			rec(gi + 1)
			cur = cur[:n]
		})
	}
	rec(0)
}

type cacheCfg struct {
	Name    string
	Breadth uint32
	V2      bool
}

type cacheCase struct {
	World   string      `json:"world"`
	Config  string      `json:"config"`
	Tuples  []ref.Tuple `json:"tuples_in_insertion_order"`
	History []cacheReq  `json:"history"`
	Answer  string      `json:"cached_answer_of_last_request"`
	Uncache []string    `json:"uncached_answers"`
	Ref     string      `json:"reference"`
}

func C08(o *core.Options) int {
	r := core.NewReport(o, "model_checking",
		"explicit-state BFS over request histories (Check on every node, a BatchCheck, a ListObjects) against a FIXED store with the Check query cache on; state = contents of the (harness-owned, map-backed) cache with timestamps dropped; successor = restore the cache state, execute one request on the real server; invariant on every transition: the answer is the reference answer or an answer the cache-less server gives; worlds = cycle-rich families (two-relation tuple cycle, recursive userset, recursive TTU), every tuple set up to the bound in every observable insertion order; default and weighted-graph engines, breadth limit {1, default}")
	r.Assume("the production cache (theine) honours Get/Set/Delete/TTL; eviction is not exercised here (no TTL expiry during a run)",
		"store contents fixed during a history; planner strategy is the server's own choice (a cached answer is accepted if ANY cache-less run gives it)")
	if o.Replay != "" {
		var probe struct {
			Q1 *itReq `json:"first_request"`
		}
		if err := core.LoadReplay(o.Replay, &probe); err == nil && probe.Q1 != nil {
			return faultReplay(o, r, queryCacheCfg)
		}
		fmt.Println("replay: re-run the check; the violating history is printed with the VIOLATION line (histories are <=3 requests)")
		return 2
	}
	cfgs := []cacheCfg{{"v1-breadth1", 1, false}, {"v1-default", 10, false}, {"v2-breadth1", 1, true}, {"v2-default", 10, true}}
	depth := 3
	if o.Thorough() {
		depth = 4
	}
	type job struct {
		w   cacheWorld
		cfg cacheCfg
		set []ref.Tuple
	}
	var jobs []job
	for _, w := range cycleRichWorlds(o.Thorough()) {
		ref.Subsets(w.Pool, w.MaxSet, func(ts []ref.Tuple) {
			if len(ts) < 2 {
				return
			}
			set := append([]ref.Tuple{}, ts...)
			for _, c := range cfgs {
				jobs = append(jobs, job{w, c, set})
			}
		})
	}
	r.Set("tuple_sets_x_configs", len(jobs))
	var states, transitions int64
	statesCh := make(chan [2]int64, 1024)
	done := make(chan struct{})
	go func() {
		for s := range statesCh {
			states += s[0]
			transitions += s[1]
		}
		close(done)
	}()
	r.Parallel(len(jobs), func(i int) {
		j := jobs[i]
		insertionOrders(j.set, func(order []ref.Tuple) {
			if r.Expired() {
				return
			}
			det := cachex.New()
			opts := []server.OpenFGAServiceV1Option{server.WithRequestTimeout(0), server.WithResolveNodeBreadthLimit(j.cfg.Breadth)}
			if j.cfg.V2 {
				opts = append(opts, server.WithExperimentals("weighted_graph_check"))
			}
			cached := append([]server.OpenFGAServiceV1Option{server.WithCheckQueryCacheEnabled(true), server.WithCheckQueryCacheTTL(time.Hour), server.WithCheckCache(det)}, opts...)
			env, err := e2.NewEnv(j.w.M, cached...)
			if err != nil {
				panic(err)
			}
			defer env.Close()
			plain := e2.NewServer(env.DS, opts...)
			defer plain.Close()
			penv := &e2.Env{S: plain, DS: env.DS, StoreID: env.StoreID, ModelID: env.ModelID, M: j.w.M}
			for _, t := range order { // one write per tuple: the insertion order is the storage order
				if err := env.Write([]ref.Tuple{t}, env.ModelID); err != nil {
					panic(err)
				}
			}
			w := &ref.World{M: j.w.M, Tuples: order, U: j.w.U}
			// cache-less answers (3 runs: planner strategies may differ) and reference answers
			unc := make([]map[string]bool, len(j.w.Reqs))
			refs := make([]string, len(j.w.Reqs))
			for qi, q := range j.w.Reqs {
				unc[qi] = map[string]bool{}
				for k := 0; k < 3; k++ {
					unc[qi][runCacheReq(penv, q)] = true
				}
				refs[qi] = refAnswer(w, q)
			}
			type node struct {
				snap cachex.Snapshot
				path []int
			}
			seen := map[uint64]bool{det.StateHash(renderCacheValue): true}
			frontier := []node{{det.Snapshot(), nil}}
			var st, tr int64 = 1, 0
			for d := 0; d < depth && len(frontier) > 0; d++ {
				var next []node
				for _, nd := range frontier {
					for qi, q := range j.w.Reqs {
						det.Restore(nd.snap)
						ans := runCacheReq(env, q)
						tr++
						if ans != refs[qi] && !unc[qi][ans] {
							// confirm: more cache-less runs must never give this answer
							for k := 0; k < 5; k++ {
								unc[qi][runCacheReq(penv, q)] = true
							}
						}
						if ans != refs[qi] && !unc[qi][ans] {
							var hist []cacheReq
							for _, pi := range append(append([]int{}, nd.path...), qi) {
								hist = append(hist, j.w.Reqs[pi])
							}
							var ul []string
							for a := range unc[qi] {
								ul = append(ul, a)
							}
							sort.Strings(ul)
							eng := "v1"
							if j.cfg.V2 {
								eng = "v2"
							}
							r.Violate("cached-answer-differs-from-uncached/"+eng+"/"+q.Kind,
								fmt.Sprintf("%s %s tuples(in order){%s} history=%v cached answer=%s uncached=%v reference=%s", j.w.Name, j.cfg.Name, e2.TuplesStr(order), hist, ans, ul, refs[qi]),
								cacheCase{World: j.w.Name, Config: j.cfg.Name, Tuples: order, History: hist, Answer: ans, Uncache: ul, Ref: refs[qi]})
						}
						h := det.StateHash(renderCacheValue)
						if !seen[h] {
							seen[h] = true
							st++
							next = append(next, node{det.Snapshot(), append(append([]int{}, nd.path...), qi)})
						}
					}
				}
				frontier = next
			}
			statesCh <- [2]int64{st, tr}
			r.Eval(tr)
			if st > 3 {
				r.Nontrivial(core.Hash(j.w.Name, j.cfg.Name, e2.TuplesStr(order)))
			}
			if len(order) == 3 {
				r.Sample(map[string]any{"world": j.w.Name, "config": j.cfg.Name, "tuples": e2.TuplesStr(order), "cache_states": st, "transitions": tr})
			}
		})
	})
	close(statesCh)
	<-done
	r.States, r.Transitions, r.Traces = states, transitions, transitions
	// faulted histories: <q1 cancelled / failing at the k-th datastore operation, q2> with the query cache on:
	// a failed or cancelled evaluation must not leave an entry that changes a later answer
	r.Assume("faulted histories <q1 with cancellation or a datastore error at the k-th datastore operation for every k, q2 undisturbed> over family worlds (every 30th class without conditions in quick, every 3rd in thorough), default and weighted-graph engines: q2 must answer like the reference or the cache-less server")
	faultSweep(o, r, queryCacheCfg, 30, 3)
	return r.Finish()
}
