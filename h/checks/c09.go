package checks

import (
	"context"
	"fmt"
	"sort"
	"time"

	openfgav1 "github.com/openfga/api/proto/openfga/v1"

	"github.com/openfga/openfga/internal/verifh/cachex"
	"github.com/openfga/openfga/internal/verifh/core"
	"github.com/openfga/openfga/internal/verifh/dsx"
	"github.com/openfga/openfga/internal/verifh/e2"
	"github.com/openfga/openfga/internal/verifh/ref"
	"github.com/openfga/openfga/pkg/server"
	"github.com/openfga/openfga/pkg/storage/memory"
)

func init() { Registry["C09"] = C09 }

type itReq struct {
	Kind string `json:"kind"` // check | listobjects
	Obj  string `json:"obj,omitempty"`
	Type string `json:"type,omitempty"`
	Rel  string `json:"rel"`
	Sub  string `json:"sub"`
}

func (q itReq) String() string {
	if q.Kind == "check" {
		return fmt.Sprintf("Check(%s#%s@%s)", q.Obj, q.Rel, q.Sub)
	}
	return fmt.Sprintf("ListObjects(%s#%s@%s)", q.Type, q.Rel, q.Sub)
}

func runItReq(ctx context.Context, env *e2.Env, q itReq) string {
	if q.Kind == "check" {
		resp, err := env.S.Check(ctx, &openfgav1.CheckRequest{StoreId: env.StoreID, AuthorizationModelId: env.ModelID, TupleKey: &openfgav1.CheckRequestTupleKey{Object: q.Obj, Relation: q.Rel, User: q.Sub}})
		if err != nil {
			return "ERR"
		}
		if resp.GetAllowed() {
			return "T"
		}
		return "F"
	}
	resp, err := env.S.ListObjects(ctx, &openfgav1.ListObjectsRequest{StoreId: env.StoreID, AuthorizationModelId: env.ModelID, Type: q.Type, Relation: q.Rel, User: q.Sub})
	if err != nil {
		return "ERR"
	}
	return fmt.Sprint(e2.SortedCopy(resp.GetObjects()))
}

func refItAnswer(w *ref.World, q itReq) string {
	if q.Kind == "check" {
		s, _ := w.Holds(q.Obj, q.Rel, q.Sub, nil)
		return s.String()
	}
	out := []string{}
	for _, o := range w.U[q.Type] {
		if s, _ := w.Holds(o, q.Rel, q.Sub, nil); s == ref.T {
			out = append(out, o)
		}
	}
	sort.Strings(out)
	return fmt.Sprint(out)
}

type itCase struct {
	World  *ref.World `json:"world"`
	Config string     `json:"config"`
	Q1     itReq      `json:"first_request"`
	Fault  string     `json:"fault"`
	K      int        `json:"at_operation"`
	Q2     itReq      `json:"second_request"`
	Got    string     `json:"answer_of_second_request"`
	Unc    []string   `json:"uncached_answers"`
	Ref    string     `json:"reference"`
}

// faultCfg names a cache configuration for the faulted-request sweep (C09: iterator caches + shared
// iterators; C08: the Check query cache).
type faultCfg struct {
	Tag  string // prefix of violation signatures ("" for C09)
	Opts func(det *cachex.Cache) []server.OpenFGAServiceV1Option
}

var iteratorCachesCfg = faultCfg{Tag: "", Opts: func(det *cachex.Cache) []server.OpenFGAServiceV1Option {
	return []server.OpenFGAServiceV1Option{server.WithCheckIteratorCacheEnabled(true), server.WithCheckIteratorCacheTTL(time.Hour),
		server.WithListObjectsIteratorCacheEnabled(true), server.WithListObjectsIteratorCacheTTL(time.Hour), server.WithSharedIteratorEnabled(true), server.WithCheckCache(det)}
}}

var queryCacheCfg = faultCfg{Tag: "query-cache/", Opts: func(det *cachex.Cache) []server.OpenFGAServiceV1Option {
	return []server.OpenFGAServiceV1Option{server.WithCheckQueryCacheEnabled(true), server.WithCheckQueryCacheTTL(time.Hour), server.WithCheckCache(det)}
}}

func C09(o *core.Options) int {
	r := core.NewReport(o, "fault_enumeration",
		"for every world (model family representatives without conditions x tuple subsets of size<=2) and every request pair <q1,q2> over Check (every node) and ListObjects: q1 runs on a server with the Check and ListObjects iterator caches and shared iterators on, with the request context CANCELLED at the k-th datastore operation (read call or iterator Next/Head) for EVERY k up to the number of operations the undisturbed q1 makes, and again with a non-cancellation ERROR injected at every k; the background drains are awaited; then every q2 runs undisturbed: its answer must be the reference answer or one the cache-less server gives (a partially read query result is never served as complete); non-trivial = (world,q1,k) triples whose fault was actually delivered")
	r.Assume("memory datastore behind a fault-injecting wrapper (h/dsx); harness-owned map cache (h/cachex) stands in for theine and is reset between (q1,k) runs; store contents fixed",
		"server-level runs use one Go-scheduler interleaving per run and await the drains before q2; the schedule-quantified part (cachedIterator Next/Stop/flush, background drain, singleflight, findInCache/isInvalidAt under every interleaving) is decided by the instrumented sub-harness citer (coverage.cached_iterator_interleavings); shared iterators under the scheduler: C23")
	if o.Replay != "" {
		if isCiter, code := c09ReplayCiter(o); isCiter {
			return code
		}
		var seam struct {
			Reader string `json:"reader"`
			Shape  string `json:"shape"`
		}
		if err := core.LoadReplay(o.Replay, &seam); err == nil && seam.Reader != "" && seam.Shape != "" {
			c09Seam(r) // a case of the iterator-cache seam: the whole (small) seam enumeration is re-run
			return r.Finish()
		}
		return faultReplay(o, r, iteratorCachesCfg)
	}
	c09Seam(r)
	faultSweep(o, r, iteratorCachesCfg, 30, 3)
	c09CachedIterators(o, r)
	return r.Finish()
}

// faultReplay re-executes a recorded <q1 faulted at k, q2> case.
func faultReplay(o *core.Options, r *core.Report, fc faultCfg) int {
	{
		var c itCase
		if err := core.LoadReplay(o.Replay, &c); err != nil {
			fmt.Println("replay:", err)
			return 2
		}
		for trial := 0; trial < 3; trial++ {
			det := cachex.New()
			fds := dsx.New(memory.New())
			base := []server.OpenFGAServiceV1Option{server.WithRequestTimeout(0)}
			if c.Config != "v1" {
				base = append(base, server.WithExperimentals("weighted_graph_check", "pipeline_list_objects"))
			}
			cached := append(fc.Opts(det), base...)
			env := &e2.Env{S: e2.NewServer(fds, cached...), DS: fds, M: c.World.M}
			if err := env.NewStore(); err != nil {
				fmt.Println(err)
				return 2
			}
			if err := env.Write(c.World.Tuples, env.ModelID); err != nil {
				fmt.Println(err)
				return 2
			}
			ctx, cancel := context.WithCancel(context.Background())
			mode := dsx.CancelAt
			if c.Fault == "error" {
				mode = dsx.ErrorAt
			}
			fds.Arm(mode, c.K, cancel)
			a1 := runItReq(ctx, env, c.Q1)
			cancel()
			env.S.VerifWaitBackground()
			fmt.Printf("trial %d: %s with %s at %d -> %s (fired=%v); cache keys=%d\n", trial, c.Q1, c.Fault, c.K, a1, fds.Fired(), det.Len())
			fds.Arm(dsx.Off, 0, nil)
			for i := 0; i < 3; i++ {
				got := runItReq(context.Background(), env, c.Q2)
				r.Eval(1)
				fmt.Printf("   then %s -> %s (reference %s)\n", c.Q2, got, c.Ref)
				if got != c.Ref {
					r.Violate("replayed", "answer differs", c)
				}
			}
			env.Close()
		}
		return r.Finish()
	}
}

// faultSweep: for every world and request pair <q1,q2>, q1 runs with the caches of fc on while its context is
// cancelled / a datastore error is injected at the k-th datastore operation, for every k; then every q2 runs
// undisturbed and must answer like the reference or like the cache-less server.
func faultSweep(o *core.Options, r *core.Report, fc faultCfg, quickStride, thoroughStride int) {
	all := e2.ValidModels(ref.Family(ref.FamilyOpts{Conds: false}))
	reps := ref.Representatives(all, 1, o.Seed)
	stride := quickStride
	if o.Thorough() {
		stride = thoroughStride
	}
	var models []*ref.Model
	for i, m := range reps {
		if i%stride == int(o.Seed)%stride {
			models = append(models, m)
		}
	}
	r.Set(fc.Tag+"fault_sweep_models", len(models))
	u := ref.DefaultUniverse()
	cfgs := []struct {
		name string
		v2   bool
	}{{"v1", false}, {"v2+pipeline", true}}
	r.Parallel(len(models)*len(cfgs), func(idx int) {
		m := models[idx/len(cfgs)]
		cfg := cfgs[idx%len(cfgs)]
		var reqs []itReq
		for _, n := range e2.RequestNodes(u) {
			if e2.ValidRequest(m, n.Obj, n.Rel, "user:a") {
				reqs = append(reqs, itReq{Kind: "check", Obj: n.Obj, Rel: n.Rel, Sub: "user:a"})
			}
		}
		reqs = append(reqs, itReq{Kind: "listobjects", Type: "doc", Rel: "r0", Sub: "user:a"}, itReq{Kind: "listobjects", Type: "group", Rel: "member", Sub: "user:a"})
		pool := ref.RelevantPool(m, u)
		ref.Subsets(pool, 2, func(ts []ref.Tuple) {
			if len(ts) == 0 || r.Expired() {
				return
			}
			// a fresh server per world: shared iterators keep serving a result for up to their admission
			// window (10 s), so a server reused across worlds would violate the fixed-store premise
			det := cachex.New()
			fds := dsx.New(memory.New())
			base := []server.OpenFGAServiceV1Option{server.WithRequestTimeout(0)}
			if cfg.v2 {
				base = append(base, server.WithExperimentals("weighted_graph_check", "pipeline_list_objects"))
			}
			cached := append(fc.Opts(det), base...)
			env := &e2.Env{S: e2.NewServer(fds, cached...), DS: fds, M: m}
			defer env.Close()
			if err := env.NewStore(); err != nil {
				r.Count("models_rejected_by_server", 1)
				return
			}
			plain := e2.NewServer(fds, base...)
			defer plain.Close()
			penv := &e2.Env{S: plain, DS: fds, StoreID: env.StoreID, ModelID: env.ModelID, M: m}
			if err := env.Write(ts, env.ModelID); err != nil {
				panic(err)
			}
			w := &ref.World{M: m, Tuples: append([]ref.Tuple{}, ts...), U: u}
			unc := make([]map[string]bool, len(reqs))
			refs := make([]string, len(reqs))
			for qi, q := range reqs {
				unc[qi] = map[string]bool{}
				for k := 0; k < 2; k++ {
					unc[qi][runItReq(context.Background(), penv, q)] = true
				}
				refs[qi] = refItAnswer(w, q)
			}
			// all cancellation runs first, then all error runs: an injected datastore error stays visible to
			// later requests through the shared iterator (known finding) and must not leak into the
			// classification of the cancellation runs
			nOpsOf := make([]int, len(reqs))
			for qi, q1 := range reqs {
				// number of datastore operations of the undisturbed request (cold cache)
				det.Restore(cachex.Snapshot{})
				fds.Arm(dsx.Off, 0, nil)
				runItReq(context.Background(), env, q1)
				env.S.VerifWaitBackground()
				nOpsOf[qi] = fds.Ops()
			}
			for _, mode := range []dsx.Mode{dsx.CancelAt, dsx.ErrorAt} {
				for q1i, q1 := range reqs {
					nOps := nOpsOf[q1i]
					for k := 1; k <= nOps; k++ {
						det.Restore(cachex.Snapshot{})
						ctx, cancel := context.WithCancel(context.Background())
						fds.Arm(mode, k, cancel)
						runItReq(ctx, env, q1)
						cancel()
						env.S.VerifWaitBackground()
						fired := fds.Fired()
						fds.Arm(dsx.Off, 0, nil)
						if fired {
							r.Nontrivial(core.Hash(m.String(), e2.TuplesStr(ts), cfg.name, q1.String(), fmt.Sprint(mode, k)))
						}
						for qi, q2 := range reqs {
							got := runItReq(context.Background(), env, q2)
							r.Eval(1)
							if got == refs[qi] || unc[qi][got] {
								continue
							}
							for x := 0; x < 4; x++ {
								unc[qi][runItReq(context.Background(), penv, q2)] = true
							}
							if unc[qi][got] {
								continue
							}
							var ul []string
							for a := range unc[qi] {
								ul = append(ul, a)
							}
							sort.Strings(ul)
							fault := "cancel"
							if mode == dsx.ErrorAt {
								fault = "error"
							}
							sig := fc.Tag + "answer-after-faulted-request-differs-from-uncached/" + cfg.name + "/" + fault + "/" + q2.Kind
							if fault == "error" && got == "ERR" {
								sig = fc.Tag + "datastore-error-of-earlier-request-served-to-later-requests/" + cfg.name
							}
							r.Violate(sig,
								fmt.Sprintf("%s model{%s} tuples{%s}: %s with %s at datastore operation %d, then %s = %s (uncached %v, reference %s)", cfg.name, m, e2.TuplesStr(ts), q1, fault, k, q2, got, ul, refs[qi]),
								itCase{World: w, Config: cfg.name, Q1: q1, Fault: fault, K: k, Q2: q2, Got: got, Unc: ul, Ref: refs[qi]})
						}
					}
				}
			}
			if len(ts) == 2 {
				r.Sample(map[string]any{"model": m.String(), "tuples": e2.TuplesStr(ts), "config": cfg.name, "requests": len(reqs)})
			}
			r.Count(fc.Tag+"worlds", 1)
		})
	})
}
