package checks

import (
	"sort"
	"strings"
	"sync"
	"time"

	"github.com/openfga/openfga/internal/planner"
	"github.com/openfga/openfga/pkg/storage/cache/keys"
)

// Scripted is a planner.Manager whose choices are owned by the harness: for each plan key the
// strategy named in Assign is selected when offered, otherwise the lexicographically first offered
// strategy. Every consultation is recorded (key -> offered strategy names).
type Scripted struct {
	mu      sync.Mutex
	Assign  map[string]string
	Offered map[string][]string
	Chosen  map[string]string
}

func NewScripted() *Scripted {
	return &Scripted{Assign: map[string]string{}, Offered: map[string][]string{}, Chosen: map[string]string{}}
}

func (s *Scripted) Reset(assign map[string]string) {
	s.mu.Lock()
	defer s.mu.Unlock()
	s.Assign = assign
	s.Offered = map[string][]string{}
	s.Chosen = map[string]string{}
}

type scriptedSel struct {
	s   *Scripted
	key string
}

func (s *Scripted) GetPlanSelector(key keys.Key) planner.Selector {
	return &scriptedSel{s: s, key: string(key.Bytes())}
}
func (s *Scripted) Stop() {}

func (x *scriptedSel) Select(resolvers map[string]*planner.PlanConfig) *planner.PlanConfig {
	names := make([]string, 0, len(resolvers))
	for k := range resolvers {
		names = append(names, k)
	}
	sort.Strings(names)
	x.s.mu.Lock()
	defer x.s.mu.Unlock()
	x.s.Offered[x.key] = names
	pick := names[0]
	if want, ok := x.s.Assign[x.key]; ok {
		for _, n := range names {
			if n == want {
				pick = n
			}
		}
	}
	x.s.Chosen[x.key] = pick
	return resolvers[pick]
}

func (x *scriptedSel) UpdateStats(*planner.PlanConfig, time.Duration) {}

// Snapshot returns the consulted keys with their offered strategies.
func (s *Scripted) Snapshot() (offered map[string][]string, chosen map[string]string) {
	s.mu.Lock()
	defer s.mu.Unlock()
	offered, chosen = map[string][]string{}, map[string]string{}
	for k, v := range s.Offered {
		offered[k] = v
	}
	for k, v := range s.Chosen {
		chosen[k] = v
	}
	return
}

func assignKey(a map[string]string) string {
	ks := make([]string, 0, len(a))
	for k, v := range a {
		ks = append(ks, k+"="+v)
	}
	sort.Strings(ks)
	return strings.Join(ks, ";")
}

// EnumerateAssignments runs fn under every assignment of an offered strategy to every consulted plan
// key (closure: keys that only appear under some assignment are discovered and expanded too).
// fn must Reset the planner with the assignment, execute, and return the planner's Snapshot.
func EnumerateAssignments(fn func(assign map[string]string) (offered map[string][]string, chosen map[string]string), max int) (runs int, capped bool) {
	seen := map[string]bool{}
	work := []map[string]string{{}}
	seen[""] = true
	for len(work) > 0 {
		a := work[0]
		work = work[1:]
		offered, chosen := fn(a)
		runs++
		// the effective assignment restricted to consulted keys
		for k, names := range offered {
			for _, n := range names {
				if chosen[k] == n {
					continue
				}
				na := map[string]string{}
				for ck, cv := range chosen {
					na[ck] = cv
				}
				na[k] = n
				id := assignKey(na)
				if !seen[id] {
					seen[id] = true
					if len(seen) > max {
						return runs, true
					}
					work = append(work, na)
				}
			}
		}
	}
	return runs, false
}
