package checks

import (
	"context"
	"fmt"
	"sort"
	"strings"
	"time"

	openfgav1 "github.com/openfga/api/proto/openfga/v1"

	"github.com/openfga/openfga/internal/cachecontroller"
	"github.com/openfga/openfga/internal/verifh/core"
	"github.com/openfga/openfga/internal/verifh/e1"
	"github.com/openfga/openfga/internal/verifh/e2"
	"github.com/openfga/openfga/internal/verifh/ref"
	"github.com/openfga/openfga/pkg/server"
)

func init() {
	Registry["C10"] = C10
	Registry["C11"] = C11
}

// histWorld: a small hand-picked world family for history-based cache properties.
type histWorld struct {
	Name string
	M    *ref.Model
	Pool []ref.Tuple // tuples toggled by write/delete events
	Type string
	Rel  string
	U    ref.Universe
}

func rd(e *ref.Expr, rs ...ref.Restr) *ref.RelDef { return &ref.RelDef{Rewrite: e, Restr: rs} }

func histWorlds() []histWorld {
	user, wild := ref.Restr{Type: "user"}, ref.Restr{Type: "user", Wildcard: true}
	member := ref.Restr{Type: "group", Rel: "member"}
	tp := func(o, r, u string) ref.Tuple { return ref.Tuple{Obj: o, Rel: r, User: u} }
	return []histWorld{
		{Name: "direct+userset", Type: "doc", Rel: "r0", U: ref.Universe{"user": {"user:a"}, "group": {"group:1"}, "doc": {"doc:1", "doc:2"}},
			M:    &ref.Model{Types: map[string]map[string]*ref.RelDef{"user": {}, "group": {"member": rd(ref.This(), user)}, "doc": {"r0": rd(ref.This(), user, member)}}},
			Pool: []ref.Tuple{tp("doc:1", "r0", "user:a"), tp("doc:2", "r0", "group:1#member"), tp("group:1", "member", "user:a")}},
		{Name: "ttu", Type: "doc", Rel: "r0", U: ref.Universe{"user": {"user:a"}, "doc": {"doc:1", "doc:2"}},
			M:    &ref.Model{Types: map[string]map[string]*ref.RelDef{"user": {}, "doc": {"parent": rd(ref.This(), ref.Restr{Type: "doc"}), "r1": rd(ref.This(), user), "r0": rd(ref.TTU("parent", "r1"))}}},
			Pool: []ref.Tuple{tp("doc:1", "parent", "doc:2"), tp("doc:2", "r1", "user:a"), tp("doc:2", "parent", "doc:2")}},
		{Name: "exclusion", Type: "doc", Rel: "r0", U: ref.Universe{"user": {"user:a"}, "doc": {"doc:1", "doc:2"}},
			M:    &ref.Model{Types: map[string]map[string]*ref.RelDef{"user": {}, "doc": {"r1": rd(ref.This(), user), "r0": rd(ref.Bin(ref.KDiff, ref.This(), ref.Comp("r1")), user)}}},
			Pool: []ref.Tuple{tp("doc:1", "r0", "user:a"), tp("doc:1", "r1", "user:a"), tp("doc:2", "r0", "user:a")}},
		{Name: "intersection+wildcard", Type: "doc", Rel: "r0", U: ref.Universe{"user": {"user:a"}, "doc": {"doc:1", "doc:2"}},
			M:    &ref.Model{Types: map[string]map[string]*ref.RelDef{"user": {}, "doc": {"r1": rd(ref.This(), wild), "r0": rd(ref.Bin(ref.KInter, ref.This(), ref.Comp("r1")), user)}}},
			Pool: []ref.Tuple{tp("doc:1", "r0", "user:a"), tp("doc:1", "r1", "user:*"), tp("doc:2", "r1", "user:*")}},
		{Name: "recursive-ttu", Type: "doc", Rel: "r0", U: ref.Universe{"user": {"user:a"}, "doc": {"doc:1", "doc:2"}},
			M:    &ref.Model{Types: map[string]map[string]*ref.RelDef{"user": {}, "doc": {"parent": rd(ref.This(), ref.Restr{Type: "doc"}), "r0": rd(ref.Bin(ref.KUnion, ref.This(), ref.TTU("parent", "r0")), user)}}},
			Pool: []ref.Tuple{tp("doc:1", "parent", "doc:2"), tp("doc:2", "r0", "user:a"), tp("doc:2", "parent", "doc:1")}},
		{Name: "userset+computed", Type: "doc", Rel: "r0", U: ref.Universe{"user": {"user:a"}, "group": {"group:1"}, "doc": {"doc:1", "doc:2"}},
			M:    &ref.Model{Types: map[string]map[string]*ref.RelDef{"user": {}, "group": {"member": rd(ref.This(), user)}, "doc": {"r1": rd(ref.This(), member), "r0": rd(ref.Bin(ref.KUnion, ref.Comp("r1"), ref.This()), user)}}},
			Pool: []ref.Tuple{tp("doc:1", "r1", "group:1#member"), tp("group:1", "member", "user:a"), tp("doc:2", "r0", "user:a")}},
		{Name: "nested-userset", Type: "doc", Rel: "r0", U: ref.Universe{"user": {"user:a"}, "group": {"group:1"}, "doc": {"doc:1", "doc:2"}},
			// three levels: the default engine dispatches group#member (weight 2) as a SUB-PROBLEM of doc#r0 whatever the planner picks
			M:    &ref.Model{Types: map[string]map[string]*ref.RelDef{"user": {}, "group": {"r1": rd(ref.This(), user), "member": rd(ref.This(), user, ref.Restr{Type: "group", Rel: "r1"})}, "doc": {"r0": rd(ref.This(), member)}}},
			Pool: []ref.Tuple{tp("doc:1", "r0", "group:1#member"), tp("group:1", "member", "group:1#r1"), tp("group:1", "r1", "user:a")}},
		{Name: "recursive-userset", Type: "group", Rel: "member", U: ref.Universe{"user": {"user:a"}, "group": {"group:1", "group:2"}},
			M:    &ref.Model{Types: map[string]map[string]*ref.RelDef{"user": {}, "group": {"member": rd(ref.This(), user, member)}}},
			Pool: []ref.Tuple{tp("group:1", "member", "group:2#member"), tp("group:2", "member", "user:a"), tp("group:1", "member", "user:a")}},
	}
}

// apiVector runs Check (per object), BatchCheck, ListObjects and ListUsers and renders the answers.
func apiVector(env *e2.Env, w histWorld, cons openfgav1.ConsistencyPreference) []string {
	ctx := context.Background()
	var out []string
	objs := w.U[w.Type]
	for _, o := range objs {
		out = append(out, "check("+o+")="+env.Check(o, w.Rel, "user:a", nil, nil, func(r *openfgav1.CheckRequest) { r.Consistency = cons }).V)
	}
	breq := &openfgav1.BatchCheckRequest{StoreId: env.StoreID, AuthorizationModelId: env.ModelID, Consistency: cons}
	for i, o := range objs {
		breq.Checks = append(breq.Checks, &openfgav1.BatchCheckItem{CorrelationId: fmt.Sprintf("c%d", i), TupleKey: &openfgav1.CheckRequestTupleKey{Object: o, Relation: w.Rel, User: "user:a"}})
	}
	if resp, err := env.S.BatchCheck(ctx, breq); err != nil {
		out = append(out, "batch=ERR")
	} else {
		for i, o := range objs {
			r := resp.GetResult()[fmt.Sprintf("c%d", i)]
			v := "F"
			if r == nil || r.GetError() != nil {
				v = "ERR"
			} else if r.GetAllowed() {
				v = "T"
			}
			out = append(out, "batch("+o+")="+v)
		}
	}
	lo, err := env.ListObjects(w.Type, w.Rel, "user:a", nil, nil, func(r *openfgav1.ListObjectsRequest) { r.Consistency = cons })
	if err != nil {
		out = append(out, "listobjects=ERR")
	} else {
		out = append(out, "listobjects="+fmt.Sprint(e2.SortedCopy(lo)))
	}
	for _, o := range objs[:1] {
		i := strings.IndexByte(o, ':')
		resp, err := env.S.ListUsers(ctx, &openfgav1.ListUsersRequest{StoreId: env.StoreID, AuthorizationModelId: env.ModelID, Object: &openfgav1.Object{Type: o[:i], Id: o[i+1:]}, Relation: w.Rel,
			UserFilters: []*openfgav1.UserTypeFilter{{Type: "user"}}, Consistency: cons})
		if err != nil {
			out = append(out, "listusers("+o+")=ERR")
			continue
		}
		var us []string
		for _, u := range resp.GetUsers() {
			us = append(us, e2.UserString(u))
		}
		sort.Strings(us)
		out = append(out, "listusers("+o+")="+fmt.Sprint(us))
	}
	return out
}

func refVector(w histWorld, tuples []ref.Tuple) []string {
	rw := &ref.World{M: w.M, Tuples: tuples, U: w.U}
	var out []string
	objs := w.U[w.Type]
	val := func(o string) string { s, _ := rw.Holds(o, w.Rel, "user:a", nil); return s.String() }
	for _, o := range objs {
		out = append(out, "check("+o+")="+val(o))
	}
	for _, o := range objs {
		out = append(out, "batch("+o+")="+val(o))
	}
	var lo []string
	for _, o := range objs {
		if val(o) == "T" {
			lo = append(lo, o)
		}
	}
	sort.Strings(lo)
	if lo == nil {
		lo = []string{}
	}
	out = append(out, "listobjects="+fmt.Sprint(lo))
	us := []string{}
	if val(objs[0]) == "T" {
		us = append(us, "user:a")
	}
	// a wildcard holder is listed as user:* by ListUsers
	if s, _ := rw.Holds(objs[0], w.Rel, "user:*", nil); s == ref.T {
		us = append(us, "user:*")
	}
	sort.Strings(us)
	out = append(out, "listusers("+objs[0]+")="+fmt.Sprint(us))
	return out
}

type cacheFlags struct {
	Q, I, L, S, C, V2 bool
}

func (f cacheFlags) String() string {
	s := ""
	for _, p := range []struct {
		on bool
		n  string
	}{{f.Q, "query"}, {f.I, "checkiter"}, {f.L, "loiter"}, {f.S, "shared"}, {f.C, "controller"}, {f.V2, "v2"}} {
		if p.on {
			s += p.n + "+"
		}
	}
	if s == "" {
		return "none"
	}
	return strings.TrimSuffix(s, "+")
}

func (f cacheFlags) opts(controllerTTL time.Duration) []server.OpenFGAServiceV1Option {
	o := []server.OpenFGAServiceV1Option{server.WithRequestTimeout(0),
		server.WithCheckQueryCacheEnabled(f.Q), server.WithCheckQueryCacheTTL(time.Hour),
		server.WithCheckIteratorCacheEnabled(f.I), server.WithCheckIteratorCacheTTL(time.Hour),
		server.WithListObjectsIteratorCacheEnabled(f.L), server.WithListObjectsIteratorCacheTTL(time.Hour),
		server.WithSharedIteratorEnabled(f.S),
		server.WithCacheControllerEnabled(f.C), server.WithCacheControllerTTL(controllerTTL)}
	if f.V2 {
		o = append(o, server.WithExperimentals("weighted_graph_check", "pipeline_list_objects"))
	}
	return o
}

// histEvents: t0..tn-1 toggle pool tuples, "qc" cached-mode requests, "qh" higher-consistency requests,
// "inv" = a cached-mode request that triggers the cache controller, then wait for the run to complete.
type histCase struct {
	World   string   `json:"world"`
	Flags   string   `json:"cache_flags"`
	History []string `json:"history"`
	Got     []string `json:"answers"`
	Want    []string `json:"reference_for_current_store"`
	Tuples  string   `json:"store_contents"`
}

func enumerateHistories(alphabet []string, depth int, must string, fn func(h []string)) {
	var cur []string
	var rec func()
	rec = func() {
		if len(cur) > 0 && cur[len(cur)-1] == must {
			fn(cur)
		}
		if len(cur) == depth {
			return
		}
		for _, e := range alphabet {
			cur = append(cur, e)
			rec()
			cur = cur[:len(cur)-1]
		}
	}
	rec()
}

func diffVec(a, b []string) string {
	var d []string
	for i := range a {
		if i < len(b) && a[i] != b[i] {
			d = append(d, a[i]+" (want "+b[i][strings.IndexByte(b[i], '=')+1:]+")")
		}
	}
	return strings.Join(d, "; ")
}

func apiOf(d string) string {
	if i := strings.IndexByte(d, '('); i > 0 {
		return d[:i]
	}
	if i := strings.IndexByte(d, '='); i > 0 {
		return d[:i]
	}
	return d
}

func C10(o *core.Options) int {
	r := core.NewReport(o, "model_checking",
		"every history over {write/delete each pool tuple, cached-mode request vector, HIGHER_CONSISTENCY request vector} up to the depth bound, replayed from scratch on a fresh server per history, for hand-picked worlds (direct+userset, TTU, exclusion, intersection+wildcard, recursive userset) and cache-flag configurations (query cache, check/list-objects iterator caches, shared iterator, cache controller; default and weighted-graph/pipeline engines; cache TTLs of one hour); invariant at every HIGHER_CONSISTENCY step: Check, BatchCheck, ListObjects and ListUsers answer exactly the reference for the store contents at that moment; states = distinct (store contents, preceding cached-mode activity) pairs")
	r.Assume("memory datastore; production cache (theine) in place; real clock, TTLs one hour so nothing expires during a history")
	worlds := histWorlds()
	flagSets := []cacheFlags{{}, {Q: true}, {I: true}, {L: true, S: true}, {Q: true, I: true, L: true, S: true}, {Q: true, I: true, L: true, S: true, C: true},
		{Q: true, I: true, L: true, S: true, V2: true}, {Q: true, I: true, L: true, S: true, C: true, V2: true}}
	depth := 5
	if o.Thorough() {
		depth = 6
		flagSets = nil
		for m := 0; m < 64; m++ {
			flagSets = append(flagSets, cacheFlags{m&1 != 0, m&2 != 0, m&4 != 0, m&8 != 0, m&16 != 0, m&32 != 0})
		}
	}
	type job struct {
		w histWorld
		f cacheFlags
		h []string
	}
	var jobs []job
	for _, w := range worlds {
		alpha := []string{"qc", "qh"}
		for i := range w.Pool {
			alpha = append(alpha, fmt.Sprintf("t%d", i))
		}
		for _, f := range flagSets {
			enumerateHistories(alpha, depth, "qh", func(h []string) {
				// a history is maximal-suffix relevant only if it contains a write and ends with qh
				hasW := false
				for _, e := range h {
					if e[0] == 't' {
						hasW = true
					}
				}
				if hasW {
					jobs = append(jobs, job{w, f, append([]string{}, h...)})
				}
			})
		}
	}
	states := map[uint64]struct{}{}
	stCh := make(chan uint64, 4096)
	done := make(chan struct{})
	go func() {
		for s := range stCh {
			states[s] = struct{}{}
		}
		close(done)
	}()
	var transitions int64
	trCh := make(chan int64, 4096)
	done2 := make(chan struct{})
	go func() {
		for t := range trCh {
			transitions += t
		}
		close(done2)
	}()
	r.Parallel(len(jobs), func(i int) {
		j := jobs[i]
		env, err := e2.NewEnv(j.w.M, j.f.opts(time.Nanosecond)...)
		if err != nil {
			panic(err)
		}
		defer env.Close()
		present := map[int]bool{}
		var tr int64
		cachedActivity := ""
		for step, e := range j.h {
			tr++
			switch {
			case e[0] == 't':
				var idx int
				fmt.Sscanf(e, "t%d", &idx)
				if present[idx] {
					if err := env.Delete([]ref.Tuple{j.w.Pool[idx]}, env.ModelID); err != nil {
						panic(err)
					}
				} else if err := env.Write([]ref.Tuple{j.w.Pool[idx]}, env.ModelID); err != nil {
					panic(err)
				}
				present[idx] = !present[idx]
			case e == "qc":
				apiVector(env, j.w, openfgav1.ConsistencyPreference_UNSPECIFIED)
				cachedActivity += fmt.Sprint(present)
			case e == "qh":
				var cur []ref.Tuple
				for k, t := range j.w.Pool {
					if present[k] {
						cur = append(cur, t)
					}
				}
				got := apiVector(env, j.w, openfgav1.ConsistencyPreference_HIGHER_CONSISTENCY)
				want := refVector(j.w, cur)
				r.Eval(1)
				stCh <- core.Hash(j.w.Name, j.f.String(), fmt.Sprint(present), cachedActivity)
				if cachedActivity != "" {
					r.Nontrivial(core.Hash(j.w.Name, j.f.String(), strings.Join(j.h[:step+1], ",")))
				}
				if d := diffVec(got, want); d != "" {
					r.Violate("higher-consistency-answer-stale-or-wrong/"+apiOf(d), fmt.Sprintf("%s flags=%s history=%v store{%s}: %s", j.w.Name, j.f, j.h[:step+1], e2.TuplesStr(cur), d),
						histCase{World: j.w.Name, Flags: j.f.String(), History: j.h[:step+1], Got: got, Want: want, Tuples: e2.TuplesStr(cur)})
				}
			}
		}
		trCh <- tr
		if i%997 == 0 {
			r.Sample(map[string]any{"world": j.w.Name, "flags": j.f.String(), "history": j.h})
		}
	})
	close(stCh)
	close(trCh)
	<-done
	<-done2
	r.States, r.Transitions, r.Traces = int64(len(states)), transitions, transitions
	return r.Finish()
}

var verbose11 bool

// C11: cache controller bounds staleness.
func C11(o *core.Options) int {
	r := core.NewReport(o, "model_checking",
		"every history over {write/delete each pool tuple, bulk write of 60 unrelated tuples (more than one changelog page), cached-mode request vector, 'inv' = cached-mode request that triggers the cache controller followed by waiting for the invalidation run to complete, cached-mode request vector whose answers are CHECKED} up to the depth bound (quick: the toggles of the tuples deeper in an expansion run in a second pass over {populate, invalidate, check, those toggles} that starts from the FULL store), replayed from scratch per history, with the cache controller on together with either the query cache or the iterator caches, default and weighted-graph engines; invariant: a checked vector that follows an 'inv' which itself follows the last write equals the reference for the current store (staleness before that, including mixtures of stale and fresh sub-answers, is allowed behaviour)")
	r.Assume("memory datastore; real clock with cache TTLs of one hour and controller interval 1ns (every cached-mode request may start an invalidation run); completion of a run is observed through an exported wait on the controller's WaitGroup (overlay file x/internal/cachecontroller)",
		"TTL-window straddling, clock advances, the invalidation interval and runs overlapping with requests and writes need a controllable clock: they are not decided by the Server-API histories but by the component-level harness on a harness clock (coverage.clock_controlled_component_level, binary cctl)")
	worlds := histWorlds()
	// The property's configurations: controller + query cache, or controller + iterator caches. Shared
	// iterators are a separate feature with their own (10 s admission) staleness window and are left out.
	flagSets := []cacheFlags{{Q: true, C: true}, {I: true, L: true, C: true}, {Q: true, C: true, V2: true}, {I: true, L: true, C: true, V2: true}}
	depth := 5
	if o.Thorough() {
		depth = 6
	}
	type job struct {
		w histWorld
		f cacheFlags
		h []string
	}
	var jobs []job
	if o.Replay != "" {
		if isSub, code := e1.ReplaySub(o, "cctl"); isSub {
			return code // a history or schedule recorded by the clock-controlled component harness (h/cctl)
		}
		var seam struct {
			Shape   string   `json:"shape"`
			Markers []string `json:"markers"`
		}
		if err := core.LoadReplay(o.Replay, &seam); err == nil && seam.Shape != "" && len(seam.Markers) > 0 {
			c11Seam(r) // a case of the invalidation-marker seam: the whole (small) seam enumeration is re-run
			return r.Finish()
		}
		var hc histCase
		if err := core.LoadReplay(o.Replay, &hc); err != nil {
			fmt.Println("replay:", err)
			return 2
		}
		for _, w := range worlds {
			if w.Name == hc.World {
				f := cacheFlags{}
				for _, n := range strings.Split(hc.Flags, "+") {
					switch n {
					case "query":
						f.Q = true
					case "checkiter":
						f.I = true
					case "loiter":
						f.L = true
					case "shared":
						f.S = true
					case "controller":
						f.C = true
					case "v2":
						f.V2 = true
					}
				}
				jobs = append(jobs, job{w, f, hc.History})
			}
		}
		worlds = nil
		verbose11 = true
	}
	for _, w := range worlds {
		alpha := []string{"qc", "inv", "chk", "bulk"}
		for i := range w.Pool {
			alpha = append(alpha, fmt.Sprintf("t%d", i))
		}
		if !o.Thorough() {
			alpha = append(alpha[:4], alpha[4:6]...) // two toggles in quick
		}
		for _, f := range flagSets {
			enum := func(fn func(h []string)) {
				enumerateHistories(alpha, depth, "chk", fn)
				if !o.Thorough() && len(w.Pool) > 2 {
					// quick: the remaining toggles (tuples deeper in the expansion) with the events that matter
					// for them: populate, write, invalidate, check
					rest := []string{"qc", "inv", "chk"}
					for i := 2; i < len(w.Pool); i++ {
						rest = append(rest, fmt.Sprintf("t%d", i))
					}
					// ... starting from the FULL store (event "full" writes every pool tuple in one request): chains
					// of three tuples would otherwise need three writes before the first interesting event
					enumerateHistories(rest, depth-1, "chk", func(h []string) { fn(append([]string{"full"}, h...)) })
				}
			}
			enum(func(h []string) {
				nw, nq, nb := 0, 0, 0
				for _, e := range h {
					if e[0] == 't' {
						nw++
					}
					if e == "qc" {
						nq++
					}
					if e == "bulk" {
						nb++
					}
				}
				if h[0] == "full" {
					nw++
				}
				if nw == 0 || nq == 0 || nb > 1 {
					return
				}
				jobs = append(jobs, job{w, f, append([]string{}, h...)})
			})
		}
	}
	r.Set("histories", len(jobs))
	states := map[uint64]struct{}{}
	var transitions int64
	type msg struct {
		s  uint64
		tr int64
	}
	ch := make(chan msg, 4096)
	done := make(chan struct{})
	go func() {
		for m := range ch {
			if m.s != 0 {
				states[m.s] = struct{}{}
			}
			transitions += m.tr
		}
		close(done)
	}()
	r.Parallel(len(jobs), func(i int) {
		j := jobs[i]
		env, err := e2.NewEnv(j.w.M, j.f.opts(time.Nanosecond)...)
		if err != nil {
			panic(err)
		}
		ctl, _ := env.S.VerifCacheController().(*cachecontroller.InMemoryCacheController)
		if ctl == nil {
			panic("no in-memory cache controller on the server")
		}
		// the last request may have started an invalidation run: let it finish before the server is closed
		defer func() { ctl.VerifQuiesce(); env.Close() }()
		present := map[int]bool{}
		var pastVectors [][]string
		cur := func() []ref.Tuple {
			var c []ref.Tuple
			for k, t := range j.w.Pool {
				if present[k] {
					c = append(c, t)
				}
			}
			return c
		}
		pastVectors = append(pastVectors, refVector(j.w, nil))
		invAfterLastWrite := false
		bulkN := 0
		for step, e := range j.h {
			ch <- msg{tr: 1}
			switch {
			case e[0] == 't':
				var idx int
				fmt.Sscanf(e, "t%d", &idx)
				if present[idx] {
					if err := env.Delete([]ref.Tuple{j.w.Pool[idx]}, env.ModelID); err != nil {
						panic(err)
					}
				} else if err := env.Write([]ref.Tuple{j.w.Pool[idx]}, env.ModelID); err != nil {
					panic(err)
				}
				present[idx] = !present[idx]
				pastVectors = append(pastVectors, refVector(j.w, cur()))
				invAfterLastWrite = false
			case e == "full":
				var ts []ref.Tuple
				for k, t := range j.w.Pool {
					if !present[k] {
						ts = append(ts, t)
						present[k] = true
					}
				}
				if len(ts) > 0 {
					if err := env.Write(ts, env.ModelID); err != nil {
						panic(err)
					}
				}
				pastVectors = append(pastVectors, refVector(j.w, cur()))
				invAfterLastWrite = false
			case e == "bulk":
				var ts []ref.Tuple
				for k := 0; k < 60; k++ {
					ts = append(ts, ref.Tuple{Obj: fmt.Sprintf("%s:x%d-%d", j.w.Type, bulkN, k), Rel: j.w.Pool[0].Rel, User: j.w.Pool[0].User})
				}
				bulkN++
				// unrelated objects of the same type and relation: they do not change the observed answers
				if j.w.Pool[0].Obj[:strings.IndexByte(j.w.Pool[0].Obj, ':')] != j.w.Type {
					ts = ts[:0]
				}
				if len(ts) > 0 {
					if err := env.Write(ts, env.ModelID); err != nil {
						panic(err)
					}
				}
			case e == "qc":
				apiVector(env, j.w, openfgav1.ConsistencyPreference_UNSPECIFIED)
			case e == "inv":
				env.Check(j.w.U[j.w.Type][0], j.w.Rel, "user:a", nil, nil)
				ctl.VerifQuiesce()
				// a run that STARTED after the last write has now completed (the trigger request came after it)
				ctl.InvalidateIfNeeded(context.Background(), env.StoreID)
				ctl.VerifQuiesce()
				invAfterLastWrite = true
			case e == "chk":
				got := apiVector(env, j.w, openfgav1.ConsistencyPreference_UNSPECIFIED)
				want := refVector(j.w, cur())
				if verbose11 {
					fmt.Printf("step %d chk: got=%v\n               want=%v invAfterLastWrite=%v\n", step, got, want, invAfterLastWrite)
				}
				r.Eval(1)
				ch <- msg{s: core.Hash(j.w.Name, j.f.String(), strings.Join(j.h[:step+1], ","))}
				r.Nontrivial(core.Hash(j.w.Name, j.f.String(), strings.Join(j.h[:step+1], ",")))
				hc := histCase{World: j.w.Name, Flags: j.f.String(), History: j.h[:step+1], Got: got, Want: want, Tuples: e2.TuplesStr(cur())}
				if !invAfterLastWrite && diffVec(filterBulk(got), want) != "" {
					r.Count("stale_answers_observed_before_invalidation", 1) // the caches do serve stale data: the invariant is not vacuous
				}
				if invAfterLastWrite {
					if d := diffVec(filterBulk(got), want); d != "" {
						r.Violate("stale-after-completed-invalidation/"+apiOf(d), fmt.Sprintf("%s flags=%s history=%v store{%s}: %s", j.w.Name, j.f, j.h[:step+1], e2.TuplesStr(cur()), d), hc)
					}
				}
			}
		}
		if i%1499 == 0 {
			r.Sample(map[string]any{"world": j.w.Name, "flags": j.f.String(), "history": j.h})
		}
	})
	close(ch)
	<-done
	r.States, r.Transitions, r.Traces = int64(len(states)), transitions, transitions
	if o.Replay == "" {
		c11Seam(r)
		// clock advances, TTL expiry, the iterator-TTL window, the invalidation interval and runs that overlap
		// with requests and writes are decided at component level on a harness clock
		c11ClockControlled(o, r)
	}
	return r.Finish()
}

// filterBulk removes the bulk-write objects (ids starting with x) from list answers.
func filterBulk(v []string) []string {
	out := make([]string, len(v))
	for i, s := range v {
		if strings.HasPrefix(s, "listobjects=[") {
			body := strings.TrimSuffix(strings.TrimPrefix(s, "listobjects=["), "]")
			var keep []string
			for _, o := range strings.Fields(body) {
				if !strings.Contains(o, ":x") {
					keep = append(keep, o)
				}
			}
			if keep == nil {
				keep = []string{}
			}
			s = "listobjects=" + fmt.Sprint(keep)
		}
		out[i] = s
	}
	return out
}
