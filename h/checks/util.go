package checks

import "encoding/json"

func jsonUnmarshal(b []byte, v any) error { return json.Unmarshal(b, v) }
