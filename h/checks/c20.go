package checks

import (
	"github.com/openfga/openfga/pkg/typesystem"
	"context"
	"fmt"
	"runtime"
	"strings"
	"time"

	openfgav1 "github.com/openfga/api/proto/openfga/v1"

	"github.com/openfga/openfga/internal/verifh/core"
	"github.com/openfga/openfga/internal/verifh/dsx"
	"github.com/openfga/openfga/internal/verifh/e2"
	"github.com/openfga/openfga/internal/verifh/ref"
	"github.com/openfga/openfga/pkg/server"
	"github.com/openfga/openfga/pkg/storage/memory"
)

func init() { Registry["C20"] = C20 }

type c20Result struct {
	Requests   int64             `json:"requests"`
	Faulted    int64             `json:"faulted"`
	Worlds     int64             `json:"worlds"`
	Anomalies  int64             `json:"anomalies"` // goroutine count above the baseline once, not reproduced
	Nontrivial []uint64          `json:"nontrivial"`
	Viols      []core.Violation  `json:"viols"`
	MaxSettle  float64           `json:"max_settle_ms"`
	Sample     map[string]string `json:"sample,omitempty"`
}

type lsStream struct {
	ctx context.Context
	n   int
	openfgav1.OpenFGAService_StreamedListObjectsServer
}

func (s *lsStream) Context() context.Context                          { return s.ctx }
func (s *lsStream) Send(*openfgav1.StreamedListObjectsResponse) error { s.n++; return nil }

type c20Req struct {
	Kind string `json:"kind"`
	Obj  string `json:"obj,omitempty"`
	Type string `json:"type,omitempty"`
	Rel  string `json:"rel"`
	Sub  string `json:"sub"`
}

func (q c20Req) String() string {
	return fmt.Sprintf("%s(%s%s#%s@%s)", q.Kind, q.Obj, q.Type, q.Rel, q.Sub)
}

func runC20Req(ctx context.Context, env *e2.Env, q c20Req) {
	switch q.Kind {
	case "check":
		_, _ = env.S.Check(ctx, &openfgav1.CheckRequest{StoreId: env.StoreID, AuthorizationModelId: env.ModelID, TupleKey: &openfgav1.CheckRequestTupleKey{Object: q.Obj, Relation: q.Rel, User: q.Sub}})
	case "batchcheck":
		_, _ = env.S.BatchCheck(ctx, &openfgav1.BatchCheckRequest{StoreId: env.StoreID, AuthorizationModelId: env.ModelID, Checks: []*openfgav1.BatchCheckItem{
			{CorrelationId: "a", TupleKey: &openfgav1.CheckRequestTupleKey{Object: q.Obj, Relation: q.Rel, User: q.Sub}},
			{CorrelationId: "b", TupleKey: &openfgav1.CheckRequestTupleKey{Object: q.Obj, Relation: q.Rel, User: "user:b"}}}})
	case "listobjects":
		_, _ = env.S.ListObjects(ctx, &openfgav1.ListObjectsRequest{StoreId: env.StoreID, AuthorizationModelId: env.ModelID, Type: q.Type, Relation: q.Rel, User: q.Sub})
	case "streamedlistobjects":
		_ = env.S.StreamedListObjects(&openfgav1.StreamedListObjectsRequest{StoreId: env.StoreID, AuthorizationModelId: env.ModelID, Type: q.Type, Relation: q.Rel, User: q.Sub}, &lsStream{ctx: ctx})
	case "listusers":
		i := strings.IndexByte(q.Obj, ':')
		_, _ = env.S.ListUsers(ctx, &openfgav1.ListUsersRequest{StoreId: env.StoreID, AuthorizationModelId: env.ModelID, Object: &openfgav1.Object{Type: q.Obj[:i], Id: q.Obj[i+1:]}, Relation: q.Rel, UserFilters: []*openfgav1.UserTypeFilter{{Type: "user"}}})
	case "expand":
		_, _ = env.S.Expand(ctx, &openfgav1.ExpandRequest{StoreId: env.StoreID, AuthorizationModelId: env.ModelID, TupleKey: &openfgav1.ExpandRequestTupleKey{Object: q.Obj, Relation: q.Rel}})
	}
}

// goroutineDump returns the stacks of goroutines other than the caller's, filtered to openfga frames.
func goroutineDump() string {
	buf := make([]byte, 1<<20)
	buf = buf[:runtime.Stack(buf, true)]
	var keep []string
	for _, g := range strings.Split(string(buf), "\n\n") {
		if strings.Contains(g, "openfga/openfga") && !strings.Contains(g, "checks.C20") && !strings.Contains(g, "goroutineDump") {
			lines := strings.Split(g, "\n")
			if len(lines) > 9 {
				lines = lines[:9]
			}
			keep = append(keep, strings.Join(lines, "\n"))
		}
	}
	if len(keep) > 3 {
		keep = keep[:3]
	}
	return strings.Join(keep, "\n--\n")
}

// settle waits until the goroutine count is back at (or below) base; returns the time it took and ok.
func settle(base int, max time.Duration) (time.Duration, bool) {
	t0 := time.Now()
	for {
		if runtime.NumGoroutine() <= base {
			return time.Since(t0), true
		}
		if time.Since(t0) > max {
			return time.Since(t0), false
		}
		if time.Since(t0) < 2*time.Millisecond {
			runtime.Gosched()
		} else {
			time.Sleep(200 * time.Microsecond)
		}
	}
}

type c20Cfg struct {
	Name string
	Opts []server.OpenFGAServiceV1Option
}

func c20Cfgs() []c20Cfg {
	return []c20Cfg{
		{"default", nil},
		{"weighted+pipeline", []server.OpenFGAServiceV1Option{server.WithExperimentals("weighted_graph_check", "pipeline_list_objects", "enable-list-objects-optimizations")}},
		{"breadth1", []server.OpenFGAServiceV1Option{server.WithResolveNodeBreadthLimit(1), server.WithMaxConcurrentReadsForCheck(1), server.WithMaxConcurrentReadsForListObjects(1)}},
	}
}

// openIteratorsSettle waits until no iterator handed out by the wrapper is open (or the timeout) and returns the count.
func openIteratorsSettle(f *dsx.Faulty, max time.Duration) int64 {
	deadline := time.Now().Add(max)
	for {
		n := f.OpenIterators()
		if n == 0 || time.Now().After(deadline) {
			return n
		}
		time.Sleep(2 * time.Millisecond)
	}
}

// extraWorlds: long cycles and wide fan-out on hand-made models.
func c20ExtraWorlds() []*ref.World {
	user := ref.Restr{Type: "user"}
	member := ref.Restr{Type: "group", Rel: "member"}
	var out []*ref.World
	// userset cycle of length 12 with a member hanging off it
	m := &ref.Model{Types: map[string]map[string]*ref.RelDef{"user": {}, "group": {"member": rd(ref.This(), user, member)}, "doc": {"r0": rd(ref.This(), user, member)}}}
	u := ref.Universe{"user": {"user:a"}, "group": {}, "doc": {"doc:1"}}
	var ts []ref.Tuple
	for i := 1; i <= 12; i++ {
		u["group"] = append(u["group"], fmt.Sprintf("group:%d", i))
		ts = append(ts, ref.Tuple{Obj: fmt.Sprintf("group:%d", i), Rel: "member", User: fmt.Sprintf("group:%d#member", i%12+1)})
	}
	ts = append(ts, ref.Tuple{Obj: "doc:1", Rel: "r0", User: "group:1#member"})
	out = append(out, &ref.World{M: m, Tuples: ts, U: u})
	// wide fan-out: 150 groups on one doc, the user is in the last
	u2 := ref.Universe{"user": {"user:a"}, "group": {}, "doc": {"doc:1"}}
	var ts2 []ref.Tuple
	for i := 1; i <= 150; i++ {
		u2["group"] = append(u2["group"], fmt.Sprintf("group:%d", i))
		ts2 = append(ts2, ref.Tuple{Obj: "doc:1", Rel: "r0", User: fmt.Sprintf("group:%d#member", i)})
	}
	ts2 = append(ts2, ref.Tuple{Obj: "group:150", Rel: "member", User: "user:a"})
	out = append(out, &ref.World{M: m, Tuples: ts2, U: u2})
	// wide fan-outs with the granting branch FIRST, LAST or absent (a consumer that short-circuits while
	// the producer still has branches to hand out, one that drains everything, one that finds nothing):
	// 60 usersets on one doc, and 60 tuple-to-userset parents of one doc
	mt := &ref.Model{Types: map[string]map[string]*ref.RelDef{"user": {}, "group": {"member": rd(ref.This(), user)},
		"doc": {"parent": rd(ref.This(), ref.Restr{Type: "group"}), "r0": rd(ref.TTU("parent", "member"))}}}
	mu := &ref.Model{Types: map[string]map[string]*ref.RelDef{"user": {}, "group": {"member": rd(ref.This(), user)}, "doc": {"r0": rd(ref.This(), member)}}}
	for _, grant := range []int{1, 60, 0} {
		uf := ref.Universe{"user": {"user:a"}, "group": {}, "doc": {"doc:1"}}
		var tt, tu []ref.Tuple
		for i := 1; i <= 60; i++ {
			uf["group"] = append(uf["group"], fmt.Sprintf("group:%02d", i))
			tt = append(tt, ref.Tuple{Obj: "doc:1", Rel: "parent", User: fmt.Sprintf("group:%02d", i)})
			tu = append(tu, ref.Tuple{Obj: "doc:1", Rel: "r0", User: fmt.Sprintf("group:%02d#member", i)})
		}
		if grant > 0 {
			g := ref.Tuple{Obj: fmt.Sprintf("group:%02d", grant), Rel: "member", User: "user:a"}
			tt, tu = append(tt, g), append(tu, g)
		}
		out = append(out, &ref.World{M: mt, Tuples: tt, U: uf}, &ref.World{M: mu, Tuples: tu, U: uf})
	}
	// tuple-to-userset over a tupleset with TWO parent types (one producer per parent type)
	m2p := &ref.Model{Types: map[string]map[string]*ref.RelDef{"user": {}, "group": {"r1": rd(ref.This(), user)},
		"doc": {"parent": rd(ref.This(), ref.Restr{Type: "doc"}, ref.Restr{Type: "group"}), "r1": rd(ref.This(), user), "r0": rd(ref.TTU("parent", "r1"))}}}
	out = append(out, &ref.World{M: m2p, U: ref.Universe{"user": {"user:a"}, "group": {"group:1"}, "doc": {"doc:1", "doc:2"}}, Tuples: []ref.Tuple{
		{Obj: "doc:1", Rel: "parent", User: "group:1"}, {Obj: "doc:1", Rel: "parent", User: "doc:2"}, {Obj: "group:1", Rel: "r1", User: "user:b"}, {Obj: "doc:2", Rel: "r1", User: "user:b"}}})
	// TTU cycle
	m3 := &ref.Model{Types: map[string]map[string]*ref.RelDef{"user": {}, "doc": {"parent": rd(ref.This(), ref.Restr{Type: "doc"}), "r0": rd(ref.Bin(ref.KUnion, ref.This(), ref.TTU("parent", "r0")), user)}}}
	u3 := ref.Universe{"user": {"user:a"}, "doc": {}}
	var ts3 []ref.Tuple
	for i := 1; i <= 8; i++ {
		u3["doc"] = append(u3["doc"], fmt.Sprintf("doc:%d", i))
		ts3 = append(ts3, ref.Tuple{Obj: fmt.Sprintf("doc:%d", i), Rel: "parent", User: fmt.Sprintf("doc:%d", i%8+1)})
	}
	out = append(out, &ref.World{M: m3, Tuples: ts3, U: u3})
	return out
}

func C20(o *core.Options) int {
	r := core.NewReport(o, "exploration",
		"single-threaded worker processes; for every world (model family representatives x tuple subsets of size<=2, plus hand-made long userset/TTU cycles and a 150-way fan-out) and every request of {Check, BatchCheck, ListObjects, StreamedListObjects, ListUsers, Expand} on three engine configurations: the undisturbed request, and the request with its context CANCELLED at the k-th datastore operation for EVERY k (client cancellation / deadline at an arbitrary point); oracle: the call returns (watchdog 20 s) and the process's goroutine count returns to its pre-request value within a 3 s settle window (no goroutine or iterator started for the request keeps running); caches are off, so no background fill is excepted; non-trivial = (world, request, k) triples whose cancellation was actually delivered")
	r.Assume("wall-clock 'within the deadline plus slack' is not decided (a timing bound is not enumerable): termination and leak freedom are", "interleavings: the Go scheduler's own (one per run); the schedule-quantified part of C20 is the cancel-thread scenarios of the C21/C22 scheduler harnesses")
	all := e2.ValidModels(ref.Family(ref.FamilyOpts{Conds: false}))
	reps := ref.Representatives(all, 1, o.Seed)
	stride := 16
	if o.Thorough() {
		stride = 2
	}
	var models []*ref.Model
	for i, m := range reps {
		if i%stride == int(o.Seed)%stride {
			models = append(models, m)
		}
	}
	extras := c20ExtraWorlds()
	cfgs := c20Cfgs()
	nShards := (len(models) + len(extras)) * len(cfgs)
	work := func(si int) any {
		res := &c20Result{}
		cfg := cfgs[si%len(cfgs)]
		mi := si / len(cfgs)
		runWorld := func(w *ref.World, m *ref.Model) {
			fds := dsx.New(memory.New())
			opts := append([]server.OpenFGAServiceV1Option{server.WithRequestTimeout(0)}, cfg.Opts...)
			env := &e2.Env{S: e2.NewServer(fds, opts...), DS: fds, M: m}
			defer env.Close()
			if err := env.NewStore(); err != nil {
				return
			}
			for i := 0; i < len(w.Tuples); i += 50 {
				j := i + 50
				if j > len(w.Tuples) {
					j = len(w.Tuples)
				}
				if err := env.Write(w.Tuples[i:j], env.ModelID); err != nil {
					panic(err)
				}
			}
			res.Worlds++
			var reqs []c20Req
			for typ, rels := range m.Types {
				for rel := range rels {
					if rel == "aux" || rel == "banned" || rel == "parent" || len(w.U[typ]) == 0 {
						continue
					}
					o1 := w.U[typ][0]
					reqs = append(reqs, c20Req{Kind: "check", Obj: o1, Rel: rel, Sub: "user:a"}, c20Req{Kind: "batchcheck", Obj: o1, Rel: rel, Sub: "user:a"},
						c20Req{Kind: "listobjects", Type: typ, Rel: rel, Sub: "user:a"}, c20Req{Kind: "streamedlistobjects", Type: typ, Rel: rel, Sub: "user:a"},
						c20Req{Kind: "listusers", Obj: o1, Rel: rel, Sub: "user:a"}, c20Req{Kind: "expand", Obj: o1, Rel: rel})
				}
			}
			// warm up (lazy initialisation must not count as a leak)
			for _, q := range reqs {
				runC20Req(context.Background(), env, q)
			}
			settle(0, 20*time.Millisecond)
			for _, q := range reqs {
				fds.Arm(dsx.Off, 0, nil)
				base := runtime.NumGoroutine()
				runC20Req(context.Background(), env, q)
				nOps := fds.Ops()
				if nOps > 40 {
					nOps = 40
				}
				for k := 0; k <= nOps; k++ {
					settle(base, 50*time.Millisecond)
					base = runtime.NumGoroutine()
					ctx, cancel := context.WithCancel(context.Background())
					mode := dsx.CancelAt
					if k == 0 {
						mode = dsx.Off
					}
					fds.Arm(mode, k, cancel)
					done := make(chan struct{})
					go func() { runC20Req(ctx, env, q); close(done) }()
					returned := true
					select {
					case <-done:
					case <-time.After(20 * time.Second):
						returned = false
					}
					cancel()
					res.Requests++
					if fds.Fired() {
						res.Faulted++
						res.Nontrivial = append(res.Nontrivial, core.Hash(m.String(), e2.TuplesStr(w.Tuples), cfg.Name, q.String(), fmt.Sprint(k)))
					}
					c := map[string]any{"world": w, "config": cfg.Name, "request": q, "cancel_at_operation": k}
					if !returned {
						res.Viols = append(res.Viols, core.Violation{Signature: "request-does-not-return/" + q.Kind + "/" + cfg.Name, Desc: fmt.Sprintf("%s %s cancel@%d did not return within 20 s; model{%s} tuples{%s}\n%s", cfg.Name, q, k, m, e2.TuplesStr(w.Tuples), goroutineDump()), Case: c})
						return
					}
					// every datastore iterator opened for the request must have been stopped (an iterator is a
					// connection / cursor on a SQL backend)
					if n := openIteratorsSettle(fds, 3*time.Second); n != 0 {
						// the counter is exact (caches and shared iterators are off: nothing drains in the background)
						res.Viols = append(res.Viols, core.Violation{Signature: "datastore-iterator-left-open-after-return/" + q.Kind + "/" + cfg.Name, Desc: fmt.Sprintf("%s %s cancel@%d: %d datastore iterator(s) opened for the request were never stopped (3 s after the call returned); model{%s} tuples{%s}", cfg.Name, q, k, n, m, e2.TuplesStr(w.Tuples)), Case: c})
						return
					}
					d, ok := settle(base, 3*time.Second)
					if ms := float64(d.Microseconds()) / 1000; ms > res.MaxSettle {
						res.MaxSettle = ms
					}
					if !ok {
						// a goroutine of the Go runtime or of a library may appear once; a request that leaves
						// one behind does so every time: the verdict needs three more executions of the same
						// (request, cancellation point) that each leave the count higher than before
						again := 0
						for rep := 0; rep < 3; rep++ {
							b2 := runtime.NumGoroutine()
							ctx2, cancel2 := context.WithCancel(context.Background())
							fds.Arm(mode, k, cancel2)
							runC20Req(ctx2, env, q)
							cancel2()
							if _, ok2 := settle(b2, 3*time.Second); !ok2 {
								again++
							}
						}
						if again < 3 {
							res.Anomalies++
							continue
						}
						res.Viols = append(res.Viols, core.Violation{Signature: "goroutine-left-running-after-return/" + q.Kind + "/" + cfg.Name, Desc: fmt.Sprintf("%s %s cancel@%d: %d goroutines before, %d three seconds after the call returned; model{%s} tuples{%s}\n%s", cfg.Name, q, k, base, runtime.NumGoroutine(), m, e2.TuplesStr(w.Tuples), goroutineDump()), Case: c})
						return
					}
				}
			}
		}
		if mi >= len(models) {
			w := extras[mi-len(models)]
			runWorld(w, w.M)
			return res
		}
		m := models[mi]
		u := ref.DefaultUniverse()
		pool := ref.RelevantPool(m, u)
		n := 0
		ref.Subsets(pool, 2, func(ts []ref.Tuple) {
			// a spread of tuple sets: every 7th two-tuple set and every single-tuple set
			if len(ts) == 0 || (len(ts) == 2 && n%7 != 0 && !o.Thorough()) {
				n++
				return
			}
			n++
			if len(res.Viols) > 0 || r.Expired() {
				return
			}
			runWorld(&ref.World{M: m, Tuples: append([]ref.Tuple{}, ts...), U: u}, m)
		})
		return res
	}
	outs := r.Shards(nShards, work, "GOMAXPROCS=2")
	for i, raw := range outs {
		if raw == nil {
			r.Violate("harness-worker-crashed", fmt.Sprintf("worker %d died", i), map[string]any{"shard": i})
			continue
		}
		var res c20Result
		if err := jsonUnmarshal(raw, &res); err != nil {
			r.Violate("harness-worker-crashed", fmt.Sprintf("worker %d: %v", i, err), map[string]any{"shard": i})
			continue
		}
		r.Eval(res.Requests)
		r.Count("worlds", res.Worlds)
		r.Count("requests_with_cancellation_delivered", res.Faulted)
		r.Count("goroutine_count_anomalies_not_reproduced", res.Anomalies)
		for _, k := range res.Nontrivial {
			r.Nontrivial(k)
		}
		for _, v := range res.Viols {
			r.Violate(v.Signature, v.Desc, v.Case)
		}
		if i < 3 {
			r.Sample(map[string]any{"shard": i, "config": cfgs[i%len(cfgs)].Name, "requests": res.Requests, "cancelled": res.Faulted, "max_settle_ms": res.MaxSettle})
		}
	}
	c20Strategies(o, r)
	return r.Finish()
}


// c20Strategies: termination under EVERY planner strategy assignment. The server-level runs above use the
// server's own (random) planner, so a strategy-specific termination defect shows only when that strategy
// happens to be chosen. Here the hand-made worlds (long cycles, wide fan-outs with the granting branch
// first / last / absent) are checked through commands.CheckQuery over a resolver chain with the scripted
// planner (as in C02), once per assignment of an offered strategy to every consulted plan key, with a
// watchdog: every run must return.
func c20Strategies(o *core.Options, r *core.Report) {
	worlds := c20ExtraWorlds()
	r.Set("forced_strategy_worlds", len(worlds))
	r.Parallel(len(worlds), func(wi int) {
		w := worlds[wi]
		fds := dsx.New(memory.New())
		env := &e2.Env{S: e2.NewServer(fds, server.WithRequestTimeout(0)), DS: fds, M: w.M}
		defer env.Close()
		if err := env.NewStore(); err != nil {
			return
		}
		for i := 0; i < len(w.Tuples); i += 50 {
			j := i + 50
			if j > len(w.Tuples) {
				j = len(w.Tuples)
			}
			if err := env.Write(w.Tuples[i:j], env.ModelID); err != nil {
				panic(err)
			}
		}
		tds, conds := w.M.Proto()
		ts, err := typesystem.NewAndValidate(context.Background(), &openfgav1.AuthorizationModel{Id: env.ModelID, SchemaVersion: "1.1", TypeDefinitions: tds, Conditions: conds})
		if err != nil {
			panic(err)
		}
		for _, cfg := range v1cfgs {
			eng := newV1Engine(cfg)
			stuck := false
			for typ, rels := range w.M.Types {
				for rel := range rels {
					if len(w.U[typ]) == 0 || stuck {
						continue
					}
					obj := w.U[typ][0]
					_, capped := EnumerateAssignments(func(a map[string]string) (map[string][]string, map[string]string) {
						if stuck {
							return nil, nil
						}
						eng.sp.Reset(a)
						fds.Arm(dsx.Off, 0, nil)
						done := make(chan struct{})
						go func() { eng.check(env, ts, obj, rel, "user:a", nil); close(done) }()
						r.Eval(1)
						select {
						case <-done:
							// the same assignment with the request context cancelled at the k-th datastore operation,
							// for every k: the call returns and every iterator it opened is stopped
							nOps := fds.Ops()
							if nOps > 40 {
								nOps = 40
							}
							for k := 1; k <= nOps && !stuck; k++ {
								eng.sp.Reset(a)
								ctx, cancel := context.WithCancel(context.Background())
								fds.Arm(dsx.CancelAt, k, cancel)
								d2 := make(chan struct{})
								go func() { eng.checkCtx(ctx, env, ts, obj, rel, "user:a", nil); close(d2) }()
								r.Eval(1)
								select {
								case <-d2:
								case <-time.After(20 * time.Second):
									stuck = true
									r.Violate("request-does-not-return/check/forced-strategy/cancelled", fmt.Sprintf("Check(%s#%s@user:a) on tuning %s, assignment %v, cancelled at datastore operation %d did not return within 20 s; model{%s}", obj, rel, cfg.Name, a, k, w.M), map[string]any{"world": w, "tuning": cfg.Name, "object": obj, "relation": rel, "cancel_at": k})
								}
								cancel()
								fds.Arm(dsx.Off, 0, nil)
								if n := openIteratorsSettle(fds, 3*time.Second); n != 0 && !stuck {
									stuck = true // the counter cannot be trusted for later runs on this store
									off, ch := eng.sp.Snapshot()
									r.Violate("datastore-iterator-left-open-after-return/check/forced-strategy", fmt.Sprintf("Check(%s#%s@user:a) on tuning %s with strategy assignment %s, cancelled at datastore operation %d: %d datastore iterator(s) opened for the request were never stopped; model{%s} tuples{%s}",
										obj, rel, cfg.Name, assignKeyPrintable(ch, off), k, n, w.M, e2.TuplesStr(w.Tuples)), map[string]any{"world": w, "tuning": cfg.Name, "object": obj, "relation": rel, "cancel_at": k})
								}
							}
						case <-time.After(20 * time.Second):
							stuck = true
							off, ch := eng.sp.Snapshot()
							r.Violate("request-does-not-return/check/forced-strategy", fmt.Sprintf("Check(%s#%s@user:a) on tuning %s with strategy assignment %s did not return within 20 s (no deadline set: it never returns); model{%s} %d tuples\n%s",
								obj, rel, cfg.Name, assignKeyPrintable(ch, off), w.M, len(w.Tuples), goroutineDump()), map[string]any{"world": w, "tuning": cfg.Name, "object": obj, "relation": rel})
							return nil, nil
						}
						off, ch := eng.sp.Snapshot()
						if len(ch) > 0 {
							r.Nontrivial(core.Hash("c20-strategy", w.M.String(), fmt.Sprint(len(w.Tuples)), cfg.Name, obj, rel, assignKeyPrintable(ch, off)))
						}
						return off, ch
					}, 64)
					if capped {
						r.NotExhaustive("assignment closure cap (64) hit in the forced-strategy pass")
					}
				}
			}
			if !stuck {
				eng.closer()
			}
		}
	})
}
