package checks

import (
	"context"
	"fmt"
	"os"
	"sort"
	"strings"
	"sync"

	openfgav1 "github.com/openfga/api/proto/openfga/v1"

	"github.com/openfga/openfga/internal/modelgraph"
	"github.com/openfga/openfga/internal/verifh/core"
	"github.com/openfga/openfga/internal/verifh/e2"
	"github.com/openfga/openfga/internal/verifh/ref"
	"github.com/openfga/openfga/pkg/server"
	"github.com/openfga/openfga/pkg/server/commands"
	"github.com/openfga/openfga/pkg/server/commands/v2breaking"
	"github.com/openfga/openfga/pkg/tuple"
	"github.com/openfga/openfga/pkg/typesystem"
)

func init() { Registry["C03"] = C03 }

// v2 outcome of one raw weighted-graph Check.
type v2out struct {
	V        string // T | F | ERR
	Terminal bool   // the server would NOT fall back to the default engine
	Shape    string // documented request-shape reason (userset_with_exclusion / wildcard_with_exclusion) or ""
	Msg      string
}

func (o v2out) String() string {
	if o.V != "ERR" {
		return o.V
	}
	t := "fallback"
	if o.Terminal {
		t = "terminal"
	}
	return "ERR(" + t + "," + o.Shape + ")"
}

func runV2(env *e2.Env, mg *modelgraph.AuthorizationModelGraph, sp *Scripted, breadth int, o, r, sub string, rc *int, ctxTuples ...ref.Tuple) v2out {
	q := commands.NewCheckQuery(commands.WithCheckQueryV2Datastore(env.DS), commands.WithCheckQueryV2Model(mg), commands.WithCheckQueryV2Planner(sp), commands.WithCheckQueryV2ConcurrencyLimit(breadth))
	params := &commands.CheckCommandParams{StoreID: env.StoreID,
		TupleKey: &openfgav1.CheckRequestTupleKey{Object: o, Relation: r, User: sub}, Context: e2.ReqCtx(rc)}
	if len(ctxTuples) > 0 {
		params.ContextualTuples = &openfgav1.ContextualTupleKeys{TupleKeys: e2.ToTKs(ctxTuples)}
	}
	res, err := q.Execute(context.Background(), params)
	if err != nil {
		se := commands.CheckCommandErrorToServerError(err)
		m := err.Error()
		if len(m) > 120 {
			m = m[:120]
		}
		return v2out{V: "ERR", Terminal: commands.IsV2CheckTerminalError(se), Shape: v2breaking.CheckReasonFromV2Error(err), Msg: m}
	}
	if res.Allowed {
		return v2out{V: "T"}
	}
	return v2out{V: "F"}
}

func subjKind(s string) string {
	switch {
	case strings.Contains(s, "#"):
		return "userset"
	case strings.HasSuffix(s, ":*"):
		return "wildcard"
	}
	return "object"
}

func C03(o *core.Options) int {
	r := core.NewReport(o, "exploration",
		"for every world (model family representatives x tuple subsets of size<=2) and request: the raw weighted-graph CheckQueryV2 under EVERY planner strategy assignment and breadth limit {1,10}, the default engine (CheckQuery) on the same store, and Server.Check with the weighted_graph_check flag; oracle: object subjects: every v2 decision is acceptable to the reference (terminal v2 errors only where the reference fails); userset/wildcard subjects: v2 decision != v1 decision implies the breaking-change detector reports it (v2=false, userset subject, CheckReason non-empty); v2 errors are documented request-shape errors or non-terminal (fallback); the flag-on server answers like v2 when v2 decides and like v1 when it falls back; non-trivial = requests where v2 returned a decision and the reference value is T or E, or where v2 and v1 disagree")
	r.Assume("memory datastore; model family and universe as in C01 (every 8th r0-signature class in quick)",
		"models the weighted graph cannot build are counted and must fall back")
	all := e2.ValidModels(ref.Family(ref.FamilyOpts{Conds: true}))
	reps := ref.Representatives(all, 1, o.Seed)
	var models []*ref.Model
	stride := 8
	if o.Thorough() {
		stride = 1
	}
	for i, m := range reps {
		if i%stride == int(o.Seed)%stride || m.IsTwin() || (strings.Contains(m.Signature(), "|r1=") && i%3 == 0) {
			models = append(models, m)
		}
	}
	if os.Getenv("VERIF_ONLY_FLAT") != "" { // development aid
		models = nil
	}
	if os.Getenv("VERIF_ONLY_FASTPATH") != "" { // development aid
		c03BottomUp(o, r)
		return r.Finish()
	}
	r.Set("models_in_family", len(models))
	nodes := e2.RequestNodes(ref.DefaultUniverse())
	type perModel struct {
		ts *typesystem.TypeSystem
		mg *modelgraph.AuthorizationModelGraph
	}
	cache := sync.Map{}
	var engPool sync.Pool
	engPool.New = func() any { return newV1Engine(v1cfgs[0]) }
	body := func(env *e2.Env, w *ref.World) {
		if len(w.Tuples) == 0 {
			return
		}
		var pm *perModel
		if v, ok := cache.Load(env.ModelID); ok {
			pm = v.(*perModel)
		} else {
			tds, conds := w.M.Proto()
			model := &openfgav1.AuthorizationModel{Id: env.ModelID, SchemaVersion: "1.1", TypeDefinitions: tds, Conditions: conds}
			ts, err := typesystem.NewAndValidate(context.Background(), model)
			if err != nil {
				panic(err)
			}
			mg, err := modelgraph.New(model)
			if err != nil {
				r.Count("models_weighted_graph_cannot_build", 1)
				mg = nil
			}
			pm = &perModel{ts, mg}
			cache.Store(env.ModelID, pm)
		}
		v1 := engPool.Get().(*v1engine)
		defer engPool.Put(v1)
		sp := NewScripted()
		if len(w.Tuples) == 2 {
			r.Sample(map[string]any{"model": w.M.String(), "tuples": e2.TuplesStr(w.Tuples)})
		}
		for _, rc := range e2.ReqContexts(w) {
			for _, sub := range e2.Subjects {
				for _, n := range nodes {
					if !e2.ValidRequest(w.M, n.Obj, n.Rel, sub) {
						continue
					}
					strong, weak := w.Holds(n.Obj, n.Rel, sub, rc)
					v1.sp.Reset(map[string]string{})
					if w.Alt != nil && subjKind(sub) != "object" {
						continue // shadow worlds: only the reference-judged (object subject) clause
					}
					d1 := v1.check(env, pm.ts, n.Obj, n.Rel, sub, rc, w.Contextual...)
					srv := env.Check(n.Obj, n.Rel, sub, rc, w.Contextual)
					r.Eval(2)
					outs := map[string]v2out{}
					if pm.mg != nil {
						for _, breadth := range []int{1, 10} {
							EnumerateAssignments(func(a map[string]string) (map[string][]string, map[string]string) {
								sp.Reset(a)
								got := runV2(env, pm.mg, sp, breadth, n.Obj, n.Rel, sub, rc, w.Contextual...)
								r.Eval(1)
								off, ch := sp.Snapshot()
								outs[fmt.Sprintf("b%d{%s}", breadth, assignKeyPrintable(ch, off))] = got
								return off, ch
							}, 64)
						}
					}
					kind := subjKind(sub)
					tk := &openfgav1.CheckRequestTupleKey{Object: n.Obj, Relation: n.Rel, User: sub}
					decided := false
					var sigs []string
					allowedSrv := map[string]bool{d1.V: true} // the flag-on server may always answer like v1 (fallback)
					for _, v := range outs {
						if v.V != "ERR" {
							decided = true
							allowedSrv[v.V] = true
						} else if v.Terminal {
							allowedSrv["ERR"] = true
						}
						uneval := false
						for _, t := range w.Tuples {
							if w.Valid(t) && ref.CondVal(t, rc) == ref.E {
								uneval = true
							}
						}
						spurious := func() string {
							// a terminal v2 failure that the reference does not call for
							switch {
							case e2.UnevaluableUnreached(w, n.Obj, n.Rel, rc):
								return "V4-spurious-failure/unevaluable-condition-on-unreached-tuple/v2-terminal-error"
							case uneval:
								return "V4-spurious-failure/v2-fails-on-unevaluable-condition-although-decided"
							}
							return "V4-spurious-failure/v2-terminal-error/" + kind + "-subject"
						}
						switch kind {
						case "object":
							if v.V == "ERR" {
								if v.Terminal && strong != ref.E && weak != ref.E {
									sigs = append(sigs, spurious())
								}
								continue
							}
							if vd := e2.Verdict(v.V, strong, weak); vd != "" && !e2.AltAccepts(w, v.V, n.Obj, n.Rel, sub, rc) {
								sg := "v2/" + e2.DecisionSignature(vd, w, n.Obj, n.Rel, rc)
								if w.Alt != nil && !strings.Contains(strings.TrimPrefix(sg, "v2/"), "/") {
									sg += "/contextual-tuple-with-the-key-of-a-stored-tuple"
								}
								if vd == "V2-wrong-deny" || vd == "V3-missed-failure" {
									if recursiveThroughUsersetAndTTU(w.M, ref.TypeOf(n.Obj), n.Rel) {
										sg += "/relation-recursive-through-userset-and-ttu"
									} else if w.M.RecursiveConstructs(ref.TypeOf(n.Obj), n.Rel) >= 2 {
										sg += "/nested-recursive-relations"
									}
								}
								sigs = append(sigs, sg)
							}
						default:
							if v.V == "ERR" {
								if v.Terminal && v.Shape == "" && d1.V != "ERR" && strong != ref.E && weak != ref.E {
									sigs = append(sigs, spurious())
								}
								continue
							}
							if d1.V == "ERR" || v.V == d1.V {
								continue
							}
							reported := v.V == "F" && tuple.IsObjectRelation(sub) && v2breaking.CheckReason(pm.ts, tk) != ""
							if !reported {
								excl := ""
								if v2breaking.CheckExclusionReason(pm.ts, tk) != "" {
									excl = "/exclusion-shape"
								}
								if v.V == "F" && recursiveThroughUsersetAndTTU(w.M, ref.TypeOf(n.Obj), n.Rel) {
									excl += "/relation-recursive-through-userset-and-ttu"
								} else if v.V == "F" && w.M.RecursiveConstructs(ref.TypeOf(n.Obj), n.Rel) >= 2 {
									excl += "/nested-recursive-relations"
								}
								sigs = append(sigs, fmt.Sprintf("unreported-divergence/v2=%s-v1=%s/%s-subject%s", v.V, d1.V, kind, excl))
							} else {
								r.Count("reported_divergences", 1)
							}
						}
					}
					if decided {
						r.Count("v2_decided_requests", 1)
						if strong != ref.F || weak != ref.F {
							r.Nontrivial(core.Hash(w.M.String(), e2.TuplesStr(w.Tuples), sub, e2.CtxStr(rc), n.Obj, n.Rel))
						}
					} else {
						r.Count("v2_not_decided_requests", 1)
					}
					if kind != "object" && !allowedSrv[srv.V] && srv.V != "ERR" && d1.V != "ERR" && srv.V != d1.V {
						// userset/wildcard subject: the flag-on server took the v2 path with an answer none of the
						// raw runs gave (timing dependent); judge it by the detector rule, not by the reference
						if !(srv.V == "F" && tuple.IsObjectRelation(sub) && v2breaking.CheckReason(pm.ts, tk) != "") {
							sigs = append(sigs, fmt.Sprintf("unreported-divergence/v2=%s-v1=%s/%s-subject", srv.V, d1.V, kind))
						}
					} else if vd := e2.Verdict(srv.V, strong, weak); kind == "object" && !allowedSrv[srv.V] && vd != "" && !e2.AltAccepts(w, srv.V, n.Obj, n.Rel, sub, rc) {
						// the flag-on server gave an answer none of the enumerated raw runs gave (the engine's
						// first-arrival rule makes error-vs-false timing dependent): classify it like a raw answer
						uneval := false
						for _, t := range w.Tuples {
							if w.Valid(t) && ref.CondVal(t, rc) == ref.E {
								uneval = true
							}
						}
						switch {
						case srv.V == "ERR" && e2.UnevaluableUnreached(w, n.Obj, n.Rel, rc):
							sigs = append(sigs, "V4-spurious-failure/unevaluable-condition-on-unreached-tuple/v2-terminal-error")
						case srv.V == "ERR" && uneval:
							sigs = append(sigs, "V4-spurious-failure/v2-fails-on-unevaluable-condition-although-decided")
						default:
							sigs = append(sigs, "flag-on-server-answer-matches-neither-v2-nor-fallback/"+vd)
						}
					}
					if len(sigs) > 0 {
						sort.Strings(sigs)
						sigs = compact(sigs)
						so := map[string]string{}
						for k, v := range outs {
							so[k] = v.String()
						}
						for _, sg := range sigs {
							r.Violate(sg, fmt.Sprintf("Check(%s#%s@%s ctx=%s) v2=%v v1=%s server(flag on)=%s ref=%s/%s model{%s} tuples{%s}", n.Obj, n.Rel, sub, e2.CtxStr(rc), so, d1, srv, strong, weak, w.M, e2.TuplesStr(w.Tuples)),
								map[string]any{"world": w, "obj": n.Obj, "rel": n.Rel, "subject": sub, "reqctx": rc, "v2": so, "v1": d1.String(), "server_flag_on": srv.String(), "ref_strong": strong.String(), "ref_weak": weak.String()})
						}
					}
				}
			}
		}
	}
	so := e2.SweepOpts{K: 2, ServerOpts: []server.OpenFGAServiceV1Option{server.WithRequestTimeout(0), server.WithExperimentals("weighted_graph_check")}}
	if os.Getenv("VERIF_ONLY_SHADOW") != "" { // development aid
		if !o.Thorough() {
			e2.ShadowExtraStride = 3
		}
		e2.ShadowSweep(r, models, so, body)
		return r.Finish()
	}
	// the narrow parts first: they must not be the ones a deadline cuts
	c03BottomUp(o, r)
	// nested set operators over one object (ref.FlatFamily), up to 4 tuples
	sf := so
	sf.K, sf.U = 4, ref.FlatUniverse()
	nodes = e2.RequestNodes(sf.U)
	flat := e2.ValidModels(ref.FlatFamily())
	if !o.Thorough() {
		flat = ref.EveryNth(flat, 2, int(o.Seed))
	}
	r.Set("flat_family_models", len(flat))
	e2.Sweep(r, flat, sf, func(env *e2.Env, w *ref.World) {
		r.Count("worlds_flat_family", 1)
		body(env, w)
	})
	nodes = e2.RequestNodes(ref.DefaultUniverse())
	// contextual tuple with the key of a stored tuple (different condition/context)
	if !o.Thorough() {
		e2.ShadowExtraStride = 3
	}
	e2.ShadowSweep(r, models, so, body)
	e2.Sweep(r, models, so, body)
	return r.Finish()
}

// recursiveThroughUsersetAndTTU: the relation admits usersets of itself AND has a tuple-to-userset
// rewrite that leads back to itself.
func recursiveThroughUsersetAndTTU(m *ref.Model, typ, rel string) bool {
	d := m.Types[typ][rel]
	if d == nil {
		return false
	}
	self := false
	for _, x := range d.Restr {
		if x.Type == typ && x.Rel == rel {
			self = true
		}
	}
	var ttu func(e *ref.Expr) bool
	ttu = func(e *ref.Expr) bool {
		if e == nil {
			return false
		}
		if e.K == ref.KTTU && e.Rel == rel {
			return true
		}
		return ttu(e.A) || ttu(e.B)
	}
	return self && ttu(d.Rewrite)
}
