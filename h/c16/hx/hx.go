// Package hx holds the small pieces shared by the history-BFS checks C16, C17 and C31:
// backends (fresh memory datastore / fresh copy of a migrated SQLite database), server
// construction, deterministic ULIDs and a level-synchronous BFS driver.
package hx

import (
	"context"
	"crypto/sha256"
	"io"
	"os"
	"path/filepath"
	"sort"
	"strings"
	"sync"

	"github.com/oklog/ulid/v2"

	"github.com/openfga/openfga/internal/verifh/core"
	"github.com/openfga/openfga/internal/verifh/sqlx"
	"github.com/openfga/openfga/pkg/logger"
	"github.com/openfga/openfga/pkg/server"
	"github.com/openfga/openfga/pkg/storage"
	"github.com/openfga/openfga/pkg/storage/memory"
	"github.com/openfga/openfga/pkg/storage/sqlcommon"
	"github.com/openfga/openfga/pkg/storage/sqlite"
)

const (
	Memory = "memory"
	SQLite = "sqlite"
)

var Backends = []string{Memory, SQLite}

// Template is a migrated, empty SQLite database file that is copied for every fresh instance
// (goose migrations are slow and serialised; copying the 100 kB file is not).
type Template struct {
	tag  string
	path string
	rm   func()
}

func NewTemplate(tag string) *Template {
	dir, rm := sqlx.Scratch(tag + "-tmpl")
	p := filepath.Join(dir, "db.sqlite")
	uri := sqlx.Migrate(p)
	// switch the template to WAL once (persistent in the file header) so that copies do not pay for the conversion
	cfg := sqlcommon.NewConfig()
	cfg.Logger = logger.NewNoopLogger()
	if ds, err := sqlite.New(uri, cfg); err == nil {
		_, _, _ = ds.ListStores(context.Background(), storage.ListStoresOptions{Pagination: storage.NewPaginationOptions(1, "")})
		ds.Close()
	}
	// goose closed its connection: the WAL is checkpointed; drop leftovers so that the copy is self-contained.
	os.Remove(p + "-wal")
	os.Remove(p + "-shm")
	return &Template{tag: tag, path: p, rm: rm}
}

func (t *Template) Close() { t.rm() }

// Fresh returns a datastore on a private copy of the template. cleanup removes the files (close the
// datastore first: Server.Close does that).
func (t *Template) Fresh() (storage.OpenFGADatastore, func()) {
	dir, rm := sqlx.Scratch(t.tag)
	dst := filepath.Join(dir, "db.sqlite")
	in, err := os.Open(t.path)
	if err != nil {
		panic(err)
	}
	out, err := os.Create(dst)
	if err != nil {
		panic(err)
	}
	if _, err := io.Copy(out, in); err != nil {
		panic(err)
	}
	in.Close()
	out.Close()
	cfg := sqlcommon.NewConfig()
	cfg.Logger = logger.NewNoopLogger()
	// durability is not examined by these checks: no fsync per commit (the scratch disk is shared and slow)
	ds, err := sqlite.New("file:"+dst+"?_pragma=synchronous(OFF)", cfg)
	if err != nil {
		rm()
		panic(err)
	}
	return ds, rm
}

// Open returns a fresh empty datastore of the named backend and a cleanup to call after the datastore was closed.
func Open(backend string, t *Template) (storage.OpenFGADatastore, func()) {
	if backend == SQLite {
		return t.Fresh()
	}
	return memory.New(), func() {}
}

func NewServer(ds storage.OpenFGADatastore, opts ...server.OpenFGAServiceV1Option) *server.Server {
	all := append([]server.OpenFGAServiceV1Option{server.WithDatastore(ds), server.WithLogger(logger.NewNoopLogger())}, opts...)
	return server.MustNewServerWithOpts(all...)
}

// HashULID derives a syntactically valid ULID from the parts (deterministic ids for stores).
func HashULID(parts ...string) string {
	h := sha256.New()
	for _, p := range parts {
		h.Write([]byte(p))
		h.Write([]byte{0})
	}
	var u ulid.ULID
	copy(u[:], h.Sum(nil)[:16])
	return u.String()
}

// FixedULID returns the ULID with timestamp ms and entropy n: ordered by (ms, n).
func FixedULID(ms uint64, n byte) string {
	var u ulid.ULID
	if err := u.SetTime(ms); err != nil {
		panic(err)
	}
	u[15] = n
	return u.String()
}

// ---------------------------------------------------------------------------------------------
// BFS over histories. A state is represented by the shortest history (in event-index order) that reaches it.

type Node struct {
	Hist []int  // event indices
	Key  string // canonical state
}

// Result of executing history+event on a fresh instance.
type Step struct {
	Key        string // canonical state after the event ("" = do not expand, e.g. after a violation)
	Nontrivial bool
}

type BFS struct {
	R      *core.Report
	Events int
	Depth  int
	// Exec replays hist on a fresh instance, applies event ev, evaluates the oracle, returns the new state.
	Exec func(hist []int, ev int) Step
	// Prune, when set, skips a (history, event) pair (symmetry reduction); pruned pairs are not counted.
	Prune func(hist []int, ev int) bool
	// OnNew is called, in deterministic order, for every newly discovered state.
	OnNew func(n Node)
	// Tag distinguishes runs in the nontrivial hash (e.g. the backend).
	Tag string
	// InitKey is the canonical key of the initial state.
	InitKey string

	States, Transitions int64
	PerDepth            []int64
}

func histKey(tag string, h []int, ev int) uint64 {
	b := make([]byte, 0, len(h)+2)
	for _, e := range h {
		b = append(b, byte(e))
	}
	b = append(b, 0xff, byte(ev))
	return core.Hash(tag, string(b))
}

// Run explores all histories of length <= Depth, deduplicating states by Key. Deterministic: successors are
// merged in (state order, event order) after each level.
func (b *BFS) Run() {
	seen := map[string]bool{b.InitKey: true}
	frontier := []Node{{Key: b.InitKey}}
	b.States = 1
	b.PerDepth = []int64{1}
	for d := 0; d < b.Depth && len(frontier) > 0; d++ {
		type job struct {
			n  int
			ev int
		}
		var jobs []job
		for i := range frontier {
			for ev := 0; ev < b.Events; ev++ {
				if b.Prune != nil && b.Prune(frontier[i].Hist, ev) {
					continue
				}
				jobs = append(jobs, job{i, ev})
			}
		}
		res := make([]Step, len(jobs))
		done := make([]bool, len(jobs))
		var mu sync.Mutex
		b.R.Parallel(len(jobs), func(i int) {
			j := jobs[i]
			s := b.Exec(frontier[j.n].Hist, j.ev)
			b.R.Eval(1)
			if s.Nontrivial {
				b.R.Nontrivial(histKey(b.Tag, frontier[j.n].Hist, j.ev))
			}
			mu.Lock()
			res[i], done[i] = s, true
			mu.Unlock()
		})
		var next []Node
		for i, j := range jobs {
			if !done[i] {
				continue
			}
			b.Transitions++
			k := res[i].Key
			if k == "" || seen[k] {
				continue
			}
			seen[k] = true
			h := append(append([]int{}, frontier[j.n].Hist...), j.ev)
			next = append(next, Node{Hist: h, Key: k})
			if b.OnNew != nil {
				b.OnNew(next[len(next)-1])
			}
		}
		b.States += int64(len(next))
		b.PerDepth = append(b.PerDepth, int64(len(next)))
		frontier = next
		if b.R.Expired() {
			return
		}
	}
}

// ---------------------------------------------------------------------------------------------
// Deciding a deviation: a deviation is a verdict only when it shows again in all 5 re-executions of the
// same history on fresh instances; otherwise it is recorded as an anomaly and the state of a clean
// re-execution is used to continue the search.

type Dev struct{ Sig, Desc string }

type Outcome struct {
	Key        string
	Nontrivial bool
	Devs       []Dev
}

func sigSet(ds []Dev) string {
	m := map[string]bool{}
	for _, d := range ds {
		m[d.Sig] = true
	}
	var s []string
	for k := range m {
		s = append(s, k)
	}
	sort.Strings(s)
	return strings.Join(s, ",")
}

// Decide executes run once; without deviations that is the result. With deviations it re-executes 5 times:
// signatures seen in all 6 executions are reported through violate (Step.Key = "" stops expansion there);
// anything else goes to anomaly together with how often it was seen.
func Decide(run func() Outcome, violate func(d Dev), anomaly func(sig string, seen int, first Dev)) Step {
	o := run()
	if len(o.Devs) == 0 {
		return Step{Key: o.Key, Nontrivial: o.Nontrivial}
	}
	count := map[string]int{}
	first := map[string]Dev{}
	note := func(ds []Dev) {
		seen := map[string]bool{}
		for _, d := range ds {
			if !seen[d.Sig] {
				seen[d.Sig] = true
				count[d.Sig]++
				if _, ok := first[d.Sig]; !ok {
					first[d.Sig] = d
				}
			}
		}
	}
	note(o.Devs)
	var clean *Outcome
	for i := 0; i < 5; i++ {
		o2 := run()
		note(o2.Devs)
		if len(o2.Devs) == 0 && clean == nil {
			c := o2
			clean = &c
		}
	}
	var sigs []string
	for s := range count {
		sigs = append(sigs, s)
	}
	sort.Strings(sigs)
	violated := false
	for _, s := range sigs {
		if count[s] == 6 {
			violate(first[s])
			violated = true
		} else {
			anomaly(s, count[s], first[s])
		}
	}
	if violated || clean == nil {
		return Step{Nontrivial: o.Nontrivial}
	}
	return Step{Key: clean.Key, Nontrivial: clean.Nontrivial}
}

// ---------------------------------------------------------------------------------------------
// Pool: opening a SQLite database costs 50-100 ms (connection set-up, WAL), far more than a replay. The pool
// keeps one migrated database per worker; a replay gets exclusive use of one of them and works in stores it
// creates itself (fresh ids), on a fresh Server. Server.Close must not close the pooled datastore.

type noClose struct{ storage.OpenFGADatastore }

func (noClose) Close() {}

type Pool struct {
	tm   *Template
	mu   sync.Mutex
	free []storage.OpenFGADatastore
	all  []storage.OpenFGADatastore
	rms  []func()
}

func NewPool(tag string) *Pool { return &Pool{tm: NewTemplate(tag)} }

// Get returns a datastore for one replay and a release function (call it after Server.Close).
func (p *Pool) Get(backend string) (storage.OpenFGADatastore, func()) {
	if backend != SQLite {
		return memory.New(), func() {}
	}
	p.mu.Lock()
	var ds storage.OpenFGADatastore
	if n := len(p.free); n > 0 {
		ds, p.free = p.free[n-1], p.free[:n-1]
	}
	p.mu.Unlock()
	if ds == nil {
		var rm func()
		ds, rm = p.tm.Fresh()
		p.mu.Lock()
		p.all = append(p.all, ds)
		p.rms = append(p.rms, rm)
		p.mu.Unlock()
	}
	return noClose{ds}, func() {
		p.mu.Lock()
		p.free = append(p.free, ds)
		p.mu.Unlock()
	}
}

func (p *Pool) Close() {
	for _, ds := range p.all {
		ds.Close()
	}
	for _, rm := range p.rms {
		rm()
	}
	p.tm.Close()
}

// NewID returns a fresh store id (ids are never part of a state or a verdict: stores are named symbolically).
func NewID() string { return ulid.Make().String() }
