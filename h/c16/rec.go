package c16

import (
	"context"
	"fmt"
	"sync"

	openfgav1 "github.com/openfga/api/proto/openfga/v1"

	"github.com/openfga/openfga/pkg/storage"
)

type markKey struct{}

// withStore marks a request context with the store the request is for.
func withStore(ctx context.Context, store string) context.Context {
	return context.WithValue(ctx, markKey{}, store)
}

// recorder is the datastore seam: it embeds the real datastore and looks at the store id of every storage
// call. A call whose context carries the mark of a request for store X must name X. Calls made from
// background goroutines (cache controller) carry no mark: they must name one of the two stores of the replay.
type recorder struct {
	storage.OpenFGADatastore
	mu           sync.Mutex
	known        map[string]string // store id -> symbolic name
	calls        int64
	unattributed int64
	foreign      []string
}

func (r *recorder) see(ctx context.Context, method, store string) {
	want, _ := ctx.Value(markKey{}).(string)
	r.mu.Lock()
	defer r.mu.Unlock()
	r.calls++
	if want == "" {
		r.unattributed++
		if _, ok := r.known[store]; !ok {
			r.foreign = append(r.foreign, fmt.Sprintf("%s(store=%q) from a background call: not a store of this server", method, store))
		}
		return
	}
	if store != want {
		r.foreign = append(r.foreign, fmt.Sprintf("%s(store=%s) while serving a request for store %s", method, r.name(store), r.name(want)))
	}
}

func (r *recorder) name(id string) string {
	if n, ok := r.known[id]; ok {
		return n
	}
	return fmt.Sprintf("<unknown %q>", id)
}

func (r *recorder) Read(ctx context.Context, store string, f storage.ReadFilter, o storage.ReadOptions) (storage.TupleIterator, error) {
	r.see(ctx, "Read", store)
	return r.OpenFGADatastore.Read(ctx, store, f, o)
}

func (r *recorder) ReadPage(ctx context.Context, store string, f storage.ReadFilter, o storage.ReadPageOptions) ([]*openfgav1.Tuple, string, error) {
	r.see(ctx, "ReadPage", store)
	return r.OpenFGADatastore.ReadPage(ctx, store, f, o)
}

func (r *recorder) ReadUserTuple(ctx context.Context, store string, f storage.ReadUserTupleFilter, o storage.ReadUserTupleOptions) (*openfgav1.Tuple, error) {
	r.see(ctx, "ReadUserTuple", store)
	return r.OpenFGADatastore.ReadUserTuple(ctx, store, f, o)
}

func (r *recorder) ReadUsersetTuples(ctx context.Context, store string, f storage.ReadUsersetTuplesFilter, o storage.ReadUsersetTuplesOptions) (storage.TupleIterator, error) {
	r.see(ctx, "ReadUsersetTuples", store)
	return r.OpenFGADatastore.ReadUsersetTuples(ctx, store, f, o)
}

func (r *recorder) ReadStartingWithUser(ctx context.Context, store string, f storage.ReadStartingWithUserFilter, o storage.ReadStartingWithUserOptions) (storage.TupleIterator, error) {
	r.see(ctx, "ReadStartingWithUser", store)
	return r.OpenFGADatastore.ReadStartingWithUser(ctx, store, f, o)
}

func (r *recorder) Write(ctx context.Context, store string, d storage.Deletes, w storage.Writes, opts ...storage.TupleWriteOption) error {
	r.see(ctx, "Write", store)
	return r.OpenFGADatastore.Write(ctx, store, d, w, opts...)
}

func (r *recorder) ReadAuthorizationModel(ctx context.Context, store, id string) (*openfgav1.AuthorizationModel, error) {
	r.see(ctx, "ReadAuthorizationModel", store)
	return r.OpenFGADatastore.ReadAuthorizationModel(ctx, store, id)
}

func (r *recorder) ReadAuthorizationModels(ctx context.Context, store string, o storage.ReadAuthorizationModelsOptions) ([]*openfgav1.AuthorizationModel, string, error) {
	r.see(ctx, "ReadAuthorizationModels", store)
	return r.OpenFGADatastore.ReadAuthorizationModels(ctx, store, o)
}

func (r *recorder) FindLatestAuthorizationModel(ctx context.Context, store string) (*openfgav1.AuthorizationModel, error) {
	r.see(ctx, "FindLatestAuthorizationModel", store)
	return r.OpenFGADatastore.FindLatestAuthorizationModel(ctx, store)
}

func (r *recorder) WriteAuthorizationModel(ctx context.Context, store string, m *openfgav1.AuthorizationModel) error {
	r.see(ctx, "WriteAuthorizationModel", store)
	return r.OpenFGADatastore.WriteAuthorizationModel(ctx, store, m)
}

func (r *recorder) DeleteStore(ctx context.Context, id string) error {
	r.see(ctx, "DeleteStore", id)
	return r.OpenFGADatastore.DeleteStore(ctx, id)
}

func (r *recorder) GetStore(ctx context.Context, id string) (*openfgav1.Store, error) {
	r.see(ctx, "GetStore", id)
	return r.OpenFGADatastore.GetStore(ctx, id)
}

func (r *recorder) WriteAssertions(ctx context.Context, store, modelID string, a []*openfgav1.Assertion) error {
	r.see(ctx, "WriteAssertions", store)
	return r.OpenFGADatastore.WriteAssertions(ctx, store, modelID, a)
}

func (r *recorder) ReadAssertions(ctx context.Context, store, modelID string) ([]*openfgav1.Assertion, error) {
	r.see(ctx, "ReadAssertions", store)
	return r.OpenFGADatastore.ReadAssertions(ctx, store, modelID)
}

func (r *recorder) ReadChanges(ctx context.Context, store string, f storage.ReadChangesFilter, o storage.ReadChangesOptions) ([]*openfgav1.TupleChange, string, error) {
	r.see(ctx, "ReadChanges", store)
	return r.OpenFGADatastore.ReadChanges(ctx, store, f, o)
}

var _ storage.OpenFGADatastore = (*recorder)(nil)
