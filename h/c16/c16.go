// Package c16 decides C16 "Stores are isolated from each other": explicit-state BFS over interleaved
// histories on two stores of one Server (all caches on) with a differential oracle (a store's observations
// in H equal its observations in H restricted to its own events on a fresh server) and a datastore seam that
// looks at the store id of every storage call.
package c16

import (
	"context"
	"fmt"
	"github.com/openfga/openfga/internal/verifh/e1"
	"github.com/openfga/openfga/pkg/storage"
	"sort"
	"strings"
	"sync"
	"time"

	openfgav1 "github.com/openfga/api/proto/openfga/v1"
	parser "github.com/openfga/language/pkg/go/transformer"
	"google.golang.org/grpc/status"
	"google.golang.org/protobuf/encoding/prototext"
	"google.golang.org/protobuf/proto"

	"github.com/openfga/openfga/internal/verifh/c16/hx"
	"github.com/openfga/openfga/internal/verifh/core"
	"github.com/openfga/openfga/pkg/server"
)

const m1DSL = `model
  schema 1.1
type user
type doc
  relations
    define viewer: [user]
    define editor: [user]
    define can_view: viewer or editor`

const m2DSL = `model
  schema 1.1
type user
type doc
  relations
    define viewer: [user]
    define editor: [user]
    define can_view: editor`

var (
	storeNames = []string{"A", "B"}
	m1ID       = hx.FixedULID(1000, 1) // the first model has the same id in both stores
	t1         = &openfgav1.TupleKey{Object: "doc:1", Relation: "viewer", User: "user:a"}
)

const (
	kW1 = iota
	kD1
	kWM
	kWA
	kDS
	kCK
	kLO
	kLU
	kEX
	kRD
	kRC
	nKinds
)

var kindNames = []string{"Write(doc:1#viewer@user:a)", "Delete(doc:1#viewer@user:a)", "WriteAuthorizationModel(M2)", "WriteAssertions", "DeleteStore",
	"Check(doc:1#can_view@user:a)", "ListObjects(doc,can_view,user:a)", "ListUsers(doc:1,can_view,user)", "Expand(doc:1#viewer)", "Read", "ReadChanges"}

func isMutator(k int) bool { return k < kCK }

func evStore(ev int) int { return ev / nKinds }
func evKind(ev int) int  { return ev % nKinds }
func evName(ev int) string {
	return storeNames[evStore(ev)] + "." + kindNames[evKind(ev)]
}

func names(h []int) []string {
	var out []string
	for _, e := range h {
		out = append(out, evName(e))
	}
	return out
}

func serverOpts() []server.OpenFGAServiceV1Option {
	return []server.OpenFGAServiceV1Option{
		server.WithCheckQueryCacheEnabled(true), server.WithCheckIteratorCacheEnabled(true),
		server.WithListObjectsIteratorCacheEnabled(true), server.WithSharedIteratorEnabled(true),
		server.WithCacheControllerEnabled(true),
	}
}

func code(err error) string {
	st, _ := status.FromError(err)
	if st == nil {
		return "E?"
	}
	return fmt.Sprintf("E%d", int32(st.Code()))
}

func tkStr(t *openfgav1.TupleKey) string {
	s := t.GetObject() + "#" + t.GetRelation() + "@" + t.GetUser()
	if t.GetCondition() != nil {
		s += "[" + t.GetCondition().GetName() + "]"
	}
	return s
}

type world struct {
	r      *core.Report
	pool   *hx.Pool
	m1, m2 *openfgav1.AuthorizationModel
	memo   sync.Map // backend|store|events -> []string (transcript of the store in the restricted history)

	refModels []*openfgav1.AuthorizationModel // the four texts of the cross-store reference part (refs.go)
}

type caseT struct {
	Backend string   `json:"backend"`
	History []string `json:"history"`
	Hist    []int    `json:"hist"`
	Refs    *refCase `json:"refs,omitempty"` // set: a case of the cross-store reference part (refs.go)
}

// result of one execution
type execResult struct {
	Trans   [2][]string // per store: output of each of its events, then the final observation entries
	Final   [2]string   // final observation only
	Devs    []hx.Dev    // deviations found without the differential (seam, DeleteStore clause)
	Calls   int64
	Unattr  int64
	Deleted [2]bool
}

type env struct {
	s      *server.Server
	rec    *recorder
	ids    [2]string
	ctx    [2]context.Context
	latest [2]string
	name   string
}

func modelText(m *openfgav1.AuthorizationModel) string {
	c := proto.Clone(m).(*openfgav1.AuthorizationModel)
	c.Id = ""
	b, _ := proto.MarshalOptions{Deterministic: true}.Marshal(c)
	return fmt.Sprintf("%x", core.Hash(string(b)))
}

func (w *world) modelName(m *openfgav1.AuthorizationModel) string {
	switch modelText(m) {
	case modelText(w.m1):
		return "M1"
	case modelText(w.m2):
		return "M2"
	}
	return "M?" + modelText(m)
}

// apply executes one event on store x and returns its canonical output.
func (w *world) apply(e *env, x, kind int) string {
	ctx, id := e.ctx[x], e.ids[x]
	switch kind {
	case kW1:
		_, err := e.s.Write(ctx, &openfgav1.WriteRequest{StoreId: id, Writes: &openfgav1.WriteRequestWrites{TupleKeys: []*openfgav1.TupleKey{proto.Clone(t1).(*openfgav1.TupleKey)}}})
		if err != nil {
			return code(err)
		}
		return "ok"
	case kD1:
		_, err := e.s.Write(ctx, &openfgav1.WriteRequest{StoreId: id, Deletes: &openfgav1.WriteRequestDeletes{TupleKeys: []*openfgav1.TupleKeyWithoutCondition{{Object: t1.Object, Relation: t1.Relation, User: t1.User}}}})
		if err != nil {
			return code(err)
		}
		return "ok"
	case kWM:
		m := proto.Clone(w.m2).(*openfgav1.AuthorizationModel)
		resp, err := e.s.WriteAuthorizationModel(ctx, &openfgav1.WriteAuthorizationModelRequest{StoreId: id, SchemaVersion: m.SchemaVersion, TypeDefinitions: m.TypeDefinitions, Conditions: m.Conditions})
		if err != nil {
			return code(err)
		}
		e.latest[x] = resp.GetAuthorizationModelId()
		return "ok"
	case kWA:
		_, err := e.s.WriteAssertions(ctx, &openfgav1.WriteAssertionsRequest{StoreId: id, AuthorizationModelId: e.latest[x], Assertions: []*openfgav1.Assertion{
			{TupleKey: &openfgav1.AssertionTupleKey{Object: "doc:1", Relation: "can_view", User: "user:a"}, Expectation: true}}})
		if err != nil {
			return code(err)
		}
		return "ok"
	case kDS:
		_, err := e.s.DeleteStore(ctx, &openfgav1.DeleteStoreRequest{StoreId: id})
		if err != nil {
			return code(err)
		}
		return "ok"
	case kCK:
		resp, err := e.s.Check(ctx, &openfgav1.CheckRequest{StoreId: id, TupleKey: &openfgav1.CheckRequestTupleKey{Object: "doc:1", Relation: "can_view", User: "user:a"}})
		if err != nil {
			return code(err)
		}
		return fmt.Sprint(resp.GetAllowed())
	case kLO:
		resp, err := e.s.ListObjects(ctx, &openfgav1.ListObjectsRequest{StoreId: id, Type: "doc", Relation: "can_view", User: "user:a"})
		if err != nil {
			return code(err)
		}
		o := append([]string{}, resp.GetObjects()...)
		sort.Strings(o)
		return "[" + strings.Join(o, ",") + "]"
	case kLU:
		resp, err := e.s.ListUsers(ctx, &openfgav1.ListUsersRequest{StoreId: id, Object: &openfgav1.Object{Type: "doc", Id: "1"}, Relation: "can_view", UserFilters: []*openfgav1.UserTypeFilter{{Type: "user"}}})
		if err != nil {
			return code(err)
		}
		var u []string
		for _, x := range resp.GetUsers() {
			u = append(u, x.GetObject().GetType()+":"+x.GetObject().GetId())
		}
		sort.Strings(u)
		return "[" + strings.Join(u, ",") + "]"
	case kEX:
		return w.expand(e, x, "viewer")
	case kRD:
		resp, err := e.s.Read(ctx, &openfgav1.ReadRequest{StoreId: id})
		if err != nil {
			return code(err)
		}
		var ts []string
		for _, t := range resp.GetTuples() {
			ts = append(ts, tkStr(t.GetKey()))
		}
		sort.Strings(ts)
		return "[" + strings.Join(ts, ",") + "]" + resp.GetContinuationToken()
	case kRC:
		resp, err := e.s.ReadChanges(ctx, &openfgav1.ReadChangesRequest{StoreId: id})
		if err != nil {
			return code(err)
		}
		var cs []string
		for _, c := range resp.GetChanges() {
			cs = append(cs, c.GetOperation().String()+" "+tkStr(c.GetTupleKey()))
		}
		return "[" + strings.Join(cs, ",") + "]"
	}
	panic("kind")
}

func (w *world) expand(e *env, x int, rel string) string {
	resp, err := e.s.Expand(e.ctx[x], &openfgav1.ExpandRequest{StoreId: e.ids[x], TupleKey: &openfgav1.ExpandRequestTupleKey{Object: "doc:1", Relation: rel}})
	if err != nil {
		return code(err)
	}
	return strings.Join(strings.Fields(prototext.MarshalOptions{}.Format(resp.GetTree())), " ")
}

// observe: everything that can be seen of store x through the API.
func (w *world) observe(e *env, x int, deleted bool, devs *[]hx.Dev) []string {
	ctx, id := e.ctx[x], e.ids[x]
	var out []string
	for _, k := range []int{kCK, kLO, kLU, kEX, kRD, kRC} {
		out = append(out, kindNames[k]+"="+w.apply(e, x, k))
	}
	out = append(out, "Expand(doc:1#can_view)="+w.expand(e, x, "can_view"))
	for _, mid := range []string{m1ID, e.latest[x]} {
		resp, err := e.s.ReadAssertions(ctx, &openfgav1.ReadAssertionsRequest{StoreId: id, AuthorizationModelId: mid})
		v := ""
		if err != nil {
			v = code(err)
		} else {
			for _, a := range resp.GetAssertions() {
				v += fmt.Sprintf("%s#%s@%s=%v;", a.GetTupleKey().GetObject(), a.GetTupleKey().GetRelation(), a.GetTupleKey().GetUser(), a.GetExpectation())
			}
		}
		which := "first model"
		if mid != m1ID {
			which = "latest model"
		} else if e.latest[x] == m1ID {
			which = "first=latest model"
		}
		out = append(out, "ReadAssertions("+which+")=["+v+"]")
		if e.latest[x] == m1ID {
			break
		}
	}
	if resp, err := e.s.ReadAuthorizationModels(ctx, &openfgav1.ReadAuthorizationModelsRequest{StoreId: id}); err != nil {
		out = append(out, "ReadAuthorizationModels="+code(err))
	} else {
		var ms []string
		for _, m := range resp.GetAuthorizationModels() {
			ms = append(ms, w.modelName(m))
		}
		sort.Strings(ms)
		out = append(out, "ReadAuthorizationModels=["+strings.Join(ms, ",")+"]")
	}
	gs, err := e.s.GetStore(ctx, &openfgav1.GetStoreRequest{StoreId: id})
	if err != nil {
		out = append(out, "GetStore="+code(err))
		if !deleted {
			*devs = append(*devs, hx.Dev{Sig: "live-store-not-returned-by-GetStore", Desc: fmt.Sprintf("GetStore(%s) failed (%v) although the store was not deleted", storeNames[x], err)})
		} else if code(err) != fmt.Sprintf("E%d", int32(openfgav1.NotFoundErrorCode_store_id_not_found)) {
			*devs = append(*devs, hx.Dev{Sig: "GetStore-of-deleted-store-not-a-not-found-error", Desc: fmt.Sprintf("GetStore(%s) after DeleteStore: %v", storeNames[x], err)})
		}
	} else {
		out = append(out, "GetStore=ok name-matches="+fmt.Sprint(gs.GetName() == e.name))
		if deleted {
			*devs = append(*devs, hx.Dev{Sig: "deleted-store-returned-by-GetStore", Desc: fmt.Sprintf("GetStore(%s) succeeds after DeleteStore", storeNames[x])})
		}
	}
	// ListStores filtered by the (replay-unique) name both stores share
	listed, token := false, ""
	for {
		ls, err := e.s.ListStores(ctx, &openfgav1.ListStoresRequest{Name: e.name, ContinuationToken: token})
		if err != nil {
			out = append(out, "ListStores="+code(err))
			break
		}
		for _, s := range ls.GetStores() {
			if s.GetId() == id {
				listed = true
			}
		}
		if token = ls.GetContinuationToken(); token == "" {
			break
		}
	}
	out = append(out, "ListStores-contains="+fmt.Sprint(listed))
	if listed && deleted {
		*devs = append(*devs, hx.Dev{Sig: "deleted-store-returned-by-ListStores", Desc: fmt.Sprintf("ListStores contains %s after DeleteStore", storeNames[x])})
	}
	if !listed && !deleted {
		*devs = append(*devs, hx.Dev{Sig: "live-store-missing-from-ListStores", Desc: fmt.Sprintf("ListStores omits %s although it was not deleted", storeNames[x])})
	}
	// ListStores with an id filter naming both stores (what the server passes when access control is on: the
	// caller's readable stores), at the datastore interface
	if stores, _, err := e.rec.OpenFGADatastore.ListStores(ctx, storage.ListStoresOptions{IDs: []string{e.ids[1], e.ids[0]}, Pagination: storage.PaginationOptions{PageSize: 50}}); err != nil {
		out = append(out, "ListStores-by-ids="+code(err))
	} else {
		l2 := false
		for _, s := range stores {
			if s.GetId() == id {
				l2 = true
			}
		}
		out = append(out, "ListStores-by-ids-contains="+fmt.Sprint(l2))
		if l2 && deleted {
			*devs = append(*devs, hx.Dev{Sig: "deleted-store-returned-by-ListStores/id-filter", Desc: fmt.Sprintf("datastore ListStores with an id filter contains %s after DeleteStore", storeNames[x])})
		}
		if !l2 && !deleted {
			*devs = append(*devs, hx.Dev{Sig: "live-store-missing-from-ListStores/id-filter", Desc: fmt.Sprintf("datastore ListStores with an id filter omits %s although it was not deleted", storeNames[x])})
		}
	}
	return out
}

// exec replays hist on a fresh server with two fresh stores.
func (w *world) exec(backend string, hist []int) execResult {
	bg := context.Background()
	ds, release := w.pool.Get(backend)
	defer release()
	rec := &recorder{OpenFGADatastore: ds, known: map[string]string{}}
	s := hx.NewServer(rec, serverOpts()...)
	defer s.Close()
	e := &env{s: s, rec: rec, name: "verif-" + strings.ToLower(hx.NewID())}
	for x := range storeNames {
		st, err := s.CreateStore(bg, &openfgav1.CreateStoreRequest{Name: e.name})
		if err != nil {
			panic(err)
		}
		e.ids[x] = st.GetId()
		rec.mu.Lock()
		rec.known[st.GetId()] = storeNames[x]
		rec.mu.Unlock()
		m := proto.Clone(w.m1).(*openfgav1.AuthorizationModel)
		m.Id = m1ID
		if err := ds.WriteAuthorizationModel(bg, st.GetId(), m); err != nil {
			panic(err)
		}
		e.latest[x] = m1ID
		e.ctx[x] = withStore(bg, st.GetId())
	}
	var res execResult
	for _, ev := range hist {
		x, k := evStore(ev), evKind(ev)
		out := w.apply(e, x, k)
		if k == kDS && out == "ok" {
			res.Deleted[x] = true
		}
		res.Trans[x] = append(res.Trans[x], kindNames[k]+"="+out)
	}
	for x := range storeNames {
		obs := w.observe(e, x, res.Deleted[x], &res.Devs)
		res.Final[x] = strings.Join(obs, " | ")
		for _, o := range obs {
			res.Trans[x] = append(res.Trans[x], "final "+o)
		}
	}
	rec.mu.Lock()
	res.Calls, res.Unattr = rec.calls, rec.unattributed
	for _, f := range rec.foreign {
		res.Devs = append(res.Devs, hx.Dev{Sig: "storage-call-with-foreign-store-id", Desc: f})
	}
	rec.mu.Unlock()
	return res
}

func restrict(hist []int, x int) []int {
	var out []int
	for _, e := range hist {
		if evStore(e) == x {
			out = append(out, e)
		}
	}
	return out
}

func sameTrans(a, b []string) (bool, string) {
	for i := 0; i < len(a) || i < len(b); i++ {
		var x, y string
		if i < len(a) {
			x = a[i]
		}
		if i < len(b) {
			y = b[i]
		}
		if x != y {
			return false, fmt.Sprintf("entry %d: in the interleaved history %q, alone %q", i, x, y)
		}
	}
	return true, ""
}

// alone returns the transcript of store x when only its own events are executed (memoised; the execution
// must give the same transcript twice before it is trusted).
func (w *world) alone(backend string, x int, hx_ []int) ([]string, bool) {
	key := fmt.Sprintf("%s|%d|%v", backend, x, hx_)
	if v, ok := w.memo.Load(key); ok {
		return v.([]string), true
	}
	for try := 0; try < 4; try++ {
		a := w.exec(backend, hx_)
		b := w.exec(backend, hx_)
		w.r.Count("restricted_executions", 2)
		if ok, _ := sameTrans(a.Trans[x], b.Trans[x]); ok && len(a.Devs) == 0 && len(b.Devs) == 0 {
			w.memo.Store(key, a.Trans[x])
			return a.Trans[x], true
		}
	}
	return nil, false
}

// footprint: per-store part of the state that the API cannot show: how many events the store had, whether it
// entered its observation phase, which cache-filling requests it made and at which model count.
func footprint(hist []int, x int) string {
	n, models := 0, 1
	warm := map[string]bool{}
	obs := false
	for _, ev := range hist {
		if evStore(ev) != x {
			continue
		}
		n++
		k := evKind(ev)
		if !isMutator(k) {
			obs = true
		}
		switch k {
		case kWM:
			models++
		case kCK, kLO, kLU:
			warm[fmt.Sprintf("%s@%d", kindNames[k][:5], models)] = true
			warm[fmt.Sprintf("ts@%d", models)] = true
		case kW1, kD1, kWA, kEX:
			warm[fmt.Sprintf("ts@%d", models)] = true
		}
	}
	var ws []string
	for k := range warm {
		ws = append(ws, k)
	}
	sort.Strings(ws)
	return fmt.Sprintf("n=%d obs=%v warm=%s", n, obs, strings.Join(ws, ","))
}

func (w *world) run(backend string, hist []int) hx.Outcome {
	res := w.exec(backend, hist)
	w.r.Count("storage_calls_seen_by_seam", res.Calls)
	w.r.Count("storage_calls_from_background_goroutines", res.Unattr)
	devs := res.Devs
	counts := [2]int{}
	for _, ev := range hist {
		counts[evStore(ev)]++
	}
	for x := range storeNames {
		want, ok := w.alone(backend, x, restrict(hist, x))
		if !ok {
			devs = append(devs, hx.Dev{Sig: "restricted-history-not-reproducible", Desc: fmt.Sprintf("store %s alone gives different transcripts in repeated executions", storeNames[x])})
			continue
		}
		if same, where := sameTrans(res.Trans[x], want); !same {
			what := where
			if i := strings.Index(where, "\""); i >= 0 {
				what = where[i+1:]
			}
			what = strings.TrimPrefix(what, "final ")
			if i := strings.IndexAny(what, "=("); i >= 0 {
				what = what[:i]
			}
			devs = append(devs, hx.Dev{Sig: "store-observation-depends-on-other-store/" + what,
				Desc: fmt.Sprintf("observations of store %s differ from the same events executed alone: %s", storeNames[x], where)})
		}
	}
	key := fmt.Sprintf("A{%s %s} B{%s %s}", footprint(hist, 0), res.Final[0], footprint(hist, 1), res.Final[1])
	return hx.Outcome{Key: key, Nontrivial: counts[0] > 0 && counts[1] > 0 && res.Final[0] != res.Final[1], Devs: devs}
}

func (w *world) report(backend string, hist []int, d hx.Dev) {
	w.r.Violate(d.Sig, fmt.Sprintf("[%s] history %v: %s", backend, names(hist), d.Desc), caseT{Backend: backend, History: names(hist), Hist: hist})
}

func Run(o *core.Options) int {
	r := core.NewReport(o, "model_checking",
		"BFS over interleaved histories on two stores A, B of one Server (same store name, same first model id and text, same object/user ids; check query cache, both iterator caches, shared iterators and cache controller on). Events per store: write/delete tuple doc:1#viewer@user:a, write a second model (can_view loses a branch), write assertions, delete store, Check, ListObjects, ListUsers, Expand, Read, ReadChanges (queries carry no model id). Per store: mutators before observers (a store's own cache staleness is allowed behaviour and timing dependent; it is not what is examined), at most P events per store and D events in total; requests without effect are not enumerated (write of a present tuple, delete of an absent one, mutators on a deleted store, a second WriteAuthorizationModel/WriteAssertions on the same store). successor = replay of the shortest history on a fresh Server + one event; then both stores are fully observed. Oracle: for each store, the outputs of its events and its final observation equal those of the same events executed alone on a fresh server; a recording datastore checks the store id of every storage call against the store of the request; GetStore/ListStores (by name at the API, by an id filter naming both stores at the datastore interface) after DeleteStore. States deduplicated by (per store: final observation, number of events, phase, cache-filling requests made per model count). Mirror images (first event on B) are pruned. non-trivial = both stores have events and their final observations differ; distinct by (backend, history). PART 2, cross-store references (refs.go; memory and SQLite in both tiers): one Server (same caches), stores A and B with different tuples; every model identifier of the world - S (caller-chosen id written into BOTH stores through storage.WriteAuthorizationModel with a DIFFERENT text per store), GA / GB (ids the Server generated for a model written to A / B through the API), N (well-formed, never written), none (latest) - is used on BOTH stores in every model-addressed request: ReadAuthorizationModel, Check, BatchCheck, ListObjects, ListUsers, Expand, ReadAssertions, WriteAssertions, Write at the Server API, and ReadAuthorizationModel, ReadAssertions, FindLatestAuthorizationModel, ReadAuthorizationModels, WriteAssertions at the datastore interface. A case = (text assignment of 4 texts with different can_view, whose rows are inserted first, which store is asked first, prefix of <= L requests from the whole alphabet incl. the mutators) on a fresh Server, followed by a sweep of every observer x every identifier on both stores and of the datastore interface; so every cache is filled once by the owner first and once by the foreign reference first. Oracle: a reference of two independent stores in plain Go (maps; can_view of the four texts written by hand): an id that names no model of the store of the request must be refused, with exactly the refusal given to the never-written id N (ids masked), and must leave both stores unchanged; an id the store holds must be answered from that store's own text, tuples and assertions; the seam checks the store id of every storage call. Signatures model-reference/<layer>/<request>/<identifier kind>/<class>; a signature is decided by 6 executions of the first case showing it. non-trivial = the two stores answered the shared id differently and foreign ids were presented; distinct by case")
	r.Assume("memory: fresh datastore per replay; SQLite: fresh Server and two fresh stores (replay-unique name) per replay on a per-worker migrated database, fsync disabled",
		"the first model is installed through the datastore interface so that both stores hold the same model id; every event goes through the Server API",
		"background storage calls (cache controller) carry no request mark: they are only required to name one of the two stores",
		"a deviation is a verdict only if it shows in all 6 executions of the same history; otherwise it is listed under anomalies",
		"cross-store references: S and N are fresh per replay (pooled SQLite databases are reused) with an old timestamp, so that the generated ids are the latest models; the shared id can only be produced through the datastore interface (the Server generates unique ids), generated ids come from the Server API",
		"cross-store references, bounds: quick L=1 (memory: 4 insertion/sweep orders; SQLite: the 2 orders that exchange the roles of the stores); thorough adds every text in every role, equal texts under the shared id, L=2 on memory and L=2 behind a mutating first request on SQLite")
	w := &world{r: r, m1: parser.MustTransformDSLToProto(m1DSL), m2: parser.MustTransformDSLToProto(m2DSL)}
	w.refModels = refModels()
	w.pool = hx.NewPool("c16")
	defer w.pool.Close()

	if o.Replay != "" {
		var c caseT
		if err := core.LoadReplay(o.Replay, &c); err != nil {
			fmt.Println("replay:", err)
			return 2
		}
		for i := 0; i < 5 && c.Refs != nil; i++ {
			out, _ := w.runRefs(*c.Refs)
			r.Eval(1)
			fmt.Printf("replay %d: %v deviations=%v\n", i, c.Refs.describe(), out.Devs)
			for _, d := range out.Devs {
				w.reportRefs(*c.Refs, d)
			}
		}
		for i := 0; i < 5 && c.Refs == nil; i++ {
			out := w.run(c.Backend, c.Hist)
			r.Eval(1)
			fmt.Printf("replay %d: %v deviations=%v\n", i, names(c.Hist), out.Devs)
			for _, d := range out.Devs {
				w.report(c.Backend, c.Hist, d)
			}
		}
		return r.Finish()
	}

	type cfg struct {
		backend         string
		perStore, total int
	}
	cfgs := []cfg{{hx.Memory, 3, 4}, {hx.SQLite, 3, 3}}
	if o.Thorough() {
		cfgs = []cfg{{hx.Memory, 4, 6}, {hx.SQLite, 4, 4}}
	}
	per := map[string]any{}
	for _, c := range cfgs {
		init := w.run(c.backend, nil)
		for _, d := range init.Devs {
			w.report(c.backend, nil, d)
		}
		b := &hx.BFS{R: r, Events: 2 * nKinds, Depth: c.total, Tag: c.backend, InitKey: init.Key}
		b.Prune = func(hist []int, ev int) bool {
			x, k := evStore(ev), evKind(ev)
			if len(hist) == 0 && x != 0 {
				return true // mirror image
			}
			n, obs, present, deleted := 0, false, false, false
			done := map[int]bool{}
			for _, e := range hist {
				if evStore(e) == x {
					n++
					ek := evKind(e)
					done[ek] = true
					switch {
					case !isMutator(ek):
						obs = true
					case ek == kW1:
						present = true
					case ek == kD1:
						present = false
					case ek == kDS:
						deleted = true
					}
				}
			}
			switch {
			case n >= c.perStore, obs && isMutator(k):
				return true
			case deleted && isMutator(k): // nothing is written to a deleted store
				return true
			case k == kW1 && present, k == kD1 && !present: // requests that are rejected without effect
				return true
			case (k == kWM || k == kWA) && done[k]: // at most one second model / one assertion write per store
				return true
			}
			return false
		}
		b.Exec = func(hist []int, ev int) hx.Step {
			h := append(append([]int{}, hist...), ev)
			return hx.Decide(func() hx.Outcome { return w.run(c.backend, h) },
				func(d hx.Dev) { w.report(c.backend, h, d) },
				func(sig string, seen int, d hx.Dev) {
					r.Count("anomaly/"+sig, 1)
					r.Anomaly(map[string]any{"backend": c.backend, "history": names(h), "signature": sig, "seen": fmt.Sprintf("%d/6", seen), "desc": d.Desc})
				})
		}
		nsamp, nnew := 0, 0
		b.OnNew = func(n hx.Node) {
			if len(n.Hist) != c.total {
				return
			}
			nnew++
			if nsamp < 2 && nnew%131 == 7 {
				nsamp++
				r.Sample(map[string]any{"backend": c.backend, "history": names(n.Hist), "state": n.Key})
			}
		}
		t0 := time.Now()
		b.Run()
		r.Set("wall_s/"+c.backend, time.Since(t0).Seconds())
		r.States += b.States
		r.Transitions += b.Transitions
		r.Traces += b.Transitions
		per[c.backend] = map[string]any{"states": b.States, "transitions": b.Transitions, "states_per_depth": b.PerDepth, "max_events_per_store": c.perStore, "max_events_total": c.total}
	}
	r.Set("per_backend", per)
	t0 := time.Now()
	w.exploreRefs(o)
	r.Set("wall_s/refs", time.Since(t0).Seconds())
	e1.MergeSub(o, r, "tsres", "C16", "resolver_interleavings", "typesystem.MemoizedTypesystemResolverFunc over storagewrappers.NewCachedOpenFGADatastore over a memory datastore with scheduling points around its model operations (golang.org/x/sync/singleflight instrumented): 2-4 threads of resolve(store, latest|explicit id) and model writes on two stores that share model ids, every interleaving up to the preemption bound; every answer must be one a linearizable model store could give (no model of another store, the latest model right after a write returned), also for sequential resolves after all threads finished (cache poisoning)")
	return r.Finish()
}
