// Package shapes records the SHAPE of every read call that reaches a datastore: which method, and for
// every filter dimension only its form (empty / type-only / complete object / userset / wildcard,
// nil vs non-nil, restriction kinds, counts) - never the concrete names. The shapes seen under the
// Server API are exactly the filters production callers hand to storagewrappers.CombinedTupleReader
// (it is the outermost reader of a request and forwards every filter unchanged).
package shapes

import (
	"context"
	"runtime"
	"sort"
	"strings"
	"sync"
	"sync/atomic"

	openfgav1 "github.com/openfga/api/proto/openfga/v1"

	"github.com/openfga/openfga/pkg/storage"
)

// Form of a string field that holds an object, a user or a prefix of one.
func Form(s string) string {
	if s == "" {
		return "empty"
	}
	rel := ""
	if i := strings.IndexByte(s, '#'); i >= 0 {
		rel = "#rel"
		if i == len(s)-1 {
			rel = "#"
		}
		s = s[:i]
	}
	i := strings.IndexByte(s, ':')
	switch {
	case i < 0:
		return "other" + rel
	case i == 0:
		return ":id" + rel
	case i == len(s)-1:
		return "type:" + rel
	case s[i+1:] == "*":
		return "type:*" + rel
	}
	return "type:id" + rel
}

func set(s string) string {
	if s == "" {
		return "empty"
	}
	return "set"
}

func count(n int) string {
	switch {
	case n == 0:
		return "0"
	case n == 1:
		return "1"
	}
	return "2+"
}

// Conds: nil / [] / the sorted set of element kinds ("" = the unconditioned marker, name = a condition name).
func Conds(c []string) string {
	if c == nil {
		return "nil"
	}
	if len(c) == 0 {
		return "[]"
	}
	empty, named := false, false
	for _, x := range c {
		if x == "" {
			empty = true
		} else {
			named = true
		}
	}
	switch {
	case empty && named:
		return `["",name]`
	case empty:
		return `[""]`
	}
	return "[name]"
}

// Restrictions: count bucket, set of kinds, and whether two entries share a type.
func Restrictions(rs []*openfgav1.RelationReference) string {
	if rs == nil {
		return "nil"
	}
	kinds := map[string]bool{}
	types := map[string]int{}
	for _, r := range rs {
		switch r.GetRelationOrWildcard().(type) {
		case *openfgav1.RelationReference_Relation:
			kinds["relation"] = true
		case *openfgav1.RelationReference_Wildcard:
			kinds["wildcard"] = true
		default:
			kinds["direct"] = true
		}
		types[r.GetType()]++
	}
	var ks []string
	for k := range kinds {
		ks = append(ks, k)
	}
	sort.Strings(ks)
	s := count(len(rs)) + "{" + strings.Join(ks, ",") + "}"
	for _, n := range types {
		if n > 1 {
			return s + "/two-share-a-type"
		}
	}
	return s
}

// UserFilter: count bucket and the set of entry forms (Object form, '+rel' when Relation is set).
func UserFilter(uf []*openfgav1.ObjectRelation) string {
	if uf == nil {
		return "nil"
	}
	forms := map[string]bool{}
	for _, u := range uf {
		f := Form(u.GetObject())
		if u.GetRelation() != "" {
			f += "+rel"
		}
		forms[f] = true
	}
	var fs []string
	for f := range forms {
		fs = append(fs, f)
	}
	sort.Strings(fs)
	return count(len(uf)) + "{" + strings.Join(fs, ",") + "}"
}

func ObjectIDs(s storage.SortedSet) string {
	if s == nil {
		return "nil"
	}
	return "non-nil"
}

func OfRead(kind string, f storage.ReadFilter) string {
	return kind + " object=" + Form(f.Object) + " relation=" + set(f.Relation) + " user=" + Form(f.User) + " conditions=" + Conds(f.Conditions)
}

func OfReadUsersetTuples(f storage.ReadUsersetTuplesFilter) string {
	return "ReadUsersetTuples object=" + Form(f.Object) + " relation=" + set(f.Relation) + " restrictions=" + Restrictions(f.AllowedUserTypeRestrictions) + " conditions=" + Conds(f.Conditions)
}

func OfReadStartingWithUser(f storage.ReadStartingWithUserFilter, o storage.ReadStartingWithUserOptions) string {
	s := "ReadStartingWithUser object_type=" + set(f.ObjectType) + " relation=" + set(f.Relation) + " user_filter=" + UserFilter(f.UserFilter) +
		" object_ids=" + ObjectIDs(f.ObjectIDs) + " conditions=" + Conds(f.Conditions)
	if o.WithResultsSortedAscending {
		return s + " sorted=yes"
	}
	return s + " sorted=no"
}

// Recorder counts shapes; safe for concurrent use.
type Recorder struct {
	m  sync.Map // shape -> *atomic.Int64
	on atomic.Bool
	// Marker, when set, is a substring of a function name (e.g. "storagewrappers.(*CombinedTupleReader)");
	// every recorded shape is then suffixed with " via=<MarkerLabel>" if a frame of the calling
	// goroutine's stack is in such a function, else with " via=direct".
	Marker, MarkerLabel string
	pcs                 sync.Map // pc -> bool
}

func NewRecorder() *Recorder {
	r := &Recorder{}
	r.on.Store(true)
	return r
}

// Enable switches recording on or off (wrapped datastores stay usable either way).
func (r *Recorder) Enable(on bool) { r.on.Store(on) }

func (r *Recorder) via() string {
	var pcs [64]uintptr
	n := runtime.Callers(3, pcs[:])
	for _, pc := range pcs[:n] {
		v, ok := r.pcs.Load(pc)
		if !ok {
			hit := false
			if f := runtime.FuncForPC(pc - 1); f != nil {
				hit = strings.Contains(f.Name(), r.Marker)
			}
			r.pcs.Store(pc, hit)
			v = hit
		}
		if v.(bool) {
			return " via=" + r.MarkerLabel
		}
	}
	return " via=direct"
}

func (r *Recorder) add(s string) {
	if !r.on.Load() {
		return
	}
	if r.Marker != "" {
		s += r.via()
	}
	v, ok := r.m.Load(s)
	if !ok {
		v, _ = r.m.LoadOrStore(s, new(atomic.Int64))
	}
	v.(*atomic.Int64).Add(1)
}

// Counts returns shape -> number of calls.
func (r *Recorder) Counts() map[string]int64 {
	out := map[string]int64{}
	r.m.Range(func(k, v any) bool { out[k.(string)] = v.(*atomic.Int64).Load(); return true })
	return out
}

// Sorted returns the distinct shapes in ascending order.
func (r *Recorder) Sorted() []string {
	var ks []string
	for k := range r.Counts() {
		ks = append(ks, k)
	}
	sort.Strings(ks)
	return ks
}

// Wrap returns a datastore that records the shape of every tuple read and delegates everything.
func (r *Recorder) Wrap(ds storage.OpenFGADatastore) storage.OpenFGADatastore {
	return &recDS{OpenFGADatastore: ds, r: r}
}

type recDS struct {
	storage.OpenFGADatastore
	r *Recorder
}

func (d *recDS) Read(ctx context.Context, store string, f storage.ReadFilter, o storage.ReadOptions) (storage.TupleIterator, error) {
	d.r.add(OfRead("Read", f))
	return d.OpenFGADatastore.Read(ctx, store, f, o)
}

func (d *recDS) ReadPage(ctx context.Context, store string, f storage.ReadFilter, o storage.ReadPageOptions) ([]*openfgav1.Tuple, string, error) {
	d.r.add(OfRead("ReadPage", f))
	return d.OpenFGADatastore.ReadPage(ctx, store, f, o)
}

func (d *recDS) ReadUserTuple(ctx context.Context, store string, f storage.ReadUserTupleFilter, o storage.ReadUserTupleOptions) (*openfgav1.Tuple, error) {
	d.r.add(OfRead("ReadUserTuple", f))
	return d.OpenFGADatastore.ReadUserTuple(ctx, store, f, o)
}

func (d *recDS) ReadUsersetTuples(ctx context.Context, store string, f storage.ReadUsersetTuplesFilter, o storage.ReadUsersetTuplesOptions) (storage.TupleIterator, error) {
	d.r.add(OfReadUsersetTuples(f))
	return d.OpenFGADatastore.ReadUsersetTuples(ctx, store, f, o)
}

func (d *recDS) ReadStartingWithUser(ctx context.Context, store string, f storage.ReadStartingWithUserFilter, o storage.ReadStartingWithUserOptions) (storage.TupleIterator, error) {
	d.r.add(OfReadStartingWithUser(f, o))
	return d.OpenFGADatastore.ReadStartingWithUser(ctx, store, f, o)
}

// Capture is a reader that answers nothing and remembers the shape of the last call it received; it is
// used to compute the shape of a battery call through the very code that issues it.
type Capture struct{ Last string }

var _ storage.RelationshipTupleReader = (*Capture)(nil)

func (c *Capture) Read(_ context.Context, _ string, f storage.ReadFilter, _ storage.ReadOptions) (storage.TupleIterator, error) {
	c.Last = OfRead("Read", f)
	return storage.NewStaticTupleIterator(nil), nil
}

func (c *Capture) ReadPage(_ context.Context, _ string, f storage.ReadFilter, _ storage.ReadPageOptions) ([]*openfgav1.Tuple, string, error) {
	c.Last = OfRead("ReadPage", f)
	return nil, "", nil
}

func (c *Capture) ReadUserTuple(_ context.Context, _ string, f storage.ReadUserTupleFilter, _ storage.ReadUserTupleOptions) (*openfgav1.Tuple, error) {
	c.Last = OfRead("ReadUserTuple", f)
	return nil, storage.ErrNotFound
}

func (c *Capture) ReadUsersetTuples(_ context.Context, _ string, f storage.ReadUsersetTuplesFilter, _ storage.ReadUsersetTuplesOptions) (storage.TupleIterator, error) {
	c.Last = OfReadUsersetTuples(f)
	return storage.NewStaticTupleIterator(nil), nil
}

func (c *Capture) ReadStartingWithUser(_ context.Context, _ string, f storage.ReadStartingWithUserFilter, o storage.ReadStartingWithUserOptions) (storage.TupleIterator, error) {
	c.Last = OfReadStartingWithUser(f, o)
	return storage.NewStaticTupleIterator(nil), nil
}
