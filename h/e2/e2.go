// Package e2 runs bounded worlds (model, tuple set) against a real openfga Server.
package e2

import (
	"context"
	"errors"
	"fmt"
	"sort"
	"strings"
	"sync"
	"time"

	openfgav1 "github.com/openfga/api/proto/openfga/v1"
	"google.golang.org/grpc/status"
	"google.golang.org/protobuf/types/known/structpb"

	"github.com/openfga/openfga/internal/verifh/core"
	"github.com/openfga/openfga/internal/verifh/ref"
	"github.com/openfga/openfga/pkg/logger"
	"github.com/openfga/openfga/pkg/server"
	"github.com/openfga/openfga/pkg/storage"
	"github.com/openfga/openfga/pkg/storage/memory"
	"github.com/openfga/openfga/pkg/typesystem"
)

type Env struct {
	S           *server.Server
	DS          storage.OpenFGADatastore
	StoreID     string
	ModelID     string
	PermModelID string
	M           *ref.Model
}

func ToTK(t ref.Tuple) *openfgav1.TupleKey {
	tk := &openfgav1.TupleKey{Object: t.Obj, Relation: t.Rel, User: t.User}
	if t.Cond != "" {
		tk.Condition = &openfgav1.RelationshipCondition{Name: t.Cond}
		if t.Ctx != nil {
			tk.Condition.Context, _ = structpb.NewStruct(map[string]any{"x": *t.Ctx})
		}
	}
	return tk
}

func ToTKs(ts []ref.Tuple) []*openfgav1.TupleKey {
	var out []*openfgav1.TupleKey
	for _, t := range ts {
		out = append(out, ToTK(t))
	}
	return out
}

func ReqCtx(x *int) *structpb.Struct {
	if x == nil {
		return nil
	}
	s, _ := structpb.NewStruct(map[string]any{"x": *x})
	return s
}

func NewServer(ds storage.OpenFGADatastore, opts ...server.OpenFGAServiceV1Option) *server.Server {
	all := append([]server.OpenFGAServiceV1Option{server.WithDatastore(ds), server.WithLogger(logger.NewNoopLogger())}, opts...)
	return server.MustNewServerWithOpts(all...)
}

// WrapDS, when set (before any NewEnv; process-global, not synchronised), is applied to the memory
// datastore of every new environment - e.g. shapes.Recorder.Wrap to record the shapes of all reads.
var WrapDS func(storage.OpenFGADatastore) storage.OpenFGADatastore

// NewEnv creates a server on a fresh memory datastore, one store, and writes the model.
// It returns (nil, err) when the model is rejected by the server.
func NewEnv(m *ref.Model, opts ...server.OpenFGAServiceV1Option) (*Env, error) {
	var ds storage.OpenFGADatastore = memory.New()
	if WrapDS != nil {
		ds = WrapDS(ds)
	}
	s := NewServer(ds, opts...)
	e := &Env{S: s, DS: ds, M: m}
	if err := e.NewStore(); err != nil {
		s.Close()
		return nil, err
	}
	return e, nil
}

// NewStore switches the environment to a fresh store with the same model(s).
func (e *Env) NewStore() error {
	ctx := context.Background()
	st, err := e.S.CreateStore(ctx, &openfgav1.CreateStoreRequest{Name: "verif"})
	if err != nil {
		return err
	}
	e.StoreID = st.GetId()
	id, err := e.WriteModel(e.M)
	if err != nil {
		return err
	}
	e.ModelID = id
	return nil
}

func (e *Env) WriteModel(m *ref.Model) (string, error) {
	tds, conds := m.Proto()
	wm, err := e.S.WriteAuthorizationModel(context.Background(), &openfgav1.WriteAuthorizationModelRequest{StoreId: e.StoreID, SchemaVersion: "1.1", TypeDefinitions: tds, Conditions: conds})
	if err != nil {
		return "", err
	}
	return wm.GetAuthorizationModelId(), nil
}

func (e *Env) Close() { e.S.Close() }

func (e *Env) Write(ts []ref.Tuple, modelID string) error {
	if len(ts) == 0 {
		return nil
	}
	_, err := e.S.Write(context.Background(), &openfgav1.WriteRequest{StoreId: e.StoreID, AuthorizationModelId: modelID, Writes: &openfgav1.WriteRequestWrites{TupleKeys: ToTKs(ts)}})
	return err
}

func (e *Env) Delete(ts []ref.Tuple, modelID string) error {
	if len(ts) == 0 {
		return nil
	}
	var ks []*openfgav1.TupleKeyWithoutCondition
	for _, t := range ts {
		ks = append(ks, &openfgav1.TupleKeyWithoutCondition{Object: t.Obj, Relation: t.Rel, User: t.User})
	}
	_, err := e.S.Write(context.Background(), &openfgav1.WriteRequest{StoreId: e.StoreID, AuthorizationModelId: modelID, Deletes: &openfgav1.WriteRequestDeletes{TupleKeys: ks}})
	return err
}

// Outcome of a decision request: "T", "F" or "ERR".
type Outcome struct {
	V    string
	Code string
	Msg  string
}

func (o Outcome) String() string {
	if o.V == "ERR" {
		return "ERR(" + o.Code + ")"
	}
	return o.V
}

func ErrOutcome(err error) Outcome {
	st, _ := status.FromError(err)
	msg := err.Error()
	if len(msg) > 160 {
		msg = msg[:160]
	}
	code := "unknown"
	if st != nil {
		code = fmt.Sprint(int32(st.Code()))
	}
	return Outcome{V: "ERR", Code: code, Msg: msg}
}

func (e *Env) Check(o, r, subject string, reqctx *int, ctxTuples []ref.Tuple, extra ...func(*openfgav1.CheckRequest)) Outcome {
	req := &openfgav1.CheckRequest{StoreId: e.StoreID, AuthorizationModelId: e.ModelID,
		TupleKey: &openfgav1.CheckRequestTupleKey{Object: o, Relation: r, User: subject}, Context: ReqCtx(reqctx)}
	if len(ctxTuples) > 0 {
		req.ContextualTuples = &openfgav1.ContextualTupleKeys{TupleKeys: ToTKs(ctxTuples)}
	}
	for _, f := range extra {
		f(req)
	}
	resp, err := e.S.Check(context.Background(), req)
	if err != nil {
		return ErrOutcome(err)
	}
	if resp.GetAllowed() {
		return Outcome{V: "T"}
	}
	return Outcome{V: "F"}
}

func (e *Env) ListObjects(typ, r, subject string, reqctx *int, ctxTuples []ref.Tuple, extra ...func(*openfgav1.ListObjectsRequest)) ([]string, error) {
	req := &openfgav1.ListObjectsRequest{StoreId: e.StoreID, AuthorizationModelId: e.ModelID, Type: typ, Relation: r, User: subject, Context: ReqCtx(reqctx)}
	if len(ctxTuples) > 0 {
		req.ContextualTuples = &openfgav1.ContextualTupleKeys{TupleKeys: ToTKs(ctxTuples)}
	}
	for _, f := range extra {
		f(req)
	}
	resp, err := e.S.ListObjects(context.Background(), req)
	if err != nil {
		return nil, err
	}
	return append([]string{}, resp.GetObjects()...), nil
}

func UserString(u *openfgav1.User) string {
	switch x := u.GetUser().(type) {
	case *openfgav1.User_Object:
		return x.Object.GetType() + ":" + x.Object.GetId()
	case *openfgav1.User_Wildcard:
		return x.Wildcard.GetType() + ":*"
	case *openfgav1.User_Userset:
		return x.Userset.GetType() + ":" + x.Userset.GetId() + "#" + x.Userset.GetRelation()
	}
	return "?"
}

func (e *Env) ListUsers(obj, r string, filterType, filterRel string, reqctx *int, ctxTuples []ref.Tuple) ([]string, error) {
	i := strings.IndexByte(obj, ':')
	req := &openfgav1.ListUsersRequest{StoreId: e.StoreID, AuthorizationModelId: e.ModelID, Object: &openfgav1.Object{Type: obj[:i], Id: obj[i+1:]}, Relation: r,
		UserFilters: []*openfgav1.UserTypeFilter{{Type: filterType, Relation: filterRel}}, Context: ReqCtx(reqctx), ContextualTuples: ToTKs(ctxTuples)}
	resp, err := e.S.ListUsers(context.Background(), req)
	if err != nil {
		return nil, err
	}
	var out []string
	for _, u := range resp.GetUsers() {
		out = append(out, UserString(u))
	}
	return out, nil
}

// ValidRequest is the harness' own transcription of request validation for decision requests:
// the object's type defines the relation; the subject is an object, a typed wildcard or a userset
// whose type (and relation) the model defines.
func ValidRequest(m *ref.Model, o, r, subject string) bool {
	rels, ok := m.Types[ref.TypeOf(o)]
	if !ok || rels[r] == nil {
		return false
	}
	so, sr := ref.SplitUser(subject)
	srels, ok := m.Types[ref.TypeOf(so)]
	if !ok {
		return false
	}
	if sr != "" && (srels[sr] == nil || ref.IsWild(so)) {
		return false
	}
	return true
}

type SweepOpts struct {
	K          int // max tuple-set size
	U          ref.Universe
	ServerOpts []server.OpenFGAServiceV1Option
	Leftover   bool // add one tuple that is invalid for M (written under the permissive model)
	MaxWorlds  int  // per model cap (0 = none); hitting it marks the run non-exhaustive
	FreshStore bool // one store per world instead of write/delete on one store
	FullPool   bool
	// LeftFilter, when set, restricts the leftover tuples (Leftover) to those it accepts
	LeftFilter func(m *ref.Model, t ref.Tuple) bool
}

// Sweep enumerates, for every model, every tuple subset of size <= K of the model's pool, writes it to
// a store, and calls fn. Models the server rejects are counted and skipped.
func Sweep(r *core.Report, models []*ref.Model, o SweepOpts, fn func(e *Env, w *ref.World)) {
	if o.U == nil {
		o.U = ref.DefaultUniverse()
	}
	// A model with a large pool is split into several jobs (each with its own server and store) that
	// take the worlds in turn, so that one heavy model does not become the tail of the sweep.
	type job struct{ mi, part, parts int }
	var jobs []job
	for mi, m := range models {
		var n int
		if o.FullPool {
			n = len(ref.Pool(m, o.U))
		} else {
			n = len(ref.RelevantPool(m, o.U))
		}
		parts := 1
		if o.MaxWorlds == 0 && o.K >= 2 {
			parts = 1 + n*n/600
			if parts > 8 {
				parts = 8
			}
		}
		for p := 0; p < parts; p++ {
			jobs = append(jobs, job{mi, p, parts})
		}
	}
	r.Parallel(len(jobs), func(ji int) {
		jb := jobs[ji]
		m := models[jb.mi]
		env, err := NewEnv(m, o.ServerOpts...)
		if err != nil {
			if jb.part == 0 {
				r.Count("models_rejected_by_server", 1)
			}
			return
		}
		defer env.Close()
		if jb.part == 0 {
			r.Count("models", 1)
		}
		t0 := time.Now()
		defer func() {
			if d := time.Since(t0); d > 45*time.Second {
				r.Count("models_taking_over_45s", 1)
				r.Set(fmt.Sprintf("slow_model/%s/part%d-of-%d", m.Signature(), jb.part, jb.parts), d.Seconds())
			}
		}()
		var pool []ref.Tuple
		if o.FullPool {
			pool = ref.Pool(m, o.U)
		} else {
			pool = ref.RelevantPool(m, o.U)
		}
		var lefts []*ref.Tuple
		if o.Leftover {
			pm := ref.Permissive()
			id, err := env.WriteModel(pm)
			if err != nil {
				panic(err)
			}
			// the model under test must stay the latest: rewrite it after the permissive one
			env.PermModelID = id
			if env.ModelID, err = env.WriteModel(m); err != nil {
				panic(err)
			}
			for _, t := range ref.Pool(pm, o.U) {
				t := t
				if !m.ValidTuple(t) && (o.LeftFilter == nil || o.LeftFilter(m, t)) {
					lefts = append(lefts, &t)
				}
			}
		} else {
			lefts = []*ref.Tuple{nil}
		}
		worlds := 0
		for _, lf := range lefts {
			stop := false
			ref.Subsets(pool, o.K, func(ts []ref.Tuple) {
				if stop || r.Expired() {
					stop = true
					return
				}
				if o.MaxWorlds > 0 && worlds >= o.MaxWorlds {
					stop = true
					r.NotExhaustive("per-model world cap")
					return
				}
				if lf != nil {
					for _, t := range ts {
						if t.Key() == lf.Key() {
							return
						}
					}
				}
				worlds++
				if worlds%jb.parts != jb.part {
					return
				}
				all := append([]ref.Tuple{}, ts...)
				if o.FreshStore {
					if err := env.NewStore(); err != nil {
						panic(err)
					}
				}
				if err := env.Write(ts, env.ModelID); err != nil {
					r.Violate("harness-write-rejected", "a pool tuple was rejected by Write: "+err.Error(), map[string]any{"model": m, "tuples": ts})
					return
				}
				if lf != nil {
					if err := env.Write([]ref.Tuple{*lf}, env.PermModelID); err != nil {
						panic(fmt.Sprintf("leftover write %v: %v", lf, err))
					}
					all = append(all, *lf)
				}
				w := &ref.World{M: m, Tuples: all, U: o.U}
				r.Count("worlds", 1)
				fn(env, w)
				if !o.FreshStore {
					if err := env.Delete(all, env.PermOrModel()); err != nil {
						panic(fmt.Sprintf("delete: %v", err))
					}
				}
				// Two tuples of one (object, relation) are rows of the same object for object-ordered
				// reads; which one a backend returns first depends on the insertion order: such worlds are
				// also run with the tuples written one by one in the opposite order.
				if !o.FreshStore && lf == nil && sharesObjectRelation(ts) {
					rev := make([]ref.Tuple, len(ts))
					for i, t := range ts {
						rev[len(ts)-1-i] = t
					}
					for _, t := range rev {
						if err := env.Write([]ref.Tuple{t}, env.ModelID); err != nil {
							panic(fmt.Sprintf("write: %v", err))
						}
					}
					r.Count("worlds_rerun_in_reverse_insertion_order", 1)
					fn(env, &ref.World{M: m, Tuples: rev, U: o.U})
					if err := env.Delete(rev, env.ModelID); err != nil {
						panic(fmt.Sprintf("delete: %v", err))
					}
				}
			})
		}
	})
}

func sharesObjectRelation(ts []ref.Tuple) bool {
	for i := range ts {
		for j := i + 1; j < len(ts); j++ {
			// only a typed wildcard next to another user of that type makes one request user match both rows
			if ts[i].Obj == ts[j].Obj && ts[i].Rel == ts[j].Rel && ts[i].User != ts[j].User &&
				ref.IsWild(ts[i].User) != ref.IsWild(ts[j].User) && ref.TypeOf(ts[i].User) == ref.TypeOf(ts[j].User) {
				return true
			}
		}
	}
	return false
}

func (e *Env) PermOrModel() string {
	if e.PermModelID != "" {
		return e.PermModelID
	}
	return e.ModelID
}

func SortedCopy(s []string) []string {
	c := append([]string{}, s...)
	sort.Strings(c)
	return c
}

var ErrSkip = errors.New("skip")

// ValidModels keeps the candidates that model validation accepts (input-space pruning only; the
// acceptance rule itself is the subject of C17).
func ValidModels(ms []*ref.Model) []*ref.Model {
	out := make([]*ref.Model, len(ms))
	var wg sync.WaitGroup
	sem := make(chan struct{}, 16)
	for i, m := range ms {
		wg.Add(1)
		sem <- struct{}{}
		go func() {
			defer func() { <-sem; wg.Done() }()
			tds, conds := m.Proto()
			if _, err := typesystem.NewAndValidate(context.Background(), &openfgav1.AuthorizationModel{Id: "01HXXXXXXXXXXXXXXXXXXXXXXX", SchemaVersion: "1.1", TypeDefinitions: tds, Conditions: conds}); err == nil {
				out[i] = m
			}
		}()
	}
	wg.Wait()
	var res []*ref.Model
	for _, m := range out {
		if m != nil {
			res = append(res, m)
		}
	}
	return res
}
