package e2

import (
	"fmt"

	"github.com/openfga/openfga/internal/verifh/core"
	"github.com/openfga/openfga/internal/verifh/ref"
)

// AltAccepts: in a shadow world (a contextual tuple has the key of a stored tuple) an answer is judged
// against BOTH readings — the union of the two tuples (what an iterator over stored + contextual tuples
// yields) and replacement (what a point lookup yields, contextual first). It is a deviation only when
// neither reading accepts it.
func AltAccepts(w *ref.World, got, o, r, sub string, rc *int) bool {
	if w.Alt == nil {
		return false
	}
	s, wk := w.Alt.Holds(o, r, sub, rc)
	return Verdict(got, s, wk) == ""
}

// ShadowExtraStride thins the "one other stored tuple" dimension (1 = every pool tuple; n = every n-th,
// rotated by the key index). Shadowed keys are restricted to the index-1 objects (the universe is
// symmetric under renaming doc:1<->doc:2 and group:1<->group:2, and the extra tuple ranges over both).
var ShadowExtraStride = 1

// ShadowSweep enumerates, for every model, every ordered pair (stored s, contextual c) of pool tuples
// with the SAME key and a different condition/context, alone and together with every one other stored
// pool tuple; fn sees the world with Tuples = stored + contextual (union reading), Contextual = [c] and
// Alt = the replacement reading.
func ShadowSweep(r *core.Report, models []*ref.Model, o SweepOpts, fn func(e *Env, w *ref.World)) {
	if o.U == nil {
		o.U = ref.DefaultUniverse()
	}
	r.Parallel(len(models), func(i int) {
		m := models[i]
		pool := ref.RelevantPool(m, o.U)
		byKey := map[string][]ref.Tuple{}
		var order []string
		for _, t := range pool {
			if _, ok := byKey[t.Key()]; !ok {
				order = append(order, t.Key())
			}
			byKey[t.Key()] = append(byKey[t.Key()], t)
		}
		dup := false
		for _, k := range order {
			if len(byKey[k]) > 1 {
				dup = true
			}
		}
		if !dup {
			return
		}
		env, err := NewEnv(m, o.ServerOpts...)
		if err != nil {
			r.Count("models_rejected_by_server", 1)
			return
		}
		defer env.Close()
		r.Count("shadow_models", 1)
		for ki, k := range order {
			vs := byKey[k]
			if len(vs) < 2 || (vs[0].Obj != "doc:1" && vs[0].Obj != "group:1") {
				continue
			}
			for _, s := range vs {
				for _, c := range vs {
					if s.String() == c.String() {
						continue
					}
					extras := []*ref.Tuple{nil}
					for j := range pool {
						if pool[j].Key() != k && (j+ki)%ShadowExtraStride == 0 {
							extras = append(extras, &pool[j])
						}
					}
					for _, x := range extras {
						if r.Expired() {
							return
						}
						stored := []ref.Tuple{s}
						if x != nil {
							stored = append(stored, *x)
						}
						if err := env.Write(stored, env.ModelID); err != nil {
							r.Violate("harness-write-rejected", "a pool tuple was rejected by Write: "+err.Error(), map[string]any{"model": m, "tuples": stored})
							return
						}
						union := append(append([]ref.Tuple{}, stored...), c)
						repl := append(append([]ref.Tuple{}, stored[1:]...), c)
						w := &ref.World{M: m, Tuples: union, U: o.U, Contextual: []ref.Tuple{c},
							Alt: &ref.World{M: m, Tuples: repl, U: o.U}}
						r.Count("shadow_worlds", 1)
						fn(env, w)
						if err := env.Delete(stored, env.ModelID); err != nil {
							panic(fmt.Sprintf("delete: %v", err))
						}
					}
				}
			}
		}
	})
}
