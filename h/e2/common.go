package e2

import (
	"fmt"
	"strings"

	"github.com/openfga/openfga/internal/verifh/ref"
)

var (
	One, Twenty = 1, 20
	Subjects    = []string{"user:a", "user:*", "group:1#member", "doc:2#r1", "doc:1#r0"}
)

type Node struct{ Obj, Rel string }

func RequestNodes(u ref.Universe) []Node {
	var out []Node
	for _, o := range u["doc"] {
		out = append(out, Node{o, "r0"}, Node{o, "r1"})
	}
	for _, g := range u["group"] {
		out = append(out, Node{g, "member"})
	}
	return out
}

func ReqContexts(w *ref.World) []*int {
	for _, t := range w.Tuples {
		if t.Cond != "" {
			return []*int{nil, &One, &Twenty}
		}
	}
	return []*int{nil}
}

func CtxStr(x *int) string {
	if x == nil {
		return "-"
	}
	return fmt.Sprint(*x)
}

func TuplesStr(ts []ref.Tuple) string {
	var s []string
	for _, t := range ts {
		s = append(s, t.String())
	}
	return strings.Join(s, " ")
}

// CheckCase is a replayable decision case.
type CheckCase struct {
	World   *ref.World `json:"world"`
	Obj     string     `json:"obj"`
	Rel     string     `json:"rel"`
	Subject string     `json:"subject"`
	ReqCtx  *int       `json:"reqctx,omitempty"`
	Got     string     `json:"got"`
	Strong  string     `json:"ref_strong"`
	Weak    string     `json:"ref_weak_at_tuple"`
	Config  string     `json:"config,omitempty"`
	Seen    string     `json:"seen,omitempty"`
}

// Verdict classifies an engine outcome against the reference ("" = acceptable).
func Verdict(got string, strong, weak ref.TV) string {
	switch got {
	case "T":
		if strong == ref.F {
			return "V1-unsound-allow"
		}
		if strong == ref.E {
			// the reference says the request must fail (an unevaluable condition decides); the engine allows
			return "V1e-allow-where-reference-fails"
		}
	case "F":
		if strong != ref.F && weak != ref.F {
			if strong == ref.T {
				return "V2-wrong-deny"
			}
			return "V3-missed-failure"
		}
	case "ERR":
		if strong != ref.E && weak != ref.E {
			return "V4-spurious-failure"
		}
	}
	return ""
}

// unevaluableWithSibling: some valid tuple is unevaluable under the request context while another valid
// tuple of the same (object, relation) — i.e. of the same filtered read — is evaluable.
func UnevaluableWithSibling(w *ref.World, reqctx *int) bool {
	for _, t := range w.Tuples {
		if !w.Valid(t) || ref.CondVal(t, reqctx) != ref.E {
			continue
		}
		for _, t2 := range w.Tuples {
			if t2.Obj == t.Obj && t2.Rel == t.Rel && t2.User != t.User && w.Valid(t2) && ref.CondVal(t2, reqctx) != ref.E {
				return true
			}
		}
	}
	return false
}

// unevaluableUnreached: some valid tuple is unevaluable under the request context although a top-down
// evaluation of (o, r) never consults it.
func UnevaluableUnreached(w *ref.World, o, r string, reqctx *int) bool {
	reached := w.ReachedTuples(o, r)
	for i, t := range w.Tuples {
		if w.Valid(t) && ref.CondVal(t, reqctx) == ref.E && !reached[i] {
			return true
		}
	}
	return false
}

// DecisionSignature refines a verdict class with mechanism evidence computed from the case itself.
func DecisionSignature(v string, w *ref.World, o, r string, reqctx *int) string {
	switch {
	case (v == "V2-wrong-deny" || v == "V3-missed-failure") && w.CycleUnderExclusion(o, r):
		return v + "/cycle-in-exclusion-subtrahend"
	case (v == "V3-missed-failure" || v == "V1e-allow-where-reference-fails") && UnevaluableWithSibling(w, reqctx):
		return v + "/unevaluable-tuple-with-evaluable-sibling"
	case v == "V4-spurious-failure" && UnevaluableUnreached(w, o, r, reqctx):
		return v + "/unevaluable-condition-on-unreached-tuple"
	case SameObjectRowMasked(w, reqctx):
		return v + "/row-of-the-same-object-masked-before-filtering"
	}
	return v
}

// SameObjectRowMasked: two stored tuples share (object, relation) - e.g. a direct user and the typed
// wildcard - and one of them does not pass the validity / condition filter under the request context.
// The sorted (object-ordered) read used by the weight-2 fast path returns one row per object and
// applies the filters afterwards, so the row that passes can be masked by the one that does not.
func SameObjectRowMasked(w *ref.World, reqctx *int) bool {
	for i, t := range w.Tuples {
		for j, t2 := range w.Tuples {
			if i == j || t.Obj != t2.Obj || t.Rel != t2.Rel || t.User == t2.User {
				continue
			}
			if !w.Valid(t) || ref.CondVal(t, reqctx) != ref.T {
				return true
			}
		}
	}
	return false
}
