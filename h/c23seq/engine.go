package c23seq

import (
	"fmt"
	"runtime"
	"strings"
	"time"
)

// checker judges the observations of one case, call by call.
// class != "" is a deviation; cont == false ends the comparison of further results (the doc comments say
// nothing about calls after an error has surfaced); early == true: the injected input error surfaced before
// the latest point a lazy consumer would meet it (timing of input errors is not documented: tolerated, counted).
type checker interface {
	step(op byte, o obs) (class string, cont bool, early bool)
}

type detChecker struct {
	ref              refIter
	headUnsupported  bool // Head documented (by its error value) as unsupported
	keyOnly          bool // only the ordering key of a value is specified
	contAfterHeadErr bool // "calling consecutive Head will yield consistent result ... Head following by Next will also yield consistent result"
	// cancelClassOpen: the adapter's source classifies source errors with storage.IterIsDoneOrCancelled (cancellation
	// family = end of stream, on the premise that such an error comes from the caller's own context): what it does
	// with a cancellation-class failure of a source is unspecified - nothing is judged from that point on.
	cancelClassOpen bool
	unjudged        *bool
}

func (d *detChecker) step(op byte, o obs) (string, bool, bool) {
	if op == 'H' && d.headUnsupported {
		if o.K != 'u' {
			return "unsupported-head-returns-" + kindName(o.K), false, false
		}
		return "", true, false
	}
	var r obs
	if op == 'N' {
		r = d.ref.next()
	} else {
		r = d.ref.head()
	}
	opn := "next"
	if op == 'H' {
		opn = "head"
	}
	switch r.K {
	case 'v':
		switch o.K {
		case 'v':
			if (d.keyOnly && o.Sym != r.Sym) || (!d.keyOnly && o.ID != r.ID) {
				return opn + "-wrong-value", false, false
			}
			return "", true, false
		case 'd':
			return opn + "-done-before-end", false, false
		case 'e', 'c':
			return "", false, true
		}
		return opn + "-unexpected-" + kindName(o.K), false, false
	case 'd':
		switch o.K {
		case 'd':
			return "", true, false
		case 'v':
			return opn + "-value-after-end", false, false
		}
		return opn + "-unexpected-" + kindName(o.K), false, false
	case 'e', 'c':
		if d.cancelClassOpen && isCancelClass(r) {
			if d.unjudged != nil {
				*d.unjudged = true
			}
			return "", false, false
		}
		switch o.K {
		case 'v':
			return failureIgnored(opn, r, false), false, false
		case 'd':
			return failureIgnored(opn, r, true), false, false
		case 'u', 'p':
			return opn + "-unexpected-" + kindName(o.K), false, false
		}
		return "", op == 'H' && d.contAfterHeadErr, false
	case 'f':
		switch o.K {
		case 'f':
			if o.ID != r.ID {
				return opn + "-wrong-filter-error", false, false
			}
			return "", op == 'H' && d.contAfterHeadErr, false
		case 'v':
			return opn + "-value-past-filter-error", false, false
		case 'd':
			return opn + "-filter-error-swallowed-as-done", false, false
		}
		return opn + "-unexpected-" + kindName(o.K), false, false
	}
	return "spec-bug", false, false
}

// failureIgnored names the deviation "an input failed (specification result r) and the adapter went on as if it
// had not": a generic error keeps the two historical classes (a value from beyond the error / Done instead of
// the error); for every other kind of failure (cancellation of the request context, cancellation-class error
// value, Done look-alike) both symptoms are one mechanism: the failure was classified as exhaustion.
func failureIgnored(opn string, r obs, done bool) string {
	cls := errClass(r)
	if cls == "input-error" {
		if done {
			return opn + "-input-error-swallowed-as-done"
		}
		return opn + "-value-past-input-error"
	}
	return opn + "-" + cls + "-treated-as-exhausted"
}

// mergeChecker: iterator.Merge has no doc comment; what is written down is "the merge-sort algorithm produces
// sorted output only when both inputs are individually sorted" (IsOrdered), "Equal values - advance both
// iterators to skip duplicate" (inline) and ErrHeadNotSupportedMergedIterator. Demanded for sorted inputs:
// values come out non-descending, none invented, no key skipped, no key more often than the inputs hold it
// (at most once when both inputs are duplicate-free), Done only when every key was delivered and no input
// failed, no value beyond what an input error lets anybody know. Multiplicity of in-input duplicates is open.
type mergeChecker struct {
	total   [3]int
	emitted [3]int
	maxMul  [3]int
	last    int
	errSrc  bool
	failed  obs // what the (first, generic preferred) failing input answers at its end
	safeMax int // largest symbol index that may still be yielded given the failed inputs
}

func newMergeChecker(ins []InSpec) *mergeChecker {
	m := &mergeChecker{last: -1, safeMax: 2}
	strict := true
	for _, in := range ins {
		mx := -1
		for k := range in.Items {
			s := int(in.Items[k] - 'a')
			m.total[s]++
			if s > mx {
				mx = s
			}
		}
		if !in.strict() {
			strict = false
		}
		if in.term() != termDone {
			if f := (&rin{term: in.term()}).get(false); !m.errSrc || errClass(f) == "input-error" {
				m.failed = f
			}
			m.errSrc = true
			if mx < m.safeMax {
				m.safeMax = mx
			}
		}
	}
	for s := range m.total {
		m.maxMul[s] = m.total[s]
		if strict && m.total[s] > 1 {
			m.maxMul[s] = 1
		}
	}
	return m
}

func (m *mergeChecker) step(op byte, o obs) (string, bool, bool) {
	if op == 'H' {
		if o.K != 'u' {
			return "unsupported-head-returns-" + kindName(o.K), false, false
		}
		return "", true, false
	}
	switch o.K {
	case 'v':
		s := int(o.Sym - 'a')
		switch {
		case s < 0 || s > 2 || m.total[s] == 0:
			return "next-invented-value", false, false
		case s < m.last:
			return "next-not-sorted", false, false
		case m.emitted[s] >= m.maxMul[s]:
			return "next-duplicate-value", false, false
		case s > m.safeMax:
			return failureIgnored("next", m.failed, false), false, false
		}
		for k := 0; k < s; k++ {
			if m.total[k] > 0 && m.emitted[k] == 0 {
				return "next-skipped-value", false, false
			}
		}
		m.emitted[s]++
		m.last = s
		return "", true, false
	case 'd':
		if m.errSrc {
			return failureIgnored("next", m.failed, true), false, false
		}
		for k := range m.total {
			if m.total[k] > 0 && m.emitted[k] == 0 {
				return "next-done-before-end", false, false
			}
		}
		return "", true, false
	case 'e', 'c':
		if !m.errSrc {
			return "next-unexpected-" + kindName(o.K), false, false
		}
		return "", false, false
	}
	return "next-unexpected-" + kindName(o.K), false, false
}

// ---------------------------------------------------------------------------------------------------------

type adapter struct {
	name             string
	doc              string // the doc comment(s) the specification is written from
	arity            int
	sorted           bool // precondition of the adapter: inputs individually sorted
	source           bool // no input iterators: the "input" is the item list (terminations do not apply)
	params           int
	paramDesc        func(p int) string
	headUnsupported  bool
	lazyInputs       bool // documented: a later input is not read before the earlier one is exhausted
	asyncStop        bool // Stop hands the remaining inputs to a goroutine (Drain)
	cancelClassIsEnd bool // the adapter's source carries the explicit storage.IterIsDoneOrCancelled classification: cancellation-class source failures are not judged
	racyUnderCancel  bool // the adapter selects between ctx.Done() and another ready channel: results under a cancelled context depend on the runtime's choice
	quickLen         int  // quick tier: input length bound for this adapter (0 = the general bound)
	build            func(e *env, ins []InSpec, p int) (implIter, checker)
	open             string // aspects left open for this adapter
}

// Case is everything needed to re-run one case.
type Case struct {
	Harness string   `json:"harness"` // "c23seq"
	Adapter string   `json:"adapter"`
	Inputs  []InSpec `json:"inputs,omitempty"`
	Param   int      `json:"param"`
	ParamIs string   `json:"param_is,omitempty"`
	Script  string   `json:"script"`
	Extra   string   `json:"extra,omitempty"`
	Trace   []string `json:"observed,omitempty"`
}

type outcome struct {
	class string // "" = conforms
	early bool
	multi bool // an input was stopped more than once (informational)
	post  int  // calls judged although the request context was already cancelled
	unj   bool // the case met a cancellation-class source failure that is unspecified for this adapter: not judged from there on
	// where and what (rendered by describe only when a deviation is reported)
	op   byte
	idx  int
	epi  bool
	o    obs
	note string
}

func safely(f func() obs) (o obs) {
	defer func() {
		if r := recover(); r != nil {
			o = obs{K: 'p', ID: fmt.Sprint(r)}
		}
	}()
	return f()
}

func waitClosed(e *env) bool {
	deadline := time.Now().Add(3 * time.Second)
	for i := 0; ; i++ {
		ok := true
		for _, st := range e.stats {
			if !st.closed() {
				ok = false
				break
			}
		}
		if ok {
			return true
		}
		if i < 200 {
			runtime.Gosched()
			continue
		}
		if time.Now().After(deadline) {
			return false
		}
		time.Sleep(20 * time.Microsecond)
	}
}

// ctxModeFor: which request context a case needs (see newEnvMode): a deadline context if an input or the script
// lets the deadline pass, a cancellable one if something cancels (or the adapter's Stop works asynchronously).
func ctxModeFor(ad *adapter, ins []InSpec, script string) int {
	mode := 0
	if ad.asyncStop {
		mode = 1
	}
	for _, in := range ins {
		switch in.term() {
		case termCancel:
			if mode == 0 {
				mode = 1
			}
		case termDeadline:
			mode = 2
		}
	}
	for i := 0; i < len(script); i++ {
		switch script[i] {
		case 'C':
			if mode == 0 {
				mode = 1
			}
		case 'T':
			mode = 2
		}
	}
	return mode
}

// runner holds the state of one case (no closures: tens of millions of cases are executed).
type runner struct {
	ad        *adapter
	e         *env
	impl      implIter
	chk       checker
	trace     *[]string
	out       outcome
	comparing bool
	stopped   bool
	headValid bool
	headID    string
	laxLazy   bool // a cancellation-class failure of an input counts as its end (cancelClassIsEnd adapters)
	// the call being executed (for a panic report)
	curOp  byte
	curIdx int
	curEpi bool
}

func (r *runner) fail(class string, op byte, idx int, epi bool, o obs, note string) {
	if r.out.class == "" {
		r.out.class, r.out.op, r.out.idx, r.out.epi, r.out.o, r.out.note = class, op, idx, epi, o, note
	}
}

func (o outcome) describe() string {
	where := fmt.Sprintf("call %d (%c)", o.idx+1, o.op)
	if o.epi {
		where = "epilogue " + where
	}
	if o.op == 'S' || o.o.K == 0 {
		return where + ": " + o.note
	}
	s := fmt.Sprintf("%s returned %s", where, o.o)
	if o.note != "" {
		s += " " + o.note
	}
	return s
}

func (r *runner) step(op byte, idx int, epi bool) (o obs) {
	r.curOp, r.curIdx, r.curEpi = op, idx, epi
	e, ad := r.e, r.ad
	if op == 'C' || op == 'T' {
		// the caller's context is cancelled / its deadline passes between two calls
		e.fire()
		if r.trace != nil {
			*r.trace = append(*r.trace, map[byte]string{'C': "Cancel", 'T': "Deadline"}[op])
		}
		return obs{K: 'o'}
	}
	if op == 'S' {
		r.impl.stop()
		if r.trace != nil {
			*r.trace = append(*r.trace, "Stop")
		}
		r.stopped, r.headValid = true, false
		if ad.asyncStop {
			waitClosed(e)
		}
		for i, st := range e.stats {
			if !st.closed() {
				r.fail("stop-leaves-input-open", op, idx, epi, obs{}, fmt.Sprintf("input %d neither stopped nor read to its end after Stop", i))
			}
		}
		return obs{K: 'o'}
	}
	if op == 'N' {
		o = r.impl.next()
	} else {
		o = r.impl.head()
	}
	if r.trace != nil {
		*r.trace = append(*r.trace, string(op)+"→"+o.String())
	}
	fired := e.fired.Load()
	if fired {
		// Under a cancelled request context: Next/Head after Stop are not judged (Stop says Done, "a cancelled
		// context wins" says ctx.Err()), nor is an adapter whose answer depends on a select between ready channels.
		if r.stopped || ad.racyUnderCancel {
			if ad.racyUnderCancel && r.comparing {
				r.out.unj = true
			}
			r.comparing = false
			return
		}
		if !r.comparing {
			return
		}
		r.out.post++
		if o.K == 'c' {
			r.comparing = false // the context's error: always acceptable from now on, nothing is specified after it
			return
		}
		// anything else is judged as usual: a value must be the next one of the specified sequence (a prefix is
		// fine), Done is acceptable only where the specified sequence is complete.
	}
	r.judge(op, idx, epi, o, fired)
	// reported after the comparison of the result, which names the mechanism more precisely when it sees one
	if ad.lazyInputs && !r.stopped && !r.laxLazy {
		for j := 1; j < len(e.stats); j++ {
			if e.stats[j].touched() && !e.stats[j-1].doneSeen.Load() {
				r.fail("later-input-read-before-earlier-exhausted", op, idx, epi, obs{}, fmt.Sprintf("input %d was read although input %d has not reported Done", j, j-1))
			}
		}
	}
	return
}

func (r *runner) judge(op byte, idx int, epi bool, o obs, fired bool) {
	ad := r.ad
	if r.stopped {
		if op == 'N' && o.K != 'd' {
			r.fail("next-after-stop-returns-"+kindName(o.K), op, idx, epi, o, "after Stop (Iterator.Stop: any subsequent Next must return ErrIteratorDone)")
		}
		if op == 'H' && o.K != 'd' && !(ad.headUnsupported && o.K == 'u') {
			r.fail("head-after-stop-returns-"+kindName(o.K), op, idx, epi, o, "after Stop (Stop terminates iteration; Head returns ErrIteratorDone if the iterator is finished)")
		}
		return
	}
	if !r.comparing {
		return
	}
	// Head: "Calling Head() continuously without calling Next() will yield the same result"; "a subsequent call to
	// Next will not miss any results".
	if o.K == 'v' && r.headValid && o.ID != r.headID {
		r.fail("head-not-stable", op, idx, epi, o, "although the preceding Head returned "+r.headID)
		r.comparing = false
		return
	}
	r.headValid = false
	if op == 'H' && o.K == 'v' {
		r.headValid, r.headID = true, o.ID
	}
	class, cont, early := r.chk.step(op, o)
	if fired && strings.HasSuffix(class, "-done-before-end") {
		class = strings.TrimSuffix(class, "done-before-end") + "context-cancellation-treated-as-exhausted"
	}
	if class != "" {
		r.fail(class, op, idx, epi, o, "")
		r.comparing = false
		return
	}
	if early {
		r.out.early = true
	}
	if !cont {
		r.comparing = false
	}
	return
}

// runCase executes script (then an epilogue: read to the end, Stop, Next, Head) on a fresh adapter instance.
// Script letters: N Next, H Head, S Stop, C the request context is cancelled, T its deadline passes; a trailing
// '+' selects the epilogue that asks Head before every Next (so that Head, too, meets every position of the
// sequence including the failure).
func runCase(ad *adapter, ins []InSpec, p int, script string, trace *[]string) (out outcome) {
	alt := strings.HasSuffix(script, "+")
	if alt {
		script = script[:len(script)-1]
	}
	e := newEnvMode(ctxModeFor(ad, ins, script))
	r := runner{ad: ad, e: e, trace: trace, comparing: true}
	defer func() {
		if pv := recover(); pv != nil {
			r.fail("panic", r.curOp, r.curIdx, r.curEpi, obs{}, fmt.Sprint("panic: ", pv))
			out = r.out
		}
		e.done()
	}()
	r.impl, r.chk = ad.build(e, ins, p)
	total := 0
	for _, in := range ins {
		total += len(in.Items)
		if ad.cancelClassIsEnd && (cancellationClassValue(in.term()) || firesCtx(in.term())) {
			r.laxLazy = true
		}
	}
	if ad.cancelClassIsEnd {
		if dc, ok := r.chk.(*detChecker); ok {
			dc.cancelClassOpen, dc.unjudged = true, &r.out.unj
		}
	}
	for i := 0; i < len(script); i++ {
		r.step(script[i], i, false)
	}
	// epilogue
	n := 0
	if !r.stopped {
		for k := 0; k < total+2 && r.comparing; k++ {
			if alt {
				r.step('H', n, true)
				n++
				if !r.comparing {
					break
				}
			}
			o := r.step('N', n, true)
			n++
			if o.K != 'v' {
				break
			}
		}
		r.step('S', n, true)
		n++
	}
	r.step('N', n, true)
	r.step('H', n+1, true)
	for _, st := range e.stats {
		if st.stops.Load() > 1 {
			r.out.multi = true
		}
	}
	return r.out
}
