package c23seq

import (
	"fmt"
	"runtime"
	"time"
)

// checker judges the observations of one case, call by call.
// class != "" is a deviation; cont == false ends the comparison of further results (the doc comments say
// nothing about calls after an error has surfaced); early == true: the injected input error surfaced before
// the latest point a lazy consumer would meet it (timing of input errors is not documented: tolerated, counted).
type checker interface {
	step(op byte, o obs) (class string, cont bool, early bool)
}

type detChecker struct {
	ref              refIter
	headUnsupported  bool // Head documented (by its error value) as unsupported
	keyOnly          bool // only the ordering key of a value is specified
	contAfterHeadErr bool // "calling consecutive Head will yield consistent result ... Head following by Next will also yield consistent result"
}

func (d *detChecker) step(op byte, o obs) (string, bool, bool) {
	if op == 'H' && d.headUnsupported {
		if o.K != 'u' {
			return "unsupported-head-returns-" + kindName(o.K), false, false
		}
		return "", true, false
	}
	var r obs
	if op == 'N' {
		r = d.ref.next()
	} else {
		r = d.ref.head()
	}
	opn := "next"
	if op == 'H' {
		opn = "head"
	}
	switch r.K {
	case 'v':
		switch o.K {
		case 'v':
			if (d.keyOnly && o.Sym != r.Sym) || (!d.keyOnly && o.ID != r.ID) {
				return opn + "-wrong-value", false, false
			}
			return "", true, false
		case 'd':
			return opn + "-done-before-end", false, false
		case 'e':
			return "", false, true
		}
		return opn + "-unexpected-" + kindName(o.K), false, false
	case 'd':
		switch o.K {
		case 'd':
			return "", true, false
		case 'v':
			return opn + "-value-after-end", false, false
		}
		return opn + "-unexpected-" + kindName(o.K), false, false
	case 'e', 'c':
		switch o.K {
		case 'v':
			return opn + "-value-past-input-error", false, false
		case 'd':
			return opn + "-input-error-swallowed-as-done", false, false
		case 'u', 'p':
			return opn + "-unexpected-" + kindName(o.K), false, false
		}
		return "", op == 'H' && d.contAfterHeadErr, false
	case 'f':
		switch o.K {
		case 'f':
			if o.ID != r.ID {
				return opn + "-wrong-filter-error", false, false
			}
			return "", op == 'H' && d.contAfterHeadErr, false
		case 'v':
			return opn + "-value-past-filter-error", false, false
		case 'd':
			return opn + "-filter-error-swallowed-as-done", false, false
		}
		return opn + "-unexpected-" + kindName(o.K), false, false
	}
	return "spec-bug", false, false
}

// mergeChecker: iterator.Merge has no doc comment; what is written down is "the merge-sort algorithm produces
// sorted output only when both inputs are individually sorted" (IsOrdered), "Equal values - advance both
// iterators to skip duplicate" (inline) and ErrHeadNotSupportedMergedIterator. Demanded for sorted inputs:
// values come out non-descending, none invented, no key skipped, no key more often than the inputs hold it
// (at most once when both inputs are duplicate-free), Done only when every key was delivered and no input
// failed, no value beyond what an input error lets anybody know. Multiplicity of in-input duplicates is open.
type mergeChecker struct {
	total   [3]int
	emitted [3]int
	maxMul  [3]int
	last    int
	errSrc  bool
	safeMax int // largest symbol index that may still be yielded given the failed inputs
}

func newMergeChecker(ins []InSpec) *mergeChecker {
	m := &mergeChecker{last: -1, safeMax: 2}
	strict := true
	for _, in := range ins {
		mx := -1
		for k := range in.Items {
			s := int(in.Items[k] - 'a')
			m.total[s]++
			if s > mx {
				mx = s
			}
		}
		if !in.strict() {
			strict = false
		}
		if in.term() != termDone {
			m.errSrc = true
			if mx < m.safeMax {
				m.safeMax = mx
			}
		}
	}
	for s := range m.total {
		m.maxMul[s] = m.total[s]
		if strict && m.total[s] > 1 {
			m.maxMul[s] = 1
		}
	}
	return m
}

func (m *mergeChecker) step(op byte, o obs) (string, bool, bool) {
	if op == 'H' {
		if o.K != 'u' {
			return "unsupported-head-returns-" + kindName(o.K), false, false
		}
		return "", true, false
	}
	switch o.K {
	case 'v':
		s := int(o.Sym - 'a')
		switch {
		case s < 0 || s > 2 || m.total[s] == 0:
			return "next-invented-value", false, false
		case s < m.last:
			return "next-not-sorted", false, false
		case m.emitted[s] >= m.maxMul[s]:
			return "next-duplicate-value", false, false
		case s > m.safeMax:
			return "next-value-past-input-error", false, false
		}
		for k := 0; k < s; k++ {
			if m.total[k] > 0 && m.emitted[k] == 0 {
				return "next-skipped-value", false, false
			}
		}
		m.emitted[s]++
		m.last = s
		return "", true, false
	case 'd':
		if m.errSrc {
			return "next-input-error-swallowed-as-done", false, false
		}
		for k := range m.total {
			if m.total[k] > 0 && m.emitted[k] == 0 {
				return "next-done-before-end", false, false
			}
		}
		return "", true, false
	case 'e':
		if !m.errSrc {
			return "next-unexpected-input-error", false, false
		}
		return "", false, false
	}
	return "next-unexpected-" + kindName(o.K), false, false
}

// ---------------------------------------------------------------------------------------------------------

type adapter struct {
	name            string
	doc             string // the doc comment(s) the specification is written from
	arity           int
	sorted          bool // precondition of the adapter: inputs individually sorted
	source          bool // no input iterators: the "input" is the item list (terminations do not apply)
	params          int
	paramDesc       func(p int) string
	headUnsupported bool
	lazyInputs      bool // documented: a later input is not read before the earlier one is exhausted
	asyncStop       bool // Stop hands the remaining inputs to a goroutine (Drain)
	build           func(e *env, ins []InSpec, p int) (implIter, checker)
	open            string // aspects left open for this adapter
}

// Case is everything needed to re-run one case.
type Case struct {
	Harness string   `json:"harness"` // "c23seq"
	Adapter string   `json:"adapter"`
	Inputs  []InSpec `json:"inputs,omitempty"`
	Param   int      `json:"param"`
	ParamIs string   `json:"param_is,omitempty"`
	Script  string   `json:"script"`
	Extra   string   `json:"extra,omitempty"`
	Trace   []string `json:"observed,omitempty"`
}

type outcome struct {
	class string // "" = conforms
	desc  string
	early bool
	multi bool // an input was stopped more than once (informational)
}

func safely(f func() obs) (o obs) {
	defer func() {
		if r := recover(); r != nil {
			o = obs{K: 'p', ID: fmt.Sprint(r)}
		}
	}()
	return f()
}

func waitClosed(e *env) bool {
	deadline := time.Now().Add(3 * time.Second)
	for i := 0; ; i++ {
		ok := true
		for _, st := range e.stats {
			if !st.closed() {
				ok = false
				break
			}
		}
		if ok {
			return true
		}
		if i < 200 {
			runtime.Gosched()
			continue
		}
		if time.Now().After(deadline) {
			return false
		}
		time.Sleep(20 * time.Microsecond)
	}
}

func needsCancel(ins []InSpec) bool {
	for _, in := range ins {
		if in.term() == termCancel {
			return true
		}
	}
	return false
}

// runCase executes script (then an epilogue: read to the end, Stop, Next, Head) on a fresh adapter instance.
func runCase(ad *adapter, ins []InSpec, p int, script string, trace *[]string) outcome {
	e := newEnv(needsCancel(ins) || ad.asyncStop)
	defer e.done()
	impl, chk := ad.build(e, ins, p)
	if e.extra != nil {
		defer e.extra()
	}
	var out outcome
	fail := func(class, desc string) {
		if out.class == "" {
			out.class, out.desc = class, desc
		}
	}
	comparing, stopped := true, false
	headValid, headID := false, ""
	total := 0
	for _, in := range ins {
		total += len(in.Items)
	}
	step := func(op byte, idx int, epi bool) (o obs) {
		where := func() string {
			if epi {
				return fmt.Sprintf("epilogue call %d (%c)", idx+1, op)
			}
			return fmt.Sprintf("call %d (%c)", idx+1, op)
		}
		if op == 'S' {
			o = safely(func() obs { impl.stop(); return obs{K: 'o'} })
			if trace != nil {
				*trace = append(*trace, "Stop")
			}
			if o.K == 'p' {
				fail("panic", where()+": "+o.ID)
				return
			}
			stopped, headValid = true, false
			if ad.asyncStop {
				waitClosed(e)
			}
			for i, st := range e.stats {
				if !st.closed() {
					fail("stop-leaves-input-open", fmt.Sprintf("%s: input %d neither stopped nor read to its end after Stop", where(), i))
				}
			}
			return
		}
		if op == 'N' {
			o = safely(impl.next)
		} else {
			o = safely(impl.head)
		}
		if trace != nil {
			*trace = append(*trace, string(op)+"→"+o.String())
		}
		if o.K == 'p' {
			fail("panic", where()+": "+o.ID)
			comparing = false
			return
		}
		if e.fired.Load() {
			comparing = false // results under a cancelled context are not specified
			return
		}
		if ad.lazyInputs && !stopped {
			for j := 1; j < len(e.stats); j++ {
				if e.stats[j].touched() && !e.stats[j-1].doneSeen.Load() {
					fail("later-input-read-before-earlier-exhausted", fmt.Sprintf("%s: input %d was read although input %d has not reported Done", where(), j, j-1))
				}
			}
		}
		if stopped {
			if op == 'N' && o.K != 'd' {
				fail("next-after-stop-returns-"+kindName(o.K), fmt.Sprintf("%s returned %s after Stop (Iterator.Stop: any subsequent Next must return ErrIteratorDone)", where(), o))
			}
			if op == 'H' && o.K != 'd' && !(ad.headUnsupported && o.K == 'u') {
				fail("head-after-stop-returns-"+kindName(o.K), fmt.Sprintf("%s returned %s after Stop (Stop terminates iteration; Head returns ErrIteratorDone if the iterator is finished)", where(), o))
			}
			return
		}
		if !comparing {
			return
		}
		// Head: "Calling Head() continuously without calling Next() will yield the same result"; "a subsequent call to
		// Next will not miss any results".
		if o.K == 'v' && headValid && o.ID != headID {
			fail("head-not-stable", fmt.Sprintf("%s returned %s although the preceding Head returned %s", where(), o, headID))
			comparing = false
			return
		}
		headValid = false
		if op == 'H' && o.K == 'v' {
			headValid, headID = true, o.ID
		}
		class, cont, early := chk.step(op, o)
		if class != "" {
			fail(class, fmt.Sprintf("%s returned %s", where(), o))
			comparing = false
			return
		}
		if early {
			out.early = true
		}
		if !cont {
			comparing = false
		}
		return
	}
	for i := 0; i < len(script); i++ {
		step(script[i], i, false)
	}
	// epilogue
	n := 0
	if !stopped {
		for k := 0; k < total+2 && comparing; k++ {
			o := step('N', n, true)
			n++
			if o.K != 'v' {
				break
			}
		}
		step('S', n, true)
		n++
	}
	step('N', n, true)
	step('H', n+1, true)
	for _, st := range e.stats {
		if st.stops.Load() > 1 {
			out.multi = true
		}
	}
	return out
}
