package c23seq

// List-based specifications. Nothing here calls into openfga: an input is a list of expected observable
// strings plus its termination; each specification is the obvious list program for the adapter's doc comment.

type ritem struct {
	sym byte
	out string // what a consumer must observe when this item is yielded
}

// rin is a specification-side input list ("yields items, then Done / the injected error value / a cancellation of the request context").
type rin struct {
	items   []ritem
	pos     int
	term    int
	stopped bool
	msgErr  bool // stands for a Msg{Err: ...} message, not for an iterator (iterator.Stream)
}

func newRin(idx int, in InSpec, exp func(sym byte, i, k int) string) *rin {
	r := &rin{term: in.term()}
	for k := range in.Items {
		r.items = append(r.items, ritem{sym: in.Items[k], out: exp(in.Items[k], idx, k)})
	}
	return r
}

func (r *rin) get(consume bool) obs {
	if r.stopped {
		return obs{K: 'd'}
	}
	if r.pos < len(r.items) {
		it := r.items[r.pos]
		if consume {
			r.pos++
		}
		return obs{K: 'v', ID: it.out, Sym: it.sym}
	}
	switch r.term {
	case termDone:
		return obs{K: 'd'}
	case termCancel, termDeadline:
		return obs{K: 'c'}
	}
	return obs{K: 'e', ID: termNames[r.term]} // an error value handed out under a live context
}

// errClass names the kind of input failure a specification result stands for (used in deviation classes).
func errClass(r obs) string {
	if r.K == 'c' {
		return "context-cancellation"
	}
	switch r.ID {
	case "", "err":
		return "input-error"
	case "done-lookalike":
		return "done-lookalike-input-error"
	}
	return "cancellation-class-input-error"
}

// isCancelClass: a cancellation of the request context or a cancellation-class error value.
func isCancelClass(o obs) bool {
	return o.K == 'c' || (o.K == 'e' && errClass(o) == "cancellation-class-input-error")
}

func (r *rin) next() obs { return r.get(true) }
func (r *rin) head() obs { return r.get(false) }

// refIter: the sequence of results the doc comments define. Stop is handled by the engine (after Stop
// every Next must be Done: storage.Iterator.Stop).
type refIter interface {
	next() obs
	head() obs
}

// ---- concatenation: NewCombinedIterator ("yields all the values from all iterators", "sources are exhausted
// sequentially"), iterator.Concat ("first yields all items from iter1, then all items from iter2"), FromChannel,
// and with one input every pass-through adapter (mappers, tuple -> tuple key, static iterators).
type refConcat struct {
	ins []*rin
	cur int
}

func (c *refConcat) pull(consume bool) obs {
	for c.cur < len(c.ins) {
		o := c.ins[c.cur].get(consume)
		if o.K == 'd' {
			c.cur++
			continue
		}
		return o
	}
	return obs{K: 'd'}
}
func (c *refConcat) next() obs { return c.pull(true) }
func (c *refConcat) head() obs { return c.pull(false) }

// ---- filters.
const (
	vPass = 0
	vDrop = 1
	vErr  = 2
)

const (
	modePlain    = 0 // NewFilteredTupleKeyIterator: verdicts pass/drop only
	modeLastErr  = 1 // ConditionsFilteredTupleKeyIterator, iterator.NewFilteredIterator: "Errors will be treated as false. If none of the tuples are valid AND there are errors, Next() will return the last error."
	modeValidate = 2 // iterator.Validate: "validation can only skip items"; a validator error is an error at that item
)

type refFilter struct {
	in       *rin
	verdict  func(sym byte) int
	mode     int
	anyValid bool
	lastErr  string // item whose filter call failed last
	hasErr   bool
}

func (f *refFilter) atEnd() obs {
	if f.mode == modeLastErr && !f.anyValid && f.hasErr {
		return obs{K: 'f', ID: f.lastErr}
	}
	return obs{K: 'd'}
}

func (f *refFilter) next() obs {
	for {
		o := f.in.next()
		if o.K == 'd' {
			return f.atEnd()
		}
		if o.K != 'v' {
			return o
		}
		switch f.verdict(o.Sym) {
		case vPass:
			f.anyValid = true
			return o
		case vErr:
			if f.mode == modeValidate {
				return obs{K: 'f', ID: o.ID}
			}
			f.hasErr, f.lastErr = true, o.ID
		}
	}
}

func (f *refFilter) head() obs {
	for {
		o := f.in.head()
		if o.K == 'd' {
			return f.atEnd()
		}
		if o.K != 'v' {
			return o
		}
		switch f.verdict(o.Sym) {
		case vPass:
			f.anyValid = true
			return o
		case vErr:
			if f.mode == modeValidate {
				return obs{K: 'f', ID: o.ID}
			}
			f.hasErr, f.lastErr = true, o.ID
		}
		f.in.next() // rejected items are not part of the output
	}
}

// ---- NewOrderedCombinedIterator: "combines a list of iterators into a single ordered iterator. All the input
// iterators must be individually ordered already according to mapper. Iterators can yield the same value (as
// defined by mapper) multiple times, but it will only be returned once."
// => the keys come out strictly increasing: the sorted set of keys of all inputs. Which of several tuples with
// the same key represents the key is not specified (results carry the key only).
type refOrdered struct {
	ins     []*rin
	last    byte
	hasLast bool
}

// peek returns the input holding the smallest not-yet-returned key.
func (m *refOrdered) peek() (int, obs) {
	best := -1
	var bo obs
	for i, in := range m.ins {
		for {
			o := in.head()
			if o.K == 'v' && m.hasLast && o.Sym == m.last {
				in.next() // already returned once
				continue
			}
			if o.K == 'd' {
				break
			}
			if o.K != 'v' {
				return -1, o // the smallest remaining key cannot be known
			}
			if best < 0 || o.Sym < bo.Sym {
				best, bo = i, o
			}
			break
		}
	}
	if best < 0 {
		return -1, obs{K: 'd'}
	}
	return best, bo
}

func (m *refOrdered) head() obs { _, o := m.peek(); return o }
func (m *refOrdered) next() obs {
	i, o := m.peek()
	if i < 0 {
		return o
	}
	m.ins[i].next()
	m.last, m.hasLast = o.Sym, true
	return o
}
