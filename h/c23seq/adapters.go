package c23seq

import (
	"fmt"

	openfgav1 "github.com/openfga/api/proto/openfga/v1"

	"github.com/openfga/openfga/internal/iterator"
	"github.com/openfga/openfga/pkg/storage"
)

// ---- carriers: how an item (sym, input i, position k) is materialised for the implementation (mk) and what a
// consumer must observe for it (exp, written independently as a format string).

func mkStr(sym byte, i, k int) string  { return itemID(sym, i, k) }
func expStr(sym byte, i, k int) string { return fmt.Sprintf("%c%d%d", sym, i, k) }

var strView = &view[string]{show: func(s string) string { return s }, sym: func(s string) byte {
	if len(s) == 0 {
		return 0
	}
	return s[0]
}}

func mkDoc(sym byte, i, k int) string  { return "doc:" + itemID(sym, i, k) }
func expDoc(sym byte, i, k int) string { return fmt.Sprintf("doc:%c%d%d", sym, i, k) }

var docView = &view[string]{show: func(s string) string { return s }, sym: func(s string) byte {
	if len(s) < 5 {
		return 0
	}
	return s[4]
}}

func showTK(t *openfgav1.TupleKey) string {
	if t == nil {
		return "<nil>"
	}
	return t.GetObject() + "#" + t.GetRelation() + "@" + t.GetUser()
}

func mkTK(sym byte, i, k int) *openfgav1.TupleKey {
	return &openfgav1.TupleKey{Object: "doc:" + itemID(sym, i, k), Relation: "viewer", User: "user:x"}
}
func expTK(sym byte, i, k int) string { return fmt.Sprintf("doc:%c%d%d#viewer@user:x", sym, i, k) }

var tkView = &view[*openfgav1.TupleKey]{show: showTK, sym: func(t *openfgav1.TupleKey) byte {
	if len(t.GetObject()) < 5 {
		return 0
	}
	return t.GetObject()[4]
}}

func mkTuple(sym byte, i, k int) *openfgav1.Tuple { return &openfgav1.Tuple{Key: mkTK(sym, i, k)} }

// ordered by object id (storage.ObjectMapper): the symbol is the object, (i,k) go into the user.
func mkObjTuple(sym byte, i, k int) *openfgav1.Tuple {
	return &openfgav1.Tuple{Key: &openfgav1.TupleKey{Object: "doc:" + string(sym), Relation: "viewer", User: fmt.Sprintf("user:u%d%d", i, k)}}
}
func expObjTuple(sym byte, i, k int) string {
	return fmt.Sprintf("doc:%c#viewer@user:u%d%d", sym, i, k)
}

// ordered by user (storage.UserMapper).
func mkUserTuple(sym byte, i, k int) *openfgav1.Tuple {
	return &openfgav1.Tuple{Key: &openfgav1.TupleKey{Object: fmt.Sprintf("doc:o%d%d", i, k), Relation: "viewer", User: "user:" + string(sym)}}
}
func expUserTuple(sym byte, i, k int) string {
	return fmt.Sprintf("doc:o%d%d#viewer@user:%c", i, k, sym)
}

var objTupleView = &view[*openfgav1.Tuple]{show: func(t *openfgav1.Tuple) string { return showTK(t.GetKey()) }, sym: func(t *openfgav1.Tuple) byte {
	if o := t.GetKey().GetObject(); len(o) == 5 {
		return o[4]
	}
	return 0
}}
var userTupleView = &view[*openfgav1.Tuple]{show: func(t *openfgav1.Tuple) string { return showTK(t.GetKey()) }, sym: func(t *openfgav1.Tuple) byte {
	if u := t.GetKey().GetUser(); len(u) == 6 {
		return u[5]
	}
	return 0
}}

// verdicts of a filter stub: digit s (base 3) of p is the verdict for symbol 'a'+s.
func verdicts3(p int) [3]int { return [3]int{p % 3, (p / 3) % 3, (p / 9) % 3} }

func verdictDesc(v [3]int) string {
	n := []string{"pass", "drop", "error"}
	return fmt.Sprintf("a:%s b:%s c:%s", n[v[0]], n[v[1]], n[v[2]])
}

func symIdx(sym byte) int {
	if sym < 'a' || sym > 'c' {
		return 0
	}
	return int(sym - 'a')
}

func det(r refIter) *detChecker { return &detChecker{ref: r} }

func one(r *rin) *refConcat { return &refConcat{ins: []*rin{r}} }

var (
	cStr = newCarrier(mkStr, expStr)
	cDoc = newCarrier(mkDoc, expDoc)
	// items without identity: the whole string is the ordering key, so that a skip target can equal an item
	cPlain     = newCarrier(func(sym byte, i, k int) string { return "doc:" + string(sym) }, func(sym byte, i, k int) string { return fmt.Sprintf("doc:%c", sym) })
	cTK        = newCarrier(mkTK, expTK)
	cTuple     = newCarrier(mkTuple, expTK)
	cObjTuple  = newCarrier(mkObjTuple, expObjTuple)
	cUserTuple = newCarrier(mkUserTuple, expUserTuple)
)

const ifaceDoc = "storage.Iterator: Next returns the next item or ErrIteratorDone; Stop: any subsequent Next must return ErrIteratorDone; Head returns the first item or ErrIteratorDone, never consumes, repeated Head yields the same result"

func adapters() []*adapter {
	var as []*adapter

	// ---- sources -------------------------------------------------------------------------------------
	as = append(as, &adapter{
		name: "storage.NewStaticIterator[string]", arity: 1, source: true, params: 1,
		doc: ifaceDoc + "; 'iterates over the provided slice'",
		build: func(e *env, ins []InSpec, p int) (implIter, checker) {
			return wrapIter(e, storage.NewStaticIterator(cStr.items(0, ins[0].Items)), strView), det(one(cStr.rin(0, ins[0])))
		},
	})
	as = append(as, &adapter{
		name: "storage.NewStaticTupleIterator", arity: 1, source: true, params: 1,
		doc: "NewStaticTupleIterator returns a TupleIterator that iterates over the provided slice",
		build: func(e *env, ins []InSpec, p int) (implIter, checker) {
			return wrapIter(e, storage.NewStaticTupleIterator(cObjTuple.items(0, ins[0].Items)), objTupleView), det(one(cObjTuple.rin(0, ins[0])))
		},
	})
	as = append(as, &adapter{
		name: "storage.NewStaticTupleKeyIterator", arity: 1, source: true, params: 1,
		doc: "NewStaticTupleKeyIterator returns a TupleKeyIterator that iterates over the provided slice",
		build: func(e *env, ins []InSpec, p int) (implIter, checker) {
			return wrapIter(e, storage.NewStaticTupleKeyIterator(cTK.items(0, ins[0].Items)), tkView), det(one(cTK.rin(0, ins[0])))
		},
	})

	// ---- concatenation -------------------------------------------------------------------------------
	for _, n := range []int{1, 2, 3} {
		n := n
		as = append(as, &adapter{
			name: fmt.Sprintf("storage.NewCombinedIterator/%d", n), arity: n, params: 1, lazyInputs: true,
			doc: "NewCombinedIterator ... combines them into a single iterator that yields all the values from all iterators. Duplicates can be returned; IsOrdered: 'sources are exhausted sequentially'",
			build: func(e *env, ins []InSpec, p int) (implIter, checker) {
				its := make([]storage.Iterator[string], len(ins))
				for i, in := range ins {
					its[i] = cStr.stub(e, i, in)
				}
				return wrapIter(e, storage.NewCombinedIterator(its...), strView), det(&refConcat{ins: cStr.rins(ins)})
			},
		})
	}
	as = append(as, &adapter{
		name: "iterator.Concat", arity: 2, params: 1, lazyInputs: true, headUnsupported: true,
		doc: "Concat returns an iterator that first yields all items from iter1, then all items from iter2. It exhausts iter1 completely before moving to iter2; Head: 'head() not supported on concat iterator'",
		build: func(e *env, ins []InSpec, p int) (implIter, checker) {
			a, b := cStr.stub(e, 0, ins[0]), cStr.stub(e, 1, ins[1])
			c := det(&refConcat{ins: cStr.rins(ins)})
			c.headUnsupported = true
			return wrapIter(e, iterator.Concat[string](a, b), strView), c
		},
	})

	// ---- pass-through mappers --------------------------------------------------------------------------
	as = append(as, &adapter{
		name: "storage.NewTupleKeyIteratorFromTupleIterator", arity: 1, params: 1,
		doc: "takes a TupleIterator and yields all the TupleKey(s) from it as a TupleKeyIterator",
		build: func(e *env, ins []InSpec, p int) (implIter, checker) {
			s := cTuple.stub(e, 0, ins[0])
			return wrapIter(e, storage.NewTupleKeyIteratorFromTupleIterator(s), tkView), det(one(cTuple.rin(0, ins[0])))
		},
	})
	type mp struct {
		kind storage.TupleMapperKind
		name string
		mk   func(sym byte, i, k int) *openfgav1.TupleKey
		exp  func(sym byte, i, k int) string
		pos  int
	}
	for _, m := range []mp{
		{storage.UsersetKind, "UsersetKind", func(sym byte, i, k int) *openfgav1.TupleKey {
			return &openfgav1.TupleKey{Object: "doc:1", Relation: "viewer", User: "group:" + itemID(sym, i, k) + "#member"}
		}, func(sym byte, i, k int) string { return fmt.Sprintf("group:%c%d%d", sym, i, k) }, 6},
		{storage.TTUKind, "TTUKind", func(sym byte, i, k int) *openfgav1.TupleKey {
			return &openfgav1.TupleKey{Object: "doc:1", Relation: "parent", User: "folder:" + itemID(sym, i, k)}
		}, func(sym byte, i, k int) string { return fmt.Sprintf("folder:%c%d%d", sym, i, k) }, 7},
		{storage.ObjectIDKind, "ObjectIDKind", mkTK, func(sym byte, i, k int) string { return fmt.Sprintf("doc:%c%d%d", sym, i, k) }, 4},
	} {
		m := m
		cm := newCarrier(m.mk, m.exp)
		vw := &view[string]{show: func(s string) string { return s }, sym: func(s string) byte {
			if len(s) <= m.pos {
				return 0
			}
			return s[m.pos]
		}}
		as = append(as, &adapter{
			name: "storage.WrapIterator(" + m.name + ")", arity: 1, params: 1,
			doc: "TupleMapper is an iterator that, on calls to Next and Head, returns a mapping of the tuple (userset id / user / object)",
			build: func(e *env, ins []InSpec, p int) (implIter, checker) {
				s := cm.stub(e, 0, ins[0])
				return wrapIter[string](e, storage.WrapIterator(m.kind, s), vw), det(one(cm.rin(0, ins[0])))
			},
		})
	}

	// ---- filters -------------------------------------------------------------------------------------
	as = append(as, &adapter{
		name: "storage.NewFilteredTupleKeyIterator", arity: 1, params: 8,
		paramDesc: func(p int) string {
			return fmt.Sprintf("filter accepts a:%v b:%v c:%v", p&1 != 0, p&2 != 0, p&4 != 0)
		},
		doc: "filters out all tuples that don't meet the conditions of the provided TupleKeyFilterFunc; Head: 'the underlying iterator will advance until the filter is satisfied'",
		build: func(e *env, ins []InSpec, p int) (implIter, checker) {
			s := cTK.stub(e, 0, ins[0])
			f := func(t *openfgav1.TupleKey) bool { return p&(1<<symIdx(tkView.sym(t))) != 0 }
			ref := &refFilter{in: cTK.rin(0, ins[0]), mode: modePlain, verdict: func(sym byte) int {
				if p&(1<<symIdx(sym)) != 0 {
					return vPass
				}
				return vDrop
			}}
			return wrapIter(e, storage.NewFilteredTupleKeyIterator(s, f), tkView), det(ref)
		},
	})
	as = append(as, &adapter{
		name: "storage.NewConditionsFilteredTupleKeyIterator", arity: 1, params: 27,
		paramDesc: func(p int) string {
			return "condition filter " + verdictDesc(verdicts3(p)) + " (error verdict returns (true, err))"
		},
		doc: "TupleKeyConditionFilterFunc: 'Errors will be treated as false. If none of the tuples are valid AND there are errors, Next() will return the last error'; Head: 'calling consecutive Head will yield consistent result. Further, calling Head following by Next will also yield consistent result'",
		build: func(e *env, ins []InSpec, p int) (implIter, checker) {
			v := verdicts3(p)
			s := cTK.stub(e, 0, ins[0])
			f := func(t *openfgav1.TupleKey) (bool, error) {
				switch v[symIdx(tkView.sym(t))] {
				case vPass:
					return true, nil
				case vDrop:
					return false, nil
				}
				return true, &filterErr{id: showTK(t)} // "Errors will be treated as false"
			}
			c := det(&refFilter{in: cTK.rin(0, ins[0]), mode: modeLastErr, verdict: func(sym byte) int { return v[symIdx(sym)] }})
			c.contAfterHeadErr = true
			return wrapIter(e, storage.NewConditionsFilteredTupleKeyIterator(s, f), tkView), c
		},
	})
	as = append(as, &adapter{
		name: "iterator.NewFilteredIterator/1", arity: 1, params: 27, headUnsupported: true,
		paramDesc: func(p int) string { return "filter " + verdictDesc(verdicts3(p)) },
		doc:       "Next returns the next tuple that passes all filter functions. If none of the tuples are valid AND there are errors, returns the last error; Head: ErrHeadNotSupportedFilterIterator",
		build: func(e *env, ins []InSpec, p int) (implIter, checker) {
			v := verdicts3(p)
			s := cStr.stub(e, 0, ins[0])
			f := func(t string) (bool, error) {
				switch v[symIdx(strView.sym(t))] {
				case vPass:
					return true, nil
				case vDrop:
					return false, nil
				}
				return false, &filterErr{id: t}
			}
			c := det(&refFilter{in: cStr.rin(0, ins[0]), mode: modeLastErr, verdict: func(sym byte) int { return v[symIdx(sym)] }})
			c.headUnsupported = true
			return wrapIter(e, iterator.NewFilteredIterator[string](s, f), strView), c
		},
	})
	// two filter functions; per symbol (f1,f2) in {(pass,pass),(pass,drop),(drop,pass),(err,pass),(pass,err)}: the
	// combination (drop, err) is left out because the doc does not say whether later filters are consulted.
	pairVerdict := [5][2]int{{vPass, vPass}, {vPass, vDrop}, {vDrop, vPass}, {vErr, vPass}, {vPass, vErr}}
	as = append(as, &adapter{
		name: "iterator.NewFilteredIterator/2", arity: 1, params: 125, headUnsupported: true, quickLen: 2,
		paramDesc: func(p int) string {
			n := []string{"pass", "drop", "error"}
			s := "filters (f1,f2)"
			for k := 0; k < 3; k++ {
				pv := pairVerdict[(p/pow(5, k))%5]
				s += fmt.Sprintf(" %c:(%s,%s)", 'a'+k, n[pv[0]], n[pv[1]])
			}
			return s
		},
		doc: "Next returns the next tuple that passes all filter functions. If none of the tuples are valid AND there are errors, returns the last error",
		build: func(e *env, ins []InSpec, p int) (implIter, checker) {
			var pv [3][2]int
			for k := 0; k < 3; k++ {
				pv[k] = pairVerdict[(p/pow(5, k))%5]
			}
			s := cStr.stub(e, 0, ins[0])
			mkf := func(which int) iterator.FilterFunc[string] {
				return func(t string) (bool, error) {
					switch pv[symIdx(strView.sym(t))][which] {
					case vPass:
						return true, nil
					case vDrop:
						return false, nil
					}
					return false, &filterErr{id: t}
				}
			}
			c := det(&refFilter{in: cStr.rin(0, ins[0]), mode: modeLastErr, verdict: func(sym byte) int {
				a, b := pv[symIdx(sym)][0], pv[symIdx(sym)][1]
				switch {
				case a == vErr || b == vErr:
					return vErr
				case a == vPass && b == vPass:
					return vPass
				}
				return vDrop
			}})
			c.headUnsupported = true
			return wrapIter(e, iterator.NewFilteredIterator[string](s, mkf(0), mkf(1)), strView), c
		},
	})
	as = append(as, &adapter{
		name: "iterator.Validate", arity: 1, params: 28,
		paramDesc: func(p int) string {
			if p == 27 {
				return "nil validator"
			}
			return "validator " + verdictDesc(verdicts3(p))
		},
		doc:  "no doc comment; IsOrdered: 'validation can only skip items, never reorder them' => valid items pass, invalid ones are skipped, a validator error is an error (never Done, never a value) at that item",
		open: "whether a validator error consumes the item; what follows it",
		build: func(e *env, ins []InSpec, p int) (implIter, checker) {
			s := cStr.stub(e, 0, ins[0])
			if p == 27 {
				return wrapIter(e, iterator.Validate[string](s, nil), strView), det(one(cStr.rin(0, ins[0])))
			}
			v := verdicts3(p)
			f := func(t string) (bool, error) {
				switch v[symIdx(strView.sym(t))] {
				case vPass:
					return true, nil
				case vDrop:
					return false, nil
				}
				return false, &filterErr{id: t}
			}
			ref := &refFilter{in: cStr.rin(0, ins[0]), mode: modeValidate, verdict: func(sym byte) int { return v[symIdx(sym)] }}
			return wrapIter(e, iterator.Validate[string](s, f), strView), det(ref)
		},
	})

	// ---- ordered merges ------------------------------------------------------------------------------
	type om struct {
		name   string
		mapper storage.TupleMapperFunc
		c      *carrier[*openfgav1.Tuple]
		vw     *view[*openfgav1.Tuple]
	}
	for _, m := range []om{
		{"ObjectMapper", storage.ObjectMapper(), cObjTuple, objTupleView},
		{"UserMapper", storage.UserMapper(), cUserTuple, userTupleView},
	} {
		for _, n := range []int{1, 2, 3} {
			if n == 3 && m.name == "UserMapper" {
				continue // the mapper is orthogonal to the number of inputs
			}
			m, n := m, n
			cm := m.c
			as = append(as, &adapter{
				name: fmt.Sprintf("storage.NewOrderedCombinedIterator(%s)/%d", m.name, n), arity: n, sorted: true, params: 1,
				doc:  "combines a list of iterators into a single ordered iterator. All the input iterators must be individually ordered already according to mapper. Iterators can yield the same value (as defined by mapper) multiple times, but it will only be returned once",
				open: "which of several tuples with the same key represents it (only the key sequence and Head/Next agreement are compared); unsorted inputs (precondition)",
				build: func(e *env, ins []InSpec, p int) (implIter, checker) {
					its := make([]storage.TupleIterator, len(ins))
					for i, in := range ins {
						its[i] = cm.stub(e, i, in)
					}
					c := det(&refOrdered{ins: cm.rins(ins)})
					c.keyOnly = true
					return wrapIter[*openfgav1.Tuple](e, storage.NewOrderedCombinedIterator(m.mapper, its...), m.vw), c
				},
			})
		}
	}
	as = append(as, &adapter{
		name: "iterator.Merge", arity: 2, sorted: true, params: 1, headUnsupported: true,
		doc:  "no doc comment; IsOrdered: 'the merge-sort algorithm produces sorted output only when both inputs are individually sorted'; inline: 'Equal values - advance both iterators to skip duplicate'; Head: ErrHeadNotSupportedMergedIterator",
		open: "multiplicity of a key that one input holds several times (between 1 and the number of occurrences); which of two equal items is yielded; unsorted inputs",
		build: func(e *env, ins []InSpec, p int) (implIter, checker) {
			a, b := cStr.stub(e, 0, ins[0]), cStr.stub(e, 1, ins[1])
			cmp := func(x, y string) int {
				switch {
				case x[0] < y[0]:
					return -1
				case x[0] > y[0]:
					return 1
				}
				return 0
			}
			return wrapIter(e, iterator.Merge[string](a, b, cmp), strView), newMergeChecker(ins)
		},
	})

	// ---- channel backed iterator ----------------------------------------------------------------------
	for _, n := range []int{1, 2} {
		n := n
		as = append(as, &adapter{
			name: fmt.Sprintf("iterator.FromChannel/%d", n), arity: n, params: pow(len(msgErrTerms)+1, n), asyncStop: true, lazyInputs: true, racyUnderCancel: true, cancelClassIsEnd: true, quickLen: 4 - n,
			paramDesc: func(p int) string {
				s := "messages:"
				for i := 0; i < n; i++ {
					if d := msgDigit(p, i); d != 0 {
						s += " Err(" + termNames[msgErrTerms[d-1]] + ")"
					} else {
						s += " Iter"
					}
				}
				return s + " (an Err message replaces that input by a Msg{Err: the error value of that kind})"
			},
			doc:  "no doc comment; IsOrdered: 'iterators are exhausted as they are received from the channel' => concatenation of the received iterators, a Msg.Err is an error at its position; Stop drains the channel and stops the remaining iterators",
			open: "results after the first error (an Err message is consumed by the call that reports it); every result once the request context is cancelled (select between ctx.Done() and the source channel); what happens when a received iterator fails with a cancellation-class error (context.Canceled/DeadlineExceeded, bare or wrapped): the source classifies it with storage.IterIsDoneOrCancelled as end of that iterator on the premise that it stems from the caller's own context - not judged from that point on (counted); generic errors and Done look-alikes of received iterators, and Msg.Err of every kind, must surface",
			build: func(e *env, ins []InSpec, p int) (implIter, checker) {
				ch := make(chan *iterator.Msg, len(ins))
				rs := make([]*rin, len(ins))
				for i, in := range ins {
					if d := msgDigit(p, i); d != 0 {
						t := msgErrTerms[d-1]
						ch <- &iterator.Msg{Err: termErrs[t]}
						rs[i] = &rin{term: t}
						e.stats = append(e.stats, &stubStat{}) // keeps the indices aligned; never "open"
						e.stats[len(e.stats)-1].doneSeen.Store(true)
						continue
					}
					ch <- &iterator.Msg{Iter: cDoc.stub(e, i, in)}
					rs[i] = cDoc.rin(i, in)
				}
				close(ch)
				return wrapIter(e, iterator.FromChannel(ch), docView), det(&refConcat{ins: rs})
			},
		})
	}
	return as
}

// msgErrTerms: the error values a Msg.Err of iterator.FromChannel / iterator.Stream is given (all under a live context).
var msgErrTerms = []int{termErr, termCanceledVal, termDeadlineVal, termWrappedCanceled, termWrappedDeadline, termLookalike}

// msgDigit: digit i (base len(msgErrTerms)+1) of p: 0 = message i carries the input iterator, d > 0 = it is Msg{Err: kind d-1}.
func msgDigit(p, i int) int { return (p / pow(len(msgErrTerms)+1, i)) % (len(msgErrTerms) + 1) }

func pow(b, e int) int {
	r := 1
	for ; e > 0; e-- {
		r *= b
	}
	return r
}
