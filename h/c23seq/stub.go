// Package c23seq is the sequential half of C23: every tuple-iterator adapter of pkg/storage and
// internal/iterator is driven with every bounded input tuple (error injected at every position) and every
// bounded call script over {Next, Head, Stop}; the observations are compared with list-based specifications
// written from the doc comments.
package c23seq

import (
	"context"
	"errors"
	"strings"
	"sync/atomic"

	"github.com/openfga/openfga/internal/iterator"
	"github.com/openfga/openfga/pkg/storage"
)

// How an input sequence ends.
const (
	termDone   = 0 // ErrIteratorDone after the last item
	termErr    = 1 // a non-Done error (sticky) from Next and Head after the last item
	termCancel = 2 // the request context is cancelled when the end is reached; Next/Head return ctx.Err() from then on
)

var termNames = []string{"done", "err", "cancel"}

var errInjected = errors.New("c23seq: injected input error")

// filterErr is the error returned by a filter/validator stub for one item.
type filterErr struct{ id string }

func (f *filterErr) Error() string { return "c23seq: filter error on " + f.id }

// InSpec is one input sequence: the symbols ('a'<'b'<'c') it yields and how it ends.
type InSpec struct {
	Items string `json:"items"`
	Term  string `json:"term"`
}

func (s InSpec) term() int {
	switch s.Term {
	case "err":
		return termErr
	case "cancel":
		return termCancel
	}
	return termDone
}

func (s InSpec) sorted() bool {
	for i := 1; i < len(s.Items); i++ {
		if s.Items[i] < s.Items[i-1] {
			return false
		}
	}
	return true
}

func (s InSpec) strict() bool {
	for i := 1; i < len(s.Items); i++ {
		if s.Items[i] <= s.Items[i-1] {
			return false
		}
	}
	return true
}

// itemID names item k of input i carrying symbol sym: e.g. "b12".
func itemID(sym byte, i, k int) string { return string([]byte{sym, byte('0' + i), byte('0' + k)}) }

// ---------------------------------------------------------------------------------------------------------
// Stub input iterator handed to the implementation.

type stubStat struct {
	nexts, heads, stops atomic.Int32
	doneSeen            atomic.Bool // the stub has answered ErrIteratorDone because its items ran out
}

func (s *stubStat) touched() bool { return s.nexts.Load()+s.heads.Load() > 0 }

// closed: "The caller must be careful to close the TupleIterator, either by consuming the entire iterator or
// by closing it" (storage.RelationshipTupleReader.Read).
func (s *stubStat) closed() bool { return s.stops.Load() > 0 || s.doneSeen.Load() }

type env struct {
	ctx    context.Context
	cancel context.CancelFunc
	fired  atomic.Bool // a termCancel input reached its end and cancelled ctx
	stats  []*stubStat
	extra  func() // optional clean-up (close channels, ...)
}

func newEnv(cancellable bool) *env {
	e := &env{ctx: context.Background(), stats: make([]*stubStat, 0, 3)}
	if cancellable {
		e.ctx, e.cancel = context.WithCancel(context.Background())
	}
	return e
}

func (e *env) fire() {
	e.fired.Store(true)
	if e.cancel != nil {
		e.cancel()
	}
}

func (e *env) done() {
	if e.cancel != nil {
		e.cancel()
	}
}

type stub[T any] struct {
	stat    stubStat
	items   []T
	pos     int
	term    int
	e       *env
	st      *stubStat
	stopped atomic.Bool
	ordered bool
}

var _ storage.Iterator[string] = (*stub[string])(nil)

func (s *stub[T]) get(ctx context.Context, consume bool) (T, error) {
	var z T
	// like StaticIterator, the memory iterator and SQLTupleIterator: a cancelled context wins
	if err := ctx.Err(); err != nil {
		return z, err
	}
	if s.stopped.Load() {
		return z, storage.ErrIteratorDone
	}
	if s.pos < len(s.items) {
		v := s.items[s.pos]
		if consume {
			s.pos++
		}
		return v, nil
	}
	switch s.term {
	case termErr:
		return z, errInjected
	case termCancel:
		s.e.fire()
		if err := ctx.Err(); err != nil {
			return z, err
		}
		return z, context.Canceled
	}
	s.st.doneSeen.Store(true)
	return z, storage.ErrIteratorDone
}

func (s *stub[T]) Next(ctx context.Context) (T, error) {
	s.st.nexts.Add(1)
	return s.get(ctx, true)
}

func (s *stub[T]) Head(ctx context.Context) (T, error) {
	s.st.heads.Add(1)
	return s.get(ctx, false)
}

func (s *stub[T]) Stop() {
	s.st.stops.Add(1)
	s.stopped.Store(true)
}

func (s *stub[T]) IsOrdered() bool { return s.ordered }

func newStubItems[T any](e *env, in InSpec, items []T) *stub[T] {
	s := &stub[T]{term: in.term(), e: e, ordered: true, items: items}
	s.st = &s.stat
	e.stats = append(e.stats, s.st)
	return s
}

// carrier: how an item (sym, input i, position k) is materialised for the implementation (mk) and what a consumer
// must observe for it (exp). Both tables are filled once; the slices are shared read-only between cases.
type carrier[T any] struct {
	mk  func(sym byte, i, k int) T
	exp func(sym byte, i, k int) string
	it  [3][]([]T)
	rt  [3][]([]ritem)
}

const maxSeqLen = 5

func seqCode(seq string) int {
	c := 0
	for i := 0; i < len(seq); i++ {
		c = c*4 + int(seq[i]-'a') + 1
	}
	return c
}

func newCarrier[T any](mk func(sym byte, i, k int) T, exp func(sym byte, i, k int) string) *carrier[T] {
	c := &carrier[T]{mk: mk, exp: exp}
	n := 1
	for i := 0; i <= maxSeqLen; i++ {
		n *= 4
	}
	for idx := 0; idx < 3; idx++ {
		c.it[idx] = make([][]T, n)
		c.rt[idx] = make([][]ritem, n)
	}
	var rec func(seq string)
	rec = func(seq string) {
		code := seqCode(seq)
		for idx := 0; idx < 3; idx++ {
			its := make([]T, len(seq))
			rs := make([]ritem, len(seq))
			for k := range seq {
				its[k] = mk(seq[k], idx, k)
				rs[k] = ritem{sym: seq[k], out: exp(seq[k], idx, k)}
			}
			c.it[idx][code], c.rt[idx][code] = its, rs
		}
		if len(seq) < maxSeqLen {
			for _, s := range "abc" {
				rec(seq + string(s))
			}
		}
	}
	rec("")
	return c
}

func (c *carrier[T]) items(idx int, seq string) []T {
	if idx < 3 && len(seq) <= maxSeqLen {
		return c.it[idx][seqCode(seq)]
	}
	its := make([]T, len(seq))
	for k := range seq {
		its[k] = c.mk(seq[k], idx, k)
	}
	return its
}

func (c *carrier[T]) stub(e *env, idx int, in InSpec) *stub[T] {
	return newStubItems(e, in, c.items(idx, in.Items))
}

func (c *carrier[T]) rin(idx int, in InSpec) *rin {
	if idx < 3 && len(in.Items) <= maxSeqLen {
		return &rin{term: in.term(), items: c.rt[idx][seqCode(in.Items)]}
	}
	return newRin(idx, in, c.exp)
}

func (c *carrier[T]) rins(ins []InSpec) []*rin {
	out := make([]*rin, len(ins))
	for i, in := range ins {
		out[i] = c.rin(i, in)
	}
	return out
}

// ---------------------------------------------------------------------------------------------------------
// Observations.

// obs is what one call returned. K: 'v' value, 'd' ErrIteratorDone, 'e' the injected input error,
// 'c' context cancelled/deadline, 'f' a filter/validator stub error (ID = item), 'u' "head() not supported",
// 'x' any other error (ID = message), 'o' nil result of a helper, 'l' list result of a helper.
type obs struct {
	K   byte
	ID  string // observable rendering of the value
	Sym byte   // ordering key symbol of the value
}

func (o obs) String() string {
	switch o.K {
	case 'v':
		return o.ID
	case 'd':
		return "Done"
	case 'e':
		return "ERR(injected)"
	case 'c':
		return "ERR(ctx)"
	case 'f':
		return "ERR(filter " + o.ID + ")"
	case 'u':
		return "ERR(head unsupported)"
	case 'o':
		return "ok"
	case 'l':
		return "[" + o.ID + "]"
	case 'p':
		return "PANIC(" + o.ID + ")"
	}
	return "ERR(other: " + o.ID + ")"
}

func kindName(k byte) string {
	switch k {
	case 'v':
		return "value"
	case 'd':
		return "done"
	case 'e':
		return "input-error"
	case 'c':
		return "ctx-error"
	case 'f':
		return "filter-error"
	case 'u':
		return "head-unsupported"
	case 'o':
		return "ok"
	case 'l':
		return "list"
	case 'p':
		return "panic"
	}
	return "other-error"
}

func errObs(err error) obs {
	var fe *filterErr
	switch {
	case errors.Is(err, storage.ErrIteratorDone):
		return obs{K: 'd'}
	case errors.Is(err, errInjected):
		return obs{K: 'e'}
	case errors.As(err, &fe):
		return obs{K: 'f', ID: fe.id}
	case errors.Is(err, context.Canceled), errors.Is(err, context.DeadlineExceeded):
		return obs{K: 'c'}
	case errors.Is(err, iterator.ErrHeadNotSupportedFilterIterator), errors.Is(err, iterator.ErrHeadNotSupportedMergedIterator),
		strings.Contains(err.Error(), "head() not supported"):
		return obs{K: 'u'}
	}
	return obs{K: 'x', ID: err.Error()}
}

// view renders values of the adapter's output type.
type view[U any] struct {
	show func(U) string
	sym  func(U) byte
}

func mkObs[U any](v U, err error, vw *view[U]) obs {
	if err != nil {
		return errObs(err)
	}
	return obs{K: 'v', ID: vw.show(v), Sym: vw.sym(v)}
}

// implIter is the adapter under test.
type implIter interface {
	next() obs
	head() obs
	stop()
}

type iterImpl[U any] struct {
	e  *env
	it storage.Iterator[U]
	vw *view[U]
}

func (w *iterImpl[U]) next() obs { v, err := w.it.Next(w.e.ctx); return mkObs(v, err, w.vw) }
func (w *iterImpl[U]) head() obs { v, err := w.it.Head(w.e.ctx); return mkObs(v, err, w.vw) }
func (w *iterImpl[U]) stop()     { w.it.Stop() }

func wrapIter[U any](e *env, it storage.Iterator[U], vw *view[U]) implIter {
	return &iterImpl[U]{e: e, it: it, vw: vw}
}
