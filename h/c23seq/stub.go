// Package c23seq is the sequential half of C23: every tuple-iterator adapter of pkg/storage and
// internal/iterator is driven with every bounded input tuple (error injected at every position) and every
// bounded call script over {Next, Head, Stop}; the observations are compared with list-based specifications
// written from the doc comments.
package c23seq

import (
	"context"
	"errors"
	"fmt"
	"strings"
	"sync"
	"sync/atomic"
	"time"

	"github.com/openfga/openfga/internal/iterator"
	"github.com/openfga/openfga/pkg/storage"
)

// How an input sequence ends. After its last item an input answers Next and Head with ...
const (
	termDone            = 0 // ErrIteratorDone
	termErr             = 1 // a generic non-Done error (sticky)
	termCancel          = 2 // the request context is cancelled at that moment; Next/Head return ctx.Err() (context.Canceled) from then on
	termDeadline        = 3 // the request context's deadline passes at that moment; Next/Head return ctx.Err() (context.DeadlineExceeded) from then on
	termCanceledVal     = 4 // the value context.Canceled while the request context stays alive (a source whose own query context was cancelled)
	termDeadlineVal     = 5 // the value context.DeadlineExceeded while the request context stays alive (a source whose own query timed out)
	termWrappedCanceled = 6 // fmt.Errorf("...: %w", context.Canceled), request context alive
	termWrappedDeadline = 7 // fmt.Errorf("...: %w", context.DeadlineExceeded), request context alive
	termLookalike       = 8 // errors.New("iterator done"): the text of storage.ErrIteratorDone, another error value
	numTerms            = 9
)

var termNames = []string{"done", "err", "cancel", "deadline", "canceled-value", "deadline-value", "wrapped-canceled", "wrapped-deadline", "done-lookalike"}

// baseTerms are combined freely; an extraTerms termination appears in at most one input of a case, the
// other inputs then end in Done (bound stated in the report).
var (
	baseTerms  = []int{termDone, termErr, termCancel}
	extraTerms = []int{termDeadline, termCanceledVal, termDeadlineVal, termWrappedCanceled, termWrappedDeadline, termLookalike}
	allTerms   = []int{termDone, termErr, termCancel, termDeadline, termCanceledVal, termDeadlineVal, termWrappedCanceled, termWrappedDeadline, termLookalike}
)

var (
	errInjected        = errors.New("c23seq: injected input error")
	errWrappedCanceled = fmt.Errorf("c23seq: source query failed: %w", context.Canceled)
	errWrappedDeadline = fmt.Errorf("c23seq: source query failed: %w", context.DeadlineExceeded)
	errLookalike       = errors.New(storage.ErrIteratorDone.Error())
)

// termErrs[t]: the error value an input with termination t returns while the request context is alive.
var termErrs = [numTerms]error{
	termDone: storage.ErrIteratorDone, termErr: errInjected, termCancel: context.Canceled, termDeadline: context.DeadlineExceeded,
	termCanceledVal: context.Canceled, termDeadlineVal: context.DeadlineExceeded,
	termWrappedCanceled: errWrappedCanceled, termWrappedDeadline: errWrappedDeadline, termLookalike: errLookalike,
}

func termOf(name string) int {
	for t, n := range termNames {
		if n == name {
			return t
		}
	}
	return termDone
}

func isExtraTerm(t int) bool { return t >= termDeadline }

// firesCtx: the termination acts on the request context itself.
func firesCtx(t int) bool { return t == termCancel || t == termDeadline }

// cancellationClassValue: an error value of the cancellation family handed out under a live context.
func cancellationClassValue(t int) bool {
	return t == termCanceledVal || t == termDeadlineVal || t == termWrappedCanceled || t == termWrappedDeadline
}

// filterErr is the error returned by a filter/validator stub for one item.
type filterErr struct{ id string }

func (f *filterErr) Error() string { return "c23seq: filter error on " + f.id }

// InSpec is one input sequence: the symbols ('a'<'b'<'c') it yields and how it ends.
type InSpec struct {
	Items string `json:"items"`
	Term  string `json:"term"`
}

func (s InSpec) term() int {
	switch s.Term { // the three frequent ones without a scan
	case "done":
		return termDone
	case "err":
		return termErr
	case "cancel":
		return termCancel
	}
	return termOf(s.Term)
}

func (s InSpec) sorted() bool {
	for i := 1; i < len(s.Items); i++ {
		if s.Items[i] < s.Items[i-1] {
			return false
		}
	}
	return true
}

func (s InSpec) strict() bool {
	for i := 1; i < len(s.Items); i++ {
		if s.Items[i] <= s.Items[i-1] {
			return false
		}
	}
	return true
}

// itemID names item k of input i carrying symbol sym: e.g. "b12".
func itemID(sym byte, i, k int) string { return string([]byte{sym, byte('0' + i), byte('0' + k)}) }

// ---------------------------------------------------------------------------------------------------------
// Stub input iterator handed to the implementation.

type stubStat struct {
	nexts, heads, stops atomic.Int32
	doneSeen            atomic.Bool // the stub has answered ErrIteratorDone because its items ran out
}

func (s *stubStat) touched() bool { return s.nexts.Load()+s.heads.Load() > 0 }

// closed: "The caller must be careful to close the TupleIterator, either by consuming the entire iterator or
// by closing it" (storage.RelationshipTupleReader.Read).
func (s *stubStat) closed() bool { return s.stops.Load() > 0 || s.doneSeen.Load() }

type env struct {
	ctx    context.Context
	cancel context.CancelFunc
	dl     *deadlineCtx
	fired  atomic.Bool // the request context was cancelled (a termCancel/termDeadline input reached its end, or the script said so)
	stats  []*stubStat
	extra  func() // optional clean-up (close channels, ...)
}

// deadlineCtx is a request context whose deadline "passes" when the harness says so (no wall clock involved):
// from then on Done() is closed and Err() is context.DeadlineExceeded, exactly what a context.WithDeadline
// context shows once its timer has fired.
type deadlineCtx struct {
	mu   sync.Mutex
	done chan struct{}
	err  error
}

func (d *deadlineCtx) Deadline() (time.Time, bool) { return time.Time{}, false }
func (d *deadlineCtx) Done() <-chan struct{}       { return d.done }
func (d *deadlineCtx) Value(any) any               { return nil }
func (d *deadlineCtx) Err() error {
	d.mu.Lock()
	defer d.mu.Unlock()
	return d.err
}
func (d *deadlineCtx) expire(err error) {
	d.mu.Lock()
	defer d.mu.Unlock()
	if d.err == nil {
		d.err = err
		close(d.done)
	}
}

// ctxMode: 0 = context.Background(), 1 = cancellable, 2 = deadline context.
func newEnvMode(mode int) *env {
	e := &env{ctx: context.Background(), stats: make([]*stubStat, 0, 3)}
	switch mode {
	case 1:
		e.ctx, e.cancel = context.WithCancel(context.Background())
	case 2:
		e.dl = &deadlineCtx{done: make(chan struct{})}
		e.ctx = e.dl
	}
	return e
}

func newEnv(cancellable bool) *env {
	if cancellable {
		return newEnvMode(1)
	}
	return newEnvMode(0)
}

func (e *env) fire() {
	e.fired.Store(true)
	if e.dl != nil {
		e.dl.expire(context.DeadlineExceeded)
	}
	if e.cancel != nil {
		e.cancel()
	}
}

func (e *env) done() {
	if e.dl != nil {
		e.dl.expire(context.Canceled)
	}
	if e.cancel != nil {
		e.cancel()
	}
}

type stub[T any] struct {
	stat    stubStat
	items   []T
	pos     int
	term    int
	e       *env
	st      *stubStat
	stopped atomic.Bool
	ordered bool
}

var _ storage.Iterator[string] = (*stub[string])(nil)

func (s *stub[T]) get(ctx context.Context, consume bool) (T, error) {
	var z T
	// like StaticIterator, the memory iterator and SQLTupleIterator: a cancelled context wins
	if err := ctx.Err(); err != nil {
		return z, err
	}
	if s.stopped.Load() {
		return z, storage.ErrIteratorDone
	}
	if s.pos < len(s.items) {
		v := s.items[s.pos]
		if consume {
			s.pos++
		}
		return v, nil
	}
	switch s.term {
	case termDone:
	case termCancel, termDeadline:
		s.e.fire()
		if err := ctx.Err(); err != nil {
			return z, err
		}
		return z, termErrs[s.term]
	default:
		return z, termErrs[s.term]
	}
	s.st.doneSeen.Store(true)
	return z, storage.ErrIteratorDone
}

func (s *stub[T]) Next(ctx context.Context) (T, error) {
	s.st.nexts.Add(1)
	return s.get(ctx, true)
}

func (s *stub[T]) Head(ctx context.Context) (T, error) {
	s.st.heads.Add(1)
	return s.get(ctx, false)
}

func (s *stub[T]) Stop() {
	s.st.stops.Add(1)
	s.stopped.Store(true)
}

func (s *stub[T]) IsOrdered() bool { return s.ordered }

func newStubItems[T any](e *env, in InSpec, items []T) *stub[T] {
	s := &stub[T]{term: in.term(), e: e, ordered: true, items: items}
	s.st = &s.stat
	e.stats = append(e.stats, s.st)
	return s
}

// carrier: how an item (sym, input i, position k) is materialised for the implementation (mk) and what a consumer
// must observe for it (exp). Both tables are filled once; the slices are shared read-only between cases.
type carrier[T any] struct {
	mk  func(sym byte, i, k int) T
	exp func(sym byte, i, k int) string
	it  [3][]([]T)
	rt  [3][]([]ritem)
}

const maxSeqLen = 5

func seqCode(seq string) int {
	c := 0
	for i := 0; i < len(seq); i++ {
		c = c*4 + int(seq[i]-'a') + 1
	}
	return c
}

func newCarrier[T any](mk func(sym byte, i, k int) T, exp func(sym byte, i, k int) string) *carrier[T] {
	c := &carrier[T]{mk: mk, exp: exp}
	n := 1
	for i := 0; i <= maxSeqLen; i++ {
		n *= 4
	}
	for idx := 0; idx < 3; idx++ {
		c.it[idx] = make([][]T, n)
		c.rt[idx] = make([][]ritem, n)
	}
	var rec func(seq string)
	rec = func(seq string) {
		code := seqCode(seq)
		for idx := 0; idx < 3; idx++ {
			its := make([]T, len(seq))
			rs := make([]ritem, len(seq))
			for k := range seq {
				its[k] = mk(seq[k], idx, k)
				rs[k] = ritem{sym: seq[k], out: exp(seq[k], idx, k)}
			}
			c.it[idx][code], c.rt[idx][code] = its, rs
		}
		if len(seq) < maxSeqLen {
			for _, s := range "abc" {
				rec(seq + string(s))
			}
		}
	}
	rec("")
	return c
}

func (c *carrier[T]) items(idx int, seq string) []T {
	if idx < 3 && len(seq) <= maxSeqLen {
		return c.it[idx][seqCode(seq)]
	}
	its := make([]T, len(seq))
	for k := range seq {
		its[k] = c.mk(seq[k], idx, k)
	}
	return its
}

func (c *carrier[T]) stub(e *env, idx int, in InSpec) *stub[T] {
	return newStubItems(e, in, c.items(idx, in.Items))
}

func (c *carrier[T]) rin(idx int, in InSpec) *rin {
	if idx < 3 && len(in.Items) <= maxSeqLen {
		return &rin{term: in.term(), items: c.rt[idx][seqCode(in.Items)]}
	}
	return newRin(idx, in, c.exp)
}

func (c *carrier[T]) rins(ins []InSpec) []*rin {
	out := make([]*rin, len(ins))
	for i, in := range ins {
		out[i] = c.rin(i, in)
	}
	return out
}

// ---------------------------------------------------------------------------------------------------------
// Observations.

// obs is what one call returned. K: 'v' value, 'd' ErrIteratorDone, 'e' an injected input error that is
// identifiable by its value (ID = termination name; generic, wrapped cancellation-class, Done look-alike),
// 'c' a bare context.Canceled/DeadlineExceeded (from the request context or handed out as a value by an input), 'f' a filter/validator stub error (ID = item), 'u' "head() not supported",
// 'x' any other error (ID = message), 'o' nil result of a helper, 'l' list result of a helper.
type obs struct {
	K   byte
	ID  string // observable rendering of the value
	Sym byte   // ordering key symbol of the value
}

func (o obs) String() string {
	switch o.K {
	case 'v':
		return o.ID
	case 'd':
		return "Done"
	case 'e':
		if o.ID != "" && o.ID != "err" {
			return "ERR(injected " + o.ID + ")"
		}
		return "ERR(injected)"
	case 'c':
		return "ERR(ctx)"
	case 'f':
		return "ERR(filter " + o.ID + ")"
	case 'u':
		return "ERR(head unsupported)"
	case 'o':
		return "ok"
	case 'l':
		return "[" + o.ID + "]"
	case 'p':
		return "PANIC(" + o.ID + ")"
	}
	return "ERR(other: " + o.ID + ")"
}

func kindName(k byte) string {
	switch k {
	case 'v':
		return "value"
	case 'd':
		return "done"
	case 'e':
		return "input-error"
	case 'c':
		return "ctx-error"
	case 'f':
		return "filter-error"
	case 'u':
		return "head-unsupported"
	case 'o':
		return "ok"
	case 'l':
		return "list"
	case 'p':
		return "panic"
	}
	return "other-error"
}

func errObs(err error) obs {
	var fe *filterErr
	switch {
	case errors.Is(err, storage.ErrIteratorDone):
		return obs{K: 'd'}
	case errors.Is(err, errInjected):
		return obs{K: 'e'}
	case errors.Is(err, errWrappedCanceled):
		return obs{K: 'e', ID: "wrapped-canceled"}
	case errors.Is(err, errWrappedDeadline):
		return obs{K: 'e', ID: "wrapped-deadline"}
	case errors.Is(err, errLookalike):
		return obs{K: 'e', ID: "done-lookalike"}
	case errors.As(err, &fe):
		return obs{K: 'f', ID: fe.id}
	case errors.Is(err, context.Canceled), errors.Is(err, context.DeadlineExceeded):
		return obs{K: 'c'}
	case errors.Is(err, iterator.ErrHeadNotSupportedFilterIterator), errors.Is(err, iterator.ErrHeadNotSupportedMergedIterator),
		strings.Contains(err.Error(), "head() not supported"):
		return obs{K: 'u'}
	}
	return obs{K: 'x', ID: err.Error()}
}

// view renders values of the adapter's output type.
type view[U any] struct {
	show func(U) string
	sym  func(U) byte
}

func mkObs[U any](v U, err error, vw *view[U]) obs {
	if err != nil {
		return errObs(err)
	}
	return obs{K: 'v', ID: vw.show(v), Sym: vw.sym(v)}
}

// implIter is the adapter under test.
type implIter interface {
	next() obs
	head() obs
	stop()
}

type iterImpl[U any] struct {
	e  *env
	it storage.Iterator[U]
	vw *view[U]
}

func (w *iterImpl[U]) next() obs { v, err := w.it.Next(w.e.ctx); return mkObs(v, err, w.vw) }
func (w *iterImpl[U]) head() obs { v, err := w.it.Head(w.e.ctx); return mkObs(v, err, w.vw) }
func (w *iterImpl[U]) stop()     { w.it.Stop() }

func wrapIter[U any](e *env, it storage.Iterator[U], vw *view[U]) implIter {
	return &iterImpl[U]{e: e, it: it, vw: vw}
}
