package c23seq

import (
	"fmt"
	"os"
	"runtime/pprof"
	"sort"
	"strings"
	"sync"
	"sync/atomic"
	"time"

	"github.com/openfga/openfga/internal/verifh/core"
)

const rule = "every tuple-iterator adapter of pkg/storage and internal/iterator x every tuple of input sequences (length <= 3, 3 ordered symbols a<b<c, unsorted/duplicate inputs where the doc allows them; ending in Done, in an injected non-Done error or in a context cancellation after k = 0..len items) x every filter/validator verdict table x every call script over {Next, Head, Stop} up to the tier's length, each followed by an epilogue (read to the end, Stop, Next, Head); judged by list-based specifications written from the doc comments. A case = (adapter, inputs, parameter, script); non-trivial = the inputs hold >= 2 items or an injected error; distinct = distinct (adapter, inputs, parameter)."

// Run is the stand-alone entry point.
func Run(o *core.Options) int {
	r := core.NewReport(o, "exploration", rule)
	if o.Replay != "" {
		if !Replay(o, r) {
			fmt.Println("replay: not a c23seq case")
			return 2
		}
		return r.Finish()
	}
	if pf := os.Getenv("C23SEQ_PROF"); pf != "" {
		if f, err := os.Create(pf); err == nil {
			_ = pprof.StartCPUProfile(f)
			defer pprof.StopCPUProfile()
		}
	}
	RunInto(o, r)
	return r.Finish()
}

// enumInputs: all sequences over {a,b,c} of length <= maxLen (sorted ones only if sorted) x terminations.
func enumInputs(maxLen int, sorted bool, terms []int) []InSpec {
	var seqs []string
	var rec func(cur string)
	rec = func(cur string) {
		seqs = append(seqs, cur)
		if len(cur) == maxLen {
			return
		}
		for _, s := range "abc" {
			if sorted && len(cur) > 0 && byte(s) < cur[len(cur)-1] {
				continue
			}
			rec(cur + string(s))
		}
	}
	rec("")
	sort.SliceStable(seqs, func(i, j int) bool { return len(seqs[i]) < len(seqs[j]) })
	var out []InSpec
	for _, s := range seqs {
		for _, t := range terms {
			out = append(out, InSpec{Items: s, Term: termNames[t]})
		}
	}
	return out
}

func enumScripts(alphabet string, maxLen int) []string {
	out := []string{""}
	prev := []string{""}
	for l := 1; l <= maxLen; l++ {
		var cur []string
		for _, p := range prev {
			for _, c := range alphabet {
				cur = append(cur, p+string(c))
			}
		}
		out = append(out, cur...)
		prev = cur
	}
	return out
}

type adStat struct {
	Inputs     int64 `json:"input_tuples"`
	Cases      int64 `json:"cases"`
	Nontrivial int64 `json:"nontrivial_cases"`
	Early      int64 `json:"input_error_surfaced_early_cases,omitempty"`
	MultiStop  int64 `json:"input_stopped_more_than_once_cases,omitempty"`
	Deviating  int64 `json:"deviating_cases,omitempty"`
}

type collector struct {
	mu   sync.Mutex
	per  map[string]*adStat
	r    *core.Report
	open map[string]string
	docs map[string]string
	devs map[string]*devAgg // signature -> count and the smallest example (deterministic evidence and replay files)
}

// cand is one deviating case; rank orders candidates so that the recorded example does not depend on scheduling.
type cand struct {
	rank string
	desc string
	c    Case
	mk   func() (string, Case) // lazily builds desc and c (re-runs the case with a trace)
}

type devAgg struct {
	n    int64
	best *cand
}

type devLocal map[string]*devAgg

func (d devLocal) note(sig string, rank func() string, mk func() (string, Case)) {
	a := d[sig]
	if a == nil {
		a = &devAgg{}
		d[sig] = a
	}
	a.n++
	// cheap pre-filter: only the first deviation of a signature in this job and strictly smaller ones are ranked
	if a.best == nil {
		a.best = &cand{rank: rank(), mk: mk}
		return
	}
	if rk := rank(); rk < a.best.rank {
		a.best = &cand{rank: rk, mk: mk}
	}
}

func (c *collector) merge(d devLocal) {
	c.mu.Lock()
	defer c.mu.Unlock()
	if c.devs == nil {
		c.devs = map[string]*devAgg{}
	}
	for sig, a := range d {
		t := c.devs[sig]
		if t == nil {
			c.devs[sig] = a
			continue
		}
		t.n += a.n
		if a.best.rank < t.best.rank {
			t.best = a.best
		}
	}
}

// flush hands the aggregated deviations to the report: the smallest example first, then the remaining count.
func (c *collector) flush() {
	c.mu.Lock()
	defer c.mu.Unlock()
	sigs := make([]string, 0, len(c.devs))
	for s := range c.devs {
		sigs = append(sigs, s)
	}
	sort.Strings(sigs)
	for _, sig := range sigs {
		a := c.devs[sig]
		desc, cs := a.best.mk()
		c.r.Violate(sig, desc, cs)
		for i := int64(1); i < a.n; i++ {
			c.r.Violate(sig, "", nil)
		}
	}
	c.devs = nil
}

func caseRank(ad *adapter, ins []InSpec, p int, script string) string {
	items, bad := 0, 0
	for _, in := range ins {
		items += len(in.Items)
		if in.term() != termDone {
			bad++
		}
	}
	return fmt.Sprintf("%d|%02d|%02d|%02d|%s|%s|%04d|%s", bad, len(ins), items, len(script), ad.name, insKey(ins), p, script)
}

func (c *collector) add(name string, s adStat) {
	c.mu.Lock()
	t := c.per[name]
	if t == nil {
		t = &adStat{}
		c.per[name] = t
	}
	t.Inputs += s.Inputs
	t.Cases += s.Cases
	t.Nontrivial += s.Nontrivial
	t.Early += s.Early
	t.MultiStop += s.MultiStop
	t.Deviating += s.Deviating
	c.mu.Unlock()
}

func nontrivial(ins []InSpec) bool {
	n := 0
	for _, in := range ins {
		n += len(in.Items)
		if in.term() != termDone {
			return true
		}
	}
	return n >= 2
}

func insKey(ins []InSpec) string {
	var b strings.Builder
	for _, in := range ins {
		b.WriteString(in.Items)
		b.WriteByte('/')
		b.WriteString(in.Term)
		b.WriteByte(';')
	}
	return b.String()
}

// signature of a deviation: adapter family (arity suffix dropped) + mechanism class.
var mapperNames = strings.NewReplacer("(ObjectMapper)", "", "(UserMapper)", "")

func signature(ad string, class string) string {
	ad = mapperNames.Replace(ad)
	if i := strings.LastIndex(ad, "/"); i > 0 {
		ad = ad[:i]
	}
	return ad + ":" + class
}

func describe(ad *adapter, ins []InSpec, p int, script string, out outcome) (string, Case) {
	cs := Case{Harness: "c23seq", Adapter: ad.name, Inputs: append([]InSpec(nil), ins...), Param: p, Script: script}
	if ad.paramDesc != nil {
		cs.ParamIs = ad.paramDesc(p)
	}
	var tr []string
	runCase(ad, ins, p, script, &tr)
	cs.Trace = tr
	return fmt.Sprintf("%s inputs=%s %s script=%q: %s; observed %v", ad.name, insKey(ins), cs.ParamIs, script, out.describe(), tr), cs
}

func (c *collector) violate(ad *adapter, ins []InSpec, p int, script string, out outcome) {
	desc, cs := describe(ad, ins, p, script, out)
	c.r.Violate(signature(ad.name, out.class), desc, cs)
}

// RunInto performs the whole sequential enumeration and records into r (no Finish).
func RunInto(o *core.Options, r *core.Report) {
	maxLen, scriptLen, tripleLen := 3, 4, 2
	if o.Thorough() {
		maxLen, scriptLen, tripleLen = 3, 5, 3
	}
	scripts := enumScripts("NHS", scriptLen)
	scripts3 := enumScripts("NHS", scriptLen-1) // 3-input adapters: scripts one call shorter
	col := &collector{per: map[string]*adStat{}, r: r, open: map[string]string{}, docs: map[string]string{}}
	ads := adapters()
	only := os.Getenv("C23SEQ_ONLY") // development aid: restrict to adapters whose name contains the value
	if only != "" {
		var keep []*adapter
		for _, ad := range ads {
			if strings.Contains(ad.name, only) {
				keep = append(keep, ad)
			}
		}
		ads = keep
		r.NotExhaustive("C23SEQ_ONLY=" + only)
	}

	r.Assume(
		"sequential half: bounds = input sequences of length <= "+fmt.Sprint(maxLen)+" over 3 ordered symbols (length <= "+fmt.Sprint(tripleLen)+" for 3-input adapters), scripts over {Next,Head,Stop} of length <= "+fmt.Sprint(scriptLen)+" ("+fmt.Sprint(len(scripts))+" scripts; 3-input adapters: "+fmt.Sprint(len(scripts3))+") plus the epilogue; quick runs iterator.NewFilteredIterator with two filter functions and iterator.FromChannel with two messages on sequences of length <= 2; thorough runs 1-input adapters with sequences of length <= 5 and 2-input adapters with length <= 4",
		"stub inputs behave like the repository's own iterators: a cancelled context wins, after Stop they answer Done, an injected error is sticky",
		"aspects the doc comments leave open are not judged: the call at which an input error surfaces (only: never a value beyond it, never Done instead of it; earlier is tolerated and counted), every result after the first surfaced error or once the context is cancelled (except: Next/Head after Stop), which tuple represents a key in NewOrderedCombinedIterator, multiplicity of in-input duplicates in iterator.Merge, inputs violating a stated precondition (unsorted inputs of ordered merges), calling a filter function on (drop, error) combinations",
		"an input counts as closed when it was stopped or read to its Done (storage.RelationshipTupleReader.Read: 'close the TupleIterator, either by consuming the entire iterator or by closing it'); being stopped more than once is only counted",
		"iterator.Error (a source without inputs whose Stop is documented nowhere) and the NextItemInSliceStreams helper are not covered",
	)

	type job struct {
		ad    *adapter
		ins   []InSpec // candidate list for every position
		first int
	}
	var jobs []job
	inputsFor := func(ad *adapter, ml int) []InSpec {
		terms := []int{termDone, termErr, termCancel}
		if ad.source {
			terms = []int{termDone}
		}
		return enumInputs(ml, ad.sorted, terms)
	}
	for _, ad := range ads {
		ml := maxLen
		if ad.arity >= 3 {
			ml = tripleLen
		}
		if !o.Thorough() && ad.quickLen > 0 {
			ml = ad.quickLen
		}
		if o.Thorough() && ad.arity == 2 {
			ml = 4
		}
		if o.Thorough() && ad.arity == 1 {
			ml = 5
		}
		ins := inputsFor(ad, ml)
		for f := range ins {
			jobs = append(jobs, job{ad, ins, f})
		}
		col.docs[ad.name] = ad.doc
		if ad.open != "" {
			col.open[ad.name] = ad.open
		}
	}
	// heavy jobs first
	sort.SliceStable(jobs, func(i, j int) bool { return jobs[i].ad.arity > jobs[j].ad.arity })

	fixedSamples(r, ads)

	t0 := time.Now()
	perAd := map[string]*atomic.Int64{}
	for _, ad := range ads {
		perAd[ad.name] = &atomic.Int64{}
	}
	r.Parallel(len(jobs), func(ji int) {
		jb := jobs[ji]
		tj := time.Now()
		defer func() { perAd[jb.ad.name].Add(int64(time.Since(tj))) }()
		ad := jb.ad
		var st adStat
		devs := devLocal{}
		cur := make([]InSpec, ad.arity)
		cur[0] = jb.ins[jb.first]
		var rec func(pos int)
		rec = func(pos int) {
			if pos < ad.arity {
				for _, in := range jb.ins {
					cur[pos] = in
					rec(pos + 1)
					if r.Expired() {
						return
					}
				}
				return
			}
			nt := nontrivial(cur)
			key := insKey(cur)
			for p := 0; p < ad.params; p++ {
				if skipParam(ad, cur, p) {
					continue
				}
				st.Inputs++
				if nt {
					r.Nontrivial(core.Hash(ad.name, key, fmt.Sprint(p)))
				}
				scs := scripts
				if ad.arity >= 3 {
					scs = scripts3
				}
				for _, sc := range scs {
					out := runCase(ad, cur, p, sc, nil)
					st.Cases++
					if nt {
						st.Nontrivial++
					}
					if out.early {
						st.Early++
					}
					if out.multi {
						st.MultiStop++
					}
					if out.class != "" {
						st.Deviating++
						ins2, p2, sc2, out2 := append([]InSpec(nil), cur...), p, sc, out
						devs.note(signature(ad.name, out.class), func() string { return caseRank(ad, ins2, p2, sc2) },
							func() (string, Case) { return describe(ad, ins2, p2, sc2, out2) })
					}
				}
			}
		}
		rec(1)
		r.Eval(st.Cases)
		col.add(ad.name, st)
		col.merge(devs)
	})

	t1 := time.Now()
	runHelpers(o, r, col)
	col.flush()
	if os.Getenv("C23SEQ_TIMING") != "" {
		fmt.Fprintf(os.Stderr, "iterators %.1fs helpers %.1fs\n", t1.Sub(t0).Seconds(), time.Since(t1).Seconds())
		for n, v := range perAd {
			fmt.Fprintf(os.Stderr, "  %-60s %.1f cpu-s\n", n, time.Duration(v.Load()).Seconds())
		}
	}

	names := make([]string, 0, len(col.per))
	for n := range col.per {
		names = append(names, n)
	}
	sort.Strings(names)
	var totIn, totNt int64
	for _, n := range names {
		totIn += col.per[n].Inputs
		totNt += col.per[n].Nontrivial
	}
	r.Set("seq_adapters_covered", names)
	r.Set("seq_per_adapter", col.per)
	r.Set("seq_scripts", len(scripts))
	r.Set("seq_script_max_len", scriptLen)
	r.Set("seq_specified_from", col.docs)
	r.Set("seq_left_open", col.open)
	r.Count("seq_input_tuples", totIn)
	r.Count("seq_nontrivial_cases", totNt)
}

func skipParam(ad *adapter, ins []InSpec, p int) bool {
	if strings.HasPrefix(ad.name, "iterator.FromChannel") {
		for i, in := range ins {
			if p&(1<<i) != 0 && (in.Items != "" || in.Term != "done") {
				return true // an Err message ignores the input sequence: run it once
			}
		}
	}
	return false
}

// Replay re-runs the case of a replay file written by this package; false if the file is not one of ours.
func Replay(o *core.Options, r *core.Report) bool {
	var c Case
	if err := core.LoadReplay(o.Replay, &c); err != nil || c.Harness != "c23seq" {
		return false
	}
	col := &collector{per: map[string]*adStat{}, r: r}
	for _, ad := range adapters() {
		if ad.name != c.Adapter {
			continue
		}
		var tr []string
		out := runCase(ad, c.Inputs, c.Param, c.Script, &tr)
		r.Eval(1)
		r.Nontrivial(core.Hash(ad.name, insKey(c.Inputs)))
		r.Sample(map[string]any{"adapter": ad.name, "inputs": c.Inputs, "script": c.Script, "observed": tr})
		fmt.Fprintf(os.Stderr, "replay %s %s %q: observed %v => %q\n", ad.name, insKey(c.Inputs), c.Script, tr, out.class)
		if out.class != "" {
			col.violate(ad, c.Inputs, c.Param, c.Script, out)
		}
		return true
	}
	if replayHelper(r, c) {
		return true
	}
	return false
}

// fixedSamples records a few representative cases (inputs, script, observed results) in the evidence.
func fixedSamples(r *core.Report, ads []*adapter) {
	in := func(items, term string) InSpec { return InSpec{Items: items, Term: term} }
	for _, f := range []struct {
		ad     string
		ins    []InSpec
		p      int
		script string
	}{
		{"storage.NewOrderedCombinedIterator(ObjectMapper)/2", []InSpec{in("abb", "done"), in("bc", "err")}, 0, "HNNH"},
		{"iterator.Merge", []InSpec{in("ab", "done"), in("bc", "done")}, 0, "NHN"},
		{"storage.NewConditionsFilteredTupleKeyIterator", []InSpec{in("abc", "done")}, 2 + 3*1 + 9*0, "HNH"},
		{"iterator.Concat", []InSpec{in("ba", "done"), in("c", "err")}, 0, "NNN"},
	} {
		for _, ad := range ads {
			if ad.name != f.ad {
				continue
			}
			var tr []string
			out := runCase(ad, f.ins, f.p, f.script, &tr)
			pd := ""
			if ad.paramDesc != nil {
				pd = ad.paramDesc(f.p)
			}
			r.Sample(map[string]any{"adapter": ad.name, "inputs": f.ins, "param": pd, "script": f.script + " + epilogue (read to end, Stop, Next, Head)", "observed": tr, "deviation": out.class})
		}
	}
	_, _, tr := runStream([]InSpec{in("ab", "done"), in("c", "err")}, 0, "FNDF")
	r.Sample(map[string]any{"adapter": "iterator.Stream", "messages": []InSpec{in("ab", "done"), in("c", "err")}, "script": "CleanDone, Next, Drain, CleanDone + epilogue (Stop, Next, Head)", "observed": tr})
	_, _, tr = runFanIn([]string{"IE", "I"}, 0)
	r.Sample(map[string]any{"adapter": "iterator.FanInIteratorChannels", "channels": []string{"Iter,Err", "Iter"}, "context": "live", "observed": tr})
}
