package c23seq

import (
	"fmt"
	"os"
	"runtime/pprof"
	"sort"
	"strings"
	"sync"
	"sync/atomic"
	"time"

	"github.com/openfga/openfga/internal/verifh/core"
)

const rule = "every tuple-iterator adapter of pkg/storage and internal/iterator x every tuple of input sequences (length <= 3, 3 ordered symbols a<b<c, unsorted/duplicate inputs where the doc allows them) x every way an input can end after k = 0..len items {Done; a generic error; the request context cancelled at that moment; its deadline passing at that moment; the values context.Canceled / context.DeadlineExceeded handed out under a live context; fmt.Errorf(%w) wrappings of both; an error that only prints like ErrIteratorDone} x every filter/validator verdict table x every call script over {Next, Head, Stop} up to the tier's length (plus scripts in which the caller's context is cancelled / times out between two calls), each followed by an epilogue (read to the end with Next, or with Head before every Next; Stop, Next, Head); judged by list-based specifications written from the doc comments: the results are a prefix of the specified sequence followed by the input's failure - never a value from beyond a failure, never ErrIteratorDone for a truncated sequence, for Next and for Head, also under a cancelled context. A case = (adapter, inputs, parameter, script); non-trivial = the inputs hold >= 2 items or a failing input; distinct = distinct (adapter, inputs, parameter)."

// Run is the stand-alone entry point.
func Run(o *core.Options) int {
	r := core.NewReport(o, "exploration", rule)
	if o.Replay != "" {
		if !Replay(o, r) {
			fmt.Println("replay: not a c23seq case")
			return 2
		}
		return r.Finish()
	}
	if pf := os.Getenv("C23SEQ_PROF"); pf != "" {
		if f, err := os.Create(pf); err == nil {
			_ = pprof.StartCPUProfile(f)
			defer pprof.StopCPUProfile()
		}
	}
	RunInto(o, r)
	return r.Finish()
}

// enumInputs: all sequences over {a,b,c} of length <= maxLen (sorted ones only if sorted) x terminations.
func enumInputs(maxLen int, sorted bool, terms []int) []InSpec {
	var seqs []string
	var rec func(cur string)
	rec = func(cur string) {
		seqs = append(seqs, cur)
		if len(cur) == maxLen {
			return
		}
		for _, s := range "abc" {
			if sorted && len(cur) > 0 && byte(s) < cur[len(cur)-1] {
				continue
			}
			rec(cur + string(s))
		}
	}
	rec("")
	sort.SliceStable(seqs, func(i, j int) bool { return len(seqs[i]) < len(seqs[j]) })
	var out []InSpec
	for _, s := range seqs {
		for _, t := range terms {
			out = append(out, InSpec{Items: s, Term: termNames[t]})
		}
	}
	return out
}

func enumScripts(alphabet string, maxLen int) []string {
	out := []string{""}
	prev := []string{""}
	for l := 1; l <= maxLen; l++ {
		var cur []string
		for _, p := range prev {
			for _, c := range alphabet {
				cur = append(cur, p+string(c))
			}
		}
		out = append(out, cur...)
		prev = cur
	}
	return out
}

type adStat struct {
	Inputs     int64 `json:"input_tuples"`
	Cases      int64 `json:"cases"`
	Nontrivial int64 `json:"nontrivial_cases"`
	Early      int64 `json:"input_error_surfaced_early_cases,omitempty"`
	MultiStop  int64 `json:"input_stopped_more_than_once_cases,omitempty"`
	PostCancel int64 `json:"calls_judged_under_cancelled_context,omitempty"`
	Unjudged   int64 `json:"cancellation_class_failure_unspecified_not_judged_cases,omitempty"`
	Deviating  int64 `json:"deviating_cases,omitempty"`
}

type collector struct {
	mu   sync.Mutex
	per  map[string]*adStat
	r    *core.Report
	open map[string]string
	docs map[string]string
	devs map[string]*devAgg // signature -> count and the smallest example (deterministic evidence and replay files)
	kind map[string]int64   // failure kind -> cases in which an input (or the script) fails that way
}

func (c *collector) addKinds(k map[string]int64) {
	c.mu.Lock()
	defer c.mu.Unlock()
	if c.kind == nil {
		c.kind = map[string]int64{}
	}
	for n, v := range k {
		c.kind[n] += v
	}
}

// cand is one deviating case; rank orders candidates so that the recorded example does not depend on scheduling.
type cand struct {
	rank string
	desc string
	c    Case
	mk   func() (string, Case) // lazily builds desc and c (re-runs the case with a trace)
}

type devAgg struct {
	n    int64
	best *cand
}

type devLocal map[string]*devAgg

func (d devLocal) note(sig string, rank func() string, mk func() (string, Case)) {
	a := d[sig]
	if a == nil {
		a = &devAgg{}
		d[sig] = a
	}
	a.n++
	// cheap pre-filter: only the first deviation of a signature in this job and strictly smaller ones are ranked
	if a.best == nil {
		a.best = &cand{rank: rank(), mk: mk}
		return
	}
	if rk := rank(); rk < a.best.rank {
		a.best = &cand{rank: rk, mk: mk}
	}
}

func (c *collector) merge(d devLocal) {
	c.mu.Lock()
	defer c.mu.Unlock()
	if c.devs == nil {
		c.devs = map[string]*devAgg{}
	}
	for sig, a := range d {
		t := c.devs[sig]
		if t == nil {
			c.devs[sig] = a
			continue
		}
		t.n += a.n
		if a.best.rank < t.best.rank {
			t.best = a.best
		}
	}
}

// flush hands the aggregated deviations to the report: the smallest example first, then the remaining count.
func (c *collector) flush() {
	c.mu.Lock()
	defer c.mu.Unlock()
	sigs := make([]string, 0, len(c.devs))
	for s := range c.devs {
		sigs = append(sigs, s)
	}
	sort.Strings(sigs)
	for _, sig := range sigs {
		a := c.devs[sig]
		desc, cs := a.best.mk()
		c.r.Violate(sig, desc, cs)
		for i := int64(1); i < a.n; i++ {
			c.r.Violate(sig, "", nil)
		}
	}
	c.devs = nil
}

func caseRank(ad *adapter, ins []InSpec, p int, script string) string {
	items, bad := 0, 0
	for _, in := range ins {
		items += len(in.Items)
		if in.term() != termDone {
			bad++
		}
	}
	return fmt.Sprintf("%d|%02d|%02d|%02d|%s|%s|%04d|%s", bad, len(ins), items, len(script), ad.name, insKey(ins), p, script)
}

func (c *collector) add(name string, s adStat) {
	c.mu.Lock()
	t := c.per[name]
	if t == nil {
		t = &adStat{}
		c.per[name] = t
	}
	t.Inputs += s.Inputs
	t.Cases += s.Cases
	t.Nontrivial += s.Nontrivial
	t.Early += s.Early
	t.MultiStop += s.MultiStop
	t.PostCancel += s.PostCancel
	t.Unjudged += s.Unjudged
	t.Deviating += s.Deviating
	c.mu.Unlock()
}

func nontrivial(ins []InSpec) bool {
	n := 0
	for _, in := range ins {
		n += len(in.Items)
		if in.term() != termDone {
			return true
		}
	}
	return n >= 2
}

func insKey(ins []InSpec) string {
	var b strings.Builder
	for _, in := range ins {
		b.WriteString(in.Items)
		b.WriteByte('/')
		b.WriteString(in.Term)
		b.WriteByte(';')
	}
	return b.String()
}

// signature of a deviation: adapter family (arity suffix dropped) + mechanism class.
var mapperNames = strings.NewReplacer("(ObjectMapper)", "", "(UserMapper)", "")

func signature(ad string, class string) string {
	ad = mapperNames.Replace(ad)
	if i := strings.LastIndex(ad, "/"); i > 0 {
		ad = ad[:i]
	}
	return ad + ":" + class
}

func describe(ad *adapter, ins []InSpec, p int, script string, out outcome) (string, Case) {
	cs := Case{Harness: "c23seq", Adapter: ad.name, Inputs: append([]InSpec(nil), ins...), Param: p, Script: script}
	if ad.paramDesc != nil {
		cs.ParamIs = ad.paramDesc(p)
	}
	var tr []string
	runCase(ad, ins, p, script, &tr)
	cs.Trace = tr
	return fmt.Sprintf("%s inputs=%s %s script=%q: %s; observed %v", ad.name, insKey(ins), cs.ParamIs, script, out.describe(), tr), cs
}

func (c *collector) violate(ad *adapter, ins []InSpec, p int, script string, out outcome) {
	desc, cs := describe(ad, ins, p, script, out)
	c.r.Violate(signature(ad.name, out.class), desc, cs)
}

// scriptSets: the call scripts of one adapter shape, by class of input tuple.
type scriptSets struct {
	base    []string // tuples whose inputs end in {Done, generic error, cancellation}: full scripts + Head-before-Next epilogues
	extra   []string // tuples holding one of the further failure kinds: scripts two calls shorter + Head-before-Next epilogues
	allDone []string // error-free tuples: base + scripts in which the caller's context is cancelled / times out
}

func withoutHead(in []string) []string {
	var out []string
	for _, s := range in {
		if strings.IndexByte(s, 'H') < 0 && !strings.HasSuffix(s, "+") {
			out = append(out, s)
		}
	}
	return out
}

// cancelScripts: prefix over {Next, Head} of length <= pl (and Next^k up to kmax), then the context is cancelled (C)
// or its deadline passes (T), then nothing or a Head; the epilogue reads on.
func cancelScripts(pl, kmax int) []string {
	pre := enumScripts("NH", pl)
	for k := pl + 1; k <= kmax; k++ {
		pre = append(pre, strings.Repeat("N", k))
	}
	var out []string
	for _, p := range pre {
		for _, c := range []string{"C", "T"} {
			out = append(out, p+c, p+c+"H")
		}
	}
	return out
}

func mkScriptSets(scriptLen, xLen, altLen, cancelPre, cancelMax int, headUnsupported bool) scriptSets {
	alt := func(l int) []string {
		var out []string
		for _, s := range enumScripts("NH", l) { // a Stop in the script leaves no epilogue to vary
			out = append(out, s+"+")
		}
		return out
	}
	var ss scriptSets
	ss.base = append(enumScripts("NHS", scriptLen), alt(altLen)...)
	ss.extra = append(enumScripts("NHS", xLen), alt(altLen)...)
	cs := cancelScripts(cancelPre, cancelMax)
	if headUnsupported {
		// Head answers "not supported" whatever happens: the Head-centred additions would repeat the plain scripts
		ss.base, ss.extra, cs = enumScripts("NHS", scriptLen), enumScripts("NHS", xLen), withoutHead(cs)
	}
	ss.allDone = append(append([]string(nil), ss.base...), cs...)
	return ss
}

// RunInto performs the whole sequential enumeration and records into r (no Finish).
func RunInto(o *core.Options, r *core.Report) {
	maxLen, scriptLen, tripleLen := 3, 4, 2
	if o.Thorough() {
		maxLen, scriptLen, tripleLen = 3, 5, 3
	}
	xLen, altLen, cancelPre := scriptLen-2, scriptLen-3, scriptLen-1
	var sets [2][2]scriptSets // [3-input adapter][Head unsupported]
	for hu := 0; hu < 2; hu++ {
		sets[0][hu] = mkScriptSets(scriptLen, xLen, altLen, cancelPre, 6, hu == 1)
		sets[1][hu] = mkScriptSets(scriptLen-1, xLen-1, altLen-1, cancelPre-1, 4, hu == 1) // 3-input adapters: scripts one call shorter
	}
	scripts, scripts3 := sets[0][0].base, sets[1][0].base
	col := &collector{per: map[string]*adStat{}, r: r, open: map[string]string{}, docs: map[string]string{}}
	ads := adapters()
	only := os.Getenv("C23SEQ_ONLY") // development aid: restrict to adapters whose name contains the value
	if only != "" {
		var keep []*adapter
		for _, ad := range ads {
			if strings.Contains(ad.name, only) {
				keep = append(keep, ad)
			}
		}
		ads = keep
		r.NotExhaustive("C23SEQ_ONLY=" + only)
	}

	r.Assume(
		"sequential half: bounds = input sequences of length <= "+fmt.Sprint(maxLen)+" over 3 ordered symbols (length <= "+fmt.Sprint(tripleLen)+" for 3-input adapters), scripts over {Next,Head,Stop} of length <= "+fmt.Sprint(scriptLen)+" followed by the read-to-the-end epilogue, plus scripts over {Next,Head} of length <= "+fmt.Sprint(altLen)+" followed by the epilogue that calls Head before every Next ("+fmt.Sprint(len(scripts))+" scripts; 3-input adapters: "+fmt.Sprint(len(scripts3))+", one call shorter); quick runs iterator.NewFilteredIterator with two filter functions and iterator.FromChannel on sequences of length <= 2; thorough runs 1-input adapters with sequences of length <= 5 and 2-input adapters with length <= 4",
		"failure kinds of an input after k items: the terminations {Done, generic error, request context cancelled at that moment} are combined freely over all inputs; each of the further kinds {request deadline passing at that moment, context.Canceled value, context.DeadlineExceeded value, fmt.Errorf(%w) wrapping of either, errors.New with ErrIteratorDone's text} is put into every single input position with the other inputs ending in Done, under every script of length <= "+fmt.Sprint(xLen)+" ("+fmt.Sprint(len(sets[0][0].extra))+" scripts incl. the Head-before-Next epilogues; 3-input adapters "+fmt.Sprint(len(sets[1][0].extra))+"); error-free input tuples additionally run "+fmt.Sprint(len(sets[0][0].allDone)-len(scripts))+" scripts (3-input: "+fmt.Sprint(len(sets[1][0].allDone)-len(scripts3))+") in which the caller cancels the context or its deadline passes after a {Next,Head} prefix of length <= "+fmt.Sprint(cancelPre)+" or after 4..6 Next calls; Msg.Err messages of iterator.FromChannel carry every error-value kind",
		"the deadline context is a context.Context implementation of the harness whose Done() closes and whose Err() turns into context.DeadlineExceeded when the harness says so (no wall clock)",
		"stub inputs behave like the repository's own iterators: a cancelled context wins, after Stop they answer Done, an injected error is sticky",
		"under a cancelled request context a call may answer the context's error at any point and nothing is judged after it; a value must still be the next one of the specified sequence and Done is accepted only where the specified sequence is complete; not judged under a cancelled context: Next/Head after Stop, and iterator.FromChannel (its select between ctx.Done() and the source channel is decided by the runtime)",
		"adapters whose source carries the explicit storage.IterIsDoneOrCancelled classification (iterator.FromChannel, iterator.ToChannel, iterator.Stream, iterator.SkipTo) drive their sources with the caller's context and treat a cancellation-class source error as end of stream; a source failing that way while the caller's context is alive can only stem from a foreign context, which is outside their specification, and with the caller's context really cancelled both stopping silently and surfacing are acceptable: for these four, cancellation-class source failures (bare or wrapped values, cancelled/timed-out request context) are enumerated but NOT judged from the failure on (counted per adapter as cancellation_class_failure_unspecified_not_judged_cases); generic errors and Done look-alikes are judged there as everywhere; every other adapter (ordered merge, concatenation/combined, mappers, filtering, validation, condition filtering, Merge) is judged on the full failure-kind dimension",
		"aspects the doc comments leave open are not judged: the call at which an input error surfaces (only: never a value beyond it, never Done instead of it; earlier is tolerated and counted), which error is reported when an input error and a filter error compete, every result after the first surfaced error (except: Next/Head after Stop), which tuple represents a key in NewOrderedCombinedIterator, multiplicity of in-input duplicates in iterator.Merge, inputs violating a stated precondition (unsorted inputs of ordered merges), calling a filter function on (drop, error) combinations",
		"an input counts as closed when it was stopped or read to its Done (storage.RelationshipTupleReader.Read: 'close the TupleIterator, either by consuming the entire iterator or by closing it'); being stopped more than once is only counted",
		"iterator.Error (a source without inputs whose Stop is documented nowhere) and the NextItemInSliceStreams helper are not covered",
	)

	type job struct {
		ad    *adapter
		ins   []InSpec // candidate list for every position
		terms []int    // terms[i] = ins[i].term()
		first int
	}
	var jobs []job
	inputsFor := func(ad *adapter, ml int) []InSpec {
		terms := allTerms
		if ad.source {
			terms = []int{termDone}
		}
		return enumInputs(ml, ad.sorted, terms)
	}
	for _, ad := range ads {
		ml := maxLen
		if ad.arity >= 3 {
			ml = tripleLen
		}
		if !o.Thorough() && ad.quickLen > 0 {
			ml = ad.quickLen
		}
		if o.Thorough() && ad.arity == 2 {
			ml = 4
		}
		if o.Thorough() && ad.arity == 1 {
			ml = 5
		}
		ins := inputsFor(ad, ml)
		terms := make([]int, len(ins))
		for i, in := range ins {
			terms[i] = in.term()
		}
		for f := range ins {
			jobs = append(jobs, job{ad, ins, terms, f})
		}
		col.docs[ad.name] = ad.doc
		if ad.open != "" {
			col.open[ad.name] = ad.open
		}
	}
	// heavy jobs first
	sort.SliceStable(jobs, func(i, j int) bool { return jobs[i].ad.arity > jobs[j].ad.arity })

	fixedSamples(r, ads)

	t0 := time.Now()
	perAd := map[string]*atomic.Int64{}
	for _, ad := range ads {
		perAd[ad.name] = &atomic.Int64{}
	}
	r.Parallel(len(jobs), func(ji int) {
		jb := jobs[ji]
		tj := time.Now()
		defer func() { perAd[jb.ad.name].Add(int64(time.Since(tj))) }()
		ad := jb.ad
		ss := &sets[0][0]
		{
			a3, hu := 0, 0
			if ad.arity >= 3 {
				a3 = 1
			}
			if ad.headUnsupported {
				hu = 1
			}
			ss = &sets[a3][hu]
		}
		var st adStat
		var kinds [numTerms]int64
		var scriptCancel, scriptDeadline int64
		devs := devLocal{}
		cur := make([]InSpec, ad.arity)
		curT := make([]int, ad.arity)
		var rec func(pos, extras, failing int)
		rec = func(pos, extras, failing int) {
			if pos < ad.arity {
				for i, in := range jb.ins {
					if pos == 0 && i != jb.first {
						continue
					}
					t := jb.terms[i]
					ex, fl := extras, failing
					if isExtraTerm(t) {
						ex++
					} else if t != termDone {
						fl++
					}
					if ex > 1 || (ex == 1 && fl > 0) {
						continue // a further failure kind stands alone: the other inputs end in Done
					}
					cur[pos], curT[pos] = in, t
					rec(pos+1, ex, fl)
					if r.Expired() {
						return
					}
				}
				return
			}
			scs := ss.base
			switch {
			case extras > 0:
				scs = ss.extra
			case failing == 0 && !ad.racyUnderCancel:
				scs = ss.allDone
			}
			nt := nontrivial(cur)
			key := insKey(cur)
			for p := 0; p < ad.params; p++ {
				if skipParam(ad, cur, p) {
					continue
				}
				st.Inputs++
				if nt {
					r.Nontrivial(core.Hash(ad.name, key, fmt.Sprint(p)))
				}
				var seen [numTerms]bool
				for _, t := range curT {
					if t != termDone && !seen[t] {
						seen[t] = true
						kinds[t] += int64(len(scs))
					}
				}
				for _, sc := range scs {
					out := runCase(ad, cur, p, sc, nil)
					st.Cases++
					if nt {
						st.Nontrivial++
					}
					if out.early {
						st.Early++
					}
					if out.multi {
						st.MultiStop++
					}
					st.PostCancel += int64(out.post)
					if out.unj {
						st.Unjudged++
					}
					if failing == 0 && extras == 0 {
						if strings.IndexByte(sc, 'C') >= 0 {
							scriptCancel++
						} else if strings.IndexByte(sc, 'T') >= 0 {
							scriptDeadline++
						}
					}
					if out.class != "" {
						st.Deviating++
						ins2, p2, sc2, out2 := append([]InSpec(nil), cur...), p, sc, out
						devs.note(signature(ad.name, out.class), func() string { return caseRank(ad, ins2, p2, sc2) },
							func() (string, Case) { return describe(ad, ins2, p2, sc2, out2) })
					}
				}
			}
		}
		rec(0, 0, 0)
		r.Eval(st.Cases)
		col.add(ad.name, st)
		col.merge(devs)
		km := map[string]int64{"caller-cancels-between-calls": scriptCancel, "caller-deadline-passes-between-calls": scriptDeadline}
		for t, n := range kinds {
			if n > 0 {
				km["input-ends-in-"+termNames[t]] = n
			}
		}
		col.addKinds(km)
	})

	t1 := time.Now()
	runHelpers(o, r, col)
	col.flush()
	if os.Getenv("C23SEQ_TIMING") != "" {
		fmt.Fprintf(os.Stderr, "iterators %.1fs helpers %.1fs\n", t1.Sub(t0).Seconds(), time.Since(t1).Seconds())
		for n, v := range perAd {
			fmt.Fprintf(os.Stderr, "  %-60s %.1f cpu-s\n", n, time.Duration(v.Load()).Seconds())
		}
	}

	names := make([]string, 0, len(col.per))
	for n := range col.per {
		names = append(names, n)
	}
	sort.Strings(names)
	var totIn, totNt, totPost, totUnj int64
	for _, n := range names {
		totIn += col.per[n].Inputs
		totNt += col.per[n].Nontrivial
		totPost += col.per[n].PostCancel
		totUnj += col.per[n].Unjudged
	}
	r.Set("seq_adapters_covered", names)
	r.Set("seq_per_adapter", col.per)
	r.Set("seq_scripts", len(scripts))
	r.Set("seq_scripts_per_tuple_class", map[string]int{"failure_kinds_done_err_cancel": len(sets[0][0].base), "further_failure_kind": len(sets[0][0].extra), "error_free_incl_caller_cancellation": len(sets[0][0].allDone),
		"3-input_failure_kinds_done_err_cancel": len(sets[1][0].base), "3-input_further_failure_kind": len(sets[1][0].extra), "3-input_error_free_incl_caller_cancellation": len(sets[1][0].allDone)})
	r.Set("seq_script_max_len", scriptLen)
	r.Set("seq_failure_kinds", termNames[1:])
	r.Set("seq_cases_per_failure_kind", col.kind)
	r.Set("seq_specified_from", col.docs)
	r.Set("seq_left_open", col.open)
	r.Count("seq_input_tuples", totIn)
	r.Count("seq_nontrivial_cases", totNt)
	r.Count("seq_calls_judged_under_cancelled_context", totPost)
	r.Count("seq_cancellation_class_failure_unspecified_not_judged_cases", totUnj)
}

func skipParam(ad *adapter, ins []InSpec, p int) bool {
	if strings.HasPrefix(ad.name, "iterator.FromChannel") {
		for i, in := range ins {
			if msgDigit(p, i) != 0 && (in.Items != "" || in.Term != "done") {
				return true // an Err message ignores the input sequence: run it once
			}
		}
	}
	return false
}

// Replay re-runs the case of a replay file written by this package; false if the file is not one of ours.
func Replay(o *core.Options, r *core.Report) bool {
	var c Case
	if err := core.LoadReplay(o.Replay, &c); err != nil || c.Harness != "c23seq" {
		return false
	}
	col := &collector{per: map[string]*adStat{}, r: r}
	for _, ad := range adapters() {
		if ad.name != c.Adapter {
			continue
		}
		var tr []string
		out := runCase(ad, c.Inputs, c.Param, c.Script, &tr)
		r.Eval(1)
		r.Nontrivial(core.Hash(ad.name, insKey(c.Inputs)))
		r.Sample(map[string]any{"adapter": ad.name, "inputs": c.Inputs, "script": c.Script, "observed": tr})
		fmt.Fprintf(os.Stderr, "replay %s %s %q: observed %v => %q\n", ad.name, insKey(c.Inputs), c.Script, tr, out.class)
		if out.class != "" {
			col.violate(ad, c.Inputs, c.Param, c.Script, out)
		}
		return true
	}
	if replayHelper(r, c) {
		return true
	}
	return false
}

// fixedSamples records a few representative cases (inputs, script, observed results) in the evidence.
func fixedSamples(r *core.Report, ads []*adapter) {
	in := func(items, term string) InSpec { return InSpec{Items: items, Term: term} }
	for _, f := range []struct {
		ad     string
		ins    []InSpec
		p      int
		script string
	}{
		{"storage.NewOrderedCombinedIterator(ObjectMapper)/2", []InSpec{in("abb", "done"), in("bc", "err")}, 0, "HNNH"},
		{"iterator.Merge", []InSpec{in("ab", "done"), in("bc", "done")}, 0, "NHN"},
		{"storage.NewConditionsFilteredTupleKeyIterator", []InSpec{in("abc", "done")}, 2 + 3*1 + 9*0, "HNH"},
		{"iterator.Concat", []InSpec{in("ba", "done"), in("c", "err")}, 0, "NNN"},
		{"storage.NewOrderedCombinedIterator(ObjectMapper)/2", []InSpec{in("ab", "wrapped-deadline"), in("bc", "done")}, 0, "N+"},
		{"storage.NewCombinedIterator/2", []InSpec{in("a", "deadline"), in("b", "done")}, 0, "H"},
		{"storage.NewStaticTupleIterator", []InSpec{in("abc", "done")}, 0, "NCH"},
	} {
		for _, ad := range ads {
			if ad.name != f.ad {
				continue
			}
			var tr []string
			out := runCase(ad, f.ins, f.p, f.script, &tr)
			pd := ""
			if ad.paramDesc != nil {
				pd = ad.paramDesc(f.p)
			}
			r.Sample(map[string]any{"adapter": ad.name, "inputs": f.ins, "param": pd, "script": f.script + " + epilogue (read to end, Stop, Next, Head); C = caller cancels, T = deadline passes, trailing + = Head before every Next of the epilogue", "observed": tr, "deviation": out.class})
		}
	}
	_, _, tr := runStream([]InSpec{in("ab", "done"), in("c", "err")}, 0, "FNDF")
	r.Sample(map[string]any{"adapter": "iterator.Stream", "messages": []InSpec{in("ab", "done"), in("c", "err")}, "script": "CleanDone, Next, Drain, CleanDone + epilogue (Stop, Next, Head)", "observed": tr})
	_, _, tr = runFanIn([]string{"IE", "I"}, 0)
	r.Sample(map[string]any{"adapter": "iterator.FanInIteratorChannels", "channels": []string{"Iter,Err", "Iter"}, "context": "live", "observed": tr})
}
