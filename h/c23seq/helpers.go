package c23seq

import (
	"context"
	"errors"
	"fmt"
	"os"
	"strings"
	"time"

	openfgav1 "github.com/openfga/api/proto/openfga/v1"

	"github.com/openfga/openfga/internal/iterator"
	"github.com/openfga/openfga/internal/verifh/core"
	"github.com/openfga/openfga/pkg/storage"
)

// Helpers of internal/iterator that are not plain iterators: SkipTo, Stream (+Streams.CleanDone), ToChannel,
// FanInIteratorChannels, Drain; and the IsOrdered doc comments of every adapter.

const helperTimeout = 3 * time.Second

type helperCase struct {
	name string
	c    Case
	nt   bool
	unj  bool // an input fails with a cancellation-class error, which this helper's source classifies as end of stream: not judged from there on
	run  func() (class, desc string, trace []string)
}

func hasCancelClass(ins []InSpec) bool {
	for _, in := range ins {
		if cancellationClassValue(in.term()) || firesCtx(in.term()) {
			return true
		}
	}
	return false
}

// repro: schedule dependent helpers are judged only on what reproduces 5/5.
func repro(hc *helperCase) (class, desc string, tr []string, stable bool) {
	class, desc, tr = hc.run()
	if class == "" {
		return "", "", tr, true
	}
	for i := 0; i < 5; i++ {
		c2, _, _ := hc.run()
		if c2 != class {
			return class, desc, tr, false
		}
	}
	return class, desc, tr, true
}

type helperGen struct {
	name   string
	inputs int
	n      int
	at     func(i int) *helperCase
}

func sliceGen(name string, cases []*helperCase) helperGen {
	seen := map[string]bool{}
	for _, hc := range cases {
		seen[insKey(hc.c.Inputs)+hc.c.Extra+fmt.Sprint(hc.c.Param)] = true
	}
	return helperGen{name: name, inputs: len(seen), n: len(cases), at: func(i int) *helperCase { return cases[i] }}
}

func helperGens(o *core.Options) []helperGen {
	sg := streamGens(o)
	return []helperGen{
		sliceGen("iterator.SkipTo", skipToCases(o)),
		sg[0], sg[1],
		sliceGen("iterator.ToChannel", toChannelCases(o)),
		sliceGen("iterator.FanInIteratorChannels", fanInCases(o)),
		sliceGen("iterator.Drain", drainCases(o)),
		sliceGen("IsOrdered", isOrderedCases()),
	}
}

func runHelpers(o *core.Options, r *core.Report, col *collector) {
	const chunk = 512
	for _, g := range helperGens(o) {
		g := g
		if only := os.Getenv("C23SEQ_ONLY"); only != "" && !strings.Contains(g.name, only) {
			continue
		}
		r.Parallel((g.n+chunk-1)/chunk, func(ci int) {
			var st adStat
			devs := devLocal{}
			defer func() { col.merge(devs) }()
			for i := ci * chunk; i < g.n && i < (ci+1)*chunk; i++ {
				hc := g.at(i)
				class, desc, tr, stable := repro(hc)
				st.Cases++
				if hc.unj {
					st.Unjudged++
				}
				if hc.nt {
					st.Nontrivial++
					r.Nontrivial(core.Hash(hc.name, insKey(hc.c.Inputs), hc.c.Extra, fmt.Sprint(hc.c.Param)))
				}
				if class == "" {
					continue
				}
				c := hc.c
				c.Trace = tr
				if !stable {
					r.Anomaly(map[string]any{"helper": hc.name, "class": class, "desc": desc, "case": c})
					continue
				}
				st.Deviating++
				full := fmt.Sprintf("%s inputs=%s %s script=%q: %s; observed %v", hc.name, insKey(c.Inputs), c.Extra, c.Script, desc, tr)
				devs.note(signature(hc.name, class), func() string {
					items := 0
					for _, in := range c.Inputs {
						items += len(in.Items)
					}
					return fmt.Sprintf("%02d|%02d|%02d|%03d|%s|%s|%04d|%s", len(c.Inputs), items, len(c.Script), len(c.Extra), insKey(c.Inputs), c.Extra, c.Param, c.Script)
				}, func() (string, Case) { return full, c })
			}
			r.Eval(st.Cases)
			col.add(g.name, st)
		})
		col.add(g.name, adStat{Inputs: int64(g.inputs)})
	}
	col.docs["iterator.SkipTo"] = "no doc comment; inline: 'If current head >= target, we're done. Otherwise advance the iterator' => exactly the leading items < target are consumed"
	col.open["iterator.SkipTo"] = "whether an input error (of any kind) met while skipping is returned or left for the next read (the inputs' errors are sticky)"
	col.docs["iterator.Stream"] = "Stream aggregates multiple iterators that are sent to a source channel into one iterator; Head: 'returns the first item in the buffer. If the Head is sourceIsClosed or cancelled, it will stop the buffer and set the buffer to nil'; SkipToTargetObject: 'moves the buffer until the buffer's head object is >= target object...'; Drain: 'Drain all item in the stream's buffer and return these items'; Streams.Stop: 'Drain all streams completely to avoid leaving dangling resources'; CleanDone: 'clean up the sourceIsClosed iterator streams and return a list of the remaining active streams'"
	col.open["iterator.Stream"] = "CleanDone after Stop (races with the draining goroutine); CleanDone under a cancelled context (select between ctx.Done() and the source); results after the first error; 'cancelled' in the Head/SkipToTargetObject comments is read as: the request context is cancelled or timed out, or the buffer answers an error of the context.Canceled/DeadlineExceeded family (also wrapped) - what the stream does from there on is not judged (the source classifies it with storage.IterIsDoneOrCancelled on the premise that it stems from the caller's own context); an error that merely prints like ErrIteratorDone is an ordinary error and must surface, as must a Msg.Err of any kind"
	col.docs["iterator.ToChannel"] = "no doc comment => every item is delivered in order, a generic error or Done look-alike of the iterator is delivered as ValueMsg.Err, the channel is closed at the end"
	col.open["iterator.ToChannel"] = "a cancellation-class failure of the iterator (context.Canceled/DeadlineExceeded bare or wrapped, or the consumer's context cancelled/timed out): classified by the source as end of stream, closing quietly or delivering an Err message both accepted (counted, not judged); messages after the first Err message (the producer keeps polling the failed iterator until the context is cancelled); what is delivered once the context is cancelled; who stops the iterator"
	col.docs["iterator.FanInIteratorChannels"] = "no doc comment; inline: 'the consumer of this channel will block waiting for it to close' => every message of every input channel is delivered exactly once and out is closed once all inputs are closed; under a cancelled context a message is delivered or its iterator is stopped"
	col.open["iterator.FanInIteratorChannels"] = "relative order of messages; loss of Err messages under cancellation (Err messages carry every error-value kind in turn; the context is alive, cancelled / timed out before the call, or after the first delivery)"
	col.docs["iterator.Drain"] = "no doc comment; Streams.Stop: 'Drain ... to avoid leaving dangling resources' => after Wait every iterator sent on the (closed) channel is stopped and the channel is empty"
	col.docs["IsOrdered"] = "the IsOrdered doc comment of each adapter (forwards / false / conjunction of the inputs)"
}

func replayHelper(r *core.Report, c Case) bool {
	o := &core.Options{Tier: "thorough"}
	var hc *helperCase
	if c.Adapter == "iterator.Stream" {
		c := c
		hc = &helperCase{name: c.Adapter, c: c, run: func() (string, string, []string) { return runStream(c.Inputs, c.Param, c.Script) }}
	} else {
		for _, g := range helperGens(o) {
			if g.name != c.Adapter {
				continue
			}
			for i := 0; i < g.n && hc == nil; i++ {
				h := g.at(i)
				if insKey(h.c.Inputs) == insKey(c.Inputs) && h.c.Param == c.Param && h.c.Script == c.Script && h.c.Extra == c.Extra {
					hc = h
				}
			}
		}
	}
	if hc == nil {
		return false
	}
	class, desc, tr, stable := repro(hc)
	r.Eval(1)
	r.Nontrivial(core.Hash(hc.name, insKey(c.Inputs), c.Extra))
	r.Sample(map[string]any{"case": c, "observed": tr})
	if class != "" && stable {
		c.Trace = tr
		r.Violate(signature(hc.name, class), desc, c)
	}
	return true
}

// ---------------------------------------------------------------------------------------------------------
// SkipTo

func skipToCases(o *core.Options) []*helperCase {
	ml := 3
	if o.Thorough() {
		ml = 5
	}
	var out []*helperCase
	for _, in := range enumInputs(ml, false, allTerms) {
		for _, t := range []byte{'`', 'a', 'b', 'c', 'd'} {
			in, t := in, t
			target := "doc:" + string(t)
			if t == '`' {
				target = "doc:"
			}
			c := Case{Harness: "c23seq", Adapter: "iterator.SkipTo", Inputs: []InSpec{in}, Extra: "target=" + target}
			out = append(out, &helperCase{name: "iterator.SkipTo", c: c, nt: nontrivial(c.Inputs), unj: hasCancelClass(c.Inputs), run: func() (string, string, []string) {
				e := newEnvMode(ctxModeFor(&adapter{}, []InSpec{in}, ""))
				defer e.done()
				s := cPlain.stub(e, 0, in)
				err := iterator.SkipTo(e.ctx, s, target)
				res := obs{K: 'o'}
				if err != nil {
					res = errObs(err)
				}
				tr := []string{"SkipTo→" + res.String(), fmt.Sprintf("consumed=%d", s.pos)}
				// specification: the leading items with key < target are consumed, nothing else
				j0 := len(in.Items)
				for k := range in.Items {
					if in.Items[k] >= t {
						j0 = k
						break
					}
				}
				if s.pos > j0 {
					return "skipped-too-far", fmt.Sprintf("consumed %d items, only the first %d are < %s", s.pos, j0, target), tr
				}
				if s.pos < j0 {
					return "stopped-short", fmt.Sprintf("consumed %d items, the first %d are < %s", s.pos, j0, target), tr
				}
				if j0 < len(in.Items) || in.term() == termDone {
					if res.K != 'o' {
						return "unexpected-" + kindName(res.K), "no input error was met but SkipTo failed", tr
					}
				} else if res.K != 'o' && res.K != 'e' && res.K != 'c' {
					// the input failed where the skip had to look: nil (the sticky failure is left for the next read) or the failure
					return "unexpected-" + kindName(res.K), "", tr
				}
				return "", "", tr
			}})
		}
	}
	return out
}

// ---------------------------------------------------------------------------------------------------------
// Stream

type refStream struct {
	q       []*rin // msgErr entry = Err message
	buf     *rin
	closed  bool
	removed bool
	hit     bool // the buffer answered a cancellation-class failure: unspecified from here on
}

func (s *refStream) pull(consume bool) obs {
	if s.buf == nil {
		return obs{K: 'd'}
	}
	o := s.buf.get(consume)
	if isCancelClass(o) {
		s.hit = true
	}
	if o.K == 'd' || isCancelClass(o) {
		s.buf = nil // "If the Head is sourceIsClosed or cancelled, it will stop the buffer and set the buffer to nil"
	}
	return o
}

func (s *refStream) op(op byte) obs {
	switch op {
	case 'N':
		return s.pull(true)
	case 'H':
		return s.pull(false)
	case 'K': // SkipToTargetObject("doc:b")
		if s.buf == nil {
			return obs{K: 'o'}
		}
		for {
			h := s.pull(false)
			if h.K == 'd' || isCancelClass(h) {
				return obs{K: 'o'}
			}
			if h.K != 'v' {
				return h
			}
			if h.Sym >= 'b' {
				return obs{K: 'o'}
			}
			n := s.pull(true)
			if n.K == 'd' || isCancelClass(n) {
				return obs{K: 'o'}
			}
			if n.K != 'v' {
				return n
			}
		}
	case 'D':
		var items []string
		for {
			n := s.pull(true)
			if n.K == 'v' {
				items = append(items, n.ID)
				continue
			}
			if n.K == 'd' || isCancelClass(n) {
				return obs{K: 'l', ID: strings.Join(items, ",")}
			}
			return n
		}
	case 'F': // Streams.CleanDone over this one stream
		if !s.removed && s.buf == nil && !s.closed {
			if len(s.q) == 0 {
				s.closed = true
			} else {
				m := s.q[0]
				s.q = s.q[1:]
				if m.msgErr {
					return m.get(false)
				}
				s.buf = m
			}
		}
		if s.closed && s.buf == nil {
			s.removed = true
		}
		if s.removed {
			return obs{K: 'l', ID: "active=0"}
		}
		return obs{K: 'l', ID: "active=1"}
	}
	return obs{K: 'x', ID: "spec-bug"}
}

// streamGens: [0] message lists whose iterators end in {Done, generic error, cancellation} (combined freely; a
// Msg{Err: generic} in either position) x every script; [1] lists holding one further failure kind (an iterator
// ending that way with the other iterator ending in Done, or a Msg.Err of that kind) x every script that starts
// by loading the buffer (CleanDone) - without a buffer no input is read at all.
func streamGens(o *core.Options) [2]helperGen {
	ml, sl := 2, 3
	if o.Thorough() {
		ml, sl = 3, 4
	}
	ins := enumInputs(ml, false, baseTerms)
	xins := enumInputs(ml, false, extraTerms)
	dones := enumInputs(ml, false, []int{termDone})
	var scripts, fscripts []string
	for _, s := range enumScripts("NHSFKD", sl) {
		if i := strings.IndexByte(s, 'S'); i >= 0 && strings.IndexByte(s[i:], 'F') >= 0 {
			continue // CleanDone after Stop races with the draining goroutine
		}
		scripts = append(scripts, s)
		if strings.HasPrefix(s, "F") {
			fscripts = append(fscripts, s)
		}
	}
	type ml2 struct {
		ins []InSpec
		p   int // digit i (msgDigit): 0 = message i is the iterator, d > 0 = Msg{Err: kind d-1}
	}
	var lists, xlists []ml2
	lists = append(lists, ml2{nil, 0})
	errIn := InSpec{Items: "", Term: "done"}
	for _, a := range ins {
		lists = append(lists, ml2{[]InSpec{a}, 0})
	}
	for _, a := range xins {
		xlists = append(xlists, ml2{[]InSpec{a}, 0})
		for _, b := range dones {
			xlists = append(xlists, ml2{[]InSpec{a, b}, 0}, ml2{[]InSpec{b, a}, 0})
		}
	}
	base := len(msgErrTerms) + 1
	for d := 1; d <= len(msgErrTerms); d++ {
		dst := &xlists
		if msgErrTerms[d-1] == termErr {
			dst = &lists
		}
		*dst = append(*dst, ml2{[]InSpec{errIn}, d})
		for _, a := range ins {
			*dst = append(*dst, ml2{[]InSpec{errIn, a}, d}, ml2{[]InSpec{a, errIn}, d * base})
		}
	}
	for _, a := range ins {
		for _, b := range ins {
			lists = append(lists, ml2{[]InSpec{a, b}, 0})
		}
	}
	gen := func(lists []ml2, scripts []string) helperGen {
		return helperGen{name: "iterator.Stream", inputs: len(lists), n: len(lists) * len(scripts), at: func(i int) *helperCase {
			l, sc := lists[i/len(scripts)], scripts[i%len(scripts)]
			c := Case{Harness: "c23seq", Adapter: "iterator.Stream", Inputs: l.ins, Param: l.p, ParamIs: "digit i (base 7): 0 = message i carries the iterator, d > 0 = message i is Msg{Err: " + strings.Join(termNames[1:], "|") + " minus the two context terminations, kind d}", Script: sc}
			return &helperCase{name: "iterator.Stream", c: c, nt: nontrivial(l.ins) || l.p != 0, unj: hasCancelClass(l.ins), run: func() (string, string, []string) {
				return runStream(l.ins, l.p, sc)
			}}
		}}
	}
	return [2]helperGen{gen(lists, scripts), gen(xlists, fscripts)}
}

func runStream(ins []InSpec, mask int, script string) (class, desc string, tr []string) {
	e := newEnvMode(ctxModeFor(&adapter{asyncStop: true}, ins, ""))
	defer e.done()
	ch := make(chan *iterator.Msg, len(ins)+1)
	ref := &refStream{}
	car := cDoc
	if strings.IndexByte(script, 'K') >= 0 {
		car = cPlain // the skip target "doc:b" must be able to equal an item
	}
	for i, in := range ins {
		if d := msgDigit(mask, i); d != 0 {
			ch <- &iterator.Msg{Err: termErrs[msgErrTerms[d-1]]}
			ref.q = append(ref.q, &rin{term: msgErrTerms[d-1], msgErr: true})
			continue
		}
		ch <- &iterator.Msg{Iter: car.stub(e, i, in)}
		ref.q = append(ref.q, car.rin(i, in))
	}
	close(ch)
	s := iterator.NewStream(0, ch)
	ss := iterator.NewStreams([]*iterator.Stream{s})
	comparing, stopped := true, false
	fail := func(c, d string) {
		if class == "" {
			class, desc = c, d
		}
	}
	do := func(op byte) {
		var o obs
		switch op {
		case 'N':
			o = safely(func() obs { v, err := s.Next(e.ctx); return mkObs(v, err, docView) })
		case 'H':
			o = safely(func() obs { v, err := s.Head(e.ctx); return mkObs(v, err, docView) })
		case 'K':
			o = safely(func() obs {
				if err := s.SkipToTargetObject(e.ctx, "doc:b"); err != nil {
					return errObs(err)
				}
				return obs{K: 'o'}
			})
		case 'D':
			o = safely(func() obs {
				l, err := s.Drain(e.ctx)
				if err != nil {
					return errObs(err)
				}
				return obs{K: 'l', ID: strings.Join(l, ",")}
			})
		case 'F':
			o = safely(func() obs {
				l, err := ss.CleanDone(e.ctx)
				if err != nil {
					return errObs(err)
				}
				return obs{K: 'l', ID: fmt.Sprintf("active=%d", len(l))}
			})
		case 'S':
			o = safely(func() obs { s.Stop(); return obs{K: 'o'} })
			tr = append(tr, "Stop")
			if o.K == 'p' {
				fail("panic", o.ID)
				return
			}
			stopped = true
			waitClosed(e)
			for i, st := range e.stats {
				if !st.closed() {
					fail("stop-leaves-input-open", fmt.Sprintf("iterator %d sent on the source channel is neither stopped nor read to its end after Stop", i))
				}
			}
			return
		}
		tr = append(tr, string(op)+"→"+o.String())
		if o.K == 'p' {
			fail("panic", o.ID)
			comparing = false
			return
		}
		if e.fired.Load() {
			// under a cancelled context: nothing after Stop is judged, CleanDone selects between ctx.Done() and the
			// source (runtime's choice), the context's error is always acceptable and ends the comparison
			if stopped || op == 'F' || o.K == 'c' {
				comparing = false
				return
			}
		}
		if stopped {
			want := obs{K: 'd'}
			switch op {
			case 'K':
				want = obs{K: 'o'}
			case 'D':
				want = obs{K: 'l'}
			}
			if o != want {
				fail(fmt.Sprintf("%c-after-stop-returns-%s", op, kindName(o.K)), fmt.Sprintf("%c returned %s after Stop", op, o))
			}
			return
		}
		if !comparing {
			return
		}
		r := ref.op(op)
		if ref.hit {
			comparing = false // cancellation-class failure of the buffered iterator: classified as end of stream by the source, not judged
			return
		}
		switch {
		case r.K == 'e' || r.K == 'c':
			if o.K == 'v' || o.K == 'd' || o.K == 'o' || o.K == 'l' {
				cls := errClass(r) + "-swallowed"
				if cls != "input-error-swallowed" {
					cls = errClass(r) + "-treated-as-exhausted"
				}
				fail(fmt.Sprintf("%c-%s", op, cls), fmt.Sprintf("%c returned %s where the buffer/source reports an error", op, o))
			}
			comparing = false
		case o.K == 'e' && r.K != 'e':
			comparing = false // earlier than a lazy reader: tolerated
		case o.K != r.K || o.ID != r.ID:
			fail(fmt.Sprintf("%c-wrong-result", op), fmt.Sprintf("%c returned %s, specified %s", op, o, r))
			comparing = false
		}
	}
	for i := 0; i < len(script); i++ {
		do(script[i])
	}
	if !stopped {
		do('S')
	}
	do('N')
	do('H')
	return
}

// ---------------------------------------------------------------------------------------------------------
// ToChannel

func toChannelCases(o *core.Options) []*helperCase {
	ml := 3
	if o.Thorough() {
		ml = 5
	}
	var out []*helperCase
	for _, in := range enumInputs(ml, false, allTerms) {
		for _, batch := range []int{0, 1, 2, 8} {
			in, batch := in, batch
			c := Case{Harness: "c23seq", Adapter: "iterator.ToChannel", Inputs: []InSpec{in}, Param: batch, ParamIs: "batchSize"}
			out = append(out, &helperCase{name: "iterator.ToChannel", c: c, nt: nontrivial(c.Inputs), unj: hasCancelClass(c.Inputs), run: func() (class, desc string, tr []string) {
				e := newEnvMode(ctxModeFor(&adapter{asyncStop: true}, []InSpec{in}, ""))
				defer e.done()
				s := cDoc.stub(e, 0, in)
				ch := iterator.ToChannel[string](e.ctx, s, batch)
				var got []string
				sawErr, closed := false, false
				timer := time.NewTimer(helperTimeout)
				defer timer.Stop()
			loop:
				for {
					select {
					case m, ok := <-ch:
						if !ok {
							closed = true
							break loop
						}
						if m.Err != nil {
							if !sawErr {
								tr = append(tr, "msg "+errObs(m.Err).String())
								sawErr = true
								e.fire() // the consumer gives up: cancels and waits for the close
								if !errors.Is(m.Err, termErrs[in.term()]) {
									class, desc = "wrong-error-message", m.Err.Error()
								}
							}
							continue
						}
						if !sawErr {
							got = append(got, m.Value)
							tr = append(tr, "msg "+m.Value)
						}
					case <-timer.C:
						break loop
					}
				}
				if closed {
					tr = append(tr, "closed")
				}
				if class != "" {
					return
				}
				if !closed {
					return "channel-never-closed", "the output channel was not closed within the timeout", tr
				}
				var want []string
				for k := range in.Items {
					want = append(want, expDoc(in.Items[k], 0, k))
				}
				for i := range got {
					if i >= len(want) || got[i] != want[i] {
						return "wrong-value", fmt.Sprintf("message %d is %s, specified %v", i, got[i], want), tr
					}
				}
				switch in.term() {
				case termDone:
					if len(got) != len(want) || sawErr {
						return "items-lost-or-spurious-error", fmt.Sprintf("delivered %v err=%v, specified %v then close", got, sawErr, want), tr
					}
				case termCancel, termDeadline, termCanceledVal, termDeadlineVal, termWrappedCanceled, termWrappedDeadline:
					// cancellation class: ToChannel classifies it with storage.IterIsDoneOrCancelled as end of stream (the
					// premise being that it stems from the consumer's own context): closing quietly and delivering an Err
					// message are both acceptable - only the delivered values (a prefix, checked above) are judged
				default: // a generic error or a Done look-alike
					if len(got) != len(want) {
						return "items-lost-before-error", fmt.Sprintf("delivered %v, specified %v then the error", got, want), tr
					}
					if !sawErr {
						cls := errClass((&rin{term: in.term()}).get(false))
						if cls == "input-error" {
							return "input-error-swallowed", "the channel was closed without an Err message", tr
						}
						return cls + "-treated-as-exhausted", "the iterator failed with an error that only prints like ErrIteratorDone; the channel was closed without an Err message, as after a complete sequence", tr
					}
				}
				return "", "", tr
			}})
		}
	}
	return out
}

// ---------------------------------------------------------------------------------------------------------
// FanInIteratorChannels

func msgLists(alphabet string, maxLen int) []string { return enumScripts(alphabet, maxLen) }

func fanInCases(o *core.Options) []*helperCase {
	ml := 2
	if o.Thorough() {
		ml = 3
	}
	per := msgLists("IE", ml)
	var combos [][]string
	combos = append(combos, nil)
	for _, a := range per {
		combos = append(combos, []string{a})
		for _, b := range per {
			combos = append(combos, []string{a, b})
			for _, c := range per {
				combos = append(combos, []string{a, b, c})
			}
		}
	}
	var out []*helperCase
	for _, cb := range combos {
		for mode := 0; mode < len(fanInModes); mode++ {
			cb, mode := cb, mode
			total := 0
			for _, s := range cb {
				total += len(s)
			}
			c := Case{Harness: "c23seq", Adapter: "iterator.FanInIteratorChannels", Extra: strings.Join(cb, "|") + fmt.Sprintf(";channels=%d;mode=%d", len(cb), mode), Script: fanInModes[mode]}
			out = append(out, &helperCase{name: "iterator.FanInIteratorChannels", c: c, nt: total >= 2, run: func() (string, string, []string) { return runFanIn(cb, mode) }})
		}
	}
	return out
}

var fanInModes = []string{"live", "precancelled", "cancel-after-first", "deadline-passed-before", "deadline-passes-after-first"}

func runFanIn(cb []string, mode int) (class, desc string, tr []string) {
	e := newEnvMode(1 + mode/3) // modes 3, 4: the harness deadline context
	if mode >= 3 {
		mode -= 2 // same timing as the cancellation modes
	}
	defer e.done()
	type sent struct {
		m    *iterator.Msg
		st   *stubStat
		src  int
		k    int
		recv int
	}
	var all []*sent
	idx := map[*iterator.Msg]*sent{}
	chans := make([]<-chan *iterator.Msg, len(cb))
	for i, s := range cb {
		ch := make(chan *iterator.Msg, len(s))
		for k := range s {
			m := &iterator.Msg{}
			sn := &sent{m: m, src: i, k: k}
			if s[k] == 'I' {
				st := cDoc.stub(e, i%3, InSpec{Items: "a", Term: "done"})
				m.Iter = st
				sn.st = st.st
			} else {
				m.Err = termErrs[msgErrTerms[(i+k)%len(msgErrTerms)]] // every error-value kind in turn
			}
			ch <- m
			all = append(all, sn)
			idx[m] = sn
		}
		close(ch)
		chans[i] = ch
	}
	if mode == 1 {
		e.fire()
	}
	out := iterator.FanInIteratorChannels(e.ctx, chans)
	timer := time.NewTimer(helperTimeout)
	defer timer.Stop()
	closed := false
	lastK := map[int]int{}
	orderBroken := false
	n := 0
loop:
	for {
		select {
		case m, ok := <-out:
			if !ok {
				closed = true
				break loop
			}
			sn := idx[m]
			if sn == nil {
				return "invented-message", "a message that was never sent came out", tr
			}
			sn.recv++
			n++
			if lk, ok := lastK[sn.src]; ok && sn.k < lk {
				orderBroken = true
			}
			lastK[sn.src] = sn.k
			if mode == 2 && n == 1 {
				e.fire()
			}
		case <-timer.C:
			break loop
		}
	}
	tr = append(tr, fmt.Sprintf("received=%d closed=%v per_source_order_kept=%v", n, closed, !orderBroken))
	if !closed {
		return "out-never-closed", "out was not closed although every input channel is closed", tr
	}
	for _, sn := range all {
		stops := int32(0)
		if sn.st != nil {
			stops = sn.st.stops.Load()
		}
		switch {
		case sn.recv > 1:
			return "message-duplicated", fmt.Sprintf("message %d of channel %d delivered %d times", sn.k, sn.src, sn.recv), tr
		case mode == 0 && sn.recv == 0:
			return "message-lost", fmt.Sprintf("message %d of channel %d never delivered (context alive)", sn.k, sn.src), tr
		case mode == 0 && stops > 0:
			return "delivered-iterator-stopped", fmt.Sprintf("iterator of message %d of channel %d was stopped by the fan-in", sn.k, sn.src), tr
		case sn.recv == 0 && sn.st != nil && stops == 0:
			return "undelivered-iterator-not-stopped", fmt.Sprintf("message %d of channel %d neither delivered nor its iterator stopped", sn.k, sn.src), tr
		case sn.recv == 1 && stops > 0:
			return "delivered-iterator-stopped", fmt.Sprintf("message %d of channel %d delivered and its iterator stopped", sn.k, sn.src), tr
		}
	}
	if orderBroken {
		return "", "", append(tr, "note: per-source order not kept")
	}
	return "", "", tr
}

// ---------------------------------------------------------------------------------------------------------
// Drain

func drainCases(o *core.Options) []*helperCase {
	ml := 3
	if o.Thorough() {
		ml = 4
	}
	var out []*helperCase
	lists := append([]string{"nil"}, msgLists("IEBZ", ml)...)
	for _, l := range lists {
		l := l
		c := Case{Harness: "c23seq", Adapter: "iterator.Drain", Extra: "messages=" + l}
		out = append(out, &helperCase{name: "iterator.Drain", c: c, nt: len(l) >= 2 && l != "nil", run: func() (string, string, []string) {
			e := newEnv(false)
			if l == "nil" {
				wg := iterator.Drain(nil)
				done := make(chan struct{})
				go func() { wg.Wait(); close(done) }()
				select {
				case <-done:
					return "", "", []string{"nil channel: Wait returned"}
				case <-time.After(helperTimeout):
					return "wait-hangs", "Drain(nil).Wait() did not return", nil
				}
			}
			ch := make(chan *iterator.Msg, len(l))
			for k := range l {
				m := &iterator.Msg{}
				if l[k] == 'I' || l[k] == 'B' {
					m.Iter = cDoc.stub(e, k%3, InSpec{Items: "ab", Term: "done"})
				} else {
					e.stats = append(e.stats, nil)
				}
				if l[k] == 'E' || l[k] == 'B' {
					m.Err = errInjected
				}
				ch <- m
			}
			close(ch)
			wg := iterator.Drain(ch)
			done := make(chan struct{})
			go func() { wg.Wait(); close(done) }()
			select {
			case <-done:
			case <-time.After(helperTimeout):
				return "wait-hangs", "Drain(ch).Wait() did not return on a closed channel", nil
			}
			tr := []string{fmt.Sprintf("left=%d", len(ch))}
			if len(ch) != 0 {
				return "messages-left", "messages remain in the channel after Wait", tr
			}
			for k, st := range e.stats {
				if st != nil && st.stops.Load() == 0 {
					return "iterator-not-stopped", fmt.Sprintf("iterator of message %d not stopped after Wait", k), tr
				}
			}
			return "", "", tr
		}})
	}
	return out
}

// ---------------------------------------------------------------------------------------------------------
// IsOrdered doc comments

func flagged[T any](ordered bool) *stub[T] {
	s := &stub[T]{e: &env{ctx: context.Background()}, ordered: ordered}
	s.st = &s.stat
	return s
}

func isOrderedCases() []*helperCase {
	type oc struct {
		name  string
		arity int
		got   func(f []bool) bool
		want  func(f []bool) bool
		doc   string
	}
	and := func(f []bool) bool {
		for _, b := range f {
			if !b {
				return false
			}
		}
		return true
	}
	fwd := func(f []bool) bool { return f[0] }
	no := func([]bool) bool { return false }
	yes := func([]bool) bool { return true }
	strs := func(f []bool) []storage.Iterator[string] {
		o := make([]storage.Iterator[string], len(f))
		for i, b := range f {
			o[i] = flagged[string](b)
		}
		return o
	}
	tups := func(f []bool) []storage.TupleIterator {
		o := make([]storage.TupleIterator, len(f))
		for i, b := range f {
			o[i] = flagged[*openfgav1.Tuple](b)
		}
		return o
	}
	tk := func(b bool) storage.TupleKeyIterator { return flagged[*openfgav1.TupleKey](b) }
	passS := func(string) (bool, error) { return true, nil }
	ocs := []oc{
		{"storage.NewCombinedIterator", 2, func(f []bool) bool { return storage.NewCombinedIterator(strs(f)...).IsOrdered() }, no, "returns false because sources are exhausted sequentially"},
		{"storage.NewStaticIterator", 1, func(f []bool) bool { return storage.NewStaticIterator([]string{"b", "a"}).IsOrdered() }, yes, "temporarily assumes the caller provided items in sorted order"},
		{"storage.NewTupleKeyIteratorFromTupleIterator", 1, func(f []bool) bool { return storage.NewTupleKeyIteratorFromTupleIterator(tups(f)[0]).IsOrdered() }, fwd, "forwards from the inner iterator"},
		{"storage.NewFilteredTupleKeyIterator", 1, func(f []bool) bool {
			return storage.NewFilteredTupleKeyIterator(tk(f[0]), func(*openfgav1.TupleKey) bool { return true }).IsOrdered()
		}, fwd, "forwards from the inner iterator"},
		{"storage.NewConditionsFilteredTupleKeyIterator", 1, func(f []bool) bool {
			return storage.NewConditionsFilteredTupleKeyIterator(tk(f[0]), func(*openfgav1.TupleKey) (bool, error) { return true, nil }).IsOrdered()
		}, fwd, "forwards from the inner iterator"},
		{"storage.NewOrderedCombinedIterator", 2, func(f []bool) bool {
			return storage.NewOrderedCombinedIterator(storage.ObjectMapper(), tups(f)...).IsOrdered()
		}, and, "returns true only if all source iterators are ordered"},
		{"storage.NewOrderedCombinedIterator", 3, func(f []bool) bool {
			return storage.NewOrderedCombinedIterator(storage.UserMapper(), tups(f)...).IsOrdered()
		}, and, "returns true only if all source iterators are ordered"},
		{"storage.WrapIterator(UsersetKind)", 1, func(f []bool) bool { return storage.WrapIterator(storage.UsersetKind, tk(f[0])).IsOrdered() }, fwd, "forwards from the inner iterator"},
		{"storage.WrapIterator(TTUKind)", 1, func(f []bool) bool { return storage.WrapIterator(storage.TTUKind, tk(f[0])).IsOrdered() }, fwd, "forwards from the inner iterator"},
		{"storage.WrapIterator(ObjectIDKind)", 1, func(f []bool) bool { return storage.WrapIterator(storage.ObjectIDKind, tk(f[0])).IsOrdered() }, fwd, "forwards from the inner iterator"},
		{"iterator.Concat", 2, func(f []bool) bool { s := strs(f); return iterator.Concat(s[0], s[1]).IsOrdered() }, no, "returns false because iter1 is fully exhausted before iter2 starts"},
		{"iterator.Merge", 2, func(f []bool) bool {
			s := strs(f)
			return iterator.Merge(s[0], s[1], func(a, b string) int { return strings.Compare(a, b) }).IsOrdered()
		}, and, "returns true only if both source iterators are ordered"},
		{"iterator.NewFilteredIterator", 1, func(f []bool) bool { return iterator.NewFilteredIterator(strs(f)[0], passS).IsOrdered() }, fwd, "forwards from the inner iterator"},
		{"iterator.Validate", 1, func(f []bool) bool { return iterator.Validate(strs(f)[0], passS).IsOrdered() }, fwd, "forwards from the inner iterator"},
		{"iterator.FromChannel", 1, func(f []bool) bool { return iterator.FromChannel(make(chan *iterator.Msg)).IsOrdered() }, no, "returns false because iterators are exhausted as they are received"},
		{"iterator.Stream", 1, func(f []bool) bool { return iterator.NewStream(0, make(chan *iterator.Msg)).IsOrdered() }, no, "returns false because a Stream pulls successive iterators from a channel"},
	}
	var out []*helperCase
	for _, c := range ocs {
		for m := 0; m < 1<<c.arity; m++ {
			c, m := c, m
			f := make([]bool, c.arity)
			ex := ""
			for i := range f {
				f[i] = m&(1<<i) != 0
				ex += fmt.Sprintf("input%d.IsOrdered=%v ", i, f[i])
			}
			cs := Case{Harness: "c23seq", Adapter: "IsOrdered", Extra: c.name + " " + ex, Param: m}
			out = append(out, &helperCase{name: "IsOrdered", c: cs, nt: c.arity >= 2, run: func() (string, string, []string) {
				g, w := c.got(f), c.want(f)
				tr := []string{fmt.Sprintf("IsOrdered=%v", g)}
				if g != w {
					return c.name + "-wrong", fmt.Sprintf("%s: IsOrdered()=%v, doc comment (%s) says %v for %s", c.name, g, c.doc, w, ex), tr
				}
				return "", "", tr
			}})
		}
	}
	return out
}
