package c29

// Independent reference grammar for the string encodings of pkg/tuple, written from the
// doc comments of tuple.go and DESIGN.md §5 C29. Nothing in this file calls pkg/tuple.
//
//	clean      = no ' ' (U+0020) and no control character (U+0000-U+001F, U+007F-U+009F)
//	type       = non-empty, clean, none of ':' '#'
//	id         = non-empty, clean, none of ':' '#'
//	object     = type ':' id                       (exactly one ':', no '#')
//	relation   = non-empty, clean, none of ':' '#' '@'
//	userset    = type ':' uid '#' urel             (one ':', one '#', ':' first)
//	  uid      = id without '*'
//	  urel     = non-empty, clean, none of ':' '#' '*'     ('@' is NOT excluded: see usersetRelAllowsAt)
//	typedwild  = type ':' '*'
//	user       = '*' | id | object | userset       (object includes typedwild)
//	tuple      = object '#' relation '@' user

// usersetRelAllowsAt records the one place where the doc comments conflict: IsValidRelation
// documents that a relation has no '@', IsValidUser documents only "at most one ':', at most
// one '#', no spaces" (user ids such as e-mail addresses legitimately contain '@') and the
// userset predicate has no comment. The user-level comment is the one that governs userset
// *users*, and DESIGN.md's probe grammar (28 disagreeing strings of length <= 5) is the one
// with '@' permitted. The number of accepted usersets whose relation part contains '@' is
// measured and reported as coverage counter userset_relation_with_at_sign.
const usersetRelAllowsAt = true

func isCtl(r rune) bool { return r <= 0x1f || (r >= 0x7f && r <= 0x9f) }

// part reports whether s is non-empty, clean and contains none of the runes in forbid.
func part(s string, forbid string) bool {
	if s == "" {
		return false
	}
	for _, r := range s {
		if r == ' ' || isCtl(r) {
			return false
		}
		for _, f := range forbid {
			if r == f {
				return false
			}
		}
	}
	return true
}

func refType(s string) bool     { return part(s, ":#") }
func refID(s string) bool       { return part(s, ":#") }
func refRelation(s string) bool { return part(s, ":#@") }
func refUsersetID(s string) bool {
	return part(s, ":#*")
}
func refUsersetRel(s string) bool {
	if usersetRelAllowsAt {
		return part(s, ":#*")
	}
	return part(s, ":#*@")
}

// positions returns the byte offsets of every occurrence of c (an ASCII byte) in s.
func positions(s string, c byte) []int {
	var out []int
	for i := 0; i < len(s); i++ {
		if s[i] == c {
			out = append(out, i)
		}
	}
	return out
}

// refObject: (ok, type, id).
func refObject(s string) (bool, string, string) {
	c := positions(s, ':')
	if len(c) != 1 || len(positions(s, '#')) != 0 {
		return false, "", ""
	}
	t, id := s[:c[0]], s[c[0]+1:]
	if refType(t) && refID(id) {
		return true, t, id
	}
	return false, "", ""
}

// refUserset: (ok, type, id, relation).
func refUserset(s string) (bool, string, string, string) {
	c, h := positions(s, ':'), positions(s, '#')
	if len(c) != 1 || len(h) != 1 || c[0] > h[0] {
		return false, "", "", ""
	}
	t, id, rel := s[:c[0]], s[c[0]+1:h[0]], s[h[0]+1:]
	if refType(t) && refUsersetID(id) && refUsersetRel(rel) {
		return true, t, id, rel
	}
	return false, "", "", ""
}

func refTypedWildcard(s string) (bool, string) {
	ok, t, id := refObject(s)
	if ok && id == "*" {
		return true, t
	}
	return false, ""
}

func refUser(s string) bool {
	if s == "*" || refID(s) {
		return true
	}
	if ok, _, _ := refObject(s); ok {
		return true
	}
	ok, _, _, _ := refUserset(s)
	return ok
}

// shapeTypedWildcard is the documented *shape* 'type:*' used by the classifier IsTypedWildcard
// (which is not a validity check and is applied by its callers to already validated users):
// a non-empty prefix without ':' followed by exactly ":*".
func shapeTypedWildcard(s string) bool {
	c := positions(s, ':')
	return len(c) >= 1 && c[0] > 0 && s[c[0]+1:] == "*"
}

// refTuple decides tuple = object '#' relation '@' user by trying EVERY pair of split points
// (no "first separator" rule); it also reports how many decompositions are valid (must be <= 1).
func refTuple(s string) (n int, obj, rel, user string) {
	for _, i := range positions(s, '#') {
		if ok, _, _ := refObject(s[:i]); !ok {
			continue
		}
		for _, j := range positions(s, '@') {
			if j < i+1 {
				continue
			}
			if refRelation(s[i+1:j]) && refUser(s[j+1:]) {
				n++
				obj, rel, user = s[:i], s[i+1:j], s[j+1:]
			}
		}
	}
	return
}

// refFromParts is the documented rendering of a (type, id, relation) user triple.
func refFromParts(t, id, rel string) string {
	out := ""
	if t != "" {
		out = t + ":"
	}
	out += id
	if rel != "" {
		out += "#" + rel
	}
	return out
}
