// Package c29 decides property C29 "Tuple and user string encodings round-trip" for
// /repo/pkg/tuple/tuple.go by bounded exhaustive enumeration.
package c29

import (
	"fmt"
	"strings"

	openfgav1 "github.com/openfga/api/proto/openfga/v1"

	"github.com/openfga/openfga/internal/verifh/core"
	"github.com/openfga/openfga/pkg/tuple"
)

// alphabet of the string enumeration (DESIGN.md C29).
var alphabet = []string{"a", ":", "#", "@", "*", " ", "\n", "é"}

// extra symbols of the component alphabet: two more control characters (one of them the
// two-byte C1 control U+0085) so that "control character" is not represented by '\n' alone.
var componentExtra = []string{"\t", "\u0085"}

type Case struct {
	Kind string `json:"kind"` // "string" | "triple"
	S    string `json:"s,omitempty"`
	T    string `json:"type,omitempty"`
	ID   string `json:"id,omitempty"`
	Rel  string `json:"relation,omitempty"`
	Got  string `json:"got,omitempty"`
	Want string `json:"want,omitempty"`
}

type dev func(sig, desc, got, want string)

// stringsUpTo returns every string of at most n symbols over alpha, shortest first.
func stringsUpTo(alpha []string, n int) []string {
	out := []string{""}
	prev := []string{""}
	for l := 1; l <= n; l++ {
		next := make([]string, 0, len(prev)*len(alpha))
		for _, p := range prev {
			for _, a := range alpha {
				next = append(next, p+a)
			}
		}
		out = append(out, next...)
		prev = next
	}
	return out
}

func parts3(a, b, c string) []string { return []string{a, b, c} }

func q(s string) string { return fmt.Sprintf("%q", s) }

func boolPred(d dev, name, in string, got, want bool) {
	if got == want {
		return
	}
	dir := "rejects-valid"
	if got {
		dir = "accepts-invalid"
	}
	d("validity/"+name+"/"+dir, fmt.Sprintf("%s(%s) = %v, the documented grammar says %v", name, q(in), got, want), fmt.Sprint(got), fmt.Sprint(want))
}

func eq(d dev, sig, what, got, want string) {
	if got != want {
		d(sig, fmt.Sprintf("%s = %s, want %s", what, q(got), q(want)), got, want)
	}
}

func userProtoString(u *openfgav1.User) string {
	switch v := u.GetUser().(type) {
	case *openfgav1.User_Wildcard:
		return "wildcard{" + q(v.Wildcard.GetType()) + "}"
	case *openfgav1.User_Object:
		return "object{" + q(v.Object.GetType()) + "," + q(v.Object.GetId()) + "}"
	case *openfgav1.User_Userset:
		return "userset{" + q(v.Userset.GetType()) + "," + q(v.Userset.GetId()) + "," + q(v.Userset.GetRelation()) + "}"
	}
	return "none"
}

func objU(t, id string) *openfgav1.User {
	return &openfgav1.User{User: &openfgav1.User_Object{Object: &openfgav1.Object{Type: t, Id: id}}}
}
func wildU(t string) *openfgav1.User {
	return &openfgav1.User{User: &openfgav1.User_Wildcard{Wildcard: &openfgav1.TypedWildcard{Type: t}}}
}
func setU(t, id, rel string) *openfgav1.User {
	return &openfgav1.User{User: &openfgav1.User_Userset{Userset: &openfgav1.UsersetUser{Type: t, Id: id, Relation: rel}}}
}

type stats struct {
	validObject, validRelation, validUserID, validUserset, validUser, typedWild, validTuple int64
	shapeWildInvalid, usersetAtRel, untypedNoProto, invalid                                 int64
}

// checkString evaluates every predicate, split and round trip of pkg/tuple on one string.
// It returns true when the string is valid in at least one syntactic category (non-trivial).
func checkString(s string, d dev, st *stats) bool {
	okObj, oT, oID := refObject(s)
	okRel := refRelation(s)
	okUID := refID(s)
	okSet, sT, sID, sRel := refUserset(s)
	okUser := refUser(s)
	okTW, twT := refTypedWildcard(s)
	shapeTW := shapeTypedWildcard(s)
	if okUser && shapeTW != okTW {
		panic("oracle inconsistency: typed wildcard shape vs grammar on valid user " + q(s))
	}

	// --- validity predicates -------------------------------------------------------------
	boolPred(d, "IsValidObject", s, tuple.IsValidObject(s), okObj)
	boolPred(d, "IsValidRelation", s, tuple.IsValidRelation(s), okRel)
	boolPred(d, "IsValidUserID", s, tuple.IsValidUserID(s), okUID)
	boolPred(d, "IsValidUserset", s, tuple.IsValidUserset(s), okSet)
	boolPred(d, "IsObjectRelation", s, tuple.IsObjectRelation(s), okSet)
	boolPred(d, "IsValidUser", s, tuple.IsValidUser(s), okUser)
	// classifiers (documented shape; exact grammar on valid users, asserted above)
	boolPred(d, "IsTypedWildcard", s, tuple.IsTypedWildcard(s), shapeTW)
	boolPred(d, "IsWildcard", s, tuple.IsWildcard(s), s == "*" || shapeTW)
	wantUT := tuple.User
	if okSet || s == "*" || shapeTW {
		wantUT = tuple.UserSet
	}
	eq(d, "classify/GetUserTypeFromUser", "GetUserTypeFromUser("+q(s)+")", string(tuple.GetUserTypeFromUser(s)), string(wantUT))

	// --- splitters on arbitrary strings ----------------------------------------------------
	colons, hashes := positions(s, ':'), positions(s, '#')
	gt, gid := tuple.SplitObject(s)
	switch len(colons) {
	case 0:
		eq(d, "split/SplitObject", "SplitObject("+q(s)+") type", gt, "")
		eq(d, "split/SplitObject", "SplitObject("+q(s)+") id", gid, s)
	case 1:
		eq(d, "split/SplitObject", "SplitObject("+q(s)+") type", gt, s[:colons[0]])
		eq(d, "split/SplitObject", "SplitObject("+q(s)+") id", gid, s[colons[0]+1:])
	default: // malformed: only losslessness is documented
		eq(d, "split/SplitObject", "SplitObject("+q(s)+") rejoined", gt+":"+gid, s)
	}
	eq(d, "split/GetType", "GetType("+q(s)+")", tuple.GetType(s), gt)
	gobj, grel := tuple.SplitObjectRelation(s)
	switch {
	case len(hashes) == 0:
		eq(d, "split/SplitObjectRelation", "SplitObjectRelation("+q(s)+") object", gobj, s)
		eq(d, "split/SplitObjectRelation", "SplitObjectRelation("+q(s)+") relation", grel, "")
	case len(hashes) == 1 && hashes[0] < len(s)-1:
		eq(d, "split/SplitObjectRelation", "SplitObjectRelation("+q(s)+") object", gobj, s[:hashes[0]])
		eq(d, "split/SplitObjectRelation", "SplitObjectRelation("+q(s)+") relation", grel, s[hashes[0]+1:])
	default: // malformed (several '#', or nothing after it): "relation may be empty"; must not invent text
		if grel != "" {
			eq(d, "split/SplitObjectRelation", "SplitObjectRelation("+q(s)+") rejoined", gobj+"#"+grel, s)
		} else if gobj != s && gobj+"#" != s {
			d("split/SplitObjectRelation", "SplitObjectRelation("+q(s)+") = ("+q(gobj)+", \"\") is neither the input nor the input without a trailing '#'", gobj, s)
		}
	}
	eq(d, "split/GetRelation", "GetRelation("+q(s)+")", tuple.GetRelation(s), grel)

	// --- round trips of valid values ------------------------------------------------------
	if okObj {
		st.validObject++
		eq(d, "roundtrip/BuildObject-SplitObject", "BuildObject(SplitObject("+q(s)+"))", tuple.BuildObject(tuple.SplitObject(s)), s)
		eq(d, "roundtrip/ObjectKey", "ObjectKey({"+q(oT)+","+q(oID)+"})", tuple.ObjectKey(&openfgav1.Object{Type: oT, Id: oID}), s)
		eq(d, "roundtrip/GetObjectRelationAsString", "GetObjectRelationAsString({"+q(s)+",\"\"})",
			tuple.GetObjectRelationAsString(&openfgav1.ObjectRelation{Object: s}), s)
	}
	if okRel {
		st.validRelation++
	}
	if okUID {
		st.validUserID++
	}
	if okTW {
		st.typedWild++
		eq(d, "roundtrip/TypedPublicWildcard", "TypedPublicWildcard("+q(twT)+")", tuple.TypedPublicWildcard(twT), s)
	}
	if shapeTW && !okUser {
		st.shapeWildInvalid++
	}
	if okSet {
		st.validUserset++
		if strings.Contains(sRel, "@") {
			st.usersetAtRel++
		}
		obj := sT + ":" + sID
		eq(d, "roundtrip/ToObjectRelationString-SplitObjectRelation", "ToObjectRelationString(SplitObjectRelation("+q(s)+"))",
			tuple.ToObjectRelationString(tuple.SplitObjectRelation(s)), s)
		eq(d, "roundtrip/GetObjectRelationAsString", "GetObjectRelationAsString({"+q(obj)+","+q(sRel)+"})",
			tuple.GetObjectRelationAsString(&openfgav1.ObjectRelation{Object: obj, Relation: sRel}), s)
		a, b, c := tuple.ToUserPartsFromObjectRelation(&openfgav1.ObjectRelation{Object: obj, Relation: sRel})
		eq(d, "roundtrip/ToUserPartsFromObjectRelation", "ToUserPartsFromObjectRelation("+q(s)+")", q(a)+q(b)+q(c), q(sT)+q(sID)+q(sRel))
		if !tuple.UsersetMatchTypeAndRelation(s, sRel, sT) {
			d("roundtrip/UsersetMatchTypeAndRelation", "UsersetMatchTypeAndRelation("+q(s)+","+q(sRel)+","+q(sT)+") = false", "false", "true")
		}
	}
	if okUser {
		st.validUser++
		// string -> parts -> string
		var wt, wid, wrel string
		switch {
		case okSet:
			wt, wid, wrel = sT, sID, sRel
		case okObj:
			wt, wid = oT, oID
		default: // "*" or bare id
			wid = s
		}
		a, b, c := tuple.ToUserParts(s)
		eq(d, "roundtrip/ToUserParts", "ToUserParts("+q(s)+")", q(a)+q(b)+q(c), q(wt)+q(wid)+q(wrel))
		eq(d, "roundtrip/FromUserParts-ToUserParts", "FromUserParts(ToUserParts("+q(s)+"))", tuple.FromUserParts(a, b, c), s)
		// string -> proto -> string (the proto has typed forms only)
		if okSet || okObj {
			var want *openfgav1.User
			switch {
			case okSet:
				want = setU(sT, sID, sRel)
			case okTW:
				want = wildU(twT)
			default:
				want = objU(oT, oID)
			}
			p := tuple.StringToUserProto(s)
			eq(d, "roundtrip/StringToUserProto", "StringToUserProto("+q(s)+")", userProtoString(p), userProtoString(want))
			eq(d, "roundtrip/UserProtoToString-StringToUserProto", "UserProtoToString(StringToUserProto("+q(s)+"))", tuple.UserProtoToString(p), s)
		} else {
			st.untypedNoProto++
		}
	}

	// --- tuple strings ---------------------------------------------------------------------
	n, tObj, tRel, tUser := refTuple(s)
	if n > 1 {
		panic("oracle inconsistency: ambiguous tuple grammar on " + q(s))
	}
	tk, err := tuple.ParseTupleString(s)
	switch {
	case n == 0 && err == nil:
		d("validity/ParseTupleString/accepts-invalid", "ParseTupleString("+q(s)+") accepted as ("+q(tk.GetObject())+","+q(tk.GetRelation())+","+q(tk.GetUser())+"), no valid object#relation@user decomposition exists",
			"accepted", "error")
	case n == 1 && err != nil:
		d("validity/ParseTupleString/rejects-valid", "ParseTupleString("+q(s)+") = error "+err.Error()+", grammar decomposes it as ("+q(tObj)+","+q(tRel)+","+q(tUser)+")", "error", "accepted")
	case n == 1:
		st.validTuple++
		eq(d, "roundtrip/ParseTupleString", "ParseTupleString("+q(s)+")", q(tk.GetObject())+q(tk.GetRelation())+q(tk.GetUser()), q(tObj)+q(tRel)+q(tUser))
		eq(d, "roundtrip/TupleKeyToString-ParseTupleString", "TupleKeyToString(ParseTupleString("+q(s)+"))", tuple.TupleKeyToString(tk), s)
		eq(d, "roundtrip/Tuple.String-ParseTupleString", "From(ParseTupleString("+q(s)+")).String()", tuple.From(tk).String(), s)
		eq(d, "roundtrip/TupleKeyWithConditionToString-ParseTupleString", "TupleKeyWithConditionToString(ParseTupleString("+q(s)+"))", tuple.TupleKeyWithConditionToString(tk), s)
	}

	nt := okObj || okRel || okUID || okSet || okUser || n == 1
	if !nt {
		st.invalid++
	}
	return nt
}

// lazy variants used on the hot path (200 M triples in thorough): the description is built
// only when a deviation is found.
func eqf(d dev, sig string, what func() string, got, want string) {
	if got != want {
		d(sig, fmt.Sprintf("%s = %s, want %s", what(), q(got), q(want)), got, want)
	}
}

func eq3f(d dev, sig string, what func() string, a, b, c, wa, wb, wc string) {
	if a != wa || b != wb || c != wc {
		g, w := "("+q(a)+","+q(b)+","+q(c)+")", "("+q(wa)+","+q(wb)+","+q(wc)+")"
		d(sig, what()+" = "+g+", want "+w, g, w)
	}
}

func boolf(d dev, name string, in string, got, want bool) {
	if got != want {
		boolPred(d, name, in, got, want)
	}
}

func protoEqf(d dev, sig string, what func() string, got, want *openfgav1.User) {
	same := false
	switch w := want.GetUser().(type) {
	case *openfgav1.User_Wildcard:
		g, ok := got.GetUser().(*openfgav1.User_Wildcard)
		same = ok && g.Wildcard.GetType() == w.Wildcard.GetType()
	case *openfgav1.User_Object:
		g, ok := got.GetUser().(*openfgav1.User_Object)
		same = ok && g.Object.GetType() == w.Object.GetType() && g.Object.GetId() == w.Object.GetId()
	case *openfgav1.User_Userset:
		g, ok := got.GetUser().(*openfgav1.User_Userset)
		same = ok && g.Userset.GetType() == w.Userset.GetType() && g.Userset.GetId() == w.Userset.GetId() && g.Userset.GetRelation() == w.Userset.GetRelation()
	}
	if !same {
		eq(d, sig, what(), userProtoString(got), userProtoString(want))
	}
}

// checkTriple evaluates the structured -> string -> structured direction on one
// (type, id, relation) triple; validity is computed from the components, not from the string.
func checkTriple(t, id, rel string, d dev, st *stats) bool {
	vT, vI, vR := refType(t), refID(id), refRelation(rel)
	in := func() string { return "(" + q(t) + "," + q(id) + "," + q(rel) + ")" }
	fn := func(name string) func() string { return func() string { return name + in() } }
	nt := false
	objS := t + ":" + id
	twS := t + ":*"
	setS := objS + "#" + rel

	// renderers are plain concatenations for every input
	eqf(d, "render/BuildObject", fn("BuildObject"), tuple.BuildObject(t, id), objS)
	eqf(d, "render/ObjectKey", fn("ObjectKey"), tuple.ObjectKey(&openfgav1.Object{Type: t, Id: id}), objS)
	eqf(d, "render/ToObjectRelationString", fn("ToObjectRelationString"), tuple.ToObjectRelationString(objS, rel), setS)
	eqf(d, "render/TypedPublicWildcard", fn("TypedPublicWildcard"), tuple.TypedPublicWildcard(t), twS)
	eqf(d, "render/FromUserParts", fn("FromUserParts"), tuple.FromUserParts(t, id, rel), refFromParts(t, id, rel))
	eqf(d, "render/UserProtoToString", fn("UserProtoToString object"), tuple.UserProtoToString(objU(t, id)), objS)
	eqf(d, "render/UserProtoToString", fn("UserProtoToString wildcard"), tuple.UserProtoToString(wildU(t)), twS)
	eqf(d, "render/UserProtoToString", fn("UserProtoToString userset"), tuple.UserProtoToString(setU(t, id, rel)), setS)
	orWant := objS
	if rel != "" {
		orWant = setS
	}
	eqf(d, "render/GetObjectRelationAsString", fn("GetObjectRelationAsString"),
		tuple.GetObjectRelationAsString(&openfgav1.ObjectRelation{Object: objS, Relation: rel}), orWant)

	// object: valid iff both components are valid
	vObj := vT && vI
	if ok, _, _ := refObject(objS); ok != vObj {
		panic("oracle inconsistency: object grammar vs components " + in())
	}
	boolf(d, "IsValidObject", objS, tuple.IsValidObject(objS), vObj)
	if vObj {
		st.validObject++
		a, b := tuple.SplitObject(objS)
		eq3f(d, "roundtrip/SplitObject-BuildObject", fn("SplitObject(BuildObject)"), a, b, "", t, id, "")
		eqf(d, "roundtrip/GetType", fn("GetType(object)"), tuple.GetType(objS), t)
		pa, pb, pc := tuple.ToUserParts(tuple.FromUserParts(t, id, ""))
		eq3f(d, "roundtrip/ToUserParts-FromUserParts", fn("ToUserParts(FromUserParts(type,id,\"\"))"), pa, pb, pc, t, id, "")
		// proto -> string -> proto. An object user whose id is exactly "*" IS the typed wildcard
		// (same string form), so the object form is a valid structured value only for id != "*".
		want := objU(t, id)
		if id == "*" {
			want = wildU(t)
		}
		protoEqf(d, "roundtrip/StringToUserProto-UserProtoToString", fn("StringToUserProto(UserProtoToString(object))"),
			tuple.StringToUserProto(tuple.UserProtoToString(objU(t, id))), want)
	}
	// typed wildcard
	boolf(d, "IsValidObject", twS, tuple.IsValidObject(twS), vT)
	boolf(d, "IsValidUser", twS, tuple.IsValidUser(twS), vT)
	if vT {
		st.typedWild++
		if !tuple.IsTypedWildcard(twS) || !tuple.IsWildcard(twS) {
			d("validity/IsTypedWildcard/rejects-valid", "IsTypedWildcard/IsWildcard("+q(twS)+") = false", "false", "true")
		}
		protoEqf(d, "roundtrip/StringToUserProto-UserProtoToString", fn("StringToUserProto(UserProtoToString(wildcard))"),
			tuple.StringToUserProto(tuple.UserProtoToString(wildU(t))), wildU(t))
		eqf(d, "roundtrip/GetType", fn("GetType(typed wildcard)"), tuple.GetType(twS), t)
	}
	// bare user id
	boolf(d, "IsValidUserID", id, tuple.IsValidUserID(id), vI)
	if vI {
		st.validUserID++
		pa, pb, pc := tuple.ToUserParts(tuple.FromUserParts("", id, ""))
		eq3f(d, "roundtrip/ToUserParts-FromUserParts", fn("ToUserParts(FromUserParts(\"\",id,\"\"))"), pa, pb, pc, "", id, "")
	}
	// relation
	boolf(d, "IsValidRelation", rel, tuple.IsValidRelation(rel), vR)
	if vR {
		st.validRelation++
	}
	// userset
	vSet := vT && refUsersetID(id) && refUsersetRel(rel)
	if ok, _, _, _ := refUserset(setS); ok != vSet {
		panic("oracle inconsistency: userset grammar vs components " + in())
	}
	boolf(d, "IsValidUserset", setS, tuple.IsValidUserset(setS), vSet)
	boolf(d, "IsObjectRelation", setS, tuple.IsObjectRelation(setS), vSet)
	boolf(d, "IsValidUser", setS, tuple.IsValidUser(setS), vSet)
	if vSet {
		nt = true
		st.validUserset++
		if strings.Contains(rel, "@") {
			st.usersetAtRel++
		}
		pa, pb, pc := tuple.ToUserParts(tuple.FromUserParts(t, id, rel))
		eq3f(d, "roundtrip/ToUserParts-FromUserParts", fn("ToUserParts(FromUserParts)"), pa, pb, pc, t, id, rel)
		a, b := tuple.SplitObjectRelation(tuple.ToObjectRelationString(objS, rel))
		eq3f(d, "roundtrip/SplitObjectRelation-ToObjectRelationString", fn("SplitObjectRelation(ToObjectRelationString)"), a, b, "", objS, rel, "")
		eqf(d, "roundtrip/GetRelation", fn("GetRelation(userset)"), tuple.GetRelation(setS), rel)
		protoEqf(d, "roundtrip/StringToUserProto-UserProtoToString", fn("StringToUserProto(UserProtoToString(userset))"),
			tuple.StringToUserProto(tuple.UserProtoToString(setU(t, id, rel))), setU(t, id, rel))
		if !tuple.UsersetMatchTypeAndRelation(setS, rel, t) {
			d("roundtrip/UsersetMatchTypeAndRelation", "UsersetMatchTypeAndRelation("+q(setS)+") = false", "false", "true")
		}
	}

	// tuples object#relation@user, user drawn from every user form the triple yields
	for _, user := range [...]string{id, "*", objS, twS, setS} {
		tk := tuple.NewTupleKey(objS, rel, user)
		s := objS + "#" + rel + "@" + user
		ts := func(name string) func() string { return func() string { return name + " of " + q(s) } }
		eqf(d, "render/TupleKeyToString", ts("TupleKeyToString"), tuple.TupleKeyToString(tk), s)
		eqf(d, "render/Tuple.String", ts("Tuple.String"), tuple.From(tk).String(), s)
		eqf(d, "render/TupleKeyWithConditionToString", ts("TupleKeyWithConditionToString (no condition)"), tuple.TupleKeyWithConditionToString(tk), s)
		n, rObj, rRel, rUser := refTuple(s)
		if n > 1 {
			panic("oracle inconsistency: ambiguous tuple grammar on " + q(s))
		}
		vTuple := vObj && vR && refUser(user)
		if vTuple && (n != 1 || rObj != objS || rRel != rel || rUser != user) {
			panic("oracle inconsistency: valid components do not decompose back: " + q(s))
		}
		got, err := tuple.ParseTupleString(s)
		switch {
		case n == 0 && err == nil:
			d("validity/ParseTupleString/accepts-invalid", "ParseTupleString("+q(s)+") accepted as ("+q(got.GetObject())+","+q(got.GetRelation())+","+q(got.GetUser())+"), no valid decomposition exists", "accepted", "error")
		case n == 1 && err != nil:
			d("validity/ParseTupleString/rejects-valid", "ParseTupleString("+q(s)+") = error "+err.Error(), "error", "accepted")
		case n == 1:
			nt = true
			st.validTuple++
			eq3f(d, "roundtrip/ParseTupleString-TupleKeyToString", ts("ParseTupleString"), got.GetObject(), got.GetRelation(), got.GetUser(), rObj, rRel, rUser)
			if vTuple {
				w := tuple.TupleKeyWithoutConditionToTupleKey(tuple.TupleKeyToTupleKeyWithoutCondition(got))
				eq3f(d, "roundtrip/TupleKeyWithoutCondition", ts("TupleKeyWithoutConditionToTupleKey(TupleKeyToTupleKeyWithoutCondition)"),
					w.GetObject(), w.GetRelation(), w.GetUser(), objS, rel, user)
				if self := tuple.IsSelfDefining(got); self != (user == setS) {
					d("classify/IsSelfDefining", "IsSelfDefining("+q(s)+") = "+fmt.Sprint(self), fmt.Sprint(self), fmt.Sprint(!self))
				}
			}
		}
	}
	if !nt {
		st.invalid++
	}
	return nt
}

func guard(name string, c Case, d func(sig, desc string, c Case), fn func()) {
	defer func() {
		if p := recover(); p != nil {
			msg := fmt.Sprint(p)
			if strings.HasPrefix(msg, "oracle inconsistency") {
				panic(p)
			}
			d("panic/"+name, "pkg/tuple panicked: "+msg, c)
		}
	}()
	fn()
}

func Run(o *core.Options) int {
	r := core.NewReport(o, "exploration",
		"(1) every string of <= L symbols over {a : # @ * space \\n é} (L=5 quick, 6 thorough): all exported validity predicates, classifiers, splitters and parsers of pkg/tuple vs an independent grammar, plus string->structured->string round trips of every valid value; "+
			"(2) every (type,id,relation) triple of components of <= K symbols over that alphabet plus {\\t, U+0085}: renderers vs concatenation, validity decided from the components, structured->string->structured round trips, and 5 tuple strings object#relation@user per triple parsed back. "+
			"non-trivial = a string that is valid in at least one category (object, relation, user id, userset, user, tuple), or a triple that yields a valid userset or a valid tuple string, so that round trips ran; distinct by the string / the triple")
	r.Assume("reference grammar from the doc comments of pkg/tuple/tuple.go and DESIGN.md C29 (h/c29/grammar.go); '*' is not allowed in the id or relation of a userset; '@' is allowed in the relation part of a userset *user* (IsValidUser comment) though not in a stand-alone relation",
		"IsTypedWildcard/IsWildcard/GetUserTypeFromUser are classifiers of already validated users: compared with the documented shape 'type:*' on every string and with the exact grammar on every valid user",
		"an object user with id exactly '*' is the typed wildcard; untyped users ('*', bare ids) have no User proto form",
		"all strings are valid UTF-8")
	report := func(sig, desc string, c Case) { r.Violate(sig, desc, c) }

	if o.Replay != "" {
		var c Case
		if err := core.LoadReplay(o.Replay, &c); err != nil {
			fmt.Println("replay:", err)
			return 2
		}
		var st stats
		d := func(sig, desc, got, want string) {
			cc := c
			cc.Got, cc.Want = got, want
			report(sig, desc, cc)
		}
		guard("replay", c, report, func() {
			if c.Kind == "triple" {
				checkTriple(c.T, c.ID, c.Rel, d, &st)
			} else {
				checkString(c.S, d, &st)
			}
		})
		r.Eval(1)
		return r.Finish()
	}

	L, K := 5, 2
	compAlpha := append(append([]string{}, alphabet...), componentExtra...)
	if o.Thorough() {
		L, K = 6, 3
		compAlpha = alphabet // 585 components; the two extra control symbols stay in the K<=2 pass below
	}
	r.Set("max_string_symbols", L)
	r.Set("max_component_symbols", K)

	merge := func(st *stats) {
		r.Count("valid_objects", st.validObject)
		r.Count("valid_relations", st.validRelation)
		r.Count("valid_user_ids", st.validUserID)
		r.Count("valid_usersets", st.validUserset)
		r.Count("valid_users", st.validUser)
		r.Count("typed_wildcards", st.typedWild)
		r.Count("valid_tuple_strings", st.validTuple)
		r.Count("cases_with_no_valid_value", st.invalid)
		r.Count("typed_wildcard_shape_but_invalid_user", st.shapeWildInvalid)
		r.Count("userset_relation_with_at_sign", st.usersetAtRel)
		r.Count("untyped_users_without_proto_form", st.untypedNoProto)
	}

	// (1) strings
	strs := stringsUpTo(alphabet, L)
	r.Set("strings_enumerated", len(strs))
	const block = 2048
	r.Parallel((len(strs)+block-1)/block, func(b int) {
		var st stats
		hi := min((b+1)*block, len(strs))
		for _, s := range strs[b*block : hi] {
			c := Case{Kind: "string", S: s}
			d := func(sig, desc, got, want string) {
				cc := c
				cc.Got, cc.Want = got, want
				report(sig, desc, cc)
			}
			guard("string", c, report, func() {
				if checkString(s, d, &st) {
					r.Nontrivial(core.Hash("s", s))
				}
			})
		}
		r.Eval(int64(hi - b*block))
		merge(&st)
	})
	for _, s := range []string{"a:a", "a:*", "a:a#a", "é:a#@", "a:*#a", "a#a:*"} {
		r.Sample(map[string]any{"string": s, "object": tuple.IsValidObject(s), "relation": tuple.IsValidRelation(s), "userset": tuple.IsValidUserset(s),
			"user": tuple.IsValidUser(s), "typed_wildcard": tuple.IsTypedWildcard(s), "parts": parts3(tuple.ToUserParts(s))})
	}

	// (2) triples
	passes := [][]string{stringsUpTo(compAlpha, K)}
	if o.Thorough() {
		passes = append(passes, stringsUpTo(append(append([]string{}, alphabet...), componentExtra...), 2))
	}
	var triples int64
	for _, comps := range passes {
		n := len(comps)
		triples += int64(n) * int64(n) * int64(n)
		r.Parallel(n*n, func(i int) {
			var st stats
			t, id := comps[i/n], comps[i%n]
			for _, rel := range comps {
				c := Case{Kind: "triple", T: t, ID: id, Rel: rel}
				d := func(sig, desc, got, want string) {
					cc := c
					cc.Got, cc.Want = got, want
					report(sig, desc, cc)
				}
				guard("triple", c, report, func() {
					if checkTriple(t, id, rel, d, &st) {
						r.Nontrivial(core.Hash("t", t, id, rel))
					}
				})
			}
			r.Eval(int64(n))
			merge(&st)
		})
	}
	r.Set("triples_enumerated", triples)
	return r.Finish()
}
