// Package c28 decides property C28 "Continuation tokens round-trip and resist tampering" for
// pkg/encoder (token_encoder.go, base64.go, token_serializer.go) and pkg/encrypter/gcm_encrypter.go
// by bounded exhaustive enumeration of positions and of every single-byte mutation of issued tokens.
package c28

import (
	"bytes"
	"context"
	"encoding/hex"
	"errors"
	"fmt"
	"sort"
	"strings"

	openfgav1 "github.com/openfga/api/proto/openfga/v1"

	"github.com/openfga/openfga/internal/verifh/core"
	"github.com/openfga/openfga/pkg/encoder"
	"github.com/openfga/openfga/pkg/encrypter"
	"github.com/openfga/openfga/pkg/server/commands"
	serverErrors "github.com/openfga/openfga/pkg/server/errors"
	"github.com/openfga/openfga/pkg/storage"
)

// ---------------------------------------------------------------------------------------------
// bounded universe

type position struct {
	Raw  bool   `json:"raw,omitempty"` // raw byte position given to the encoder, no serializer
	Ulid string `json:"ulid"`
	Type string `json:"type"`
}

func (p position) plaintext() string {
	if p.Raw {
		return p.Ulid
	}
	s, _ := refSerialize(p.Ulid, p.Type)
	return s
}

var ulids = []string{
	"01ARZ3NDEKTSV4RRFFQ69G5FAV", "0", "42", "7ZZZZZZZZZZZZZZZZZZZZZZZZZ", "00000000000000000000000000",
	"1", "100", "18446744073709551615", "-1", "01J8F3ZK6Y0000000000000000",
}
var types = []string{"document", "", "a|b", "|", "doc|", "é", "x\ny", "|x|y", strings.Repeat("t", 40)}
var keys = []string{"key-A", "k", "", strings.Repeat("K", 100), "clé-ü"}

type tokenSpec struct {
	Pos position `json:"position"`
	Key string   `json:"key"`
}

// tokens returns the issued tokens whose every mutation is enumerated: the first 6 (quick) cover
// ULID/offset/"0" positions, empty and pipe-containing types, a raw position, three keys and all
// three base64 padding residues; thorough continues through ulids x types to 50.
func tokens(n int) []tokenSpec {
	out := []tokenSpec{
		{position{Ulid: ulids[0], Type: "document"}, keys[0]}, // 35 B plaintext -> 63 B token  (len%3 = 0)
		{position{Ulid: "0", Type: ""}, keys[1]},              //  2 B -> 30 B                 (0)
		{position{Ulid: "42", Type: "a|b"}, keys[0]},          //  6 B -> 34 B                 (1)
		{position{Ulid: ulids[3], Type: "|"}, keys[2]},        // 28 B -> 56 B                 (2)
		{position{Raw: true, Ulid: "0"}, keys[0]},             //  1 B -> 29 B                 (2)
		{position{Ulid: ulids[4], Type: ""}, keys[3]},         // 27 B -> 55 B                 (1)
		{position{Ulid: "100", Type: "doc|"}, baseKey("word", 32)}, // key of exactly the cipher key size
		{position{Ulid: ulids[9], Type: "é"}, baseKey("pat", 65)},  // key longer than the hash block
	}
	seen := map[string]bool{}
	for _, t := range out {
		seen[t.Pos.plaintext()] = true
	}
	k := 0
	for _, ty := range types {
		for _, u := range ulids {
			p := position{Ulid: u, Type: ty}
			if seen[p.plaintext()] {
				continue
			}
			seen[p.plaintext()] = true
			out = append(out, tokenSpec{p, keys[k%len(keys)]})
			k++
		}
	}
	return out[:n]
}

// ---------------------------------------------------------------------------------------------

type Case struct {
	Spec     tokenSpec `json:"token"`
	Issued   string    `json:"issued_token"`   // the token text that was issued (random nonce inside)
	Class    string    `json:"mutation_class"` // byte-substitution | text-substitution | ...
	Mutation string    `json:"mutation"`       // human readable
	Mutant   string    `json:"mutant_token"`   // the token text presented
	DecodeAs string    `json:"decode_key"`     // key of the decoding side
	Level    string    `json:"level"`          // encoder | pipeline
	Got      string    `json:"got,omitempty"`  // what the implementation answered
	ReqType  string    `json:"request_type,omitempty"`
	// exact key bytes (keys of the related-key families may contain bytes that JSON cannot carry)
	MintKeyHex   string `json:"mint_key_hex,omitempty"`
	DecodeKeyHex string `json:"decode_key_hex,omitempty"`
}

func newEnc(key string) (*encoder.TokenEncoder, error) {
	g, err := encrypter.NewGCMEncrypter(key)
	if err != nil {
		return nil, err
	}
	return encoder.NewTokenEncoder(g, encoder.NewBase64Encoder()), nil
}

func plainEnc() *encoder.TokenEncoder {
	return encoder.NewTokenEncoder(encrypter.NewNoopEncrypter(), encoder.NewBase64Encoder())
}

// stub changelog backend: records the position the server hands to storage and returns the
// continuation position it is told to return.
type stubBackend struct {
	next   string
	calls  int
	from   string
	filter string
}

func (b *stubBackend) ReadChanges(_ context.Context, _ string, f storage.ReadChangesFilter, o storage.ReadChangesOptions) ([]*openfgav1.TupleChange, string, error) {
	b.calls++
	b.from = o.Pagination.From
	b.filter = f.ObjectType
	return []*openfgav1.TupleChange{{TupleKey: &openfgav1.TupleKey{Object: "document:1", Relation: "viewer", User: "user:a"}}}, b.next, nil
}

type checker struct {
	r *core.Report
}

// judge evaluates one presented token against the oracle.
//
//	issuedBytes: the bytes of the issued token; plaintext: the position it encodes.
//	A presented token that is not the issued one must be rejected. The only admissible acceptance is a
//	different base64 *spelling* of exactly the issued bytes (CR/LF, unused trailing bits), which must
//	then decode to exactly the issued position.
func (c *checker) judge(cs Case, dec *encoder.TokenEncoder, issuedBytes []byte, plaintext string) (nontrivial bool) {
	refBytes, wellFormed := refB64Decode(cs.Mutant)
	alias := wellFormed && bytes.Equal(refBytes, issuedBytes)
	nontrivial = wellFormed && len(refBytes) >= 12+16 // reaches AES-GCM authentication, not a syntax error
	got, err := dec.Decode(cs.Mutant)
	c.r.Eval(1)
	switch {
	case err != nil:
		if alias {
			c.r.Count("alias_spellings_rejected", 1)
		}
	case alias && string(got) == plaintext:
		c.r.Count("alias_spellings_accepted_same_position", 1)
	case string(got) == plaintext:
		cs.Got = fmt.Sprintf("accepted, decoded to the issued position %q", got)
		c.r.Violate("tamper-accepted/"+cs.Class, fmt.Sprintf("%s of a token issued under key %q was accepted by Decode under key %q (same position %q) although its bytes differ from the issued token", cs.Mutation, cs.Spec.Key, cs.DecodeAs, got), cs)
	default:
		cs.Got = fmt.Sprintf("accepted, decoded to %q", got)
		c.r.Violate("tamper-accepted/"+cs.Class, fmt.Sprintf("%s of a token issued under key %q for position %q was accepted by Decode under key %q and decoded to %q", cs.Mutation, cs.Spec.Key, cs.Spec.Pos.plaintext(), cs.DecodeAs, got), cs)
	}
	return
}

// pipeline presents the token to the real ReadChanges command configured with the encoder; a token
// that is not the issued one must never let a position reach the storage layer.
func (c *checker) pipeline(cs Case, dec *encoder.TokenEncoder, issuedBytes []byte, p position) {
	if p.Raw {
		return
	}
	c.r.Eval(1)
	c.pipelineTo(cs, dec, issuedBytes, p, func(sig, desc string, cs Case) { c.r.Violate(sig, desc, cs) })
}

// pipelineOtherKey: the token was minted under another key than dec's, so nothing is an alias.
func (c *checker) pipelineOtherKey(cs Case, dec *encoder.TokenEncoder, p position, report func(sig, desc string, cs Case)) {
	c.pipelineTo(cs, dec, nil, p, report)
}

func (c *checker) pipelineTo(cs Case, dec *encoder.TokenEncoder, issuedBytes []byte, p position, report func(sig, desc string, cs Case)) {
	refBytes, wellFormed := refB64Decode(cs.Mutant)
	alias := wellFormed && bytes.Equal(refBytes, issuedBytes)
	be := &stubBackend{next: "01ARZ3NDEKTSV4RRFFQ69G5FAV"}
	q := commands.NewReadChangesQuery(be, commands.WithReadChangesQueryEncoder(dec))
	_, err := q.Execute(context.Background(), &openfgav1.ReadChangesRequest{StoreId: "s", Type: p.Type, ContinuationToken: cs.Mutant})
	cs.Level = "pipeline"
	cs.ReqType = p.Type
	if be.calls > 0 && !(alias && be.from == p.Ulid) {
		cs.Got = fmt.Sprintf("storage was asked to continue from %q (err=%v)", be.from, err)
		report("tamper-accepted/pipeline-"+cs.Class, fmt.Sprintf("ReadChanges accepted %s and continued from position %q", cs.Mutation, be.from), cs)
	} else if be.calls == 0 && !errors.Is(err, serverErrors.ErrInvalidContinuationToken) {
		cs.Got = fmt.Sprint(err)
		report("pipeline/wrong-error", fmt.Sprintf("ReadChanges answered %v to %s, want ErrInvalidContinuationToken", err, cs.Mutation), cs)
	}
}

// mutate enumerates every mutation of one issued token and calls f for each (class, description, text).
func mutate(issued string, issuedBytes []byte, f func(class, what, mutant string)) {
	n := len(issuedBytes)
	buf := make([]byte, n)
	// every single-byte substitution: all 255 other values at every position
	for i := 0; i < n; i++ {
		copy(buf, issuedBytes)
		for v := 0; v < 256; v++ {
			if byte(v) == issuedBytes[i] {
				continue
			}
			buf[i] = byte(v)
			f("byte-substitution", fmt.Sprintf("byte %d/%d 0x%02x->0x%02x", i, n, issuedBytes[i], v), refB64Encode(buf))
		}
	}
	// every truncation (proper prefixes and proper suffixes; the empty token is "no token", not a mutant)
	for l := 1; l < n; l++ {
		f("truncation", fmt.Sprintf("prefix of %d/%d bytes", l, n), refB64Encode(issuedBytes[:l]))
		f("truncation", fmt.Sprintf("suffix of %d/%d bytes", l, n), refB64Encode(issuedBytes[n-l:]))
	}
	// every one-byte extension: each of the 256 values inserted at every position (incl. both ends)
	ext := make([]byte, n+1)
	for i := 0; i <= n; i++ {
		copy(ext, issuedBytes[:i])
		copy(ext[i+1:], issuedBytes[i:])
		for v := 0; v < 256; v++ {
			ext[i] = byte(v)
			f("extension", fmt.Sprintf("byte 0x%02x inserted at %d/%d", v, i, n), refB64Encode(ext))
		}
	}
	// the base64 text itself: every single-character substitution, deletion and insertion over the
	// base64url alphabet plus '=', '+', '/', CR, LF and space
	syms := b64 + "=+/\r\n "
	t := []byte(issued)
	for i := range t {
		for j := 0; j < len(syms); j++ {
			if syms[j] == t[i] {
				continue
			}
			m := append([]byte{}, t...)
			m[i] = syms[j]
			f("text-substitution", fmt.Sprintf("char %d/%d %q->%q", i, len(t), t[i], syms[j]), string(m))
		}
		f("text-truncation", fmt.Sprintf("char %d/%d deleted", i, len(t)), string(t[:i])+string(t[i+1:]))
		if i > 0 {
			f("text-truncation", fmt.Sprintf("first %d/%d chars", i, len(t)), string(t[:i]))
		}
	}
	for i := 0; i <= len(t); i++ {
		for j := 0; j < len(syms); j++ {
			f("text-extension", fmt.Sprintf("char %q inserted at %d/%d", syms[j], i, len(t)), string(t[:i])+string(syms[j])+string(t[i:]))
		}
	}
}

func (c *checker) fail(sig, desc string, v any) { c.r.Violate(sig, desc, v) }

// roundTrips: Encode->Decode and Serialize->Deserialize exactness for one position under one encoder.
func (c *checker) roundTrips(p position, key string, keyed bool) (token string, ok bool) {
	var enc *encoder.TokenEncoder
	mode := "no key"
	if keyed {
		var err error
		if enc, err = newEnc(key); err != nil {
			c.fail("harness/new-encrypter", err.Error(), key)
			return "", false
		}
		mode = fmt.Sprintf("key %q", key)
	} else {
		enc = plainEnc()
	}
	info := map[string]any{"position": p, "mode": mode}
	ser := encoder.NewStringContinuationTokenSerializer()
	var plain []byte
	if p.Raw {
		plain = []byte(p.Ulid)
	} else {
		want, wantOK := refSerialize(p.Ulid, p.Type)
		got, err := ser.Serialize(p.Ulid, p.Type)
		c.r.Eval(1)
		if (err == nil) != wantOK || (wantOK && string(got) != want) {
			c.fail("roundtrip/serialize", fmt.Sprintf("Serialize(%q,%q) = %q, %v; documented form %q (valid=%v)", p.Ulid, p.Type, got, err, want, wantOK), info)
			return "", false
		}
		if !wantOK {
			return "", false // empty position: nothing is issued
		}
		plain = got
	}
	tok, err := enc.Encode(plain)
	c.r.Eval(1)
	if err != nil {
		c.fail("roundtrip/encode-error", fmt.Sprintf("Encode(%q) under %s failed: %v", plain, mode, err), info)
		return "", false
	}
	if len(plain) == 0 {
		if tok != "" {
			c.fail("empty-token/encode", fmt.Sprintf("Encode of the empty position under %s = %q, want the empty token", mode, tok), info)
		}
	} else if !keyed && tok != refB64Encode(plain) {
		c.fail("roundtrip/plain-token-form", fmt.Sprintf("unencrypted token %q is not base64url(%q)", tok, plain), info)
	}
	back, err := enc.Decode(tok)
	c.r.Eval(1)
	if err != nil || !bytes.Equal(back, plain) {
		c.fail("roundtrip/encode-decode", fmt.Sprintf("Decode(Encode(%q)) under %s = %q, %v", plain, mode, back, err), info)
		return "", false
	}
	if !p.Raw {
		u, t, err := ser.Deserialize(string(back))
		c.r.Eval(1)
		if err != nil || u != p.Ulid || t != p.Type {
			c.fail("roundtrip/serialize-deserialize", fmt.Sprintf("Deserialize(Decode(token)) = (%q,%q,%v), issued for (%q,%q)", u, t, err, p.Ulid, p.Type), info)
			return "", false
		}
		// the same through the server command: issue with the stub's continuation position, present again
		be := &stubBackend{next: p.Ulid}
		q := commands.NewReadChangesQuery(be, commands.WithReadChangesQueryEncoder(enc))
		resp, err := q.Execute(context.Background(), &openfgav1.ReadChangesRequest{StoreId: "s", Type: p.Type})
		c.r.Eval(1)
		if err != nil {
			c.fail("pipeline/issue", fmt.Sprintf("ReadChanges could not issue a token for (%q,%q): %v", p.Ulid, p.Type, err), info)
			return "", false
		}
		be.calls, be.from = 0, ""
		_, err = q.Execute(context.Background(), &openfgav1.ReadChangesRequest{StoreId: "s", Type: p.Type, ContinuationToken: resp.GetContinuationToken()})
		c.r.Eval(1)
		if err != nil || be.calls != 1 || be.from != p.Ulid || be.filter != p.Type {
			c.fail("roundtrip/pipeline", fmt.Sprintf("ReadChanges issued a token at (%q,%q) and resumed from %q filter %q (calls=%d err=%v)", p.Ulid, p.Type, be.from, be.filter, be.calls, err), info)
			return "", false
		}
		// object-type binding: the token presented with any other type filter is refused
		for _, other := range types {
			if other == p.Type {
				continue
			}
			be.calls = 0
			_, err = q.Execute(context.Background(), &openfgav1.ReadChangesRequest{StoreId: "s", Type: other, ContinuationToken: resp.GetContinuationToken()})
			c.r.Eval(1)
			if be.calls != 0 || !errors.Is(err, serverErrors.ErrMismatchObjectType) {
				c.fail("serializer/type-binding", fmt.Sprintf("token issued for type %q presented with type %q: calls=%d err=%v, want ErrMismatchObjectType", p.Type, other, be.calls, err),
					map[string]any{"position": p, "mode": mode, "request_type": other})
			}
			c.r.Nontrivial(core.Hash("bind", mode, p.plaintext(), other))
		}
	}
	c.r.Nontrivial(core.Hash("rt", mode, fmt.Sprint(p.Raw), p.plaintext()))
	return tok, true
}

func (c *checker) tamperToken(idx int, ts tokenSpec, otherKeys []string) {
	plaintext := ts.Pos.plaintext()
	enc, err := newEnc(ts.Key)
	if err != nil {
		c.fail("harness/new-encrypter", err.Error(), ts)
		return
	}
	issued, err := enc.Encode([]byte(plaintext))
	if err != nil {
		c.fail("roundtrip/encode-error", err.Error(), ts)
		return
	}
	issuedBytes, ok := refB64Decode(issued)
	if !ok || refB64Encode(issuedBytes) != issued {
		c.fail("roundtrip/token-not-canonical-base64url", fmt.Sprintf("issued token %q is not canonical padded base64url", issued), ts)
		return
	}
	if got, err := enc.Decode(issued); err != nil || string(got) != plaintext {
		c.fail("roundtrip/encode-decode", fmt.Sprintf("Decode(Encode(%q)) under key %q = %q, %v", plaintext, ts.Key, got, err), ts)
		return
	}
	// only for positions of >= 8 bytes: a shorter one occurs among the random nonce/ciphertext bytes by
	// chance (a 1-byte position in a 29-byte token: 11 % of the runs), which would not be deterministic
	if len(plaintext) >= 8 && bytes.Contains(issuedBytes, []byte(plaintext)) {
		c.fail("confidentiality/plaintext-in-token", fmt.Sprintf("token issued under key %q contains the position %q in clear", ts.Key, plaintext), ts)
	}
	c.r.Count("issued_token_bytes_total", int64(len(issuedBytes)))
	c.r.Sample(map[string]any{"position": ts.Pos, "key": ts.Key, "plaintext": plaintext, "token": issued, "token_bytes": len(issuedBytes),
		"mutants": "255 x every byte, every prefix/suffix, 256 x every insertion point, every base64 char substitution/deletion/insertion"})
	mutate(issued, issuedBytes, func(class, what, mutant string) {
		if mutant == issued {
			return
		}
		cs := Case{Spec: ts, Issued: issued, Class: class, Mutation: what, Mutant: mutant, DecodeAs: ts.Key, Level: "encoder"}
		if c.judge(cs, enc, issuedBytes, plaintext) {
			c.r.Nontrivial(core.Hash("mut", fmt.Sprint(idx), what))
		}
		c.r.Count("mutants_"+class, 1)
		c.pipeline(cs, enc, issuedBytes, ts.Pos)
	})
	// the issued token presented to servers holding another key, and tokens of other keys presented here
	for _, ok := range otherKeys {
		if ok == ts.Key {
			continue
		}
		other, err := newEnc(ok)
		if err != nil {
			c.fail("harness/new-encrypter", err.Error(), ok)
			continue
		}
		cs := Case{Spec: ts, Issued: issued, Class: "other-key", Mutation: fmt.Sprintf("the unmodified token presented under key %q", ok), Mutant: issued, DecodeAs: ok, Level: "encoder"}
		// under another key NOTHING is an alias: compare against impossible bytes
		if c.judge(cs, other, nil, "\x00no-such-position") {
			c.r.Nontrivial(core.Hash("otherkey", fmt.Sprint(idx), ok))
		}
		c.r.Count("mutants_other-key", 1)
		c.pipeline(cs, other, nil, ts.Pos)
	}
}

func (c *checker) forgeries(all []position, keyList []string) {
	for _, key := range keyList {
		enc, err := newEnc(key)
		if err != nil {
			c.fail("harness/new-encrypter", err.Error(), key)
			continue
		}
		for _, p := range all {
			plain := p.plaintext()
			if plain == "" {
				continue
			}
			for _, pad := range []string{"", strings.Repeat("|", 28)} { // padded variant is long enough to reach GCM
				forged := refB64Encode([]byte(plain + pad))
				cs := Case{Spec: tokenSpec{p, key}, Class: "plain-forgery", Mutation: fmt.Sprintf("unencrypted base64url(%q)", plain+pad), Mutant: forged, DecodeAs: key, Level: "encoder"}
				if c.judge(cs, enc, nil, "\x00no-such-position") {
					c.r.Nontrivial(core.Hash("forge", key, plain, pad))
				}
				c.r.Count("mutants_plain-forgery", 1)
				c.pipeline(cs, enc, nil, p)
			}
		}
		// every 1-byte and 2-byte token (one-byte extensions of the empty token and beyond)
		for a := 0; a < 256; a++ {
			cs := Case{Spec: tokenSpec{position{Raw: true}, key}, Class: "extension-of-empty", Mutation: fmt.Sprintf("one-byte token 0x%02x", a), Mutant: refB64Encode([]byte{byte(a)}), DecodeAs: key, Level: "encoder"}
			c.judge(cs, enc, nil, "\x00no-such-position")
			c.r.Count("mutants_extension-of-empty", 1)
		}
	}
}

// serializerGrid: Deserialize against the documented split for every string over a small alphabet.
func (c *checker) serializerGrid(maxLen int) {
	ser := encoder.NewStringContinuationTokenSerializer()
	alpha := []string{"0", "A", "|", "é"}
	cur := []string{""}
	for l := 0; l <= maxLen; l++ {
		for _, s := range cur {
			u, t, err := ser.Deserialize(s)
			wu, wt, ok := refDeserialize(s)
			c.r.Eval(1)
			if (err == nil) != ok || u != wu || t != wt {
				c.fail("roundtrip/deserialize", fmt.Sprintf("Deserialize(%q) = (%q,%q,%v), documented split (%q,%q,valid=%v)", s, u, t, err, wu, wt, ok), s)
			}
			if err != nil && !errors.Is(err, storage.ErrInvalidContinuationToken) {
				c.fail("roundtrip/deserialize-error-kind", fmt.Sprintf("Deserialize(%q) error %v is not ErrInvalidContinuationToken", s, err), s)
			}
			if ok {
				c.r.Nontrivial(core.Hash("deser", s))
				b, err := ser.Serialize(u, t)
				if err != nil || string(b) != s {
					c.fail("roundtrip/deserialize-serialize", fmt.Sprintf("Serialize(Deserialize(%q)) = %q, %v", s, b, err), s)
				}
			}
		}
		if l == maxLen {
			break
		}
		var next []string
		for _, s := range cur {
			for _, a := range alpha {
				next = append(next, s+a)
			}
		}
		cur = next
	}
}

// base64Grid: the base64 layer alone on every byte string of length <= 2 and on 3-byte strings ending in each value.
func (c *checker) base64Grid() {
	e := encoder.NewBase64Encoder()
	one := func(b []byte) {
		s, err := e.Encode(b)
		back, err2 := e.Decode(s)
		c.r.Eval(1)
		if err != nil || err2 != nil || s != refB64Encode(b) || !bytes.Equal(back, b) {
			c.fail("roundtrip/base64", fmt.Sprintf("base64 Encode(%x)=%q,%v Decode=%x,%v; reference %q", b, s, err, back, err2, refB64Encode(b)), hex.EncodeToString(b))
		}
	}
	one([]byte{})
	for a := 0; a < 256; a++ {
		one([]byte{byte(a)})
		for b := 0; b < 256; b++ {
			one([]byte{byte(a), byte(b)})
			one([]byte{byte(b), 0xa5, byte(a)})
		}
	}
}

func Run(o *core.Options) int {
	r := core.NewReport(o, "exploration",
		"positions = {ULIDs, decimal offsets, \"0\", \"-1\", empty} x types {plain, empty, containing '|', multi-byte, newline, long} (+ raw byte positions), each with no key and with every key of a 5-key set: Serialize/Encode/Decode/Deserialize and the ReadChanges command must return exactly the issued (position, type), and a token presented with another type filter is refused. "+
			"For N issued encrypted tokens (N=8 quick, 52 thorough; three padding residues; keys of 0, 1, 5, 32, 65 and 100 bytes): EVERY single-byte substitution (255 values x every byte), every proper prefix and suffix, every one-byte insertion (256 values x every position), every single-character substitution/deletion/insertion/prefix of the base64 text over the base64url alphabet plus = + / CR LF space, the unmodified token under every other key, and unencrypted base64 forgeries of every position under every key; each is presented to TokenEncoder.Decode and to ReadChanges. "+
			"KEY dimension: for every key length in key_lengths (1, 2, 8 and n-1/n/n+1 around the AES key sizes 16/24/32, the SHA-256 digest 32 and block 64 and its padding boundary 55/56, plus 40 and 80; thorough adds 96..257) and three base-key styles (one repeated character, a non-periodic printable pattern, a deployment-style string with a rotation suffix), the family of ALL syntactically related keys: one byte xor 0x01/0x20/0x80 at EVERY position, every proper prefix (incl. the empty key) and suffix, one-byte and '-rotated' extensions, doubling/tripling, zero/space/'0'/cyclic padding up to 16/24/32/48/64/128 bytes, N appended zero bytes, rotations, swaps, reversal, case changes and the hex spelling; plus one cross-length family of all base keys. Every key mints a token for a typed ULID position and for the shortest position and round-trips it; then for EVERY ordered pair (A,B) of distinct keys of a family the token minted under A is presented to Decode under B, and for all pairs involving the base key (all pairs in the cross-length family) also to ReadChanges configured with B. Key-pair oracle: two keys are the same key iff they are the same byte string, so every such presentation must be refused (Decode error; ReadChanges answers ErrInvalidContinuationToken and never reaches storage). "+
			"Token oracle: a presented token is accepted only if it is a base64 respelling of exactly the issued bytes (decided by an independent RFC 4648 decoder) and then yields exactly the issued position. non-trivial = a mutant that is well-formed base64 of >= 28 bytes (so AES-GCM authentication, not syntax, decides) or a completed round trip, or a cross-key presentation of a full-length token; distinct by (token, mutation) resp. (minting key, server key) — in families of more than 128 keys only pairs involving the base key are recorded as distinct, all pairs are executed and counted (related_key_pairs)")
	r.Assume("AES-GCM tag forgery probability 2^-128 per mutant is treated as zero; nonces are random, the verdict only uses the bytes that were issued",
		"the encrypted encoder is TokenEncoder(GCMEncrypter(key), Base64Encoder) as in pkg/encoder tests; no production code path in the pinned tree constructs it (cmd/run uses Base64Encoder only)",
		"the empty token is the documented 'no token' and is not a mutant; without a key tokens are plain base64 and only round-trip exactness is claimed",
		"positions never contain '|' (ULIDs, decimal offsets); types may",
		"keys are arbitrary Go strings (NewGCMEncrypter takes a string and documents no restriction): related keys may contain NUL and non-UTF-8 bytes; every key of every family must be accepted by NewGCMEncrypter and round-trip its own tokens",
		"key identity is byte-string identity: no normalisation (case, padding, whitespace, truncation) of the configured key is documented, so tokens minted under any different byte string count as 'not issued under that key'; pairs are taken inside a family (and across lengths between base keys), not across all 13 644 keys",
		"the clear-text containment check applies to positions of >= 8 bytes only (shorter ones occur among random token bytes by chance)")
	c := &checker{r: r}

	if o.Replay != "" {
		var cs Case
		if err := core.LoadReplay(o.Replay, &cs); err != nil || cs.Mutant == "" {
			fmt.Println("replay: not a mutation case (round-trip cases are re-run by the normal run):", err)
			return 2
		}
		if b, err := hex.DecodeString(cs.DecodeKeyHex); err == nil && cs.DecodeKeyHex != "" {
			cs.DecodeAs = string(b)
		}
		if b, err := hex.DecodeString(cs.MintKeyHex); err == nil && cs.MintKeyHex != "" {
			cs.Spec.Key = string(b)
		}
		dec, err := newEnc(cs.DecodeAs)
		if err != nil {
			return 2
		}
		issuedBytes, _ := refB64Decode(cs.Issued)
		plaintext := cs.Spec.Pos.plaintext()
		if cs.Issued == "" || cs.DecodeAs != cs.Spec.Key {
			issuedBytes, plaintext = nil, "\x00no-such-position"
		}
		if cs.Level == "pipeline" {
			c.pipeline(cs, dec, issuedBytes, cs.Spec.Pos)
		} else {
			c.judge(cs, dec, issuedBytes, plaintext)
		}
		return r.Finish()
	}

	nTokens := 8
	if o.Thorough() {
		nTokens = 52
	}
	toks := tokens(nTokens)
	r.Set("tokens_mutated", len(toks))

	// all positions (incl. the ones no token may be issued for)
	var all []position
	for _, u := range append(append([]string{}, ulids...), "") {
		for _, t := range types {
			all = append(all, position{Ulid: u, Type: t})
		}
		all = append(all, position{Raw: true, Ulid: u})
	}
	all = append(all, position{Raw: true, Ulid: "\x00\xff binary"}, position{Raw: true, Ulid: strings.Repeat("z", 1000)})
	r.Set("positions", len(all))

	// 0. several tokens outstanding from one encoder
	c.outstanding()
	// 1. round trips, every position, without key and with each key
	r.Parallel(len(all), func(i int) {
		c.roundTrips(all[i], "", false)
		for _, k := range keys {
			c.roundTrips(all[i], k, true)
		}
	})
	// empty token = no token, for every encoder
	for _, k := range keys {
		enc, _ := newEnc(k)
		for _, e := range []*encoder.TokenEncoder{enc, plainEnc()} {
			got, err := e.Decode("")
			r.Eval(1)
			if err != nil || len(got) != 0 {
				c.fail("empty-token/decode", fmt.Sprintf("Decode(\"\") = %q, %v; the empty token is 'no token'", got, err), k)
			}
		}
	}
	c.base64Grid()
	maxLen := 6
	if o.Thorough() {
		maxLen = 8
	}
	c.serializerGrid(maxLen)

	// 2. tampering, every issued token
	r.Parallel(len(toks), func(i int) { c.tamperToken(i, toks[i], keys) })
	// 3. forgeries
	c.forgeries(all, keys)

	// 4. the key dimension: families of related keys, every ordered pair inside each family
	type family struct {
		name string
		keys []relKey
		pipe func(a, b int) bool
	}
	var fams []family
	cross := family{name: "cross-length", pipe: func(a, b int) bool { return true }}
	crossSeen := map[string]bool{}
	addCross := func(k, rel string) {
		if !crossSeen[k] {
			crossSeen[k] = true
			cross.keys = append(cross.keys, relKey{k, rel})
		}
	}
	for _, k := range keys {
		addCross(k, "fixed key set")
	}
	lens := keyLengths(o.Thorough())
	for _, n := range lens {
		for _, st := range keyStyles {
			b := baseKey(st, n)
			addCross(b, fmt.Sprintf("%s(%d)", st, n))
			fams = append(fams, family{name: fmt.Sprintf("%s(%d)", st, n), keys: neighbourhood(b), pipe: func(a, b int) bool { return a == 0 || b == 0 }})
		}
	}
	fams = append(fams, cross)
	nKeys := 0
	for _, f := range fams {
		nKeys += len(f.keys)
	}
	r.Set("key_lengths", lens)
	r.Set("key_families", len(fams))
	r.Set("keys_in_families_total", nKeys)
	r.Sample(map[string]any{"key_family": fams[len(keyStyles)*9+2].name, "keys": len(fams[len(keyStyles)*9+2].keys), "base": fams[len(keyStyles)*9+2].keys[0].Key,
		"relations": "one byte xor {01,20,80} at every position; every proper prefix/suffix; +1 byte; +suffix; doubled/tripled; zero/space/'0'/cyclic padding to 16,24,32,48,64,128; +N zero bytes; rotations, swaps, reversal, case, hex spelling"})
	results := make([]*keyJobResult, len(fams))
	// largest families first for load balance; results are submitted in family order
	order := make([]int, len(fams))
	for i := range order {
		order[i] = i
	}
	sort.SliceStable(order, func(x, y int) bool { return len(fams[order[x]].keys) > len(fams[order[y]].keys) })
	done := make([]bool, len(fams))
	r.Parallel(len(fams), func(j int) {
		i := order[j]
		results[i] = c.relatedKeys(fams[i].name, fams[i].keys, fams[i].pipe)
		done[i] = true
	})
	for i := range done {
		if !done[i] {
			r.NotExhaustive("deadline reached before every key family was run")
			break
		}
	}
	c.submit(results)
	return r.Finish()
}
