package c28

import (
	"fmt"
	"sync"

	"github.com/openfga/openfga/pkg/encrypter"
)

// outstanding: several tokens issued by ONE encoder before any of them is consumed - the server issues a token per
// response and clients hold them for as long as they like. Every sequence of 2-3 positions (same length, shorter,
// longer plaintexts; with and without a key) is issued in a row from one TokenEncoder, then every token is decoded
// (in issue order and in reverse): each must decode to exactly the position it was issued for, and the issued
// strings must stay what they were when returned. The same with the issues made by two goroutines (one encoder is
// shared by all requests of a server); the free-running variant is a verdict only for an outcome no schedule may
// produce (a token that decodes to another token's position, or no longer decodes).
func (c *checker) outstanding() {
	plains := []string{"01ARZ3NDEKTSV4RRFFQ69G5FAV|document", "01BX5ZZKBKACTAV9WEVGEMMVRZ|document", "01ARZ3NDEKTSV4RRFFQ69G5FAV|doc", "7", "01ARZ3NDEKTSV4RRFFQ69G5FAV|a-much-longer-type-name-than-the-others", ""}
	keys := []string{"", "key-A", "0123456789abcdef0123456789abcdef"}
	type oc struct {
		Key    string   `json:"key"`
		Plains []string `json:"positions_issued_in_a_row"`
		Order  string   `json:"decode_order"`
		Index  int      `json:"token_index"`
		Got    string   `json:"decoded"`
	}
	var n int64
	seqs := [][]int{}
	for a := range plains {
		for b := range plains {
			seqs = append(seqs, []int{a, b})
			for d := range plains[:4] {
				seqs = append(seqs, []int{a, b, d})
			}
		}
	}
	for _, key := range keys {
		for _, sq := range seqs {
			for _, mode := range []string{"sequential", "two-goroutines"} {
				var enc interface {
					Encode([]byte) (string, error)
					Decode(string) ([]byte, error)
				}
				if key == "" {
					enc = plainEnc()
				} else {
					e, err := newEnc(key)
					if err != nil {
						c.fail("roundtrip/encrypter-rejects-key", err.Error(), key)
						return
					}
					enc = e
				}
				toks := make([]string, len(sq))
				var ps []string
				for _, i := range sq {
					ps = append(ps, plains[i])
				}
				issue := func(k int) {
					t, err := enc.Encode([]byte(plains[sq[k]]))
					if err != nil {
						c.fail("roundtrip/encode-error", err.Error(), oc{Key: key, Plains: ps, Index: k})
					}
					toks[k] = t
				}
				if mode == "sequential" {
					for k := range sq {
						issue(k)
					}
				} else {
					var wg sync.WaitGroup
					for k := range sq {
						wg.Add(1)
						go func() { defer wg.Done(); issue(k) }()
					}
					wg.Wait()
				}
				snapshot := append([]string{}, toks...)
				for _, order := range []string{"issue-order", "reverse"} {
					for j := range sq {
						k := j
						if order == "reverse" {
							k = len(sq) - 1 - j
						}
						n++
						c.r.Eval(1)
						got, err := enc.Decode(toks[k])
						if plains[sq[k]] == "" && toks[k] == "" {
							continue // the empty position is the documented "no token"
						}
						if err != nil || string(got) != plains[sq[k]] || toks[k] != snapshot[k] {
							c.fail("roundtrip/outstanding-token-decodes-to-another-position-or-not-at-all/"+mode, fmt.Sprintf("tokens for %q issued in a row by one encoder (key %q, %s); token %d now decodes to %q (err=%v)", ps, key, mode, k, got, err), oc{Key: key, Plains: ps, Order: order, Index: k, Got: string(got)})
						}
					}
				}
			}
		}
	}
	// the same at the Encrypter interface (ciphertexts are byte slices the caller owns): every ciphertext must keep
	// decrypting to its own plaintext, and keep its bytes, while later ones are produced
	for _, key := range keys[1:] {
		for _, sq := range seqs {
			g, err := encrypter.NewGCMEncrypter(key)
			if err != nil {
				c.fail("roundtrip/encrypter-rejects-key", err.Error(), key)
				return
			}
			var cts, snaps [][]byte
			var ps []string
			for _, i := range sq {
				ct, err := g.Encrypt([]byte(plains[i]))
				if err != nil {
					c.fail("roundtrip/encode-error", err.Error(), key)
				}
				cts = append(cts, ct)
				snaps = append(snaps, append([]byte{}, ct...))
				ps = append(ps, plains[i])
			}
			for k := range sq {
				n++
				c.r.Eval(1)
				got, err := g.Decrypt(cts[k])
				if err != nil || string(got) != plains[sq[k]] || string(cts[k]) != string(snaps[k]) {
					c.fail("roundtrip/outstanding-ciphertext-changed-or-decrypts-to-another-plaintext", fmt.Sprintf("ciphertexts for %q produced in a row by one GCMEncrypter (key %q): ciphertext %d now decrypts to %q (err=%v, bytes changed=%v)", ps, key, k, got, err, string(cts[k]) != string(snaps[k])), oc{Key: key, Plains: ps, Order: "issue-order", Index: k, Got: string(got)})
				}
			}
		}
	}
	c.r.Set("outstanding_token_decodes", n)
}
