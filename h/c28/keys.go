package c28

// The KEY dimension of C28: "any token not issued under that key is rejected" quantifies over the
// configured key as much as over the token. This file enumerates families of *related* encryption
// keys — every length around the sizes a key derivation could treat specially, and for each base key
// every key that differs from it in one byte position, every proper prefix, paddings, extensions,
// doublings, rotations — and presents a token minted under each key to a server configured with each
// other key of the family.
//
// Oracle (independent of pkg/encrypter): two keys are the same key iff they are the same byte string.
// A token minted under key A and presented under key B != A must be refused.

import (
	"encoding/hex"
	"fmt"
	"sort"
	"strings"

	"github.com/openfga/openfga/internal/verifh/core"
	"github.com/openfga/openfga/pkg/encoder"
)

// keyLengths: 1, 2 and every length n-1, n, n+1 around the AES key sizes (16, 24, 32), the SHA-256
// digest (32) and block size (64), its padding boundary (55/56), and one/two mid-range lengths
// between them; thorough adds 2x and 4x the block size.
func keyLengths(thorough bool) []int {
	l := []int{1, 2, 8, 15, 16, 17, 23, 24, 25, 31, 32, 33, 40, 47, 48, 49, 55, 56, 63, 64, 65, 80}
	if thorough {
		l = append(l, 96, 127, 128, 129, 200, 255, 256, 257)
	}
	return l
}

// base keys: three fill styles per length. "rep" is one repeated character (so every prefix is
// again of that style and rotations coincide), "pat" a non-periodic printable pattern (pat(L) is a
// prefix of pat(L') for L < L'), "word" a realistic configuration string: a long common deployment
// prefix filled up to the length, ending in a rotation suffix.
var keyStyles = []string{"rep", "pat", "word"}

func baseKey(style string, n int) string {
	b := make([]byte, n)
	switch style {
	case "rep":
		for i := range b {
			b[i] = 'k'
		}
	case "pat":
		for i := range b {
			b[i] = byte(33 + (i*31+(i/7)*5+(i/47)*3)%94)
		}
	default:
		const stem = "openfga-prod-eu-west-1-continuation-token-encryption-key-"
		for i := range b {
			if i < len(stem) {
				b[i] = stem[i]
			} else {
				b[i] = "0123456789abcdef"[(i-len(stem))%16]
			}
		}
		if n >= 6 {
			copy(b[n-6:], "2025-A")
		}
	}
	return string(b)
}

type relKey struct {
	Key string
	Rel string // how it was derived from the base key
}

// neighbourhood returns the base key followed by every related key, duplicates (and keys equal to an
// earlier one) removed. All relations are purely syntactic.
func neighbourhood(base string) []relKey {
	n := len(base)
	out := []relKey{{base, "base"}}
	seen := map[string]bool{base: true}
	add := func(k, rel string) {
		if !seen[k] {
			seen[k] = true
			out = append(out, relKey{k, rel})
		}
	}
	// one byte differs, at EVERY position: lowest bit, case bit, high bit
	for p := 0; p < n; p++ {
		for _, x := range []byte{0x01, 0x20, 0x80} {
			m := []byte(base)
			m[p] ^= x
			add(string(m), fmt.Sprintf("byte %d/%d xor 0x%02x", p, n, x))
		}
	}
	// every proper prefix (incl. the empty key) and every proper suffix
	for l := 0; l < n; l++ {
		add(base[:l], fmt.Sprintf("prefix of %d/%d bytes", l, n))
	}
	for l := 1; l < n; l++ {
		add(base[n-l:], fmt.Sprintf("suffix of %d/%d bytes", l, n))
	}
	// extensions by one byte, by a rotation suffix, doubling, cyclic continuation
	for _, x := range []string{"\x00", " ", "\n", "0", "=", base[:1], base[n-1:], "-rotated", "\x80"} {
		add(base+x, fmt.Sprintf("base + %q", x))
	}
	add(base+base, "base doubled")
	add(base+base+base, "base tripled")
	for _, x := range []string{"\x00", " ", "\t"} {
		add(x+base, fmt.Sprintf("%q + base", x))
	}
	// paddings up to (and one block beyond) every special size
	for _, size := range []int{16, 24, 32, 48, 64, 128} {
		if size > n {
			add(base+strings.Repeat("\x00", size-n), fmt.Sprintf("zero-padded to %d", size))
			add(base+strings.Repeat(" ", size-n), fmt.Sprintf("space-padded to %d", size))
			add(base+strings.Repeat("0", size-n), fmt.Sprintf("'0'-padded to %d", size))
			c := []byte(base)
			for len(c) < size {
				c = append(c, base[len(c)%n])
			}
			add(string(c), fmt.Sprintf("cyclically extended to %d", size))
		}
		add(base+strings.Repeat("\x00", size), fmt.Sprintf("base + %d zero bytes", size))
	}
	// same bytes, other order / other case
	if n > 1 {
		add(base[1:]+base[:1], "rotated left by one")
		add(base[n-1:]+base[:n-1], "rotated right by one")
		m := []byte(base)
		m[n-1], m[n-2] = m[n-2], m[n-1]
		add(string(m), "last two bytes swapped")
		m = []byte(base)
		m[0], m[n-1] = m[n-1], m[0]
		add(string(m), "first and last byte swapped")
		r := []byte(base)
		for i, j := 0, n-1; i < j; i, j = i+1, j-1 {
			r[i], r[j] = r[j], r[i]
		}
		add(string(r), "reversed")
	}
	add(strings.ToUpper(base), "upper-cased")
	add(strings.ToLower(base), "lower-cased")
	add(hex.EncodeToString([]byte(base)), "hex spelling of base")
	return out
}

func lcp(a, b string) int {
	i := 0
	for i < len(a) && i < len(b) && a[i] == b[i] {
		i++
	}
	return i
}

func printable(s string) bool {
	for _, r := range s {
		if r == 0xFFFD || r < 0x20 || r == 0x7f {
			return false
		}
	}
	return true
}

// positions every key of a family mints a token for: a typed ULID position and the shortest one.
var keyedPositions = []position{{Ulid: "01ARZ3NDEKTSV4RRFFQ69G5FAV", Type: "document"}, {Ulid: "0", Type: ""}}

type pendingViolation struct {
	sig, desc string
	cs        Case
	readable  bool // both keys are printable text: preferred as the retained example
}

type keyJobResult struct {
	viol      []pendingViolation
	violTotal int64
	counters  map[string]int64
}

// relatedKeys runs one family: fam[0] is the base key (or, for the cross-length family, just the
// first one). Every key mints one token per position and round-trips it under itself; then every
// ordered pair (A, B), A != B: the token of A is presented to Decode under B, and — for the pairs
// named by pipePair — to the ReadChanges command configured with B.
func (c *checker) relatedKeys(famName string, fam []relKey, pipePair func(a, b int) bool) *keyJobResult {
	res := &keyJobResult{counters: map[string]int64{}}
	nReadable, nOther := 0, 0
	report := func(sig, desc string, cs Case) {
		res.violTotal++
		readable := printable(cs.Spec.Key) && printable(cs.DecodeAs)
		if readable && nReadable < 4 {
			nReadable++
			res.viol = append(res.viol, pendingViolation{sig, desc, cs, true})
		} else if !readable && nOther < 4 {
			nOther++
			res.viol = append(res.viol, pendingViolation{sig, desc, cs, false})
		}
	}
	type minted struct {
		enc  *encoder.TokenEncoder
		toks []string
	}
	ms := make([]minted, len(fam))
	var evals int64
	for i, k := range fam {
		enc, err := newEnc(k.Key)
		if err != nil {
			report("key/rejected-by-new-encrypter", fmt.Sprintf("NewGCMEncrypter refuses key of %d bytes (%s of the %s family): %v", len(k.Key), k.Rel, famName, err),
				Case{Spec: tokenSpec{Key: k.Key}, MintKeyHex: hex.EncodeToString([]byte(k.Key)), Class: "key"})
			continue
		}
		ms[i].enc = enc
		for _, p := range keyedPositions {
			plain := p.plaintext()
			tok, err := enc.Encode([]byte(plain))
			var back []byte
			if err == nil {
				back, err = enc.Decode(tok)
			}
			evals += 2
			if err != nil || string(back) != plain {
				report("roundtrip/encode-decode", fmt.Sprintf("Decode(Encode(%q)) under a key of %d bytes (%s of the %s family) = %q, %v", plain, len(k.Key), k.Rel, famName, back, err),
					Case{Spec: tokenSpec{p, k.Key}, MintKeyHex: hex.EncodeToString([]byte(k.Key)), Class: "key"})
				tok = ""
			}
			ms[i].toks = append(ms[i].toks, tok)
		}
		res.counters["keys_round_tripped"]++
		res.counters[fmt.Sprintf("keys_of_length_%s", lenClass(len(k.Key)))]++
	}
	for a := range fam {
		if ms[a].enc == nil {
			continue
		}
		for b := range fam {
			if a == b || ms[b].enc == nil {
				continue
			}
			ka, kb := fam[a].Key, fam[b].Key
			if ka == kb { // cannot happen (families are duplicate-free); the oracle itself
				continue
			}
			res.counters["related_key_pairs"]++
			common := lcp(ka, kb)
			for _, size := range []int{16, 24, 32, 64} {
				if len(ka) >= size && len(kb) >= size && common >= size {
					res.counters[fmt.Sprintf("pairs_both_keys_ge_%d_bytes_agreeing_on_first_%d", size, size)]++
				}
			}
			switch {
			case common == len(ka) || common == len(kb):
				res.counters["pairs_one_key_is_prefix_of_the_other"]++
			case len(ka) == len(kb) && ka[common+1:] == kb[common+1:]:
				res.counters["pairs_same_length_one_byte_differs"]++
			}
			if strings.EqualFold(ka, kb) {
				res.counters["pairs_equal_up_to_case"]++
			}
			if strings.Trim(ka, "\x00 \t\n") == strings.Trim(kb, "\x00 \t\n") {
				res.counters["pairs_equal_up_to_padding_or_whitespace"]++
			}
			for pi, p := range keyedPositions {
				tok := ms[a].toks[pi]
				if tok == "" {
					continue
				}
				got, err := ms[b].enc.Decode(tok)
				evals++
				if err == nil {
					cs := Case{Spec: tokenSpec{p, ka}, Issued: tok, Class: "related-key", Mutant: tok, DecodeAs: kb, Level: "encoder",
						MintKeyHex: hex.EncodeToString([]byte(ka)), DecodeKeyHex: hex.EncodeToString([]byte(kb)),
						Mutation: fmt.Sprintf("the unmodified token of a %d-byte key presented under a different %d-byte key (%s family: minting key = %s, server key = %s; the keys agree on their first %d bytes)",
							len(ka), len(kb), famName, fam[a].Rel, fam[b].Rel, common),
						Got: fmt.Sprintf("accepted, decoded to %q", got)}
					report("tamper-accepted/related-key", fmt.Sprintf("a token minted under key %s (%d bytes) for position %q was accepted by Decode under the different key %s (%d bytes; common prefix %d bytes) and decoded to %q",
						showKey(ka), len(ka), p.plaintext(), showKey(kb), len(kb), common, got), cs)
				}
				if pipePair(a, b) {
					evals++
					c.pipelineOtherKey(Case{Spec: tokenSpec{p, ka}, Issued: tok, Class: "related-key", Mutant: tok, DecodeAs: kb,
						MintKeyHex: hex.EncodeToString([]byte(ka)), DecodeKeyHex: hex.EncodeToString([]byte(kb)),
						Mutation: fmt.Sprintf("the unmodified token of a %d-byte key (%s) presented to a server holding a different %d-byte key (%s; common prefix %d bytes)", len(ka), fam[a].Rel, len(kb), fam[b].Rel, common)},
						ms[b].enc, p, report)
					res.counters["related_key_pairs_through_readchanges"]++
				}
			}
			if a == 0 || b == 0 || len(fam) <= 128 {
				c.r.Nontrivial(core.Hash("relkey", ka, kb))
			}
		}
	}
	c.r.Eval(evals)
	return res
}

func lenClass(n int) string {
	switch {
	case n == 0:
		return "0"
	case n < 16:
		return "01-15"
	case n == 16, n == 24, n == 32, n == 64:
		return fmt.Sprintf("%d_exactly", n)
	case n < 32:
		return "17-31"
	case n < 64:
		return "33-63"
	default:
		return "65_or_more"
	}
}

func showKey(k string) string {
	if printable(k) && len(k) <= 80 {
		return fmt.Sprintf("%q", k)
	}
	return "hex:" + hex.EncodeToString([]byte(k))
}

// submit hands the collected results to the report in family order, so that the retained example
// is the one from the smallest family (deterministic regardless of scheduling).
func (c *checker) submit(results []*keyJobResult) {
	total := map[string]int64{}
	var viol int64
	for _, readable := range []bool{true, false} {
		for _, res := range results {
			if res == nil {
				continue
			}
			for _, v := range res.viol {
				if v.readable == readable {
					c.r.Violate(v.sig, v.desc, v.cs)
				}
			}
		}
	}
	for _, res := range results {
		if res == nil {
			continue
		}
		viol += res.violTotal
		for k, n := range res.counters {
			total[k] += n
		}
	}
	names := make([]string, 0, len(total))
	for k := range total {
		names = append(names, k)
	}
	sort.Strings(names)
	for _, k := range names {
		c.r.Count(k, total[k])
	}
	if viol > 0 {
		c.r.Count("related_key_failures_total", viol)
	}
}
