package c28

// Independent reference pieces: a plain base64url (RFC 4648 §5, padded) codec and the documented
// "ulid|type" serialisation. Nothing here calls pkg/encoder, pkg/encrypter or encoding/base64.

const b64 = "ABCDEFGHIJKLMNOPQRSTUVWXYZabcdefghijklmnopqrstuvwxyz0123456789-_"

func refB64Encode(b []byte) string {
	out := make([]byte, 0, (len(b)+2)/3*4)
	for i := 0; i < len(b); i += 3 {
		var v uint32
		n := len(b) - i
		if n > 3 {
			n = 3
		}
		for j := 0; j < 3; j++ {
			v <<= 8
			if j < n {
				v |= uint32(b[i+j])
			}
		}
		out = append(out, b64[v>>18&63], b64[v>>12&63])
		if n > 1 {
			out = append(out, b64[v>>6&63])
		} else {
			out = append(out, '=')
		}
		if n > 2 {
			out = append(out, b64[v&63])
		} else {
			out = append(out, '=')
		}
	}
	return string(out)
}

// refB64Decode decodes padded base64url the lenient way RFC 4648 decoders commonly do: CR and LF
// are skipped and the unused low bits of the last symbol are not checked. ok=false for anything else
// that is not well-formed (wrong length, misplaced '=', foreign symbol).
func refB64Decode(s string) (out []byte, ok bool) {
	var syms []byte
	for i := 0; i < len(s); i++ {
		if s[i] != '\r' && s[i] != '\n' {
			syms = append(syms, s[i])
		}
	}
	if len(syms)%4 != 0 {
		return nil, false
	}
	val := func(c byte) int {
		for i := 0; i < 64; i++ {
			if b64[i] == c {
				return i
			}
		}
		return -1
	}
	for i := 0; i < len(syms); i += 4 {
		q := syms[i : i+4]
		last := i+4 == len(syms)
		n := 4
		if last && q[3] == '=' {
			n = 3
			if q[2] == '=' {
				n = 2
			}
		}
		var v uint32
		for j := 0; j < 4; j++ {
			v <<= 6
			if j < n {
				x := val(q[j])
				if x < 0 {
					return nil, false
				}
				v |= uint32(x)
			}
		}
		out = append(out, byte(v>>16))
		if n > 2 {
			out = append(out, byte(v>>8))
		}
		if n > 3 {
			out = append(out, byte(v))
		}
	}
	if out == nil {
		out = []byte{}
	}
	return out, true
}

// refSerialize: "ulid & type concatenated by a pipe"; an empty ulid is refused.
func refSerialize(ulid, typ string) (string, bool) {
	if ulid == "" {
		return "", false
	}
	return ulid + "|" + typ, true
}

// refDeserialize: the position is everything before the FIRST pipe (ULIDs and offsets never contain
// one, types may), the type is everything after it; no pipe or an empty position is invalid.
func refDeserialize(tok string) (ulid, typ string, ok bool) {
	for i := 0; i < len(tok); i++ {
		if tok[i] == '|' {
			if i == 0 {
				return "", "", false
			}
			return tok[:i], tok[i+1:], true
		}
	}
	return "", "", false
}
