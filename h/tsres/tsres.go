// Package tsres explores every interleaving (iterative preemption bounding) of the model-resolution
// chain the server builds: typesystem.MemoizedTypesystemResolverFunc over
// storagewrappers.NewCachedOpenFGADatastore over a datastore, i.e. two singleflight groups
// (golang.org/x/sync/singleflight, instrumented) and two caches. pkg/typesystem and
// pkg/storage/storagewrappers are instrumented at build time. It is the schedule-quantified part of
// C16 (a store never observes another store's model) and C17 (model-less requests use the latest model
// of their store, including right after a newer model is written).
package tsres

import (
	"context"
	"errors"
	"fmt"
	"sort"
	"strings"
	"time"

	openfgav1 "github.com/openfga/api/proto/openfga/v1"

	"github.com/openfga/openfga/internal/verifh/core"
	"github.com/openfga/openfga/internal/verifh/e1"
	"github.com/openfga/openfga/internal/verifrt/vrt"
	"github.com/openfga/openfga/internal/verifrt/vsync"
	"github.com/openfga/openfga/pkg/storage"
	"github.com/openfga/openfga/pkg/storage/memory"
	"github.com/openfga/openfga/pkg/storage/storagewrappers"
	"github.com/openfga/openfga/pkg/typesystem"
)

// Model ids (valid ULIDs, ascending).
var ids = map[string]string{
	"A1": "01J0000000000000000000000A", "A2": "01J0000000000000000000000C",
	"B1": "01J0000000000000000000000B", "B2": "01J0000000000000000000000D",
}

func nameOf(id string) string {
	for n, v := range ids {
		if v == id {
			return n
		}
	}
	if id == "" {
		return "-"
	}
	return id
}

type Op struct {
	Kind  string `json:"kind"`  // resolve | write
	Store string `json:"store"` // A | B
	Model string `json:"model"` // resolve: "" (latest) or a model name; write: the model name
}

func (o Op) String() string {
	if o.Kind == "write" {
		return "write(" + o.Store + "," + o.Model + ")"
	}
	m := o.Model
	if m == "" {
		m = "latest"
	}
	return "resolve(" + o.Store + "," + m + ")"
}

type Params struct {
	Name    string              `json:"name"`
	Init    map[string][]string `json:"init"`    // store -> model names written before the threads start
	Threads [][]Op              `json:"threads"` // concurrent threads
	Post    []Op                `json:"post"`    // run by the main thread after all threads finished
}

func (p Params) String() string {
	var ts []string
	for _, t := range p.Threads {
		var os []string
		for _, o := range t {
			os = append(os, o.String())
		}
		ts = append(ts, strings.Join(os, ";"))
	}
	return p.Name + " {" + strings.Join(ts, " || ") + "}"
}

// pointDS adds scheduling points (and context honouring) around the model operations of a memory datastore.
type pointDS struct{ storage.OpenFGADatastore }

func (d *pointDS) FindLatestAuthorizationModel(ctx context.Context, store string) (*openfgav1.AuthorizationModel, error) {
	vrt.Point("ds-find-latest")
	if ctx.Err() != nil {
		return nil, ctx.Err()
	}
	m, err := d.OpenFGADatastore.FindLatestAuthorizationModel(ctx, store)
	vrt.Point("ds-find-latest-done")
	return m, err
}

func (d *pointDS) ReadAuthorizationModel(ctx context.Context, store, id string) (*openfgav1.AuthorizationModel, error) {
	vrt.Point("ds-read-model")
	if ctx.Err() != nil {
		return nil, ctx.Err()
	}
	m, err := d.OpenFGADatastore.ReadAuthorizationModel(ctx, store, id)
	vrt.Point("ds-read-model-done")
	return m, err
}

func (d *pointDS) WriteAuthorizationModel(ctx context.Context, store string, m *openfgav1.AuthorizationModel) error {
	vrt.Point("ds-write-model")
	err := d.OpenFGADatastore.WriteAuthorizationModel(ctx, store, m)
	vrt.Point("ds-write-model-done")
	return err
}

// model builds a small valid model whose relation name identifies it.
func model(name string) *openfgav1.AuthorizationModel {
	rel := "rel_" + strings.ToLower(name)
	return &openfgav1.AuthorizationModel{
		Id:            ids[name],
		SchemaVersion: "1.1",
		TypeDefinitions: []*openfgav1.TypeDefinition{
			{Type: "user"},
			{Type: "doc",
				Relations: map[string]*openfgav1.Userset{rel: {Userset: &openfgav1.Userset_This{}}},
				Metadata: &openfgav1.Metadata{Relations: map[string]*openfgav1.RelationMetadata{
					rel: {DirectlyRelatedUserTypes: []*openfgav1.RelationReference{{Type: "user"}}}}}},
		},
	}
}

var storeIDs = map[string]string{"A": "01J000000000000000000STRA0", "B": "01J000000000000000000STRB0"}

type rec struct {
	Thread   int
	Op       Op
	Inv, Res int64
	Got      string // model name, "notfound", or "ERR:<msg>"
}

func scenario(p Params) e1.Scenario {
	return e1.Scenario{Name: p.String(), Params: p, Make: func() (func(), func(x *vrt.Execution) (string, string, string, uint64)) {
		var recs []rec
		var finished bool
		body := func() {
			recs, finished = nil, false
			ctx := context.Background()
			base := &pointDS{memory.New()}
			for s, ms := range p.Init {
				for _, m := range ms {
					if err := base.OpenFGADatastore.WriteAuthorizationModel(ctx, storeIDs[s], model(m)); err != nil {
						panic(err)
					}
				}
			}
			cached, err := storagewrappers.NewCachedOpenFGADatastore(base, 100)
			if err != nil {
				panic(err)
			}
			resolve, stop, err := typesystem.MemoizedTypesystemResolverFunc(cached, 100)
			if err != nil {
				panic(err)
			}
			defer stop()
			do := func(thread int, o Op) {
				r := rec{Thread: thread, Op: o, Inv: vrt.Stamp()}
				switch o.Kind {
				case "write":
					// the server's WriteAuthorizationModel command writes through the (cached) datastore
					if err := cached.WriteAuthorizationModel(ctx, storeIDs[o.Store], model(o.Model)); err != nil {
						r.Got = "ERR:" + err.Error()
					} else {
						r.Got = "ok"
					}
				default:
					ts, err := resolve(ctx, storeIDs[o.Store], ids[o.Model])
					switch {
					case errors.Is(err, typesystem.ErrModelNotFound):
						r.Got = "notfound"
					case err != nil:
						r.Got = "ERR:" + err.Error()
					default:
						r.Got = nameOf(ts.GetAuthorizationModelID())
					}
				}
				r.Res = vrt.Stamp()
				recs = append(recs, r)
			}
			var wg vsync.WaitGroup
			for i, t := range p.Threads {
				i, t := i, t
				wg.Add(1)
				vrt.Go(func() {
					defer wg.Done()
					for _, o := range t {
						do(i+1, o)
					}
				})
			}
			wg.Wait()
			for _, o := range p.Post {
				do(0, o)
			}
			finished = true
		}
		check := func(x *vrt.Execution) (string, string, string, uint64) {
			var parts []string
			rs := append([]rec{}, recs...)
			sort.SliceStable(rs, func(i, j int) bool {
				if rs[i].Thread != rs[j].Thread {
					return rs[i].Thread < rs[j].Thread
				}
				return rs[i].Inv < rs[j].Inv
			})
			for _, r := range rs {
				parts = append(parts, fmt.Sprintf("T%d:%s=%s", r.Thread, r.Op, r.Got))
			}
			outcome := fmt.Sprintf("dead=%v live=%v panics=%d finished=%v %s", x.Deadlock, x.Livelock, len(x.Panics), finished, strings.Join(parts, " "))
			key := core.Hash(outcome)
			desc := func(what string) string { return fmt.Sprintf("%s | %s | %s | %s", what, p, outcome, x.Summary()) }
			switch {
			case len(x.Panics) > 0:
				return "resolver-panic", desc("panic: " + x.Panics[0]), outcome, key
			case x.Livelock:
				return "resolver-livelock", desc("livelock"), outcome, key
			case x.Deadlock || !finished:
				return "resolver-deadlock", desc("deadlock; stuck: " + strings.Join(x.Stuck, ",")), outcome, key
			}
			for _, r := range recs {
				if r.Op.Kind != "resolve" {
					if r.Got != "ok" {
						return "harness-model-write-failed", desc("model write failed"), outcome, key
					}
					continue
				}
				if strings.HasPrefix(r.Got, "ERR:") {
					return "resolver-spurious-error", desc(r.Op.String() + " failed"), outcome, key
				}
				allowed := allowedAnswers(p, recs, r)
				if !allowed[r.Got] {
					var al []string
					for a := range allowed {
						al = append(al, a)
					}
					sort.Strings(al)
					kind := "stale-or-wrong-model"
					if g := r.Got; g != "notfound" && len(g) == 2 && g[:1] != r.Op.Store {
						kind = "model-of-another-store"
					} else if r.Got == "notfound" {
						kind = "existing-model-not-found"
					} else if r.Op.Model == "" {
						kind = "not-the-latest-model"
					}
					sig := "resolver/" + kind
					for _, o := range recs {
						// the mechanism of the known finding: the request joined a lookup that another
						// request had started earlier (singleflight), so it can see a read that predates it
						if o.Op.Kind == "resolve" && o.Op.Store == r.Op.Store && o.Op.Model == r.Op.Model && o.Thread != r.Thread && o.Inv < r.Inv && r.Inv < o.Res {
							sig += "/joined-the-in-flight-lookup-of-an-earlier-request"
							break
						}
					}
					if r.Thread == 0 {
						sig += "/after-all-threads-finished"
					}
					return sig, desc(fmt.Sprintf("%s (thread %d, stamps %d..%d) returned %s; linearizable answers: %v", r.Op, r.Thread, r.Inv, r.Res, r.Got, al)), outcome, key
				}
			}
			return "", "", outcome, key
		}
		return body, check
	}}
}

// allowedAnswers: the answers a linearizable model store may give to resolve r, given the recorded
// intervals of the writes to the same store (a write takes effect at some point inside its interval).
func allowedAnswers(p Params, recs []rec, r rec) map[string]bool {
	type ver struct {
		name     string
		inv, res int64 // the write's interval (init: -1,-1)
	}
	var vs []ver
	for _, m := range p.Init[r.Op.Store] {
		vs = append(vs, ver{m, -1, -1})
	}
	var ws []rec
	for _, w := range recs {
		if w.Op.Kind == "write" && w.Op.Store == r.Op.Store {
			ws = append(ws, w)
		}
	}
	sort.Slice(ws, func(i, j int) bool { return ws[i].Inv < ws[j].Inv })
	for _, w := range ws {
		vs = append(vs, ver{w.Op.Model, w.Inv, w.Res})
	}
	out := map[string]bool{}
	if r.Op.Model != "" {
		// explicit id: found iff the model exists in this store
		for _, v := range vs {
			if v.name == r.Op.Model {
				if v.inv < r.Res { // may already exist
					out[v.name] = true
				}
				if v.res > r.Inv { // may not exist yet
					out["notfound"] = true
				}
				return out
			}
		}
		out["notfound"] = true
		return out
	}
	if len(vs) == 0 {
		out["notfound"] = true
		return out
	}
	// latest: version i is a possible answer iff it may have been written before r returned and its
	// successor may not have been written before r was invoked. (Writes to one store are issued by one
	// thread in these scenarios and the ids ascend, so versions are totally ordered.)
	for i, v := range vs {
		if v.inv >= r.Res {
			continue
		}
		if i+1 < len(vs) && vs[i+1].res <= r.Inv {
			continue
		}
		out[v.name] = true
	}
	if vs[0].inv >= 0 && vs[0].res > r.Inv {
		out["notfound"] = true // the store may still have been empty
	}
	return out
}

// Scenarios for a property: C16 takes the two-store scenarios (and judges only cross-store answers, see
// Relevant), C17 all of them.
func Scenarios(prop string, thorough bool) []e1.Scenario {
	R := func(s, m string) Op { return Op{"resolve", s, m} }
	W := func(s, m string) Op { return Op{"write", s, m} }
	ps := []Params{
		{Name: "write-then-latest-vs-inflight-latest", Init: map[string][]string{"A": {"A1"}},
			Threads: [][]Op{{R("A", "")}, {W("A", "A2"), R("A", "")}}, Post: []Op{R("A", "")}},
		{Name: "two-stores-latest", Init: map[string][]string{"A": {"A1"}, "B": {"B1"}},
			Threads: [][]Op{{R("A", "")}, {R("B", "")}}, Post: []Op{R("A", ""), R("B", "")}},
		{Name: "two-stores-explicit-id-of-the-other", Init: map[string][]string{"A": {"A1"}, "B": {"B1"}},
			Threads: [][]Op{{R("A", "B1")}, {R("B", "B1")}}, Post: []Op{R("A", "B1"), R("B", "B1")}},
		{Name: "explicit-id-while-it-is-written", Init: map[string][]string{"A": {"A1"}},
			Threads: [][]Op{{R("A", "A2")}, {W("A", "A2")}}, Post: []Op{R("A", "A2"), R("A", "")}},
		{Name: "first-model-of-a-store", Init: map[string][]string{"B": {"B1"}},
			Threads: [][]Op{{R("A", "")}, {W("A", "A1"), R("A", "")}}, Post: []Op{R("A", "")}},
		{Name: "three-threads-two-stores", Init: map[string][]string{"A": {"A1"}, "B": {"B1"}},
			Threads: [][]Op{{R("A", "")}, {R("B", "")}, {R("A", "B1")}}, Post: []Op{R("A", "B1")}},
		{Name: "write-in-other-store", Init: map[string][]string{"A": {"A1"}, "B": {"B1"}},
			Threads: [][]Op{{R("A", "")}, {W("B", "B2"), R("B", "")}, {R("B", "")}}, Post: []Op{R("A", ""), R("B", "")}},
	}
	if thorough {
		ps = append(ps,
			Params{Name: "two-writes-three-readers", Init: map[string][]string{"A": {"A1"}},
				Threads: [][]Op{{R("A", "")}, {W("A", "A2"), R("A", "")}, {R("A", ""), R("A", "A2")}}, Post: []Op{R("A", "")}},
			Params{Name: "four-threads-two-stores", Init: map[string][]string{"A": {"A1"}, "B": {"B1"}},
				Threads: [][]Op{{R("A", "")}, {R("B", "")}, {R("A", "B1")}, {R("B", "A1")}}, Post: []Op{R("A", "B1"), R("B", "A1")}},
		)
	}
	var out []e1.Scenario
	for _, p := range ps {
		if prop == "C16" && len(p.Init) < 2 {
			continue
		}
		out = append(out, scenario(p))
	}
	return out
}

// Relevant: which verdicts belong to the property (staleness within one store is C17's, not C16's).
func Relevant(prop, signature string) bool {
	if prop == "C16" {
		return strings.Contains(signature, "another-store") || !strings.HasPrefix(signature, "resolver/not-the-latest") && !strings.HasPrefix(signature, "resolver/existing-model-not-found")
	}
	return true
}

func Budget(thorough bool) e1.Budget {
	// the caches inside the chain (theine) are not visible objects: no state-key pruning
	b := e1.Budget{Bounds: []int{0, 1, 2, 3, -1}, Required: 2, Prune: false, Elide: true, PerScen: 45 * time.Second, DevBounds: []int{1, 2}, DevRequired: 1, DevPerScen: 6 * time.Second}
	if thorough {
		b.PerScen = 10 * time.Minute
		b.Required = 3
	}
	return b
}
