// Package c07 decides C07 "BatchCheck is equivalent to individual Checks".
package c07

import (
	"fmt"
	"sort"
	"strings"

	"github.com/openfga/openfga/internal/verifh/c04/kit"
	"github.com/openfga/openfga/internal/verifh/core"
	"github.com/openfga/openfga/internal/verifh/e2"
	"github.com/openfga/openfga/internal/verifh/ref"
	"github.com/openfga/openfga/pkg/server"
)

type Config struct {
	Name  string `json:"name"`
	Conc  uint32 `json:"max_concurrent_checks"` // 0 = server default
	Cache bool   `json:"query_cache"`
}

func configs() []Config {
	return []Config{{"conc=default,cache=off", 0, false}, {"conc=1,cache=off", 1, false}, {"conc=default,cache=on", 0, true}, {"conc=1,cache=on", 1, true}}
}

func (c Config) opts() []server.OpenFGAServiceV1Option {
	o := []server.OpenFGAServiceV1Option{server.WithRequestTimeout(0), server.WithMaxChecksPerBatchCheck(10000)}
	if c.Conc > 0 {
		o = append(o, server.WithMaxConcurrentChecksPerBatchCheck(c.Conc))
	}
	if c.Cache {
		o = append(o, server.WithCheckQueryCacheEnabled(true))
	}
	return o
}

// Batch is one submitted batch with the standalone outcomes of its items.
type Batch struct {
	Kind  string     `json:"kind"` // single | duplicate | context-only | contextual-only | condition-context-only | world | triple
	Items []kit.Item `json:"items"`
	Want  []string   `json:"standalone"`
}

type Case struct {
	Config    Config     `json:"config"`
	World     *ref.World `json:"world"`
	Batch     Batch      `json:"batch"`
	Got       string     `json:"got"`
	BatchRuns []string   `json:"batch_runs,omitempty"`
	AloneRuns []string   `json:"standalone_runs,omitempty"`
}

func standalone(env *e2.Env, it kit.Item) string {
	return env.Check(it.Obj, it.Rel, it.Subject, it.ReqCtx, it.Ctx).V
}

// render gives the batch response as "id=V id=V ..." sorted by id (exactly the ids the server reported).
func render(env *e2.Env, b Batch) string {
	res, _, err := kit.BatchCheck(env, b.Items)
	if err != nil {
		return "REQUEST-ERR(" + e2.ErrOutcome(err).Code + ")"
	}
	var ks []string
	for id, o := range res {
		ks = append(ks, id+"="+o.V)
	}
	sort.Strings(ks)
	return strings.Join(ks, " ")
}

func expected(b Batch, want []string) string {
	var ks []string
	for i, it := range b.Items {
		ks = append(ks, it.ID+"="+want[i])
	}
	sort.Strings(ks)
	return strings.Join(ks, " ")
}

func keysOf(m map[string]int) []string {
	var ks []string
	for k, n := range m {
		ks = append(ks, fmt.Sprintf("[%s] x%d", k, n))
	}
	sort.Strings(ks)
	return ks
}

// settle: same rule as C04 (value seen in >= 4 of 6 runs of one side, never on the other side; 24 more
// observations of the other side when any side was nondeterministic).
func settle(a, b map[string]int, moreA, moreB func(n int)) bool {
	try := func(x, y map[string]int, moreY func(n int)) bool {
		for v, n := range x {
			if n >= 4 && y[v] == 0 {
				if len(x) > 1 || len(y) > 1 {
					moreY(24)
				}
				if y[v] == 0 {
					return true
				}
			}
		}
		return false
	}
	return try(a, b, moreB) || try(b, a, moreA)
}

func classify(b Batch, got string) string {
	if strings.HasPrefix(got, "REQUEST-ERR") {
		return "request-rejected"
	}
	gm := map[string]string{}
	for _, f := range strings.Fields(got) {
		if i := strings.IndexByte(f, '='); i > 0 {
			gm[f[:i]] = f[i+1:]
		}
	}
	for _, it := range b.Items {
		if _, ok := gm[it.ID]; !ok {
			return "correlation-id-missing"
		}
	}
	if len(gm) != len(b.Items) {
		return "correlation-id-extra"
	}
	for i, it := range b.Items {
		if gm[it.ID] != b.Want[i] {
			// answered from a sibling item?
			for j := range b.Items {
				if j != i && b.Want[j] == gm[it.ID] {
					return fmt.Sprintf("item=%s standalone=%s (a sibling item's answer)", gm[it.ID], b.Want[i])
				}
			}
			return fmt.Sprintf("item=%s standalone=%s", gm[it.ID], b.Want[i])
		}
	}
	return "?"
}

func run(r *core.Report, env *e2.Env, cfg Config, w *ref.World, b Batch, pre ...string) {
	r.Eval(1)
	r.Count("batches_"+b.Kind, 1)
	nt := false
	for i := range b.Want {
		if b.Want[i] != "F" || (i > 0 && b.Want[i] != b.Want[0]) {
			nt = true
		}
	}
	if nt && b.Kind != "world" || b.Kind == "world" && len(b.Items) > 1 {
		var parts []string
		for _, it := range b.Items {
			parts = append(parts, it.Content())
		}
		r.Nontrivial(core.Hash(cfg.Name, w.M.String(), e2.TuplesStr(w.Tuples), b.Kind, strings.Join(parts, "|")))
	}
	want := expected(b, b.Want)
	var got string
	if len(pre) > 0 {
		got = pre[0]
	} else {
		got = render(env, b)
	}
	if got == want {
		return
	}
	// re-execute both sides
	bset := map[string]int{got: 1}
	aset := map[string]int{want: 1}
	moreB := func(n int) {
		for k := 0; k < n; k++ {
			bset[render(env, b)]++
		}
	}
	moreA := func(n int) {
		for k := 0; k < n; k++ {
			ws := make([]string, len(b.Items))
			for i, it := range b.Items {
				ws[i] = standalone(env, it)
			}
			aset[expected(b, ws)]++
		}
	}
	moreB(5)
	moreA(5)
	c := Case{Config: cfg, World: w, Batch: b, Got: got}
	ok := settle(bset, aset, moreB, moreA)
	if len(b.Items) > 12 {
		// big batch: keep only the entries that differ from the first standalone rendering
		bset, aset = compact(bset, want), compact(aset, want)
		c.Got = "(entries differing from standalone) " + diffOnly(got, want)
	}
	c.BatchRuns, c.AloneRuns = keysOf(bset), keysOf(aset)
	if len(b.Items) > 12 {
		c.Batch.Items, c.Batch.Want = trim(b, got)
	}
	if !ok {
		r.Anomaly(c)
		return
	}
	sig := "batchcheck/" + b.Kind + ": " + classify(b, got)
	var parts []string
	for i, it := range c.Batch.Items {
		parts = append(parts, it.ID+":"+it.Content()+" standalone="+c.Batch.Want[i])
	}
	r.Violate(sig, fmt.Sprintf("[%s] batch{%s} -> %v ; standalone -> %v ; stored{%s} model{%s}", cfg.Name, strings.Join(parts, " ; "), c.BatchRuns, c.AloneRuns, e2.TuplesStr(w.Tuples), w.M), c)
}

func diffOnly(s, ref string) string {
	rm := map[string]bool{}
	for _, f := range strings.Fields(ref) {
		rm[f] = true
	}
	var d []string
	for _, f := range strings.Fields(s) {
		if !rm[f] {
			d = append(d, f)
		}
	}
	return strings.Join(d, " ")
}

func compact(m map[string]int, ref string) map[string]int {
	out := map[string]int{}
	for k, n := range m {
		out["differs from first standalone run in: "+diffOnly(k, ref)] += n
	}
	return out
}

// trim keeps the deviating items (and one sibling with the answer they received) of a big batch for the report.
func trim(b Batch, got string) ([]kit.Item, []string) {
	gm := map[string]string{}
	for _, f := range strings.Fields(got) {
		if i := strings.IndexByte(f, '='); i > 0 {
			gm[f[:i]] = f[i+1:]
		}
	}
	var items []kit.Item
	var want []string
	for i, it := range b.Items {
		if gm[it.ID] != b.Want[i] && len(items) < 6 {
			items = append(items, it)
			want = append(want, b.Want[i])
		}
	}
	return items, want
}

func sameTuples(a, b []ref.Tuple) bool { return e2.TuplesStr(a) == e2.TuplesStr(b) }

// condVariant: same tuple key and condition name, different stored condition context.
func condVariant(a, b []ref.Tuple) bool {
	if len(a) != 1 || len(b) != 1 {
		return false
	}
	return a[0].Key() == b[0].Key() && a[0].Cond != "" && a[0].Cond == b[0].Cond && a[0].String() != b[0].String()
}

func Run(o *core.Options) int {
	r := core.NewReport(o, "exploration",
		"every configuration (max concurrent checks per batch in {1, default} x query cache off/on) x selected models x stored tuple sets |T|<=2 x item space = (object,relation,subject) x request contexts {none,1,20 when a condition is involved} x contextual tuple sets |C|<=1 (quick: |T|+|C|<=2). Batches per world: every item alone; every item twice under two correlation ids; every pair of items that differ ONLY in the request context (both orders when the standalone outcomes differ); every pair that differs ONLY in the contextual tuples and whose standalone outcomes differ (with equal outcomes answering one from the other is unobservable); every pair that differs only in the condition context of the contextual tuple; one batch with all items of the world (thorough: triples item+duplicate+differing sibling). Oracle: the result map has exactly the submitted correlation ids and every outcome class (T/F/ERR; BatchCheck item errors and Check gRPC errors both map to ERR) equals the standalone Server.Check of the same item on the same server and store. non-trivial = batch with a non-F outcome or with two different outcomes; distinct by (configuration, model, stored tuples, batch content)")
	r.Assume("memory datastore; default (classic) check engine", "universe 2 users/2 groups/2 docs; rewrites of depth<=1; one condition cx(x:int):=x<10",
		"quick: items address doc:1 / group:1 (the universe is symmetric under renaming the two docs / groups and tuples range over both)",
		"with the query cache on every stored tuple set gets a fresh store (cache entries are per store); standalone Checks run before the batches in even worlds and after them in odd worlds, so batches see cold and warm caches",
		"a deviation is re-executed 5x on both sides; verdict iff a response was seen in >=4 of 6 batch runs and never among the standalone runs (or vice versa)")
	if o.Replay != "" {
		return replay(o, r)
	}
	perCfg, limit := 2, 8
	if o.Thorough() {
		perCfg, limit = 0, 48
	}
	models, total := kit.Models(o, limit)
	r.Set("model_classes_total", total)
	r.Set("models_selected", len(models))
	u := ref.DefaultUniverse()
	nodes := []e2.Node{{Obj: "doc:1", Rel: "r0"}, {Obj: "doc:1", Rel: "r1"}, {Obj: "group:1", Rel: "member"}}
	if o.Thorough() {
		nodes = e2.RequestNodes(u)
	}
	for ci, cfg := range configs() {
		cfg := cfg
		ms := models
		if perCfg > 0 {
			// quick: each configuration gets its own slice of the selection (full product in thorough)
			ms = nil
			for i := ci; i < len(models); i += len(configs()) {
				ms = append(ms, models[i])
			}
		}
		r.Count("model_runs", int64(len(ms)))
		kit.Sweep(r, ms, kit.SweepOpts{K: 2, ServerOpts: cfg.opts(), FreshStore: cfg.Cache}, func(env *e2.Env, w *ref.World) {
			pool := ref.RelevantPool(w.M, u)
			cs := [][]ref.Tuple{nil}
			if len(w.Tuples) < 2 || o.Thorough() {
				for _, t := range pool {
					clash := false
					for _, x := range w.Tuples {
						if x.Key() == t.Key() {
							clash = true
						}
					}
					if !clash {
						cs = append(cs, []ref.Tuple{t})
					}
				}
			}
			// item space
			var items []kit.Item
			for _, c := range cs {
				for _, rc := range kit.Contexts(w.Tuples, c) {
					for _, n := range nodes {
						for _, s := range e2.Subjects {
							if e2.ValidRequest(w.M, n.Obj, n.Rel, s) {
								items = append(items, kit.Item{ID: fmt.Sprint(len(items)), Obj: n.Obj, Rel: n.Rel, Subject: s, ReqCtx: rc, Ctx: c})
							}
						}
					}
				}
			}
			want := make([]string, len(items))
			standaloneFirst := (len(w.Tuples)+len(e2.TuplesStr(w.Tuples)))%2 == 0
			world := Batch{Kind: "world", Items: items, Want: want}
			if len(items) == 0 {
				return
			}
			if standaloneFirst {
				for i, it := range items {
					want[i] = standalone(env, it)
				}
				run(r, env, cfg, w, world)
			} else {
				// batch first (cold cache), expectation filled in afterwards
				got := render(env, world)
				for i, it := range items {
					want[i] = standalone(env, it)
				}
				run(r, env, cfg, w, world, got)
				r.Count("worlds_batch_first", 1)
			}
			r.Count("items", int64(len(items)))
			if len(items) > 0 && len(w.Tuples) == 1 {
				r.Sample(map[string]any{"config": cfg.Name, "model": w.M.String(), "stored": e2.TuplesStr(w.Tuples), "items_in_world": len(items), "example_item": items[len(items)/2].Content(), "standalone": want[len(items)/2]})
			}
			for i, it := range items {
				run(r, env, cfg, w, Batch{Kind: "single", Items: []kit.Item{it}, Want: []string{want[i]}})
				d := it
				d.ID = it.ID + "dup"
				run(r, env, cfg, w, Batch{Kind: "duplicate", Items: []kit.Item{it, d}, Want: []string{want[i], want[i]}})
			}
			// pairs: group by (object, relation, subject)
			byQ := map[string][]int{}
			for i, it := range items {
				k := it.Obj + "#" + it.Rel + "@" + it.Subject
				byQ[k] = append(byQ[k], i)
			}
			for _, idx := range byQ {
				for a := 0; a < len(idx); a++ {
					for b := a + 1; b < len(idx); b++ {
						i, j := idx[a], idx[b]
						x, y := items[i], items[j]
						sameCtx := e2.CtxStr(x.ReqCtx) == e2.CtxStr(y.ReqCtx)
						sameC := sameTuples(x.Ctx, y.Ctx)
						kind := ""
						switch {
						case sameC && !sameCtx:
							kind = "context-only"
						case sameCtx && !sameC && condVariant(x.Ctx, y.Ctx):
							kind = "condition-context-only"
						case sameCtx && !sameC && want[i] != want[j]:
							kind = "contextual-only"
						}
						if kind == "" {
							continue
						}
						run(r, env, cfg, w, Batch{Kind: kind, Items: []kit.Item{x, y}, Want: []string{want[i], want[j]}})
						if want[i] != want[j] {
							run(r, env, cfg, w, Batch{Kind: kind, Items: []kit.Item{y, x}, Want: []string{want[j], want[i]}})
						}
						if o.Thorough() {
							d := x
							d.ID = x.ID + "dup"
							run(r, env, cfg, w, Batch{Kind: "triple", Items: []kit.Item{x, y, d}, Want: []string{want[i], want[j], want[i]}})
						}
					}
				}
			}
		})
	}
	return r.Finish()
}

func replay(o *core.Options, r *core.Report) int {
	var c Case
	if err := core.LoadReplay(o.Replay, &c); err != nil {
		fmt.Println("replay:", err)
		return 2
	}
	env, err := e2.NewEnv(c.World.M, c.Config.opts()...)
	if err != nil {
		fmt.Println("model rejected:", err)
		return 2
	}
	defer env.Close()
	if err := env.Write(c.World.Tuples, env.ModelID); err != nil {
		fmt.Println("write:", err)
		return 2
	}
	for i, it := range c.Batch.Items {
		c.Batch.Want[i] = standalone(env, it)
	}
	fmt.Printf("replay: batch -> [%s] ; standalone -> [%s]\n", render(env, c.Batch), expected(c.Batch, c.Batch.Want))
	run(r, env, c.Config, c.World, c.Batch)
	return r.Finish()
}
