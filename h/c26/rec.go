package c26

import (
	"context"
	"errors"
	"sync"

	openfgav1 "github.com/openfga/api/proto/openfga/v1"

	"github.com/openfga/openfga/pkg/storage"
)

// Call is one datastore call seen at the seam below the server.
type Call struct {
	Method string `json:"m"`
	Store  string `json:"s"` // store id ("" for ListStores / CreateStore of a new id)
	Class  string `json:"c"` // tuples | models | assertions | changes | store | stores
}

// Fault describes an injected failure of reads on the access-control store.
// Mode "": none. "once": only the K-th call on the access-control store fails.
// "from": the K-th and every later call fails (store unreachable from then on).
type Fault struct {
	Mode string `json:"mode,omitempty"`
	K    int    `json:"k,omitempty"`
}

var errInjected = errors.New("c26: injected access-control store failure")

// rec wraps a datastore WITHOUT embedding it: every method of storage.OpenFGADatastore is written out,
// so a method added to the interface later breaks the harness build instead of bypassing the recorder.
type rec struct {
	in      storage.OpenFGADatastore
	acStore string

	mu      sync.Mutex
	armed   bool
	calls   []Call
	acCalls int
	fault   Fault
	fired   int
}

var _ storage.OpenFGADatastore = (*rec)(nil)

func (r *rec) arm(f Fault) {
	r.mu.Lock()
	r.armed, r.calls, r.acCalls, r.fault, r.fired = true, nil, 0, f, 0
	r.mu.Unlock()
}

// snapshot disarms and returns what was seen since arm.
func (r *rec) snapshot() (calls []Call, acCalls, fired int) {
	r.mu.Lock()
	defer r.mu.Unlock()
	r.armed = false
	return append([]Call(nil), r.calls...), r.acCalls, r.fired
}

// note records the call and tells whether it must fail.
func (r *rec) note(method, store, class string) error {
	r.mu.Lock()
	defer r.mu.Unlock()
	if !r.armed {
		return nil
	}
	r.calls = append(r.calls, Call{method, store, class})
	if store == r.acStore {
		r.acCalls++
		switch r.fault.Mode {
		case "once":
			if r.acCalls == r.fault.K {
				r.fired++
				return errInjected
			}
		case "from":
			if r.acCalls >= r.fault.K {
				r.fired++
				return errInjected
			}
		}
	}
	return nil
}

func (r *rec) Read(ctx context.Context, store string, f storage.ReadFilter, o storage.ReadOptions) (storage.TupleIterator, error) {
	if err := r.note("Read", store, "tuples"); err != nil {
		return nil, err
	}
	return r.in.Read(ctx, store, f, o)
}

func (r *rec) ReadPage(ctx context.Context, store string, f storage.ReadFilter, o storage.ReadPageOptions) ([]*openfgav1.Tuple, string, error) {
	if err := r.note("ReadPage", store, "tuples"); err != nil {
		return nil, "", err
	}
	return r.in.ReadPage(ctx, store, f, o)
}

func (r *rec) ReadUserTuple(ctx context.Context, store string, f storage.ReadUserTupleFilter, o storage.ReadUserTupleOptions) (*openfgav1.Tuple, error) {
	if err := r.note("ReadUserTuple", store, "tuples"); err != nil {
		return nil, err
	}
	return r.in.ReadUserTuple(ctx, store, f, o)
}

func (r *rec) ReadUsersetTuples(ctx context.Context, store string, f storage.ReadUsersetTuplesFilter, o storage.ReadUsersetTuplesOptions) (storage.TupleIterator, error) {
	if err := r.note("ReadUsersetTuples", store, "tuples"); err != nil {
		return nil, err
	}
	return r.in.ReadUsersetTuples(ctx, store, f, o)
}

func (r *rec) ReadStartingWithUser(ctx context.Context, store string, f storage.ReadStartingWithUserFilter, o storage.ReadStartingWithUserOptions) (storage.TupleIterator, error) {
	if err := r.note("ReadStartingWithUser", store, "tuples"); err != nil {
		return nil, err
	}
	return r.in.ReadStartingWithUser(ctx, store, f, o)
}

func (r *rec) Write(ctx context.Context, store string, d storage.Deletes, w storage.Writes, opts ...storage.TupleWriteOption) error {
	if err := r.note("Write", store, "tuples"); err != nil {
		return err
	}
	return r.in.Write(ctx, store, d, w, opts...)
}

func (r *rec) MaxTuplesPerWrite() int { return r.in.MaxTuplesPerWrite() }

func (r *rec) ReadAuthorizationModel(ctx context.Context, store string, id string) (*openfgav1.AuthorizationModel, error) {
	if err := r.note("ReadAuthorizationModel", store, "models"); err != nil {
		return nil, err
	}
	return r.in.ReadAuthorizationModel(ctx, store, id)
}

func (r *rec) ReadAuthorizationModels(ctx context.Context, store string, o storage.ReadAuthorizationModelsOptions) ([]*openfgav1.AuthorizationModel, string, error) {
	if err := r.note("ReadAuthorizationModels", store, "models"); err != nil {
		return nil, "", err
	}
	return r.in.ReadAuthorizationModels(ctx, store, o)
}

func (r *rec) FindLatestAuthorizationModel(ctx context.Context, store string) (*openfgav1.AuthorizationModel, error) {
	if err := r.note("FindLatestAuthorizationModel", store, "models"); err != nil {
		return nil, err
	}
	return r.in.FindLatestAuthorizationModel(ctx, store)
}

func (r *rec) MaxTypesPerAuthorizationModel() int { return r.in.MaxTypesPerAuthorizationModel() }

func (r *rec) WriteAuthorizationModel(ctx context.Context, store string, m *openfgav1.AuthorizationModel) error {
	if err := r.note("WriteAuthorizationModel", store, "models"); err != nil {
		return err
	}
	return r.in.WriteAuthorizationModel(ctx, store, m)
}

func (r *rec) CreateStore(ctx context.Context, s *openfgav1.Store) (*openfgav1.Store, error) {
	if err := r.note("CreateStore", "", "stores"); err != nil {
		return nil, err
	}
	return r.in.CreateStore(ctx, s)
}

func (r *rec) DeleteStore(ctx context.Context, id string) error {
	if err := r.note("DeleteStore", id, "store"); err != nil {
		return err
	}
	return r.in.DeleteStore(ctx, id)
}

func (r *rec) GetStore(ctx context.Context, id string) (*openfgav1.Store, error) {
	if err := r.note("GetStore", id, "store"); err != nil {
		return nil, err
	}
	return r.in.GetStore(ctx, id)
}

func (r *rec) ListStores(ctx context.Context, o storage.ListStoresOptions) ([]*openfgav1.Store, string, error) {
	if err := r.note("ListStores", "", "stores"); err != nil {
		return nil, "", err
	}
	return r.in.ListStores(ctx, o)
}

func (r *rec) WriteAssertions(ctx context.Context, store, modelID string, a []*openfgav1.Assertion) error {
	if err := r.note("WriteAssertions", store, "assertions"); err != nil {
		return err
	}
	return r.in.WriteAssertions(ctx, store, modelID, a)
}

func (r *rec) ReadAssertions(ctx context.Context, store, modelID string) ([]*openfgav1.Assertion, error) {
	if err := r.note("ReadAssertions", store, "assertions"); err != nil {
		return nil, err
	}
	return r.in.ReadAssertions(ctx, store, modelID)
}

func (r *rec) ReadChanges(ctx context.Context, store string, f storage.ReadChangesFilter, o storage.ReadChangesOptions) ([]*openfgav1.TupleChange, string, error) {
	if err := r.note("ReadChanges", store, "changes"); err != nil {
		return nil, "", err
	}
	return r.in.ReadChanges(ctx, store, f, o)
}

func (r *rec) IsReady(ctx context.Context) (storage.ReadinessStatus, error) { return r.in.IsReady(ctx) }

func (r *rec) Close() { r.in.Close() }
