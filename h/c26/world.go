package c26

import (
	"context"
	"fmt"
	"strings"

	openfgav1 "github.com/openfga/api/proto/openfga/v1"
	parser "github.com/openfga/language/pkg/go/transformer"
	"google.golang.org/protobuf/proto"

	"github.com/openfga/openfga/pkg/authclaims"
	"github.com/openfga/openfga/pkg/logger"
	"github.com/openfga/openfga/pkg/server"
	"github.com/openfga/openfga/pkg/storage"
	"github.com/openfga/openfga/pkg/storage/memory"
	"github.com/openfga/openfga/pkg/tuple"
	"github.com/openfga/openfga/pkg/typesystem"
)

// The access-control model (the one documented for the experimental access-control feature; the
// repository carries it in pkg/server/server_authz_test.go). It is configuration of THIS harness:
// the reference in oracle.go transcribes it by hand.
const acModelDSL = `
model
  schema 1.1
type system
  relations
    define can_call_create_stores: [application, application:*] or admin
    define can_call_list_stores: [application, application:*] or admin
    define admin: [application]
type application
type module
  relations
    define can_call_write: [application] or writer or writer from store
    define store: [store]
    define writer: [application]
type store
  relations
    define system: [system]
    define creator: [application]
    define can_call_delete_store: [application] or admin
    define can_call_get_store: [application] or admin
    define can_call_check: [application] or reader
    define can_call_expand: [application] or reader
    define can_call_list_objects: [application] or reader
    define can_call_list_users: [application] or reader
    define can_call_read: [application] or reader
    define can_call_read_assertions: [application] or reader or model_writer
    define can_call_read_authorization_models: [application] or reader or model_writer
    define can_call_read_changes: [application] or reader
    define can_call_write: [application] or writer
    define can_call_write_assertions: [application] or model_writer
    define can_call_write_authorization_models: [application] or model_writer
    define model_writer: [application] or admin
    define reader: [application] or admin
    define writer: [application] or admin
    define admin: [application] or creator or admin from system
`

// first model of a target store: no modules.
const targetModel1DSL = `
model
  schema 1.1
type user
type doc
  relations
    define viewer: [user]
`

// second (latest) model of a target store; modules are attached below (moduleOf is the hand-written
// table the oracle uses; attachModules must agree with it and a start-up self-test compares them).
const targetModel2DSL = `
model
  schema 1.1
type user
type doc
  relations
    define viewer: [user]
type ta
  relations
    define member: [user]
type tb
  relations
    define member: [user]
type tmix
  relations
    define ra: [user]
    define rb: [user]
`

// moduleOf: "type/relation" -> module ("" = the type has no module). Hand-written.
var moduleOf = map[string]string{
	"doc/viewer": "",
	"ta/member":  "moda",
	"tb/member":  "modb",
	"tmix/ra":    "moda", // type-level module
	"tmix/rb":    "modb", // relation-level module overrides the type's
}

func pad(prefix string, c byte) string {
	return prefix + strings.Repeat(string(c), 26-len(prefix))
}

var (
	storeR = pad("01JC26", 'R') // access-control store
	storeA = pad("01JC26", 'A')
	storeB = pad("01JC26", 'B')
	modelR = pad("01JC26MR", '0')
	model1 = pad("01JC26M1", '0')
	model2 = pad("01JC26M2", '0')

	storeNames = map[string]string{storeR: "acl-store", storeA: "store-aaa", storeB: "store-bbb"}
)

func storeLabel(id string) string {
	switch id {
	case storeR:
		return "R"
	case storeA:
		return "A"
	case storeB:
		return "B"
	case "":
		return ""
	}
	return "new:" + id
}

func storeByLabel(l string) string {
	switch l {
	case "R":
		return storeR
	case "A":
		return storeA
	case "B":
		return storeB
	}
	return ""
}

func otherTarget(id string) string {
	if id == storeA {
		return storeB
	}
	return storeA
}

var (
	protoACModel *openfgav1.AuthorizationModel
	protoModel1  *openfgav1.AuthorizationModel
	protoModel2  *openfgav1.AuthorizationModel
)

func initModels() error {
	protoACModel = parser.MustTransformDSLToProto(acModelDSL)
	protoACModel.Id = modelR
	protoModel1 = parser.MustTransformDSLToProto(targetModel1DSL)
	protoModel1.Id = model1
	protoModel2 = parser.MustTransformDSLToProto(targetModel2DSL)
	protoModel2.Id = model2
	for _, td := range protoModel2.GetTypeDefinitions() {
		switch td.GetType() {
		case "ta":
			td.Metadata.Module = "moda"
		case "tb":
			td.Metadata.Module = "modb"
		case "tmix":
			td.Metadata.Module = "moda"
			td.Metadata.Relations["rb"].Module = "modb"
		}
	}
	for _, m := range []*openfgav1.AuthorizationModel{protoACModel, protoModel1, protoModel2} {
		if _, err := typesystem.NewAndValidate(context.Background(), m); err != nil {
			return fmt.Errorf("harness model %s invalid: %w", m.GetId(), err)
		}
	}
	return nil
}

// world = one fresh memory datastore + recorder + server with access control on.
type world struct {
	raw storage.OpenFGADatastore
	rec *rec
	srv *server.Server
}

func tk(s string) *openfgav1.TupleKey {
	// "object#relation@user"
	i := strings.Index(s, "#")
	j := strings.Index(s[i:], "@") + i
	return tuple.NewTupleKey(s[:i], s[i+1:j], s[j+1:])
}

func targetSeedTuples() []*openfgav1.TupleKey {
	return []*openfgav1.TupleKey{tk("doc:1#viewer@user:u1"), tk("ta:1#member@user:u1"), tk("tb:1#member@user:u1")}
}

// newWorld builds the fixed world and writes the grant tuples into the access-control store.
// seq=true builds the server with resolve-node breadth limit 1 (union branches one at a time).
func newWorld(grants []string, seq bool) (*world, error) {
	ctx := context.Background()
	raw := memory.New()
	for _, id := range []string{storeR, storeA, storeB} {
		if _, err := raw.CreateStore(ctx, &openfgav1.Store{Id: id, Name: storeNames[id]}); err != nil {
			return nil, err
		}
	}
	if err := raw.WriteAuthorizationModel(ctx, storeR, proto.Clone(protoACModel).(*openfgav1.AuthorizationModel)); err != nil {
		return nil, err
	}
	for _, id := range []string{storeA, storeB} {
		if err := raw.WriteAuthorizationModel(ctx, id, proto.Clone(protoModel1).(*openfgav1.AuthorizationModel)); err != nil {
			return nil, err
		}
		if err := raw.WriteAuthorizationModel(ctx, id, proto.Clone(protoModel2).(*openfgav1.AuthorizationModel)); err != nil {
			return nil, err
		}
		if err := raw.Write(ctx, id, nil, targetSeedTuples()); err != nil {
			return nil, err
		}
		if err := raw.WriteAssertions(ctx, id, model2, []*openfgav1.Assertion{{
			TupleKey:    &openfgav1.AssertionTupleKey{Object: "doc:1", Relation: "viewer", User: "user:u1"},
			Expectation: true,
		}}); err != nil {
			return nil, err
		}
	}
	if len(grants) > 0 {
		var tks []*openfgav1.TupleKey
		for _, g := range grants {
			tks = append(tks, tk(g))
		}
		if err := raw.Write(ctx, storeR, nil, tks); err != nil {
			return nil, err
		}
	}
	r := &rec{in: raw, acStore: storeR}
	opts := []server.OpenFGAServiceV1Option{
		server.WithDatastore(r),
		server.WithLogger(logger.NewNoopLogger()),
		server.WithExperimentals("enable-access-control", "authzen"),
		server.WithAccessControlParams(true, storeR, modelR, "oidc"),
		server.WithAuthzenBaseURL("https://pdp.example"),
	}
	if seq {
		opts = append(opts, server.WithResolveNodeBreadthLimit(1))
	}
	srv, err := server.NewServerWithOpts(opts...)
	if err != nil {
		raw.Close()
		return nil, err
	}
	if !srv.IsAccessControlEnabled() {
		srv.Close()
		raw.Close()
		return nil, fmt.Errorf("access control is not enabled on the harness server")
	}
	return &world{raw: raw, rec: r, srv: srv}, nil
}

func (w *world) close() {
	w.srv.Close()
	w.raw.Close()
}

// caller contexts.
func callerCtx(caller string) context.Context {
	ctx := context.Background()
	switch caller {
	case "none":
		return ctx
	case "empty":
		// authenticated subject, but no client id: not an identity for access control
		return authclaims.ContextWithAuthClaims(ctx, &authclaims.AuthClaims{Subject: "x", ClientID: ""})
	case "x", "y":
		return authclaims.ContextWithAuthClaims(ctx, &authclaims.AuthClaims{Subject: "sub-" + caller, ClientID: caller})
	case "skip":
		// harness self-test only: the server's internal "authorization already done" marker
		return authclaims.ContextWithSkipAuthzCheck(ctx, true)
	}
	panic("unknown caller " + caller)
}
