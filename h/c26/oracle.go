package c26

import (
	"sort"
	"strings"
)

// ---------------------------------------------------------------------------------------------
// Reference. Written from the property statement and from the documented relation-per-method
// table, NOT by calling internal/authz. Anything here that disagrees with the code is a finding
// (or a harness bug to be fixed here), never something to paper over.
// ---------------------------------------------------------------------------------------------

// relationOf: API method -> relation the caller needs. Hand transcription of the documented table.
// Store-scoped methods need it on store:<id>, the two system methods on system:fga.
var relationOf = map[string]string{
	"openfga.v1.OpenFGAService/Read":                    "can_call_read",
	"openfga.v1.OpenFGAService/Write":                   "can_call_write",
	"openfga.v1.OpenFGAService/Check":                   "can_call_check",
	"openfga.v1.OpenFGAService/BatchCheck":              "can_call_check",
	"openfga.v1.OpenFGAService/Expand":                  "can_call_expand",
	"openfga.v1.OpenFGAService/ReadAuthorizationModels": "can_call_read_authorization_models",
	"openfga.v1.OpenFGAService/ReadAuthorizationModel":  "can_call_read_authorization_models",
	"openfga.v1.OpenFGAService/WriteAuthorizationModel": "can_call_write_authorization_models",
	"openfga.v1.OpenFGAService/WriteAssertions":         "can_call_write_assertions",
	"openfga.v1.OpenFGAService/ReadAssertions":          "can_call_read_assertions",
	"openfga.v1.OpenFGAService/ReadChanges":             "can_call_read_changes",
	"openfga.v1.OpenFGAService/CreateStore":             "can_call_create_stores", // system level
	"openfga.v1.OpenFGAService/DeleteStore":             "can_call_delete_store",
	"openfga.v1.OpenFGAService/GetStore":                "can_call_get_store",
	"openfga.v1.OpenFGAService/ListStores":              "can_call_list_stores", // system level
	"openfga.v1.OpenFGAService/ListObjects":             "can_call_list_objects",
	"openfga.v1.OpenFGAService/StreamedListObjects":     "can_call_list_objects",
	"openfga.v1.OpenFGAService/ListUsers":               "can_call_list_users",
	// AuthZEN endpoints are front ends of Check / BatchCheck / ListUsers / StreamedListObjects
	"authzen.v1.AuthZenService/Evaluation":     "can_call_check",
	"authzen.v1.AuthZenService/Evaluations":    "can_call_check",
	"authzen.v1.AuthZenService/ActionSearch":   "can_call_check",
	"authzen.v1.AuthZenService/SubjectSearch":  "can_call_list_users",
	"authzen.v1.AuthZenService/ResourceSearch": "can_call_list_objects",
}

// every store-level can_call relation of the access-control model
var storeRelations = []string{
	"can_call_check", "can_call_delete_store", "can_call_expand", "can_call_get_store", "can_call_list_objects",
	"can_call_list_users", "can_call_read", "can_call_read_assertions", "can_call_read_authorization_models",
	"can_call_read_changes", "can_call_write", "can_call_write_assertions", "can_call_write_authorization_models",
}

var storeRoles = []string{"reader", "writer", "model_writer", "admin", "creator"}

// a "neighbouring" relation: the one most likely to be confused with the right one
var otherOf = map[string]string{
	"can_call_check":                      "can_call_expand",
	"can_call_expand":                     "can_call_check",
	"can_call_read":                       "can_call_read_changes",
	"can_call_read_changes":               "can_call_read",
	"can_call_list_objects":               "can_call_list_users",
	"can_call_list_users":                 "can_call_list_objects",
	"can_call_read_assertions":            "can_call_write_assertions",
	"can_call_write_assertions":           "can_call_read_assertions",
	"can_call_read_authorization_models":  "can_call_write_authorization_models",
	"can_call_write_authorization_models": "can_call_read_authorization_models",
	"can_call_get_store":                  "can_call_delete_store",
	"can_call_delete_store":               "can_call_get_store",
	"can_call_write":                      "can_call_write_authorization_models",
}

// grantSet = tuples stored in the access-control store, as "object#relation@user".
type grantSet map[string]bool

func newGrantSet(gs []string) grantSet {
	m := grantSet{}
	for _, g := range gs {
		m[g] = true
	}
	return m
}

func (g grantSet) direct(object, relation, client string) bool {
	return g[object+"#"+relation+"@application:"+client]
}

// hasIdentity: only a non-empty client id is an identity.
func hasIdentity(caller string) bool { return caller == "x" || caller == "y" }

func (g grantSet) sysAdmin(c string) bool { return g.direct("system:fga", "admin", c) }

// storeAdmin: admin: [application] or creator or admin from system. Every store belongs to system:fga
// (the documented meaning of a system administrator), viaSystem=false leaves that implicit link out.
func (g grantSet) storeAdmin(s, c string, viaSystem bool) bool {
	return g.direct("store:"+s, "admin", c) || g.direct("store:"+s, "creator", c) || (viaSystem && g.sysAdmin(c))
}

func (g grantSet) storeRole(s, role, c string, viaSystem bool) bool {
	return g.direct("store:"+s, role, c) || g.storeAdmin(s, c, viaSystem)
}

// storeCan: does the access-control store grant client c the relation rel on store s.
func (g grantSet) storeCan(s, rel, c string, viaSystem bool) bool {
	if g.direct("store:"+s, rel, c) {
		return true
	}
	switch rel {
	case "can_call_delete_store", "can_call_get_store":
		return g.storeAdmin(s, c, viaSystem)
	case "can_call_check", "can_call_expand", "can_call_list_objects", "can_call_list_users", "can_call_read", "can_call_read_changes":
		return g.storeRole(s, "reader", c, viaSystem)
	case "can_call_read_assertions", "can_call_read_authorization_models":
		return g.storeRole(s, "reader", c, viaSystem) || g.storeRole(s, "model_writer", c, viaSystem)
	case "can_call_write":
		return g.storeRole(s, "writer", c, viaSystem)
	case "can_call_write_assertions", "can_call_write_authorization_models":
		return g.storeRole(s, "model_writer", c, viaSystem)
	}
	return false
}

// moduleCan: can_call_write on module:<store>|<module>: [application] or writer or writer from store.
func (g grantSet) moduleCan(s, module, c string) bool {
	obj := "module:" + s + "|" + module
	return g.direct(obj, "can_call_write", c) || g.direct(obj, "writer", c) || g.storeRole(s, "writer", c, true)
}

// systemCan: can_call_create_stores / can_call_list_stores: [application, application:*] or admin.
func (g grantSet) systemCan(rel, c string) bool {
	return g.direct("system:fga", rel, c) || g["system:fga#"+rel+"@application:*"] || g.sysAdmin(c)
}

// Span of a Write request: modules of the touched (type, relation) pairs by the hand-written table.
type Span struct {
	Modules    []string `json:"modules"`   // distinct, sorted
	Unmoduled  bool     `json:"unmoduled"` // some touched type/relation has no module
	TuplePairs []string `json:"type_rels"` // "type/relation" of every write and delete
	// cell of the {writes half} x {deletes half} product (methods.go writeHalfProduct); "" for hand-written shapes
	Writes  string `json:"writes_half,omitempty"`
	Deletes string `json:"deletes_half,omitempty"`
}

func spanOf(typeRels []string) Span {
	sp := Span{TuplePairs: typeRels}
	seen := map[string]bool{}
	for _, tr := range typeRels {
		m, ok := moduleOf[tr]
		if !ok {
			panic("c26: type/relation not in the hand-written module table: " + tr)
		}
		if m == "" {
			sp.Unmoduled = true
		} else if !seen[m] {
			seen[m] = true
			sp.Modules = append(sp.Modules, m)
		}
	}
	sort.Strings(sp.Modules)
	return sp
}

// expectStoreScoped: the grant rule of the statement.
//   - no identity: denied.
//   - the relation for the method on THAT store: allowed.
//   - Write only: a request confined to exactly one module (every touched type/relation carries that
//     module) is also allowed by the relation on that module. A request spanning two modules, or touching
//     anything without a module, needs the store-level relation. "Touched" ranges over the tuples of BOTH
//     halves of the request (writes and deletes) together: a module-less tuple in one half is not redeemed
//     by the other half lying in a module, and two halves in different modules are a two-module request.
func expectStoreScoped(g grantSet, caller, store, rel string, span *Span) bool {
	if !hasIdentity(caller) {
		return false
	}
	if g.storeCan(store, rel, caller, true) {
		return true
	}
	if span != nil && !span.Unmoduled && len(span.Modules) == 1 {
		return g.moduleCan(store, span.Modules[0], caller)
	}
	return false
}

func expectSystem(g grantSet, caller, rel string) bool {
	return hasIdentity(caller) && g.systemCan(rel, caller)
}

// mayGet: stores on which GetStore would be authorized for the caller.
func mayGet(g grantSet, caller string, stores []string, viaSystem bool) []string {
	var out []string
	for _, s := range stores {
		if hasIdentity(caller) && g.storeCan(s, "can_call_get_store", caller, viaSystem) {
			out = append(out, s)
		}
	}
	sort.Strings(out)
	return out
}

func subset(a, b []string) bool {
	m := map[string]bool{}
	for _, x := range b {
		m[x] = true
	}
	for _, x := range a {
		if !m[x] {
			return false
		}
	}
	return true
}

func labels(ids []string) string {
	var l []string
	for _, id := range ids {
		l = append(l, storeLabel(id))
	}
	sort.Strings(l)
	return "[" + strings.Join(l, ",") + "]"
}
