package c26

import (
	"context"
	"fmt"
	"reflect"
	"sort"
	"strings"

	authzenv1 "github.com/openfga/api/proto/authzen/v1"
	openfgav1 "github.com/openfga/api/proto/openfga/v1"
	"google.golang.org/grpc"
	"google.golang.org/grpc/codes"
	"google.golang.org/grpc/metadata"
	"google.golang.org/grpc/status"
	"google.golang.org/protobuf/types/known/wrapperspb"

	"github.com/openfga/openfga/pkg/server"
)

// Outcome of one RPC as the caller sees it.
type Outcome struct {
	Kind   string   `json:"kind"` // ok | forbidden | other | mixed (AuthZEN Evaluations: some items forbidden, some authorized)
	Code   int      `json:"code,omitempty"`
	Msg    string   `json:"msg,omitempty"`
	Stores []string `json:"stores,omitempty"` // ListStores: ids returned (all pages)
}

// the API's "forbidden" error code (openfgav1.AuthErrorCode_forbidden = 1600), HTTP 403
const forbiddenCode = codes.Code(openfgav1.AuthErrorCode_forbidden)

// the documented message of that error
const forbiddenMessage = "the principal is not authorized to perform the action"

func classify(err error) Outcome {
	if err == nil {
		return Outcome{Kind: "ok"}
	}
	st, _ := status.FromError(err)
	if st != nil && st.Code() == forbiddenCode {
		return Outcome{Kind: "forbidden", Code: int(st.Code()), Msg: st.Message()}
	}
	if st != nil {
		return Outcome{Kind: "other", Code: int(st.Code()), Msg: st.Message()}
	}
	return Outcome{Kind: "other", Code: -1, Msg: err.Error()}
}

const (
	kindStore         = "store"         // store-scoped, needs relationOf[method] on the store
	kindSystem        = "system"        // CreateStore / ListStores
	kindUnimplemented = "unimplemented" // declared by the service, not implemented by the server
	kindPublic        = "public"        // no authorization by design; must not touch any data
)

type shape struct {
	Method string // "<service>/<method>"
	Name   string
	Kind   string
	Span   *Span // Write shapes
	Call   func(w *world, ctx context.Context, store string) Outcome
}

func (s *shape) key() string { return s.Method + "#" + s.Name }

// fake stream for StreamedListObjects
type sink struct {
	ctx context.Context
	n   int
	grpc.ServerStream
}

func (c *sink) Context() context.Context     { return c.ctx }
func (c *sink) SetHeader(metadata.MD) error  { return nil }
func (c *sink) SendHeader(metadata.MD) error { return nil }
func (c *sink) SetTrailer(metadata.MD)       {}
func (c *sink) SendMsg(any) error            { return nil }
func (c *sink) RecvMsg(any) error            { return nil }
func (c *sink) Send(*openfgav1.StreamedListObjectsResponse) error {
	c.n++
	return nil
}

func ctk(s string) *openfgav1.CheckRequestTupleKey {
	t := tk(s)
	return &openfgav1.CheckRequestTupleKey{Object: t.GetObject(), Relation: t.GetRelation(), User: t.GetUser()}
}

func typeRel(s string) string {
	t := tk(s)
	return strings.SplitN(t.GetObject(), ":", 2)[0] + "/" + t.GetRelation()
}

func writeShape(name, modelID string, writes, deletes []string) shape {
	var trs []string
	for _, s := range writes {
		trs = append(trs, typeRel(s))
	}
	for _, s := range deletes {
		trs = append(trs, typeRel(s))
	}
	sp := spanOf(trs)
	return shape{Method: "openfga.v1.OpenFGAService/Write", Name: name, Kind: kindStore, Span: &sp,
		Call: func(w *world, ctx context.Context, store string) Outcome {
			req := &openfgav1.WriteRequest{StoreId: store, AuthorizationModelId: modelID}
			if len(writes) > 0 {
				req.Writes = &openfgav1.WriteRequestWrites{}
				for _, s := range writes {
					req.Writes.TupleKeys = append(req.Writes.TupleKeys, tk(s))
				}
			}
			if len(deletes) > 0 {
				req.Deletes = &openfgav1.WriteRequestDeletes{}
				for _, s := range deletes {
					t := tk(s)
					req.Deletes.TupleKeys = append(req.Deletes.TupleKeys, &openfgav1.TupleKeyWithoutCondition{Object: t.GetObject(), Relation: t.GetRelation(), User: t.GetUser()})
				}
			}
			_, err := w.srv.Write(ctx, req)
			return classify(err)
		}}
}

// halfKinds: what ONE half (the writes, or the deletes) of a Write request can be with respect to modules.
var halfKinds = []string{"absent", "moda", "modb", "no-module"}

// the tuple a half of each kind carries: writes add a new tuple, deletes remove a seeded one
// (targetSeedTuples), so that every request of the product is valid with authorization bypassed.
var halfTuple = map[string]map[string]string{
	"writes":  {"moda": "ta:2#member@user:u1", "modb": "tb:2#member@user:u1", "no-module": "doc:2#viewer@user:u1"},
	"deletes": {"moda": "ta:1#member@user:u1", "modb": "tb:1#member@user:u1", "no-module": "doc:1#viewer@user:u1"},
}

// names of the product cells that existed before the product was enumerated (kept for old replay files)
var legacyHalfNames = map[string]string{
	"moda|absent": "module-a", "modb|absent": "module-b", "no-module|absent": "no-module",
	"absent|moda": "delete-module-a", "moda|modb": "write-a-delete-b", "absent|no-module": "delete-no-module",
}

// writeHalfProduct: the full product {writes half} x {deletes half} over halfKinds, minus the empty
// request: 15 Write requests. A request is confined to one module only if EVERY tuple of BOTH halves
// carries that module; the span (and so the reference verdict) is computed over the union of both halves.
func writeHalfProduct() []shape {
	var out []shape
	for _, wk := range halfKinds {
		for _, dk := range halfKinds {
			if wk == "absent" && dk == "absent" {
				continue
			}
			var ws, ds []string
			if wk != "absent" {
				ws = []string{halfTuple["writes"][wk]}
			}
			if dk != "absent" {
				ds = []string{halfTuple["deletes"][dk]}
			}
			name := legacyHalfNames[wk+"|"+dk]
			if name == "" {
				name = "halves/writes=" + wk + ",deletes=" + dk
			}
			s := writeShape(name, "", ws, ds)
			s.Span.Writes, s.Span.Deletes = wk, dk
			out = append(out, s)
		}
	}
	return out
}

func evalItemsOutcome(resp *authzenv1.EvaluationsResponse, err error) Outcome {
	if err != nil {
		return classify(err)
	}
	// the short-circuit semantics report a per-item failure inside the response (each item is an
	// independent Check with its own authorization)
	var nOK, nForbidden int
	var other *Outcome
	for _, it := range resp.GetEvaluations() {
		e := it.GetContext().GetFields()["error"].GetStructValue()
		if e == nil {
			nOK++
			continue
		}
		st := int(e.GetFields()["status"].GetNumberValue())
		msg := e.GetFields()["message"].GetStringValue()
		if strings.Contains(msg, forbiddenMessage) {
			nForbidden++
		} else if other == nil {
			other = &Outcome{Kind: "other", Code: st, Msg: msg}
		}
	}
	switch {
	case other != nil:
		return *other
	case nForbidden > 0 && nOK > 0:
		return Outcome{Kind: "mixed", Msg: fmt.Sprintf("%d item(s) forbidden, %d authorized", nForbidden, nOK)}
	case nForbidden > 0:
		return Outcome{Kind: "forbidden", Code: int(forbiddenCode), Msg: forbiddenMessage}
	}
	return Outcome{Kind: "ok"}
}

func listStoresAll(w *world, ctx context.Context, pageSize int32, name string) Outcome {
	var ids []string
	token := ""
	for page := 0; page < 16; page++ {
		req := &openfgav1.ListStoresRequest{ContinuationToken: token, Name: name}
		if pageSize > 0 {
			req.PageSize = wrapperspb.Int32(pageSize)
		}
		resp, err := w.srv.ListStores(ctx, req)
		if err != nil {
			o := classify(err)
			o.Stores = ids
			return o
		}
		for _, s := range resp.GetStores() {
			ids = append(ids, s.GetId())
		}
		token = resp.GetContinuationToken()
		if token == "" {
			break
		}
	}
	sort.Strings(ids)
	return Outcome{Kind: "ok", Stores: ids}
}

// allShapes: the baseline requests. Every request is valid against the seeded world, so that the only
// reason for a failure is authorization (self-tested at start-up with authorization bypassed).
func allShapes() []shape {
	const of = "openfga.v1.OpenFGAService/"
	const az = "authzen.v1.AuthZenService/"
	subj := &authzenv1.Subject{Type: "user", Id: "u1"}
	res := &authzenv1.Resource{Type: "doc", Id: "1"}
	act := &authzenv1.Action{Name: "viewer"}
	sem := func(s authzenv1.EvaluationsSemantic) *authzenv1.EvaluationsOptions {
		return &authzenv1.EvaluationsOptions{EvaluationsSemantic: s}
	}
	items := []*authzenv1.EvaluationsItemRequest{{Resource: res}, {Resource: &authzenv1.Resource{Type: "doc", Id: "2"}}}

	sh := writeHalfProduct()
	sh = append(sh, []shape{
		{Method: of + "Read", Name: "tuple-key", Kind: kindStore, Call: func(w *world, ctx context.Context, s string) Outcome {
			_, err := w.srv.Read(ctx, &openfgav1.ReadRequest{StoreId: s, TupleKey: &openfgav1.ReadRequestTupleKey{Object: "doc:1", Relation: "viewer", User: "user:u1"}})
			return classify(err)
		}},
		{Method: of + "Read", Name: "all", Kind: kindStore, Call: func(w *world, ctx context.Context, s string) Outcome {
			_, err := w.srv.Read(ctx, &openfgav1.ReadRequest{StoreId: s})
			return classify(err)
		}},

		writeShape("modules-a+b", "", []string{"ta:2#member@user:u1", "tb:2#member@user:u1"}, nil),
		writeShape("module-a+no-module", "", []string{"ta:2#member@user:u1", "doc:2#viewer@user:u1"}, nil),
		writeShape("no-module+module-a", "", []string{"doc:2#viewer@user:u1", "ta:2#member@user:u1"}, nil),
		writeShape("relation-module-b-in-type-a", "", []string{"tmix:1#rb@user:u1"}, nil),
		writeShape("type-module-a-relation-default", "", []string{"tmix:1#ra@user:u1"}, nil),
		writeShape("one-type-two-relation-modules", "", []string{"tmix:1#ra@user:u1", "tmix:1#rb@user:u1"}, nil),
		writeShape("module-a-explicit-model", model2, []string{"ta:2#member@user:u1"}, nil),
		writeShape("old-model-without-modules", model1, []string{"doc:2#viewer@user:u1"}, nil),
		writeShape("both-halves-two-tuples-one-module", "", []string{"ta:2#member@user:u1", "tmix:1#ra@user:u1"}, []string{"ta:1#member@user:u1"}),
		writeShape("writes-two-modules-delete-module-a", "", []string{"ta:2#member@user:u1", "tb:2#member@user:u1"}, []string{"ta:1#member@user:u1"}),
		writeShape("write-module-a-deletes-module-a+no-module", "", []string{"ta:2#member@user:u1"}, []string{"ta:1#member@user:u1", "doc:1#viewer@user:u1"}),

		{Method: of + "Check", Name: "latest-model", Kind: kindStore, Call: func(w *world, ctx context.Context, s string) Outcome {
			_, err := w.srv.Check(ctx, &openfgav1.CheckRequest{StoreId: s, TupleKey: ctk("doc:1#viewer@user:u1")})
			return classify(err)
		}},
		{Method: of + "Check", Name: "explicit-model", Kind: kindStore, Call: func(w *world, ctx context.Context, s string) Outcome {
			_, err := w.srv.Check(ctx, &openfgav1.CheckRequest{StoreId: s, AuthorizationModelId: model1, TupleKey: ctk("doc:1#viewer@user:u1")})
			return classify(err)
		}},
		{Method: of + "Check", Name: "contextual-tuples", Kind: kindStore, Call: func(w *world, ctx context.Context, s string) Outcome {
			_, err := w.srv.Check(ctx, &openfgav1.CheckRequest{StoreId: s, TupleKey: ctk("doc:7#viewer@user:u2"),
				ContextualTuples: &openfgav1.ContextualTupleKeys{TupleKeys: []*openfgav1.TupleKey{tk("doc:7#viewer@user:u2")}}})
			return classify(err)
		}},
		{Method: of + "BatchCheck", Name: "two-items", Kind: kindStore, Call: func(w *world, ctx context.Context, s string) Outcome {
			_, err := w.srv.BatchCheck(ctx, &openfgav1.BatchCheckRequest{StoreId: s, Checks: []*openfgav1.BatchCheckItem{
				{TupleKey: ctk("doc:1#viewer@user:u1"), CorrelationId: "c1"}, {TupleKey: ctk("doc:2#viewer@user:u1"), CorrelationId: "c2"}}})
			return classify(err)
		}},
		{Method: of + "Expand", Name: "plain", Kind: kindStore, Call: func(w *world, ctx context.Context, s string) Outcome {
			_, err := w.srv.Expand(ctx, &openfgav1.ExpandRequest{StoreId: s, TupleKey: &openfgav1.ExpandRequestTupleKey{Object: "doc:1", Relation: "viewer"}})
			return classify(err)
		}},
		{Method: of + "ReadAuthorizationModels", Name: "plain", Kind: kindStore, Call: func(w *world, ctx context.Context, s string) Outcome {
			_, err := w.srv.ReadAuthorizationModels(ctx, &openfgav1.ReadAuthorizationModelsRequest{StoreId: s})
			return classify(err)
		}},
		{Method: of + "ReadAuthorizationModel", Name: "by-id", Kind: kindStore, Call: func(w *world, ctx context.Context, s string) Outcome {
			_, err := w.srv.ReadAuthorizationModel(ctx, &openfgav1.ReadAuthorizationModelRequest{StoreId: s, Id: model1})
			return classify(err)
		}},
		{Method: of + "WriteAuthorizationModel", Name: "plain", Kind: kindStore, Call: func(w *world, ctx context.Context, s string) Outcome {
			_, err := w.srv.WriteAuthorizationModel(ctx, &openfgav1.WriteAuthorizationModelRequest{StoreId: s, SchemaVersion: "1.1", TypeDefinitions: protoModel1.GetTypeDefinitions()})
			return classify(err)
		}},
		{Method: of + "WriteAssertions", Name: "plain", Kind: kindStore, Call: func(w *world, ctx context.Context, s string) Outcome {
			_, err := w.srv.WriteAssertions(ctx, &openfgav1.WriteAssertionsRequest{StoreId: s, AuthorizationModelId: model2, Assertions: []*openfgav1.Assertion{
				{TupleKey: &openfgav1.AssertionTupleKey{Object: "doc:1", Relation: "viewer", User: "user:u1"}, Expectation: false}}})
			return classify(err)
		}},
		{Method: of + "ReadAssertions", Name: "plain", Kind: kindStore, Call: func(w *world, ctx context.Context, s string) Outcome {
			_, err := w.srv.ReadAssertions(ctx, &openfgav1.ReadAssertionsRequest{StoreId: s, AuthorizationModelId: model2})
			return classify(err)
		}},
		{Method: of + "ReadChanges", Name: "all-types", Kind: kindStore, Call: func(w *world, ctx context.Context, s string) Outcome {
			_, err := w.srv.ReadChanges(ctx, &openfgav1.ReadChangesRequest{StoreId: s})
			return classify(err)
		}},
		{Method: of + "ReadChanges", Name: "one-type", Kind: kindStore, Call: func(w *world, ctx context.Context, s string) Outcome {
			_, err := w.srv.ReadChanges(ctx, &openfgav1.ReadChangesRequest{StoreId: s, Type: "doc"})
			return classify(err)
		}},
		{Method: of + "CreateStore", Name: "plain", Kind: kindSystem, Call: func(w *world, ctx context.Context, _ string) Outcome {
			_, err := w.srv.CreateStore(ctx, &openfgav1.CreateStoreRequest{Name: "store-new"})
			return classify(err)
		}},
		{Method: of + "UpdateStore", Name: "plain", Kind: kindUnimplemented, Call: func(w *world, ctx context.Context, s string) Outcome {
			_, err := w.srv.UpdateStore(ctx, &openfgav1.UpdateStoreRequest{StoreId: s, Name: "renamed-store"})
			return classify(err)
		}},
		{Method: of + "DeleteStore", Name: "plain", Kind: kindStore, Call: func(w *world, ctx context.Context, s string) Outcome {
			_, err := w.srv.DeleteStore(ctx, &openfgav1.DeleteStoreRequest{StoreId: s})
			return classify(err)
		}},
		{Method: of + "GetStore", Name: "plain", Kind: kindStore, Call: func(w *world, ctx context.Context, s string) Outcome {
			_, err := w.srv.GetStore(ctx, &openfgav1.GetStoreRequest{StoreId: s})
			return classify(err)
		}},
		{Method: of + "ListStores", Name: "one-page", Kind: kindSystem, Call: func(w *world, ctx context.Context, _ string) Outcome {
			return listStoresAll(w, ctx, 0, "")
		}},
		{Method: of + "ListStores", Name: "page-size-1", Kind: kindSystem, Call: func(w *world, ctx context.Context, _ string) Outcome {
			return listStoresAll(w, ctx, 1, "")
		}},
		{Method: of + "ListStores", Name: "name-filter-A", Kind: kindSystem, Call: func(w *world, ctx context.Context, _ string) Outcome {
			return listStoresAll(w, ctx, 0, storeNames[storeA])
		}},
		{Method: of + "ListObjects", Name: "latest-model", Kind: kindStore, Call: func(w *world, ctx context.Context, s string) Outcome {
			_, err := w.srv.ListObjects(ctx, &openfgav1.ListObjectsRequest{StoreId: s, Type: "doc", Relation: "viewer", User: "user:u1"})
			return classify(err)
		}},
		{Method: of + "ListObjects", Name: "explicit-model", Kind: kindStore, Call: func(w *world, ctx context.Context, s string) Outcome {
			_, err := w.srv.ListObjects(ctx, &openfgav1.ListObjectsRequest{StoreId: s, AuthorizationModelId: model1, Type: "doc", Relation: "viewer", User: "user:u1"})
			return classify(err)
		}},
		{Method: of + "StreamedListObjects", Name: "latest-model", Kind: kindStore, Call: func(w *world, ctx context.Context, s string) Outcome {
			err := w.srv.StreamedListObjects(&openfgav1.StreamedListObjectsRequest{StoreId: s, Type: "doc", Relation: "viewer", User: "user:u1"}, &sink{ctx: ctx})
			return classify(err)
		}},
		{Method: of + "ListUsers", Name: "plain", Kind: kindStore, Call: func(w *world, ctx context.Context, s string) Outcome {
			_, err := w.srv.ListUsers(ctx, &openfgav1.ListUsersRequest{StoreId: s, Object: &openfgav1.Object{Type: "doc", Id: "1"}, Relation: "viewer",
				UserFilters: []*openfgav1.UserTypeFilter{{Type: "user"}}})
			return classify(err)
		}},

		{Method: az + "Evaluation", Name: "plain", Kind: kindStore, Call: func(w *world, ctx context.Context, s string) Outcome {
			_, err := w.srv.Evaluation(ctx, &authzenv1.EvaluationRequest{StoreId: s, Subject: subj, Resource: res, Action: act})
			return classify(err)
		}},
		{Method: az + "Evaluations", Name: "no-items", Kind: kindStore, Call: func(w *world, ctx context.Context, s string) Outcome {
			return evalItemsOutcome(w.srv.Evaluations(ctx, &authzenv1.EvaluationsRequest{StoreId: s, Subject: subj, Resource: res, Action: act}))
		}},
		{Method: az + "Evaluations", Name: "execute-all", Kind: kindStore, Call: func(w *world, ctx context.Context, s string) Outcome {
			return evalItemsOutcome(w.srv.Evaluations(ctx, &authzenv1.EvaluationsRequest{StoreId: s, Subject: subj, Action: act, Evaluations: items}))
		}},
		{Method: az + "Evaluations", Name: "deny-on-first-deny", Kind: kindStore, Call: func(w *world, ctx context.Context, s string) Outcome {
			return evalItemsOutcome(w.srv.Evaluations(ctx, &authzenv1.EvaluationsRequest{StoreId: s, Subject: subj, Action: act, Evaluations: items,
				Options: sem(authzenv1.EvaluationsSemantic_deny_on_first_deny)}))
		}},
		{Method: az + "Evaluations", Name: "permit-on-first-permit", Kind: kindStore, Call: func(w *world, ctx context.Context, s string) Outcome {
			return evalItemsOutcome(w.srv.Evaluations(ctx, &authzenv1.EvaluationsRequest{StoreId: s, Subject: subj, Action: act, Evaluations: items,
				Options: sem(authzenv1.EvaluationsSemantic_permit_on_first_permit)}))
		}},
		{Method: az + "SubjectSearch", Name: "plain", Kind: kindStore, Call: func(w *world, ctx context.Context, s string) Outcome {
			_, err := w.srv.SubjectSearch(ctx, &authzenv1.SubjectSearchRequest{StoreId: s, Resource: res, Action: act, Subject: &authzenv1.SubjectFilter{Type: "user"}})
			return classify(err)
		}},
		{Method: az + "ResourceSearch", Name: "plain", Kind: kindStore, Call: func(w *world, ctx context.Context, s string) Outcome {
			_, err := w.srv.ResourceSearch(ctx, &authzenv1.ResourceSearchRequest{StoreId: s, Subject: subj, Action: act, Resource: &authzenv1.ResourceFilter{Type: "doc"}})
			return classify(err)
		}},
		{Method: az + "ActionSearch", Name: "plain", Kind: kindStore, Call: func(w *world, ctx context.Context, s string) Outcome {
			_, err := w.srv.ActionSearch(ctx, &authzenv1.ActionSearchRequest{StoreId: s, Subject: subj, Resource: res})
			return classify(err)
		}},
		{Method: az + "GetConfiguration", Name: "plain", Kind: kindPublic, Call: func(w *world, ctx context.Context, s string) Outcome {
			_, err := w.srv.GetConfiguration(ctx, &authzenv1.GetConfigurationRequest{StoreId: s})
			return classify(err)
		}},
	}...)
	return sh
}

// discover lists every RPC of the two services the server registers, from the generated service
// descriptors, and checks each against the baseline table and the relation table. Anything missing is a
// harness error (exit 2): an RPC added later cannot escape the check.
func discover(shapes []shape) (methods []string, problems []string) {
	have := map[string]string{} // method -> kind
	for _, s := range shapes {
		if k, ok := have[s.Method]; ok && k != s.Kind {
			problems = append(problems, "baseline table: two kinds for "+s.Method)
		}
		have[s.Method] = s.Kind
	}
	srvType := reflect.TypeOf(&server.Server{})
	seen := map[string]bool{}
	for _, d := range []*grpc.ServiceDesc{&openfgav1.OpenFGAService_ServiceDesc, &authzenv1.AuthZenService_ServiceDesc} {
		var names []string
		for _, m := range d.Methods {
			names = append(names, m.MethodName)
		}
		for _, st := range d.Streams {
			names = append(names, st.StreamName)
		}
		for _, n := range names {
			full := d.ServiceName + "/" + n
			seen[full] = true
			methods = append(methods, full)
			if _, ok := srvType.MethodByName(n); !ok {
				problems = append(problems, fmt.Sprintf("%s: *server.Server has no method %s", full, n))
			}
			kind, ok := have[full]
			if !ok {
				problems = append(problems, fmt.Sprintf("%s: RPC declared by the service descriptor but the harness has NO baseline request for it: add a shape in h/c26/methods.go and its relation in h/c26/oracle.go", full))
				continue
			}
			if _, ok := relationOf[full]; !ok && (kind == kindStore || kind == kindSystem) {
				problems = append(problems, fmt.Sprintf("%s: no entry in the relation table (oracle.go relationOf)", full))
			}
		}
	}
	for m := range have {
		if !seen[m] {
			problems = append(problems, m+": baseline exists but the service descriptors do not declare it")
		}
	}
	sort.Strings(methods)
	return methods, problems
}
