// Package c26 decides property C26 "API access control allows exactly what the control store grants"
// by bounded exhaustive exploration of the real server: every RPC of the two registered services x caller
// identity x grant set x (for Write) module span, plus injected failures of the access-control store,
// each on a fresh server + memory datastore observed through a recording datastore seam.
package c26

import (
	"fmt"
	"os"
	"sort"
	"strings"
	"sync"

	"github.com/openfga/openfga/internal/verifh/core"
	"github.com/openfga/openfga/internal/verifh/e1"
)

// Case is one execution; it is everything needed to replay it.
type Case struct {
	Method string   `json:"method"`
	Shape  string   `json:"shape"`
	Target string   `json:"target,omitempty"` // A | B (store-scoped); "" for system methods
	Caller string   `json:"caller"`           // none | empty | x | y
	Grants []string `json:"grants"`           // tuples in the access-control store
	Fault  Fault    `json:"fault"`
	Seq    bool     `json:"seq,omitempty"` // server built with resolve-node breadth limit 1
}

type Result struct {
	Outcome Outcome `json:"outcome"`
	Calls   []Call  `json:"datastore_calls"`
	ACCalls int     `json:"access_control_store_calls"`
	Fired   int     `json:"faults_fired"`
}

type finding struct{ sig, desc string }

type runner struct {
	shapes  map[string]*shape
	mu      sync.Mutex
	harness []string
}

func (rn *runner) harnessErr(s string) {
	rn.mu.Lock()
	if len(rn.harness) < 20 {
		rn.harness = append(rn.harness, s)
	}
	rn.mu.Unlock()
}

func (rn *runner) exec(c Case) (*shape, Result, error) {
	sh := rn.shapes[c.Method+"#"+c.Shape]
	if sh == nil {
		return nil, Result{}, fmt.Errorf("no shape %s#%s", c.Method, c.Shape)
	}
	w, err := newWorld(c.Grants, c.Seq)
	if err != nil {
		return sh, Result{}, err
	}
	defer w.close()
	ctx := callerCtx(c.Caller)
	w.rec.arm(c.Fault)
	out := sh.Call(w, ctx, storeByLabel(c.Target))
	calls, ac, fired := w.rec.snapshot()
	return sh, Result{Outcome: out, Calls: calls, ACCalls: ac, Fired: fired}, nil
}

func short(m string) string { return m[strings.LastIndex(m, "/")+1:] }

// touched: classes of target-store data a call reached (per the recorded seam).
func touched(sh *shape, calls []Call, store string) []string {
	set := map[string]bool{}
	for _, c := range calls {
		if c.Store != store {
			continue
		}
		// Write derives the request's modules from the model, so reading the target store's MODEL before
		// authorization is part of the documented module rule; everything else is not.
		if short(sh.Method) == "Write" && c.Class == "models" && (c.Method == "ReadAuthorizationModel" || c.Method == "FindLatestAuthorizationModel") {
			continue
		}
		set[c.Class] = true
	}
	var out []string
	for k := range set {
		out = append(out, k)
	}
	sort.Strings(out)
	return out
}

func hasCall(calls []Call, method string) bool {
	for _, c := range calls {
		if c.Method == method {
			return true
		}
	}
	return false
}

// judge applies the oracle to one execution.
func (rn *runner) judge(c Case, sh *shape, res Result) (fs []finding, expected bool) {
	g := newGrantSet(c.Grants)
	m := short(sh.Method)
	o := res.Outcome
	faulty := c.Fault.Mode != ""
	add := func(sig, desc string) { fs = append(fs, finding{sig, desc}) }
	idTag := ""
	if !hasIdentity(c.Caller) {
		idTag = "/no-identity"
	}

	switch sh.Kind {
	case kindUnimplemented:
		if o.Kind != "other" || o.Code != 12 || len(res.Calls) != 0 {
			rn.harnessErr(fmt.Sprintf("%s is listed as unimplemented but answered %+v with %d datastore calls: give it a baseline request and a relation", sh.Method, o, len(res.Calls)))
		}
		return nil, false
	case kindPublic:
		if o.Kind != "ok" {
			rn.harnessErr(fmt.Sprintf("%s is listed as public (no authorization) but answered %+v: re-classify it", sh.Method, o))
		}
		if len(res.Calls) != 0 {
			add("unauthorized-endpoint-touches-datastore/"+m, fmt.Sprintf("%s performs no authorization but made datastore calls %v", m, res.Calls))
		}
		return fs, true

	case kindStore:
		store := storeByLabel(c.Target)
		expected = expectStoreScoped(g, c.Caller, store, relationOf[sh.Method], sh.Span)
		if !faulty {
			switch {
			case expected && o.Kind == "forbidden":
				add("denied-despite-grant/"+m, fmt.Sprintf("%s on store %s by %s with grants %v: the grant rule holds but the call was denied", m, c.Target, c.Caller, c.Grants))
			case expected && o.Kind == "other":
				add("granted-call-fails/"+m, fmt.Sprintf("%s on store %s by %s with grants %v: expected success, got %+v", m, c.Target, c.Caller, c.Grants, o))
			case !expected && o.Kind == "ok":
				add("allowed-without-grant/"+m+idTag, fmt.Sprintf("%s (%s) on store %s by caller %q with grants %v got past authorization; needed %s on store:%s%s", m, sh.Name, c.Target, c.Caller, c.Grants, relationOf[sh.Method], c.Target, spanNote(sh)))
			case !expected && o.Kind == "other":
				add("error-instead-of-forbidden/"+m+idTag, fmt.Sprintf("%s on store %s by caller %q with grants %v: expected the forbidden error, got %+v", m, c.Target, c.Caller, c.Grants, o))
			}
		} else {
			allFail := c.Fault.Mode == "from" && c.Fault.K == 1
			passed := o.Kind == "ok" || o.Kind == "mixed"
			switch {
			case passed && !expected:
				add("allowed-on-access-control-failure/"+m, fmt.Sprintf("%s on store %s by %s, grants %v, fault %+v: allowed although the grant rule does not hold", m, c.Target, c.Caller, c.Grants, c.Fault))
			case passed && allFail && res.Fired > 0:
				add("allowed-on-access-control-failure/"+m+"/every-read-fails", fmt.Sprintf("%s on store %s by %s, grants %v: every read of the access-control store failed and the call was allowed", m, c.Target, c.Caller, c.Grants))
			case o.Kind == "other" && res.Fired > 0:
				add("error-instead-of-forbidden/"+m+"/under-fault", fmt.Sprintf("%s on store %s by %s, grants %v, fault %+v: got %+v", m, c.Target, c.Caller, c.Grants, c.Fault, o))
			}
		}
		// A denied call must not have reached the target store's data. Under a partial fault an RPC that
		// authorizes more than once (AuthZEN front ends) may legitimately pass one authorization, read, and
		// fail the next: there the rule is applied only when no authorization can pass (the reference
		// denies, or every read of the access-control store fails).
		mustNotTouch := (o.Kind != "ok" && o.Kind != "mixed") || !expected
		if faulty {
			mustNotTouch = !expected || (c.Fault.Mode == "from" && c.Fault.K == 1)
		}
		if mustNotTouch {
			if t := touched(sh, res.Calls, store); len(t) > 0 {
				add("data-touched-before-authorization/"+m+"/"+strings.Join(t, "+"), fmt.Sprintf("%s (%s) on store %s by caller %q with grants %v ended %s, yet the datastore saw calls on the target store: %v", m, sh.Name, c.Target, c.Caller, c.Grants, o.Kind, callsOn(res.Calls, store)))
			}
		}
		if t := callsOn(res.Calls, otherTarget(store)); len(t) > 0 {
			add("cross-store-access/"+m, fmt.Sprintf("%s on store %s made datastore calls on the OTHER store: %v", m, c.Target, t))
		}
		return fs, expected

	case kindSystem:
		expected = expectSystem(g, c.Caller, relationOf[sh.Method])
		if !faulty {
			switch {
			case expected && o.Kind == "forbidden":
				add("denied-despite-grant/"+m, fmt.Sprintf("%s by %s with grants %v: the grant rule holds but the call was denied", m, c.Caller, c.Grants))
			case expected && o.Kind == "other":
				add("granted-call-fails/"+m, fmt.Sprintf("%s by %s with grants %v: expected success, got %+v", m, c.Caller, c.Grants, o))
			case !expected && o.Kind == "ok":
				add("allowed-without-grant/"+m+idTag, fmt.Sprintf("%s by caller %q with grants %v got past authorization; needed %s on system:fga", m, c.Caller, c.Grants, relationOf[sh.Method]))
			case !expected && o.Kind == "other":
				add("error-instead-of-forbidden/"+m+idTag, fmt.Sprintf("%s by caller %q with grants %v: expected the forbidden error, got %+v", m, c.Caller, c.Grants, o))
			}
		} else {
			allFail := c.Fault.Mode == "from" && c.Fault.K == 1
			switch {
			case o.Kind == "ok" && !expected:
				add("allowed-on-access-control-failure/"+m, fmt.Sprintf("%s by %s, grants %v, fault %+v: allowed although the grant rule does not hold", m, c.Caller, c.Grants, c.Fault))
			case o.Kind == "ok" && allFail && res.Fired > 0:
				add("allowed-on-access-control-failure/"+m+"/every-read-fails", fmt.Sprintf("%s by %s, grants %v: every read of the access-control store failed and the call was allowed", m, c.Caller, c.Grants))
			case o.Kind == "other" && res.Fired > 0:
				add("error-instead-of-forbidden/"+m+"/under-fault", fmt.Sprintf("%s by %s, grants %v, fault %+v: got %+v", m, c.Caller, c.Grants, c.Fault, o))
			}
		}
		if o.Kind != "ok" || !expected {
			if m == "CreateStore" && hasCall(res.Calls, "CreateStore") {
				add("data-touched-before-authorization/CreateStore/stores", fmt.Sprintf("CreateStore by %q with grants %v ended %s but the datastore saw CreateStore", c.Caller, c.Grants, o.Kind))
			}
			if m == "ListStores" && hasCall(res.Calls, "ListStores") && len(o.Stores) == 0 && o.Kind != "ok" {
				// (with several pages an earlier page may legitimately have been served)
				add("data-touched-before-authorization/ListStores/stores", fmt.Sprintf("ListStores by %q with grants %v ended %s but the datastore saw ListStores", c.Caller, c.Grants, o.Kind))
			}
		}
		for _, s := range []string{storeA, storeB} {
			if t := callsOn(res.Calls, s); len(t) > 0 {
				add("cross-store-access/"+m, fmt.Sprintf("%s made datastore calls on store %s: %v", m, storeLabel(s), t))
			}
		}
		if m == "ListStores" && len(o.Stores) > 0 {
			all := []string{storeR, storeA, storeB}
			may := mayGet(g, c.Caller, all, true)
			stored := mayGet(g, c.Caller, all, false) // derivable from stored tuples alone
			if !subset(o.Stores, may) {
				sig := "liststores-returns-unreadable-store"
				if len(stored) == 0 {
					sig = "liststores-returns-all-stores-when-caller-can-read-none"
				}
				if faulty && len(stored) > 0 {
					sig += "/under-fault"
				}
				add(sig, fmt.Sprintf("ListStores (%s) by %s with grants %v returned %s; GetStore is authorized only on %s", sh.Name, c.Caller, c.Grants, labels(o.Stores), labels(may)))
			}
		}
		if m == "ListStores" && o.Kind == "ok" && !faulty {
			all := []string{storeR, storeA, storeB}
			stored := mayGet(g, c.Caller, all, false)
			want := stored
			if sh.Name == "name-filter-A" {
				want = nil
				for _, s := range stored {
					if s == storeA {
						want = append(want, s)
					}
				}
			}
			if !subset(want, o.Stores) {
				add("liststores-omits-readable-store", fmt.Sprintf("ListStores (%s) by %s with grants %v returned %s; the stored grants give can_call_get_store on %s", sh.Name, c.Caller, c.Grants, labels(o.Stores), labels(want)))
			}
		}
		return fs, expected
	}
	return nil, false
}

func spanNote(sh *shape) string {
	if sh.Span == nil {
		return ""
	}
	half := ""
	if sh.Span.Writes != "" {
		half = fmt.Sprintf("; writes half %s, deletes half %s", sh.Span.Writes, sh.Span.Deletes)
	}
	return fmt.Sprintf(" (write span over both halves: modules %v, unmoduled %v%s)", sh.Span.Modules, sh.Span.Unmoduled, half)
}

func callsOn(calls []Call, store string) []string {
	var out []string
	for _, c := range calls {
		if c.Store == store {
			out = append(out, c.Method)
		}
	}
	return out
}

// ---------------------------------------------------------------------------------------------
// enumeration

func subsetsUpTo(elems []string, k int) [][]string {
	var out [][]string
	var recur func(start int, cur []string)
	recur = func(start int, cur []string) {
		out = append(out, append([]string(nil), cur...))
		if len(cur) == k {
			return
		}
		for i := start; i < len(elems); i++ {
			recur(i+1, append(cur, elems[i]))
		}
	}
	recur(0, nil)
	return out
}

func dedupSets(sets [][]string) [][]string {
	seen := map[string]bool{}
	var out [][]string
	for _, s := range sets {
		s = append([]string(nil), s...)
		sort.Strings(s)
		var u []string
		for i, x := range s {
			if i == 0 || s[i-1] != x {
				u = append(u, x)
			}
		}
		k := strings.Join(u, "\x00")
		if !seen[k] {
			seen[k] = true
			out = append(out, u)
		}
	}
	return out
}

const appX = "@application:x"

// grant sets for a store-scoped shape on target t.
func storeGrantSets(sh *shape, t string, thorough bool) (base [][]string, faultSets [][]string) {
	rel := relationOf[sh.Method]
	o := otherTarget(t)
	this := "store:" + t + "#" + rel + appX
	modA := "module:" + t + "|moda#can_call_write" + appX
	modB := "module:" + t + "|modb#can_call_write" + appX
	sysAdmin := "system:fga#admin" + appX
	elems := []string{
		this,                                     // the relation for THIS method on THIS store
		"store:" + t + "#" + otherOf[rel] + appX, // the relation for ANOTHER method on this store
		"store:" + o + "#" + rel + appX,          // the right relation on the OTHER store
		modA, modB,                               // module-level grants
		"system:fga#can_call_list_stores" + appX, // a system-level grant that opens no store
		sysAdmin,                                 // the system-level grant that administers every store
	}
	k := 1
	if thorough {
		k = 3
	}
	sets := subsetsUpTo(elems, k)
	if sh.Span != nil {
		// module combinations are the point of the Write shapes: always take every subset of these
		sets = append(sets, subsetsUpTo([]string{this, modA, modB, "module:" + o + "|moda#can_call_write" + appX}, 3)...)
	}
	// singles: every other store relation, every role, the same grant held by the other client
	var singles []string
	for _, r := range storeRelations {
		singles = append(singles, "store:"+t+"#"+r+appX)
	}
	for _, r := range storeRoles {
		singles = append(singles, "store:"+t+"#"+r+appX, "store:"+o+"#"+r+appX)
	}
	singles = append(singles,
		"store:"+t+"#"+rel+"@application:y",
		"system:fga#admin@application:y",
		"system:fga#can_call_create_stores"+appX,
		"module:"+t+"|moda#writer"+appX,
		"module:"+t+"|modb#writer"+appX,
		"module:"+o+"|moda#can_call_write"+appX,
		"store:"+storeR+"#"+rel+appX, // the relation on the access-control store itself
		"store:"+storeR+"#admin"+appX,
	)
	for _, s := range singles {
		sets = append(sets, []string{s})
		if thorough {
			for _, e := range elems {
				sets = append(sets, []string{s, e})
			}
		}
	}
	base = dedupSets(sets)
	faultSets = [][]string{nil, {this}, {sysAdmin}, {"store:" + t + "#reader" + appX}, {"store:" + t + "#writer" + appX}, {"store:" + t + "#model_writer" + appX}}
	if sh.Span != nil {
		faultSets = append(faultSets, []string{modA}, []string{modB}, []string{modA, modB})
	}
	if thorough {
		faultSets = append(faultSets, subsetsUpTo(elems, 2)...)
	}
	faultSets = dedupSets(faultSets)
	return base, faultSets
}

func systemGrantSets(sh *shape, thorough bool) (base [][]string, faultSets [][]string) {
	rel := relationOf[sh.Method]
	other := "can_call_list_stores"
	if rel == other {
		other = "can_call_create_stores"
	}
	this := "system:fga#" + rel + appX
	getA := "store:" + storeA + "#can_call_get_store" + appX
	getB := "store:" + storeB + "#can_call_get_store" + appX
	sysAdmin := "system:fga#admin" + appX
	elems := []string{
		this,
		"system:fga#" + other + appX,
		getA, getB,
		"store:" + storeR + "#can_call_get_store" + appX,
		"store:" + storeA + "#admin" + appX,
		"store:" + storeB + "#creator" + appX,
		sysAdmin,
		"system:fga#" + rel + "@application:*",
		"system:fga#" + rel + "@application:y",
		"store:" + storeA + "#can_call_get_store@application:y",
		"store:" + storeA + "#can_call_read" + appX,
		"module:" + storeA + "|moda#can_call_write" + appX,
	}
	k := 2
	if thorough {
		k = 3
	}
	base = dedupSets(subsetsUpTo(elems, k))
	faultSets = dedupSets([][]string{nil, {this}, {this, getA}, {this, getA, getB}, {sysAdmin}, {sysAdmin, getA}, {"system:fga#" + rel + "@application:*"}})
	return base, faultSets
}

func key(c Case) uint64 {
	parts := []string{c.Method, c.Shape, c.Target, c.Caller, c.Fault.Mode, fmt.Sprint(c.Fault.K), fmt.Sprint(c.Seq)}
	parts = append(parts, c.Grants...)
	return core.Hash(parts...)
}

// Run is the entry point.
func Run(o *core.Options) int {
	if err := initModels(); err != nil {
		fmt.Fprintln(os.Stderr, "C26 harness error:", err)
		return 2
	}
	shapes := allShapes()
	rn := &runner{shapes: map[string]*shape{}}
	for i := range shapes {
		rn.shapes[shapes[i].key()] = &shapes[i]
	}
	methods, problems := discover(shapes)
	if len(problems) > 0 {
		for _, p := range problems {
			fmt.Fprintln(os.Stderr, "C26 harness error:", p)
		}
		return 2
	}
	// the hand-written module table must describe the model the harness actually stores
	for _, td := range protoModel2.GetTypeDefinitions() {
		for rel := range td.GetRelations() {
			want, ok := moduleOf[td.GetType()+"/"+rel]
			got := td.GetMetadata().GetRelations()[rel].GetModule()
			if got == "" {
				got = td.GetMetadata().GetModule()
			}
			if !ok || want != got {
				fmt.Fprintf(os.Stderr, "C26 harness error: module table and stored model disagree on %s/%s (%q vs %q)\n", td.GetType(), rel, want, got)
				return 2
			}
		}
	}

	r := core.NewReport(o, "exploration",
		"one case = (RPC of openfga.v1.OpenFGAService or authzen.v1.AuthZenService found in the generated service descriptors, request shape, target store A|B, caller in {no claims, claims with empty client id, client x, client y}, set of grant tuples stored in the access-control store, optional injected failure of the k-th / every-from-k-th read of the access-control store). "+
			"Each case runs on a fresh memory datastore + server (access control on, fixed store and model ids). Grant sets: all subsets of size <=1 (quick) / <=3 (thorough) of {this relation on this store, a neighbouring relation on this store, this relation on the other store, module a, module b, a system relation, system admin}, "+
			"every single other store relation and role, grants held by the other client; for Write shapes additionally every subset of {store relation, module a, module b, module a of the other store}; "+
			"Write shapes: the full product {writes half} x {deletes half} over {absent, one tuple of module a, one tuple of module b, one tuple of a type without module} minus the empty request (15 requests), plus hand-written requests with several tuples per half (two modules / module + no module inside one half or across halves, relation-level module overriding the type's, explicit and module-less model ids); for ListStores/CreateStore all subsets of size <=2 (quick) / <=3 (thorough) of 13 system/store grants. "+
			"A case is non-trivial when the caller has a client identity (x or y), so that the stored grants decide; distinct = distinct (method, shape, target, caller, grant set, fault).")
	r.Assume(
		"transport, authentication and the gRPC validator middleware are out of scope: handlers are called in-process with authclaims in the context, as the authn interceptor leaves them",
		"the access-control model is the documented one (pkg/server/server_authz_test.go); the reference transcribes it and the method->relation table by hand (h/c26/oracle.go)",
		"a system administrator (system:fga#admin) administers every store: the reference takes every store as belonging to system:fga",
		"Write may read the TARGET store's authorization model before authorizing (needed to derive the modules of the request); no other target-store data may be reached by a denied call",
		"the module span of a Write is taken over the tuples of the writes AND the deletes together: a module-level grant on M suffices only when every tuple of both halves belongs to M; one half in M with the other half in another module or on a module-less type needs the store-level relation (reference: h/c26/oracle.go spanOf over the hand-written type/relation->module table)",
		"statement read literally for multi-module writes: 'for a write confined to one module, on that module' => a write spanning two modules needs the store-level relation even when both module grants are held",
		"fault injection oracle is fail-closed: a failed access-control read must never yield an allow the grants do not justify, and when every read fails the call must be denied; a single failed read in a union branch made redundant by another branch that proves the grant is counted (fault_allowed_by_surviving_branch), not flagged",
		"UpdateStore is declared by the service and not implemented by the server (codes.Unimplemented, no datastore call): checked as such; authzen GetConfiguration performs no authorization and must make no datastore call",
		"memory datastore only; in-process typesystem caches are cold in every case (fresh server)",
	)
	r.Set("rpcs_discovered", methods)

	if o.Replay != "" {
		if isSub, code := e1.ReplaySub(o, "authzx"); isSub {
			return code // a schedule recorded by the authorizer-under-the-scheduler sub-harness
		}
		var c Case
		if err := core.LoadReplay(o.Replay, &c); err != nil {
			fmt.Fprintln(os.Stderr, "C26 replay:", err)
			return 2
		}
		sh, res, err := rn.exec(c)
		if err != nil {
			fmt.Fprintln(os.Stderr, "C26 replay:", err)
			return 2
		}
		r.Eval(1)
		fs, exp := rn.judge(c, sh, res)
		fmt.Printf("replay: expected-allowed=%v outcome=%+v ac_calls=%d fired=%d calls=%v\n", exp, res.Outcome, res.ACCalls, res.Fired, res.Calls)
		for _, f := range fs {
			r.Violate(f.sig, f.desc, c)
		}
		return r.Finish()
	}

	// 1. harness self-test: with authorization bypassed every baseline request succeeds, so that
	//    authorization is the only reason for a failure in the enumeration.
	for i := range shapes {
		sh := &shapes[i]
		if sh.Kind == kindUnimplemented {
			continue
		}
		for _, t := range []string{"A", "B"} {
			_, res, err := rn.exec(Case{Method: sh.Method, Shape: sh.Name, Target: t, Caller: "skip"})
			if err != nil || res.Outcome.Kind != "ok" {
				fmt.Fprintf(os.Stderr, "C26 harness error: baseline request %s is not valid on store %s with authorization bypassed: %+v %v\n", sh.key(), t, res.Outcome, err)
				return 2
			}
		}
	}

	// 2. case list
	thorough := o.Thorough()
	callers := []string{"none", "empty", "x", "y"}
	type job struct {
		c      Case
		faults bool
	}
	var jobs []job
	inSet := func(sets [][]string, s []string) bool {
		k := strings.Join(s, "\x00")
		for _, f := range sets {
			if strings.Join(f, "\x00") == k {
				return true
			}
		}
		return false
	}
	for i := range shapes {
		sh := &shapes[i]
		switch sh.Kind {
		case kindStore:
			for _, t := range []string{"A", "B"} {
				base, fsets := storeGrantSets(sh, storeByLabel(t), thorough)
				for _, gs := range base {
					for _, cl := range callers {
						f := inSet(fsets, gs) && (cl == "x" || (thorough && cl == "y")) && (t == "A" || thorough)
						jobs = append(jobs, job{Case{Method: sh.Method, Shape: sh.Name, Target: t, Caller: cl, Grants: gs}, f})
					}
				}
			}
		case kindSystem:
			base, fsets := systemGrantSets(sh, thorough)
			for _, gs := range base {
				for _, cl := range callers {
					f := inSet(fsets, gs) && cl == "x"
					jobs = append(jobs, job{Case{Method: sh.Method, Shape: sh.Name, Caller: cl, Grants: gs}, f})
				}
			}
		case kindUnimplemented, kindPublic:
			for _, t := range []string{"A", "B"} {
				for _, cl := range callers {
					for _, gs := range [][]string{nil, {"system:fga#admin" + appX}} {
						jobs = append(jobs, job{Case{Method: sh.Method, Shape: sh.Name, Target: t, Caller: cl, Grants: gs}, false})
					}
				}
			}
		}
	}
	r.Set("request_shapes", len(shapes))
	{
		nWrite, cells, single, multi, unmod := 0, []string{}, 0, 0, 0
		for i := range shapes {
			sp := shapes[i].Span
			if sp == nil {
				continue
			}
			nWrite++
			if sp.Writes != "" {
				cells = append(cells, "writes="+sp.Writes+",deletes="+sp.Deletes)
			}
			switch {
			case sp.Unmoduled:
				unmod++
			case len(sp.Modules) == 1:
				single++
			default:
				multi++
			}
		}
		r.Set("write_shapes", nWrite)
		r.Set("write_half_product_cells", cells)
		r.Set("write_shapes_confined_to_one_module", single)
		r.Set("write_shapes_spanning_two_modules", multi)
		r.Set("write_shapes_touching_a_module_less_type", unmod)
	}
	r.Set("base_cases", len(jobs))

	perMethod := map[string]int64{}
	var pmMu sync.Mutex
	maxReads := 0
	noteReads := func(n int) {
		pmMu.Lock()
		if n > maxReads {
			maxReads = n
		}
		pmMu.Unlock()
	}
	one := func(c Case) (Result, bool) {
		sh, res, err := rn.exec(c)
		if err != nil {
			rn.harnessErr(fmt.Sprintf("case %+v: %v", c, err))
			return res, false
		}
		r.Eval(1)
		fs, exp := rn.judge(c, sh, res)
		if hasIdentity(c.Caller) {
			r.Nontrivial(key(c))
		}
		for _, f := range fs {
			r.Violate(f.sig, f.desc, c)
		}
		if sp := sh.Span; sp != nil && sp.Writes != "" && sp.Writes != "absent" && sp.Deletes != "absent" && c.Fault.Mode == "" && hasIdentity(c.Caller) {
			// both halves present: cases in which only module-level grants can decide
			g := newGrantSet(c.Grants)
			st := storeByLabel(c.Target)
			if !g.storeCan(st, "can_call_write", c.Caller, true) && (g.moduleCan(st, "moda", c.Caller) || g.moduleCan(st, "modb", c.Caller)) {
				r.Count("write_both_halves_module_grant_only_cases", 1)
				if exp {
					r.Count("write_both_halves_module_grant_only_allowed_by_reference", 1)
				}
			}
		}
		if c.Fault.Mode == "" {
			switch {
			case res.Outcome.Kind == "ok":
				r.Count("outcome_allowed", 1)
			case res.Outcome.Kind == "forbidden":
				r.Count("outcome_forbidden", 1)
			default:
				r.Count("outcome_other", 1)
			}
			if exp {
				r.Count("reference_allows", 1)
			}
		} else {
			if res.Fired > 0 {
				r.Count("fault_fired", 1)
				if res.Outcome.Kind == "ok" || res.Outcome.Kind == "mixed" {
					r.Count("fault_allowed_by_surviving_branch", 1)
				} else {
					r.Count("fault_denied", 1)
				}
			} else {
				r.Count("fault_not_reached", 1)
			}
		}
		return res, true
	}

	r.Parallel(len(jobs), func(i int) {
		j := jobs[i]
		res, ok := one(j.c)
		if !ok {
			return
		}
		pmMu.Lock()
		perMethod[short(j.c.Method)]++
		pmMu.Unlock()
		if i%997 == 0 || (hasIdentity(j.c.Caller) && len(j.c.Grants) == 1 && i%211 == 0) {
			r.Sample(map[string]any{"case": j.c, "outcome": res.Outcome, "datastore_calls": res.Calls})
		}
		if !j.faults || res.ACCalls == 0 {
			return
		}
		// 3. fault enumeration: fail the k-th (once) / every read from the k-th on (from) of the
		// access-control store, k = 1..n where n = reads seen in the clean run of the same case.
		// k = 1..n+1 where n = reads of the access-control store in the clean run of the same case (the
		// resolver reads concurrently, so n can differ by one or two between runs; a k beyond the reads of
		// a run leaves it undisturbed and is counted as fault_not_reached). thorough repeats everything with
		// resolve-node breadth limit 1 (union branches resolved one at a time).
		seqs := []bool{false}
		if thorough {
			seqs = []bool{false, true}
		}
		for _, seq := range seqs {
			n := res.ACCalls
			if seq {
				cs := j.c
				cs.Seq = true
				rs, ok := one(cs)
				if !ok {
					continue
				}
				n = rs.ACCalls
			}
			noteReads(n)
			for _, mode := range []string{"once", "from"} {
				for k := 1; k <= n+1; k++ {
					if r.Expired() {
						return
					}
					c := j.c
					c.Seq = seq
					c.Fault = Fault{Mode: mode, K: k}
					one(c)
					pmMu.Lock()
					perMethod[short(j.c.Method)+"/fault"]++
					pmMu.Unlock()
				}
			}
		}
	})
	r.Set("access_control_reads_per_call_max", maxReads)
	r.Set("cases_per_method", perMethod)

	if len(rn.harness) > 0 {
		for _, h := range rn.harness {
			fmt.Fprintln(os.Stderr, "C26 harness error:", h)
		}
		return 2
	}
	e1.MergeSub(o, r, "authzx", "C26", "authorizer_interleavings", "real internal/authz.Authorizer (instrumented with internal/concurrency: sync, channels, select, go statements, context reads and cancellations go through the vrt scheduler) over a scripted access-control server answering allowed / denied / error for the store-level decision and for 0-2 module decisions, Read and Write, with and without a thread that cancels the request context at an arbitrary point (a decision asked under a cancelled context fails, as the server's Check does), with and without a client identity; EVERY interleaving and every choice among ready select cases (preemption bounds 0,1,2 then unbounded with state-key pruning, then the partial-order-reduced search); oracle: Authorize returns nil only if the store-level decision allows or the write is confined to one module whose decision allows - a denial or an error of any consulted decision, including an error caused by the cancellation, denies the call; no deadlock, no panic")
	return r.Finish()
}
