// Package q decides C22 (internal concurrent queues behave like FIFO channels) by exploring all
// interleavings of small producer/consumer harnesses over the real mpmc.Queue and mpsc.Accumulator,
// instrumented at build time (variant "q"), under the vrt scheduler.
package q

import (
	"os"
	"context"
	"encoding/json"
	"fmt"
	"os/exec"
	"sort"
	"strconv"
	"strings"
	"time"

	"github.com/openfga/openfga/internal/containers/mpmc"
	"github.com/openfga/openfga/internal/containers/mpsc"
	"github.com/openfga/openfga/internal/verifh/core"
	"github.com/openfga/openfga/internal/verifh/e1"
	"github.com/openfga/openfga/internal/verifrt/vrt"
	"github.com/openfga/openfga/internal/verifrt/vsync"
)

type Params struct {
	Kind      string `json:"kind"` // mpmc | mpsc
	Cap       int    `json:"cap,omitempty"`
	Ext       int    `json:"ext,omitempty"`
	Producers int    `json:"producers"`
	Items     int    `json:"items"`
	Consumers int    `json:"consumers"`
	Recvs     int    `json:"recvs"`            // receives per consumer (mpmc); mpsc consumer reads until closed
	Closer    bool   `json:"closer,omitempty"` // a thread that closes the queue at an arbitrary time
	Cancel    bool   `json:"cancel,omitempty"` // a thread that cancels the shared context at an arbitrary time
	Grow      bool   `json:"grow,omitempty"`   // a thread that calls Grow(4)
	Try       int    `json:"try,omitempty"`    // mpsc: TryRecv attempts before blocking receives
	SeqBreak  int    `json:"seq_break,omitempty"`
}

func (p Params) String() string {
	return fmt.Sprintf("%s cap=%d ext=%d P=%dx%d C=%dx%d closer=%v cancel=%v grow=%v try=%d seqbreak=%d", p.Kind, p.Cap, p.Ext, p.Producers, p.Items, p.Consumers, p.Recvs, p.Closer, p.Cancel, p.Grow, p.Try, p.SeqBreak)
}

type hist struct {
	ops []e1.Op
}

func (h *hist) call(t int, name string, arg int) int {
	h.ops = append(h.ops, e1.Op{Thread: t, Call: vrt.Stamp(), Name: name, Arg: arg})
	return len(h.ops) - 1
}
func (h *hist) ret(i int, val int, ok bool) {
	h.ops[i].Val, h.ops[i].OK, h.ops[i].Ret = val, ok, vrt.Stamp()
}

// sequential specification: FIFO queue with close and a cancellable context. State: closed|cancelled|items.
var mpmcModel = e1.Model{Init: "0|0|", Step: func(state string, op e1.Op) (string, bool) {
	parts := strings.SplitN(state, "|", 3)
	closed, cancelled := parts[0] == "1", parts[1] == "1"
	var items []string
	if parts[2] != "" {
		items = strings.Split(parts[2], ",")
	}
	mk := func() string {
		b := func(x bool) string {
			if x {
				return "1"
			}
			return "0"
		}
		return b(closed) + "|" + b(cancelled) + "|" + strings.Join(items, ",")
	}
	pending := op.Ret == 0
	switch op.Name {
	case "send":
		if pending {
			if closed || cancelled {
				return state, false
			}
			items = append(items, strconv.Itoa(op.Arg))
			return mk(), true
		}
		if op.OK {
			if closed || cancelled {
				return state, false
			}
			items = append(items, strconv.Itoa(op.Arg))
			return mk(), true
		}
		return state, closed || cancelled
	case "recv":
		if pending {
			if len(items) == 0 {
				return state, false
			}
			items = items[1:]
			return mk(), true
		}
		if op.OK {
			if len(items) == 0 || items[0] != strconv.Itoa(op.Val) {
				return state, false
			}
			items = items[1:]
			return mk(), true
		}
		return state, (closed && len(items) == 0) || cancelled
	case "close":
		closed = true
		return mk(), true
	case "cancel":
		cancelled = true
		return mk(), true
	case "grow":
		return state, true
	}
	return state, false
}}

// mpsc: FIFO per producer only. State: closed|cancelled|q1;q2 (one queue per producer).
func mpscModel(producers int) e1.Model {
	return e1.Model{Init: "0|0|" + strings.Repeat(";", producers-1), Step: func(state string, op e1.Op) (string, bool) {
		parts := strings.SplitN(state, "|", 3)
		closed, cancelled := parts[0] == "1", parts[1] == "1"
		qs := strings.Split(parts[2], ";")
		mk := func() string {
			b := func(x bool) string {
				if x {
					return "1"
				}
				return "0"
			}
			return b(closed) + "|" + b(cancelled) + "|" + strings.Join(qs, ";")
		}
		empty := true
		for _, q := range qs {
			if q != "" {
				empty = false
			}
		}
		pop := func(val int) bool {
			p := val/10 - 1
			if p < 0 || p >= len(qs) || qs[p] == "" {
				return false
			}
			it := strings.Split(qs[p], ",")
			if it[0] != strconv.Itoa(val) {
				return false
			}
			qs[p] = strings.Join(it[1:], ",")
			return true
		}
		pending := op.Ret == 0
		switch op.Name {
		case "send":
			if (pending || op.OK) && !closed {
				p := op.Arg/10 - 1
				if qs[p] == "" {
					qs[p] = strconv.Itoa(op.Arg)
				} else {
					qs[p] += "," + strconv.Itoa(op.Arg)
				}
				return mk(), true
			}
			if pending {
				return state, false
			}
			return state, !op.OK && closed
		case "recv", "tryrecv":
			if pending {
				return state, false // a pending receive that took an item would have returned it; treat as not taken
			}
			if op.OK {
				if !pop(op.Val) {
					return state, false
				}
				return mk(), true
			}
			if op.Name == "tryrecv" {
				return state, true // TryRecv may miss an item whose producer has not finished linking it
			}
			return state, (closed && empty) || cancelled
		case "close":
			closed = true
			return mk(), true
		case "cancel":
			cancelled = true
			return mk(), true
		}
		return state, false
	}}
}

func histKey(ops []e1.Op) (string, bool) {
	var b strings.Builder
	overlap := false
	for i, o := range ops {
		fmt.Fprintf(&b, "%s;", o)
		for j := 0; j < i; j++ {
			p := ops[j]
			if o.Thread != p.Thread && (p.Ret == 0 || p.Ret > o.Call) && (o.Ret == 0 || o.Ret > p.Call) {
				overlap = true
			}
		}
	}
	return b.String(), overlap
}

func scenario(p Params) e1.Scenario {
	return e1.Scenario{Name: p.String(), Params: p, Make: func() (func(), func(x *vrt.Execution) (string, string, string, uint64)) {
		var h *hist
		var sentOK, recvOK int
		var capNow func() int
		body := func() {
			h = &hist{}
			sentOK, recvOK = 0, 0
			ctx, cancel := context.WithCancel(context.Background())
			defer cancel()
			var wg vsync.WaitGroup
			if p.Kind == "mpmc" {
				qu := mpmc.MustQueue[int](p.Cap, p.Ext)
				capNow = qu.Capacity
				for pi := 0; pi < p.Producers; pi++ {
					wg.Go(func() {
						for i := 0; i < p.Items; i++ {
							v := (pi+1)*10 + i
							k := h.call(vrt.ThreadID(), "send", v)
							ok := qu.Send(ctx, v)
							h.ret(k, 0, ok)
						}
					})
				}
				for ci := 0; ci < p.Consumers; ci++ {
					wg.Go(func() {
						for i := 0; i < p.Recvs; i++ {
							k := h.call(vrt.ThreadID(), "recv", 0)
							v, ok := qu.Recv(ctx)
							h.ret(k, v, ok)
						}
					})
				}
				if p.Closer {
					wg.Go(func() {
						k := h.call(vrt.ThreadID(), "close", 0)
						qu.Close()
						h.ret(k, 0, true)
					})
				}
				if p.Cancel {
					wg.Go(func() {
						k := h.call(vrt.ThreadID(), "cancel", 0)
						cancel()
						h.ret(k, 0, true)
					})
				}
				if p.Grow {
					wg.Go(func() {
						k := h.call(vrt.ThreadID(), "grow", 0)
						_ = qu.Grow(4)
						h.ret(k, 0, true)
					})
				}
				wg.Wait()
				// drain: close, then receive until the queue reports closed-and-empty
				k := h.call(0, "close", 0)
				qu.Close()
				h.ret(k, 0, true)
				// sends after close must fail, every one of them, and must not disturb the drain
				for i := 0; i < 2; i++ {
					k := h.call(0, "send", 900+i)
					ok := qu.Send(context.Background(), 900+i)
					h.ret(k, 0, ok)
				}
				for i := 0; i < p.Producers*p.Items+1; i++ {
					k := h.call(0, "recv", 0)
					v, ok := qu.Recv(context.Background())
					h.ret(k, v, ok)
					if !ok {
						break
					}
				}
				return
			}
			// mpsc: producers, then Close after they all returned (the documented contract), one consumer
			acc := mpsc.NewAccumulator[int]()
			var pwg vsync.WaitGroup
			for pi := 0; pi < p.Producers; pi++ {
				pwg.Go(func() {
					for i := 0; i < p.Items; i++ {
						v := (pi+1)*10 + i
						k := h.call(vrt.ThreadID(), "send", v)
						ok := acc.Send(v)
						h.ret(k, 0, ok)
					}
				})
			}
			wg.Go(func() {
				for i := 0; i < p.Try; i++ {
					k := h.call(vrt.ThreadID(), "tryrecv", 0)
					v, ok := acc.TryRecv()
					h.ret(k, v, ok)
				}
				if p.SeqBreak > 0 {
					n := 0
					for v := range acc.Seq(ctx) {
						k := h.call(vrt.ThreadID(), "recv", 0)
						h.ret(k, v, true)
						n++
						if n == p.SeqBreak {
							break
						}
					}
				}
				for {
					k := h.call(vrt.ThreadID(), "recv", 0)
					v, ok := acc.Recv(ctx)
					h.ret(k, v, ok)
					if !ok {
						return
					}
				}
			})
			if p.Cancel {
				wg.Go(func() {
					k := h.call(vrt.ThreadID(), "cancel", 0)
					cancel()
					h.ret(k, 0, true)
				})
			}
			pwg.Wait()
			k := h.call(0, "close", 0)
			acc.Close()
			h.ret(k, 0, true)
			// sends after close must fail: every one of them (a first failed send must not re-open the queue)
			for i := 0; i < 3; i++ {
				k = h.call(0, "send", 10*(p.Producers)+7+i)
				ok := acc.Send(10*p.Producers + 7 + i)
				h.ret(k, 0, ok)
			}
			wg.Wait()
			if p.Cancel {
				// after a cancellation the consumer may have stopped early: drain what is left
				for {
					k := h.call(0, "recv", 0)
					v, ok := acc.Recv(context.Background())
					h.ret(k, v, ok)
					if !ok {
						break
					}
				}
			}
		}
		check := func(x *vrt.Execution) (string, string, string, uint64) {
			ops := h.ops
			key, overlap := histKey(ops)
			var nt uint64
			if overlap {
				nt = core.Hash(key)
			}
			sentOK, recvOK = 0, 0
			var got []int
			sent := map[int]bool{}
			for _, o := range ops {
				if o.Name == "send" && o.Ret != 0 && o.OK {
					sentOK++
					sent[o.Arg] = true
				}
				if (o.Name == "recv" || o.Name == "tryrecv") && o.Ret != 0 && o.OK {
					recvOK++
					got = append(got, o.Val)
				}
			}
			outcome := fmt.Sprintf("dead=%v live=%v panics=%d stuck=%d sent=%d got=%v", x.Deadlock, x.Livelock, len(x.Panics), len(x.Stuck), sentOK, got)
			desc := func(what string) string {
				var hs []string
				for _, o := range ops {
					hs = append(hs, o.String())
				}
				return fmt.Sprintf("%s | scenario %s | %s | history: %s", what, p, x.Summary(), strings.Join(hs, " "))
			}
			if len(x.Panics) > 0 {
				return "panic-in-queue-operation", desc("panic: " + x.Panics[0]), outcome, nt
			}
			if x.Livelock {
				return "livelock-spinning-forever", desc("a thread spins forever"), outcome, nt
			}
			if x.Deadlock {
				// classify: which operations are pending, and is there an item / a free slot for them
				pendRecv, pendSend := 0, 0
				for _, o := range ops {
					if o.Ret == 0 && o.Name == "recv" {
						pendRecv++
					}
					if o.Ret == 0 && o.Name == "send" {
						pendSend++
					}
				}
				buffered := sentOK - recvOK
				switch {
				case pendRecv > 0 && buffered > 0:
					return p.Kind + "-lost-wakeup/receiver-parked-with-item-buffered", desc(fmt.Sprintf("%d receiver(s) parked forever while %d item(s) are buffered and every other thread has finished", pendRecv, buffered)), outcome, nt
				case pendSend > 0 && p.Kind == "mpmc" && buffered < p.Cap:
					return p.Kind + "-lost-wakeup/sender-parked-with-free-slot", desc(fmt.Sprintf("%d sender(s) parked forever while only %d item(s) are buffered", pendSend, buffered)), outcome, nt
				}
				return "deadlock", desc("deadlock"), outcome, nt
			}
			// duplicates / loss (complete executions): everything sent is received exactly once
			sort.Ints(got)
			for i := 1; i < len(got); i++ {
				if got[i] == got[i-1] {
					return "item-duplicated", desc(fmt.Sprintf("item %d received twice", got[i])), outcome, nt
				}
			}
			for _, v := range got {
				if !sent[v] {
					// may be a pending/failed send whose value nevertheless appeared
					return "item-received-but-send-reported-failure", desc(fmt.Sprintf("item %d received although its Send did not report success", v)), outcome, nt
				}
			}
			if len(got) != sentOK {
				return "item-lost", desc(fmt.Sprintf("%d items sent successfully, %d received after close-and-drain", sentOK, len(got))), outcome, nt
			}
			m := mpmcModel
			if p.Kind == "mpsc" {
				m = mpscModel(p.Producers + 1)
			}
			if !e1.Linearizable(ops, m) {
				return "not-linearizable-to-fifo-channel", desc("history has no linearization against the FIFO-channel specification"), outcome, nt
			}
			_ = capNow
			return "", "", outcome, nt
		}
		return body, check
	}}
}

func Scenarios(thorough bool) []e1.Scenario {
	var ps []Params
	// mpmc without closer/canceller: receives never exceed sends and the backlog fits the buffer,
	// so a FIFO channel never blocks forever: any deadlock is a defect.
	for _, ext := range []int{0, 1, -1} {
		for _, P := range []int{1, 2} {
			for _, n := range []int{1, 2} {
				for _, C := range []int{1, 2} {
					for _, m := range []int{1, 2} {
						back := P*n - C*m
						if back < 0 || (ext == 0 && back > 2) {
							continue
						}
						if P+C > 3 && !thorough && ext != 0 {
							continue
						}
						ps = append(ps, Params{Kind: "mpmc", Cap: 2, Ext: ext, Producers: P, Items: n, Consumers: C, Recvs: m})
					}
				}
			}
		}
	}
	// with a racing closer / canceller / Grow: every operation must return
	ps = append(ps,
		Params{Kind: "mpmc", Cap: 2, Ext: 0, Producers: 1, Items: 3, Consumers: 1, Recvs: 1, Closer: true},
		Params{Kind: "mpmc", Cap: 2, Ext: 0, Producers: 1, Items: 2, Consumers: 1, Recvs: 3, Closer: true},
		Params{Kind: "mpmc", Cap: 2, Ext: 0, Producers: 2, Items: 2, Consumers: 1, Recvs: 1, Closer: true},
		Params{Kind: "mpmc", Cap: 2, Ext: 1, Producers: 1, Items: 3, Consumers: 1, Recvs: 2, Closer: true},
		Params{Kind: "mpmc", Cap: 2, Ext: 0, Producers: 1, Items: 3, Consumers: 1, Recvs: 1, Cancel: true},
		Params{Kind: "mpmc", Cap: 2, Ext: 0, Producers: 1, Items: 1, Consumers: 1, Recvs: 2, Cancel: true},
		Params{Kind: "mpmc", Cap: 2, Ext: 0, Producers: 1, Items: 3, Consumers: 1, Recvs: 3, Grow: true},
		Params{Kind: "mpmc", Cap: 2, Ext: -1, Producers: 2, Items: 2, Consumers: 1, Recvs: 4, Grow: true},
	)
	if thorough {
		ps = append(ps,
			Params{Kind: "mpmc", Cap: 2, Ext: 0, Producers: 2, Items: 2, Consumers: 2, Recvs: 1, Closer: true},
			Params{Kind: "mpmc", Cap: 2, Ext: 0, Producers: 2, Items: 1, Consumers: 2, Recvs: 2, Closer: true, Cancel: true},
			Params{Kind: "mpmc", Cap: 4, Ext: 0, Producers: 2, Items: 3, Consumers: 2, Recvs: 3},
		)
	}
	// mpsc
	for _, n := range []int{1, 2} {
		for _, try := range []int{0, 1} {
			ps = append(ps, Params{Kind: "mpsc", Producers: 2, Items: n, Consumers: 1, Try: try})
		}
	}
	ps = append(ps,
		Params{Kind: "mpsc", Producers: 2, Items: 2, Consumers: 1, SeqBreak: 1},
		Params{Kind: "mpsc", Producers: 2, Items: 1, Consumers: 1, Cancel: true},
	)
	if thorough {
		ps = append(ps, Params{Kind: "mpsc", Producers: 3, Items: 1, Consumers: 1, Try: 1}, Params{Kind: "mpsc", Producers: 2, Items: 3, Consumers: 1})
	}
	var out []e1.Scenario
	for _, p := range ps {
		out = append(out, scenario(p))
	}
	return out
}

func Run(o *core.Options) int {
	r := core.NewReport(o, "exploration",
		"every interleaving (stateless DFS over scheduling choices at every sync/atomic/channel operation of the instrumented mpmc.Queue / mpsc.Accumulator, iterative preemption bounding, then unbounded with state-key pruning) of each producer/consumer/closer/canceller scenario; oracle per execution: no panic/deadlock/livelock, nothing lost or duplicated after close-and-drain, recorded call/return history linearizable to a FIFO channel with close (per-producer FIFO for the accumulator); non-trivial = distinct recorded histories in which operations of two threads overlap")
	r.Assume("scheduling points at every sync, sync/atomic and channel operation (tools/vgen rewrite of the current source); plain memory accesses are ordered by them (race freedom is checked by the separate free-running -race pass in thorough)",
		"fair scheduling: a thread with 24 consecutive read-only operations yields to non-spinning threads",
		"capacity 2, <=2 producers x <=3 items, <=2 consumers; TryRecv=false is always accepted (an item whose producer has not finished linking is invisible)")
	scs := Scenarios(o.Thorough())
	b := e1.Budget{Bounds: []int{0, 1, 2, -1}, Required: 2, Prune: true, PerScen: 30 * time.Second, DevBounds: []int{1, 2, 3}, DevRequired: 2, DevPerScen: 8 * time.Second}
	if o.Thorough() {
		b.PerScen = 10 * time.Minute
		b.Required = 3
	}
	if o.Replay != "" {
		return replay(o, r, scs)
	}
	if os.Getenv("VERIF_XVAL") != "" {
		return e1.XVal(scs, false, 60*time.Second)
	}
	b.DPOR = 8 * time.Second
	if o.Thorough() {
		b.DPOR = 5 * time.Minute
	}
	results := e1.RunSharded(o, r, scs, b)
	e1.Merge(r, results)
	if o.Thorough() {
		// free-running -race pass over the uninstrumented queues (supplementary: samples schedules)
		out, err := exec.Command(core.BinDir()+"/qrace", "4000").CombinedOutput()
		r.Set("race_pass", map[string]any{"ran": true, "ok": err == nil, "tail": lastLine(string(out))})
		if err != nil || strings.Contains(string(out), "DATA RACE") {
			msg := string(out)
			if len(msg) > 3000 {
				msg = msg[:3000]
			}
			r.Violate("data-race-reported-by-race-detector", "free-running -race pass over mpmc/mpsc: "+msg, map[string]any{"cmd": ".build/bin/qrace 4000"})
		}
	}
	for i, res := range results {
		if res != nil && i < 3 {
			r.Sample(map[string]any{"scenario": res.Name, "outcomes": res.Outcomes})
		}
	}
	return r.Finish()
}

func replay(o *core.Options, r *core.Report, scs []e1.Scenario) int {
	var v e1.Viol
	if err := core.LoadReplay(o.Replay, &v); err != nil {
		fmt.Println("replay:", err)
		return 2
	}
	// the scenario is rebuilt from its recorded parameters
	var p Params
	if err := remarshal(v.Scenario, &p); err != nil {
		fmt.Println("replay:", err)
		return 2
	}
	sc := scenario(p)
	body, check := sc.Make()
	x := vrt.Run(v.Schedule, vrt.RunOpts{Verbose: true}, body)
	sig, desc, outcome, _ := check(x)
	r.Eval(1)
	for _, l := range x.Trace {
		fmt.Println("  ", l)
	}
	fmt.Println("outcome:", outcome)
	if sig != "" {
		r.Violate(sig, desc, v)
	}
	return r.Finish()
}

func remarshal(in any, out any) error {
	b, err := json.Marshal(in)
	if err != nil {
		return err
	}
	return json.Unmarshal(b, out)
}

func lastLine(s string) string {
	s = strings.TrimSpace(s)
	if i := strings.LastIndexByte(s, '\n'); i >= 0 {
		return s[i+1:]
	}
	return s
}
