// Package c32 decides C32 "AuthZEN endpoints agree with the native API".
package c32

import (
	"context"
	"fmt"
	"google.golang.org/grpc/metadata"
	"sort"
	"strings"
	"sync"
	"sync/atomic"
	"time"

	authzenv1 "github.com/openfga/api/proto/authzen/v1"
	openfgav1 "github.com/openfga/api/proto/openfga/v1"
	"google.golang.org/protobuf/types/known/structpb"

	"github.com/openfga/openfga/internal/verifh/c04/kit"
	"github.com/openfga/openfga/internal/verifh/core"
	"github.com/openfga/openfga/internal/verifh/e2"
	"github.com/openfga/openfga/internal/verifh/ref"
	"github.com/openfga/openfga/pkg/server"
)

// Q is a native decision request of the first two passes (no properties; requests with properties: props.go).
type Q struct {
	Subject string `json:"subject"` // "type:id"
	Obj     string `json:"obj"`
	Rel     string `json:"rel"`
	Ctx     *int   `json:"reqctx,omitempty"`
	// CtxEmpty: the request carries a context object without any field ({}); Ctx is nil then
	CtxEmpty bool `json:"reqctx_empty,omitempty"`
}

func ctxStr(c *int, empty bool) string {
	if c == nil && empty {
		return "{}"
	}
	return e2.CtxStr(c)
}

// ctxStruct: absent -> nil, present-but-empty -> a Struct without fields, value -> {x: value}.
func ctxStruct(c *int, empty bool) *structpb.Struct {
	if c == nil && empty {
		s, _ := structpb.NewStruct(map[string]any{})
		return s
	}
	return e2.ReqCtx(c)
}

func (q Q) String() string {
	return fmt.Sprintf("%s#%s@%s ctx=%s", q.Obj, q.Rel, q.Subject, ctxStr(q.Ctx, q.CtxEmpty))
}

func split(o string) (string, string) { i := strings.IndexByte(o, ':'); return o[:i], o[i+1:] }

func props(p *int) *structpb.Struct {
	if p == nil {
		return nil
	}
	s, _ := structpb.NewStruct(map[string]any{"x": *p})
	return s
}

func subj(s string, p *int) *authzenv1.Subject {
	t, id := split(s)
	return &authzenv1.Subject{Type: t, Id: id, Properties: props(p)}
}
func res(o string, p *int) *authzenv1.Resource {
	t, id := split(o)
	return &authzenv1.Resource{Type: t, Id: id, Properties: props(p)}
}
func act(r string, p *int) *authzenv1.Action { return &authzenv1.Action{Name: r, Properties: props(p)} }

type world struct {
	env  *e2.Env
	memo map[string]string
	// pinned: a newer (permissive) model is the store's latest; AuthZEN requests pin the model under test
	// with the Openfga-Authorization-Model-Id header, the native requests name it in the request
	pinned bool
}

func (w *world) ctx() context.Context {
	if !w.pinned {
		return context.Background()
	}
	return metadata.NewIncomingContext(context.Background(), metadata.Pairs(strings.ToLower(server.AuthorizationModelIDHeader), w.env.ModelID))
}

// native: class T/F/ERR of the native Check of the mapped request.
func (w *world) native(q Q) string {
	k := q.String()
	if v, ok := w.memo[k]; ok {
		return v
	}
	out := w.env.Check(q.Obj, q.Rel, q.Subject, q.Ctx, nil, func(req *openfgav1.CheckRequest) {
		if q.Ctx == nil && q.CtxEmpty {
			req.Context = ctxStruct(nil, true) // the native request states an empty context object as well
		}
	})
	w.memo[k] = out.V
	return out.V
}

func evalClass(r *authzenv1.EvaluationResponse) string {
	if r.GetDecision() {
		return "T"
	}
	if r.GetContext() != nil {
		if _, ok := r.GetContext().AsMap()["error"]; ok {
			return "ERR"
		}
	}
	return "F"
}

func (w *world) evaluation(q Q) string {
	resp, err := w.env.S.Evaluation(w.ctx(), &authzenv1.EvaluationRequest{StoreId: w.env.StoreID,
		Subject: subj(q.Subject, nil), Resource: res(q.Obj, nil), Action: act(q.Rel, nil), Context: ctxStruct(q.Ctx, q.CtxEmpty)})
	if err != nil {
		return "ERR"
	}
	return evalClass(resp)
}

// Item / Top: optional fields of an Evaluations request in harness terms ("" / nil = absent).
type Part struct {
	Subject string `json:"subject,omitempty"`
	Obj     string `json:"resource,omitempty"`
	Rel     string `json:"action,omitempty"`
	Ctx     *int   `json:"context,omitempty"`
	// CtxEmpty: the context is PRESENT but has no fields ({}): on an item it overrides the top-level default
	// with nothing (it is not "absent"); Ctx is nil then
	CtxEmpty bool `json:"context_empty,omitempty"`
	// EmptyField (items only): "subject" | "resource" | "action" is present as an empty object ({}): it overrides
	// the default with a value no Check can accept
	EmptyField string `json:"empty_field,omitempty"`
}

func pt(s, o, r string, c *int) Part { return Part{Subject: s, Obj: o, Rel: r, Ctx: c} }

type Evals struct {
	Variant  string `json:"variant"`
	Semantic string `json:"semantic"` // "" (no options) | execute_all | deny_on_first_deny | permit_on_first_permit
	Top      Part   `json:"top"`
	Items    []Part `json:"items"`
}

// resolve: an item field wins, otherwise the top-level default applies (AuthZEN evaluations defaults).
func resolve(top, it Part) (Q, bool) {
	q := Q{Subject: it.Subject, Obj: it.Obj, Rel: it.Rel, Ctx: it.Ctx, CtxEmpty: it.CtxEmpty}
	if q.Subject == "" {
		q.Subject = top.Subject
	}
	if q.Obj == "" {
		q.Obj = top.Obj
	}
	if q.Rel == "" {
		q.Rel = top.Rel
	}
	if it.Ctx == nil && !it.CtxEmpty { // ABSENT only: an empty item context is the item's own context
		q.Ctx, q.CtxEmpty = top.Ctx, top.CtxEmpty
	}
	// a present-but-empty subject/resource/action is the item's own (unusable) value, not the default
	switch it.EmptyField {
	case "subject":
		q.Subject = ":"
	case "resource":
		q.Obj = ":"
	case "action":
		q.Rel = ""
		return q, q.Subject != "" && q.Obj != ""
	}
	return q, q.Subject != "" && q.Obj != "" && q.Rel != ""
}

// expectedEvals: the per-item native classes cut according to the semantic.
func (w *world) expectedEvals(e Evals) []string {
	var out []string
	for _, it := range e.Items {
		q, ok := resolve(e.Top, it)
		if !ok {
			return []string{"REQUEST-ERR"}
		}
		v := w.native(q)
		out = append(out, v)
		if e.Semantic == "deny_on_first_deny" && v != "T" {
			break
		}
		if e.Semantic == "permit_on_first_permit" && v == "T" {
			break
		}
	}
	return out
}

func (w *world) evaluations(e Evals) []string {
	req := &authzenv1.EvaluationsRequest{StoreId: w.env.StoreID, Context: ctxStruct(e.Top.Ctx, e.Top.CtxEmpty)}
	if e.Top.Subject != "" {
		req.Subject = subj(e.Top.Subject, nil)
	}
	if e.Top.Obj != "" {
		req.Resource = res(e.Top.Obj, nil)
	}
	if e.Top.Rel != "" {
		req.Action = act(e.Top.Rel, nil)
	}
	switch e.Semantic {
	case "execute_all":
		req.Options = &authzenv1.EvaluationsOptions{EvaluationsSemantic: authzenv1.EvaluationsSemantic_execute_all}
	case "deny_on_first_deny":
		req.Options = &authzenv1.EvaluationsOptions{EvaluationsSemantic: authzenv1.EvaluationsSemantic_deny_on_first_deny}
	case "permit_on_first_permit":
		req.Options = &authzenv1.EvaluationsOptions{EvaluationsSemantic: authzenv1.EvaluationsSemantic_permit_on_first_permit}
	}
	for _, it := range e.Items {
		x := &authzenv1.EvaluationsItemRequest{Context: ctxStruct(it.Ctx, it.CtxEmpty)}
		if it.Subject != "" {
			x.Subject = subj(it.Subject, nil)
		}
		if it.Obj != "" {
			x.Resource = res(it.Obj, nil)
		}
		if it.Rel != "" {
			x.Action = act(it.Rel, nil)
		}
		switch it.EmptyField {
		case "subject":
			x.Subject = &authzenv1.Subject{}
		case "resource":
			x.Resource = &authzenv1.Resource{}
		case "action":
			x.Action = &authzenv1.Action{}
		}
		req.Evaluations = append(req.Evaluations, x)
	}
	resp, err := w.env.S.Evaluations(w.ctx(), req)
	if err != nil {
		return []string{"REQUEST-ERR"}
	}
	var out []string
	for _, r := range resp.GetEvaluations() {
		out = append(out, evalClass(r))
	}
	return out
}

func (w *world) subjectSearch(o, rel, typ string, ctx *int) string {
	resp, err := w.env.S.SubjectSearch(w.ctx(), &authzenv1.SubjectSearchRequest{StoreId: w.env.StoreID,
		Resource: res(o, nil), Action: act(rel, nil), Subject: &authzenv1.SubjectFilter{Type: typ}, Context: e2.ReqCtx(ctx)})
	if err != nil {
		return "ERR"
	}
	out := []string{}
	for _, s := range resp.GetResults() {
		out = append(out, s.GetType()+":"+s.GetId())
	}
	sort.Strings(out)
	return "[" + strings.Join(out, ",") + "]"
}

func (w *world) resourceSearch(s, rel, typ string, ctx *int) string {
	resp, err := w.env.S.ResourceSearch(w.ctx(), &authzenv1.ResourceSearchRequest{StoreId: w.env.StoreID,
		Subject: subj(s, nil), Action: act(rel, nil), Resource: &authzenv1.ResourceFilter{Type: typ}, Context: e2.ReqCtx(ctx)})
	if err != nil {
		return "ERR"
	}
	out := []string{}
	for _, x := range resp.GetResults() {
		out = append(out, x.GetType()+":"+x.GetId())
	}
	sort.Strings(out)
	return "[" + strings.Join(out, ",") + "]"
}

func listStr(s []string, err error) string {
	if err != nil {
		return "ERR"
	}
	return "[" + strings.Join(e2.SortedCopy(s), ",") + "]"
}

// Case is a replayable deviation.
type Case struct {
	World    *ref.World `json:"world"`
	Endpoint string     `json:"endpoint"`
	Q        *Q         `json:"request,omitempty"`
	Evals    *Evals     `json:"evaluations,omitempty"`
	Search   []string   `json:"search,omitempty"` // object/subject, relation, type, ctx
	PQ       *PQ        `json:"request_with_properties,omitempty"`
	PEvals   *PEvals    `json:"evaluations_with_properties,omitempty"`
	V        *PV        `json:"search_carries,omitempty"`
	Native   string     `json:"native"`
	AuthZen  string     `json:"authzen"`
	Seen     string     `json:"seen"`
}

var subjects = []string{"user:a", "user:*", "group:1", "doc:2"}

const pinnedTag = "older model pinned by the model-id header, a permissive model is the latest"

func diffClass(want, got string) string {
	short := func(s string) string {
		switch {
		case s == "T" || s == "F" || s == "ERR":
			return s
		case s == "[]":
			return "empty"
		case strings.HasPrefix(s, "["):
			return "set"
		}
		return "list"
	}
	return "native=" + short(want) + " authzen=" + short(got)
}

// check compares and, on a deviation, re-executes both sides 5 times (fresh native calls, no memo).
func check(r *core.Report, w *ref.World, endpoint string, want string, got string, again func() (string, string), c Case, ntKey ...string) {
	r.Eval(1)
	r.Count("calls_"+endpoint, 1)
	if len(ntKey) > 0 {
		r.Nontrivial(core.Hash(append([]string{endpoint, w.M.String(), e2.TuplesStr(w.Tuples)}, ntKey...)...))
	}
	if want == got {
		return
	}
	n := 0
	for i := 0; i < 5; i++ {
		if a, b := again(); a != b {
			n++
		}
	}
	c.World, c.Endpoint, c.Native, c.AuthZen, c.Seen = w, endpoint, want, got, fmt.Sprintf("1+%d/5", n)
	if n < 4 {
		r.Anomaly(c)
		return
	}
	what := ""
	switch {
	case c.Q != nil:
		what = c.Q.String()
	case c.Evals != nil:
		what = fmt.Sprintf("%s/%s top=%+v items=%d", c.Evals.Variant, c.Evals.Semantic, c.Evals.Top, len(c.Evals.Items))
	case c.PQ != nil:
		what = c.PQ.String()
	case c.PEvals != nil:
		what = fmt.Sprintf("%s/%s top=%s items=%d", c.PEvals.Variant, c.PEvals.Semantic, spp(c.PEvals.Top), len(c.PEvals.Items))
	case c.V != nil:
		what = strings.Join(c.Search, " ") + " " + c.V.String()
	default:
		what = strings.Join(c.Search, " ")
	}
	sig := "authzen/" + endpoint + ": " + diffClass(want, got)
	if c.Evals != nil {
		sig = "authzen/" + endpoint + "/" + c.Evals.Variant + "/" + strings.TrimSpace(c.Evals.Semantic+" ") + ": lists differ"
	}
	if c.PEvals != nil {
		sig = "authzen/" + endpoint + "/" + c.PEvals.Variant + "/" + strings.TrimSpace(c.PEvals.Semantic+" ") + ": lists differ"
	}
	if w.Tag != "" {
		sig += " [" + w.Tag + "]"
	}
	r.Violate(sig, fmt.Sprintf("%s %s: native %s, AuthZEN %s (%s); model{%s} tuples{%s} %s", endpoint, what, want, got, c.Seen, w.M, e2.TuplesStr(w.Tuples), w.Tag), c)
}

func sp(p Part) string {
	return p.Subject + "|" + p.Obj + "|" + p.Rel + "|" + ctxStr(p.Ctx, p.CtxEmpty) + "|" + p.EmptyField
}

func one(r *core.Report, o *core.Options, env *e2.Env, w *ref.World, nodes []e2.Node, pinned bool) {
	ww := &world{env: env, memo: map[string]string{}, pinned: pinned}
	ctxs := kit.Contexts(w.Tuples)
	var qs []Q
	for _, rc := range ctxs {
		for _, n := range nodes {
			for _, s := range subjects {
				if e2.ValidRequest(w.M, n.Obj, n.Rel, s) {
					qs = append(qs, Q{Subject: s, Obj: n.Obj, Rel: n.Rel, Ctx: rc})
				}
			}
		}
	}
	fresh := func(q Q) string { delete(ww.memo, q.String()); return ww.native(q) }
	for _, q := range qs {
		q := q
		want := ww.native(q)
		var nt []string
		if want != "F" {
			nt = []string{q.String()}
		}
		check(r, w, "Evaluation", want, ww.evaluation(q), func() (string, string) { return fresh(q), ww.evaluation(q) }, Case{Q: &q}, nt...)
		// top-level-only Evaluations request (no items) behaves like a single Evaluation
		e := Evals{Variant: "no-items", Top: pt(q.Subject, q.Obj, q.Rel, q.Ctx)}
		// without items the request is a single evaluation: a failing Check fails the request (both sides error)
		noItems := func() string {
			g := strings.Join(ww.evaluations(e), ",")
			if g == "REQUEST-ERR" {
				return "ERR"
			}
			return g
		}
		check(r, w, "Evaluations", want, noItems(), func() (string, string) { return fresh(q), noItems() }, Case{Evals: &e}, nt...)
	}
	// ---- batched ----
	full := func(q Q) Part { return pt(q.Subject, q.Obj, q.Rel, q.Ctx) }
	var evs []Evals
	add := func(variant string, top Part, items []Part, sems ...string) {
		if len(items) == 0 {
			return
		}
		for _, s := range sems {
			evs = append(evs, Evals{Variant: variant, Semantic: s, Top: top, Items: items})
		}
	}
	all4 := []string{"", "execute_all", "deny_on_first_deny", "permit_on_first_permit"}
	var items []Part
	for _, q := range qs {
		items = append(items, full(q))
	}
	add("items-complete", Part{}, items, all4...)
	// permitted first / denied first orders so that the short-circuit rules cut in the middle
	byWant := func(first string) []Part {
		var a, b []Part
		for _, q := range qs {
			if (ww.native(q) == "T") == (first == "T") {
				a = append(a, full(q))
			} else {
				b = append(b, full(q))
			}
		}
		return append(a, b...)
	}
	add("permitted-first", Part{}, byWant("T"), "deny_on_first_deny", "permit_on_first_permit")
	add("denied-first", Part{}, byWant("F"), "deny_on_first_deny", "permit_on_first_permit", "execute_all")
	// decoy defaults at top level: complete items must ignore them, items without context inherit the top context
	add("top-level-decoys", pt("user:b", "doc:2", "r1", &e2.Twenty), items, "execute_all", "deny_on_first_deny")
	alt := func(i int) []string {
		return [][]string{{"execute_all", "permit_on_first_permit"}, {"", "deny_on_first_deny"}}[i%2]
	}
	for i, s := range subjects {
		var its []Part
		for _, q := range qs {
			if q.Subject == s {
				its = append(its, pt("", q.Obj, q.Rel, q.Ctx))
			}
		}
		add("subject-from-top", Part{Subject: s}, its, alt(i)...)
	}
	seenO, seenR := map[string]bool{}, map[string]bool{}
	for i, n := range nodes {
		if !seenO[n.Obj] {
			seenO[n.Obj] = true
			var its []Part
			for _, q := range qs {
				if q.Obj == n.Obj {
					its = append(its, pt(q.Subject, "", q.Rel, q.Ctx))
				}
			}
			add("resource-from-top", Part{Obj: n.Obj}, its, alt(i)...)
		}
		if !seenR[n.Rel] {
			seenR[n.Rel] = true
			var its []Part
			for _, q := range qs {
				if q.Rel == n.Rel {
					its = append(its, pt(q.Subject, q.Obj, "", q.Ctx))
				}
			}
			add("action-from-top", Part{Rel: n.Rel}, its, alt(i+1)...)
		}
	}
	for i, rc := range ctxs {
		if rc == nil {
			continue
		}
		var its []Part
		for _, q := range qs {
			if q.Ctx == rc {
				its = append(its, pt(q.Subject, q.Obj, q.Rel, nil))
			}
		}
		add("context-from-top", Part{Ctx: rc}, its, alt(i)...)
	}
	if len(qs) > 0 {
		// everything from the top level, items state only what differs from it
		t := qs[len(qs)/2]
		var its []Part
		for _, q := range qs {
			p := Part{}
			if q.Subject != t.Subject {
				p.Subject = q.Subject
			}
			if q.Obj != t.Obj {
				p.Obj = q.Obj
			}
			if q.Rel != t.Rel {
				p.Rel = q.Rel
			}
			if e2.CtxStr(q.Ctx) != e2.CtxStr(t.Ctx) {
				p.Ctx = q.Ctx // nil here means "inherit", which the expectation resolves the same way
			}
			its = append(its, p)
		}
		add("items-state-differences-only", full(t), its, all4...)
	}
	// ---- context states: ABSENT / PRESENT-BUT-EMPTY ({}) / value, at the top level and on every item ----
	// top state x item state, every base request (subject, resource, action) x every item state in one batch per
	// (top state, semantic). The short-circuit semantics get the items ordered by the native answer of the
	// harness-resolved item (longest evaluated prefix; the group that cuts is rotated with the top state).
	type cstate struct {
		c     *int
		empty bool
	}
	kind := func(c cstate) string {
		switch {
		case c.empty:
			return "empty"
		case c.c == nil:
			return "absent"
		}
		return "value"
	}
	states := []cstate{{nil, false}, {nil, true}}
	for _, rc := range ctxs {
		if rc != nil {
			states = append(states, cstate{rc, false})
		}
	}
	var bases []Q
	for _, q := range qs {
		if q.Ctx == nil {
			bases = append(bases, q)
		}
	}
	// a base request takes the value states on its items only when its REFERENCE answer (harness fixpoint
	// semantics over the world, not the server) differs between the contexts none/1/20; the other base requests
	// take absent / empty only (nothing a context says can change them)
	dependsOnCtx := func(b Q) bool {
		if len(states) == 2 {
			return false
		}
		first, _ := w.Holds(b.Obj, b.Rel, b.Subject, nil)
		for _, rc := range ctxs {
			if v, _ := w.Holds(b.Obj, b.Rel, b.Subject, rc); v != first {
				return true
			}
		}
		return false
	}
	dep := map[string]bool{}
	for _, b := range bases {
		dep[b.String()] = dependsOnCtx(b)
		if dep[b.String()] {
			r.Count("context_state_base_requests_depending_on_the_context", 1)
		}
	}
	r.Count("context_state_base_requests", int64(len(bases)))
	for ti, ts := range states {
		top := Part{Ctx: ts.c, CtxEmpty: ts.empty}
		var its []Part
		for _, b := range bases {
			for _, is := range states {
				if is.c != nil && !dep[b.String()] {
					continue
				}
				its = append(its, Part{Subject: b.Subject, Obj: b.Obj, Rel: b.Rel, Ctx: is.c, CtxEmpty: is.empty})
				r.Count("context_state_items/top="+kind(ts)+"/item="+kind(is), 1)
			}
		}
		ordered := func(first string) []Part {
			var a, b []Part
			for _, it := range its {
				q, _ := resolve(top, it)
				if (ww.native(q) == "T") == (first == "T") {
					a = append(a, it)
				} else {
					b = append(b, it)
				}
			}
			if len(b) > 0 {
				k := ti % len(b)
				b = append(append([]Part{}, b[k:]...), b[:k]...)
			}
			return append(a, b...)
		}
		sems := all4[1:] // the three named semantics ("no options" is the execute_all path: kept for condition-free worlds)
		if len(states) == 2 {
			sems = alt(ti) // no condition in the world: the context cannot decide anything, half of the semantics per top state
		}
		for _, sem := range sems {
			switch sem {
			case "deny_on_first_deny":
				add("context-states", top, ordered("T"), sem)
			case "permit_on_first_permit":
				add("context-states", top, ordered("F"), sem)
			default:
				add("context-states", top, its, sem)
			}
		}
	}
	// a single Evaluation / an Evaluations request without items whose context is {}
	for _, b := range bases {
		q := b
		q.CtxEmpty = true
		want := ww.native(q)
		var nt []string
		if want != "F" {
			nt = []string{q.String()}
		}
		check(r, w, "Evaluation", want, ww.evaluation(q), func() (string, string) { return fresh(q), ww.evaluation(q) }, Case{Q: &q}, nt...)
		e := Evals{Variant: "no-items", Top: Part{Subject: q.Subject, Obj: q.Obj, Rel: q.Rel, CtxEmpty: true}}
		noItems := func() string {
			g := strings.Join(ww.evaluations(e), ",")
			if g == "REQUEST-ERR" {
				return "ERR"
			}
			return g
		}
		check(r, w, "Evaluations", want, noItems(), func() (string, string) { return fresh(q), noItems() }, Case{Evals: &e}, nt...)
	}
	// an item states subject / resource / action as an EMPTY object: it does not inherit the default; the native
	// Check of the resolved item fails, so the item must be an error item (or the whole request is refused)
	if len(bases) > 0 {
		t := bases[len(bases)/2]
		for _, f := range []string{"subject", "resource", "action"} {
			add("empty-"+f+"-item", pt(t.Subject, t.Obj, t.Rel, nil), []Part{{}, {EmptyField: f}, {}}, all4...)
		}
	}
	for _, e := range evs {
		e := e
		want := strings.Join(ww.expectedEvals(e), ",")
		got := strings.Join(ww.evaluations(e), ",")
		if got == "REQUEST-ERR" && strings.HasPrefix(e.Variant, "empty-") {
			// refusing the whole request is an accepted reading iff the native Check of the empty-field item errors
			if q, _ := resolve(e.Top, e.Items[1]); ww.native(q) == "ERR" {
				r.Count("empty_field_item_refused_as_a_request", 1)
				got = want
			}
		}
		nt := []string{e.Variant, e.Semantic, sp(e.Top)}
		for _, it := range e.Items {
			nt = append(nt, sp(it))
		}
		if !strings.Contains(want, "T") && !strings.Contains(want, "ERR") {
			nt = nil
		}
		check(r, w, "Evaluations", want, got, func() (string, string) {
			ww.memo = map[string]string{}
			return strings.Join(ww.expectedEvals(e), ","), strings.Join(ww.evaluations(e), ",")
		}, Case{Evals: &e}, nt...)
		r.Count("evaluations_items", int64(len(e.Items)))
	}
	// ---- searches ----
	for _, rc := range ctxs {
		rc := rc
		for _, n := range nodes {
			n := n
			for _, typ := range []string{"user", "group", "doc"} {
				typ := typ
				nat := func() string { return listStr(env.ListUsers(n.Obj, n.Rel, typ, "", rc, nil)) }
				want := nat()
				var nt []string
				if want != "[]" {
					nt = []string{n.Obj, n.Rel, typ, e2.CtxStr(rc)}
				}
				check(r, w, "SubjectSearch", want, ww.subjectSearch(n.Obj, n.Rel, typ, rc), func() (string, string) { return nat(), ww.subjectSearch(n.Obj, n.Rel, typ, rc) },
					Case{Search: []string{n.Obj, n.Rel, typ, e2.CtxStr(rc)}}, nt...)
			}
		}
		seen := map[string]bool{}
		for _, n := range nodes {
			typ := ref.TypeOf(n.Obj)
			if seen[typ+n.Rel] {
				continue
			}
			seen[typ+n.Rel] = true
			rel := n.Rel
			for _, s := range subjects {
				s := s
				if !e2.ValidRequest(w.M, n.Obj, rel, s) {
					continue
				}
				nat := func() string { return listStr(env.ListObjects(typ, rel, s, rc, nil)) }
				want := nat()
				var nt []string
				if want != "[]" {
					nt = []string{s, rel, typ, e2.CtxStr(rc)}
				}
				check(r, w, "ResourceSearch", want, ww.resourceSearch(s, rel, typ, rc), func() (string, string) { return nat(), ww.resourceSearch(s, rel, typ, rc) },
					Case{Search: []string{s, rel, typ, e2.CtxStr(rc)}}, nt...)
			}
		}
	}
	_ = o
}

func serverOpts() []server.OpenFGAServiceV1Option {
	return []server.OpenFGAServiceV1Option{server.WithRequestTimeout(0), server.WithMaxChecksPerBatchCheck(1000), server.WithExperimentals("authzen")}
}

func nodesFor(o *core.Options) []e2.Node {
	n := []e2.Node{{Obj: "doc:1", Rel: "r0"}, {Obj: "doc:1", Rel: "r1"}, {Obj: "doc:1", Rel: "parent"}, {Obj: "group:1", Rel: "member"}}
	if o.Thorough() {
		n = append(n, e2.Node{Obj: "doc:2", Rel: "r0"}, e2.Node{Obj: "doc:2", Rel: "r1"}, e2.Node{Obj: "doc:2", Rel: "parent"}, e2.Node{Obj: "group:2", Rel: "member"})
	}
	return n
}

func Run(o *core.Options) int {
	r := core.NewReport(o, "exploration",
		"selected models x every tuple subset |T|<=2 x requests = (object,relation in {r0,r1,parent,member}) x AuthZEN-expressible subjects {user:a, user:*, group:1, doc:2} x request contexts {none,1,20 when T has a condition}. Per request: Evaluation vs native Check of subject 'type:id', resource 'type:id', action=relation, context=context (class T/F/ERR); the same through an Evaluations request without items. Per world: Evaluations batches in the variants items-complete, permitted-first, denied-first, top-level-decoys, subject/resource/action/context-from-top, items-state-differences-only x semantics {no options, execute_all, deny_on_first_deny, permit_on_first_permit}: response list vs the native Checks of the harness-resolved items, cut by the harness' own reading of the semantic. Context states: a context is ABSENT, PRESENT-BUT-EMPTY ({}) or carries a value (1, 20 when T has a condition); per world and per top-level state (absent/{}/1/20) one batch per semantic {execute_all, deny_on_first_deny, permit_on_first_permit; no options and half of the semantics per top state in condition-free worlds} whose items are every base request (subject, resource, action) x item state absent/{} and, for the base requests whose reference answer (harness fixpoint semantics) differs between the contexts, x item state 1/20; an item inherits the top-level context only when its own is ABSENT, an item context {} resolves to a native Check that states the context {} (so a missing condition parameter is an error item: decision=false plus context.error, never a plain decision); short-circuit semantics get the items ordered by the native answer (longest prefix, cutting group rotated with the top state). Evaluation and Evaluations-without-items with context {} per base request. Items that state subject / resource / action as an empty object (3 fields x 4 semantics, between two inheriting items): the item resolves to its own unusable value, never to the default: expected an error item at that position, or the whole request refused. SubjectSearch vs ListUsers (filter type user/group/doc) and ResourceSearch vs ListObjects as sets. Property pass (third pass): the same models with the condition declared over parameter P in {x, subject_x, resource_x, action_x} (cx(P:int):=P<10, one store per P; stored tuple contexts use P) x every tuple subset |T|<=2 containing a conditioned tuple that does not store P x the requests whose REFERENCE answer (harness fixpoint semantics, not the server) differs between P absent/1/20 x carrier vectors: property x on subject, on resource, on action each absent/1/20 (27 combinations) without the request-level key, plus request-level context key P in {1,20} with at most one property source present (14 precedence vectors; 41 in all, 19 for ActionSearch which has no action). Expected = native call with the harness-mapped context {subject_x, resource_x, action_x from the properties, request-level keys unchanged and winning}. Endpoints: Evaluation; Evaluations without items (carriers at top level), Evaluations with the carriers as top-level defaults and 5 items (inherit all / restate subject, resource, action with their own rotated properties / restate the context) with the semantic rotated over the vectors, Evaluations with every (request, vector) as a complete item per semantic (short-circuit semantics ordered for the longest prefix); SubjectSearch (properties on the subject filter, resource, action) vs ListUsers; ResourceSearch (subject, resource filter, action) vs ListObjects; ActionSearch (subject, resource) vs the set of relations of the resource type whose native Check allows. non-trivial = native answer not F / not empty / list containing T or ERR; distinct by (endpoint, model, tuples, request)")
	r.Assume("memory datastore; experimental flag 'authzen'; first pass: AuthZEN requests carry no model header, so the latest model (the model under test) is used on both sides; second pass (3 models in quick, 30 in thorough): a permissive model is written after the model under test, AuthZEN requests pin the model under test with the Openfga-Authorization-Model-Id header and the native requests name it",
		"universe 2 users/2 groups/2 docs; rewrites of depth<=1; one condition cx(x:int):=x<10",
		"userset subjects (group:1#member, ...) cannot be expressed in AuthZEN (subject.id must not contain '#') and are outside the request space",
		"an item-level error of Evaluations is a response with decision=false and context.error; it is compared with a native Check error (class ERR)",
		"context states: one context key (x); the native reference of an item whose context is {} is the Check carrying an empty context object; refusing a whole Evaluations request because an item states an empty subject/resource/action object is accepted iff the native Check of that resolved item errors (counter empty_field_item_refused_as_a_request)",
		"quick: requests address doc:1 / group:1 (symmetric universe); a deviation must repeat in at least 4 of 5 re-executions",
		"property pass: one property key (x) per source and one condition parameter per model; the mapping source.properties.k -> source_k and 'request context wins' is the harness' reading of the AuthZEN mapping documented in pkg/server/authzen.go; a stated item-level subject/resource/action replaces the top-level default together with its properties; requests whose reference answer does not depend on the parameter are left to the first pass (no properties)")
	r.Set("property_pass_condition_parameters", params)
	r.Set("property_pass_carrier_vectors", len(vectors(true)))
	r.Set("property_pass_carrier_vectors_action_search", len(vectors(false)))
	if o.Replay != "" {
		return replay(o, r)
	}
	limit := 10
	if o.Thorough() {
		limit = 120
	}
	models, total := kit.Models(o, limit)
	r.Set("model_classes_total", total)
	r.Set("models_selected", len(models))
	nodes := nodesFor(o)
	var sampled atomic.Int32
	kit.Sweep(r, models, kit.SweepOpts{K: 2, ServerOpts: serverOpts()}, func(env *e2.Env, w *ref.World) {
		one(r, o, env, w, nodes, false)
		if len(w.Tuples) == 2 && sampled.Add(1) <= 3 {
			r.Sample(map[string]any{"model": w.M.String(), "tuples": e2.TuplesStr(w.Tuples), "example": "Evaluation{subject:{type:user,id:a},resource:{type:doc,id:1},action:{name:r0}} vs Check(doc:1#r0@user:a)"})
		}
	})
	// second pass: the model under test is NOT the latest model of the store; every AuthZEN request pins it
	// with the model-id header and must still agree with the native request that names it
	npin := 3
	if o.Thorough() {
		npin = 30
	}
	if npin > len(models) {
		npin = len(models)
	}
	var latestWritten sync.Map
	r.Set("models_with_pinned_older_model", npin)
	kit.Sweep(r, models[:npin], kit.SweepOpts{K: 2, ServerOpts: serverOpts()}, func(env *e2.Env, w *ref.World) {
		if _, done := latestWritten.LoadOrStore(env, true); !done {
			if _, err := env.WriteModel(ref.Permissive()); err != nil {
				panic(err)
			}
		}
		r.Count("worlds_with_pinned_older_model", 1)
		w.Tag = pinnedTag
		one(r, o, env, w, nodes, true)
	})
	// third pass: properties and request-level context against conditions that read the mapped names
	t3 := time.Now()
	propsSweep(r, models, nodes)
	r.Set("props_pass_wall_s", time.Since(t3).Seconds())
	return r.Finish()
}

func replay(o *core.Options, r *core.Report) int {
	var c Case
	if err := core.LoadReplay(o.Replay, &c); err != nil {
		fmt.Println("replay:", err)
		return 2
	}
	if c.World.U == nil {
		c.World.U = ref.DefaultUniverse()
	}
	if p := tagParam(c.World.Tag); p != "" {
		env, err := newParamEnv(c.World.M, p)
		if err != nil {
			fmt.Println("model rejected:", err)
			return 2
		}
		defer env.Close()
		if err := writeParam(env, c.World.Tuples, p); err != nil {
			fmt.Println("write:", err)
			return 2
		}
		propsWorld(r, env, c.World, nodesFor(o), p)
		return r.Finish()
	}
	env, err := e2.NewEnv(c.World.M, serverOpts()...)
	if err != nil {
		fmt.Println("model rejected:", err)
		return 2
	}
	defer env.Close()
	if err := env.Write(c.World.Tuples, env.ModelID); err != nil {
		fmt.Println("write:", err)
		return 2
	}
	if c.World.U == nil {
		c.World.U = ref.DefaultUniverse()
	}
	if c.World.Tag == pinnedTag {
		if _, err := env.WriteModel(ref.Permissive()); err != nil {
			fmt.Println("write latest model:", err)
			return 2
		}
	}
	one(r, o, env, c.World, nodesFor(o), c.World.Tag == pinnedTag)
	return r.Finish()
}
