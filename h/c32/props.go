package c32

// Property pass: AuthZEN subject / resource / action PROPERTIES and the request-level context, for models
// whose condition reads one of the names the properties are mapped to.
//
// The model family is the one of the first pass, but the single condition cx is declared over a different
// parameter: cx(P:int) := P < 10 with P in {x, subject_x, resource_x, action_x} (one store per P). An AuthZEN
// request carries x=<v> in the properties of its subject, of its resource and of its action, and P=<v> in its
// request-level context, every one of the four independently absent / 1 / 20. The harness' own statement of
// the mapping (mapped) says which native context that is: subject.properties.x -> subject_x,
// resource.properties.x -> resource_x, action.properties.x -> action_x, request context keys unchanged and
// winning over a property that is mapped to the same name. The native call with that context is the
// expectation for every endpoint.

import (
	"context"
	"fmt"
	"sort"
	"strings"
	"sync/atomic"

	authzenv1 "github.com/openfga/api/proto/authzen/v1"
	openfgav1 "github.com/openfga/api/proto/openfga/v1"
	"google.golang.org/protobuf/types/known/structpb"

	"github.com/openfga/openfga/internal/verifh/core"
	"github.com/openfga/openfga/internal/verifh/e2"
	"github.com/openfga/openfga/internal/verifh/ref"
	"github.com/openfga/openfga/pkg/storage/memory"
)

var propSampled atomic.Int32

var params = []string{"x", "subject_x", "resource_x", "action_x"}

func paramTag(p string) string { return "condition reads " + p }

func tagParam(tag string) string {
	for _, p := range params {
		if tag == paramTag(p) {
			return p
		}
	}
	return ""
}

// PV: what the AuthZEN request carries. S/R/A = value of property x on subject/resource/action, C = value of
// the request-level context key named like the condition parameter (nil = absent).
type PV struct {
	S *int `json:"subject_prop,omitempty"`
	R *int `json:"resource_prop,omitempty"`
	A *int `json:"action_prop,omitempty"`
	C *int `json:"context,omitempty"`
}

func (v PV) String() string {
	return "subject.x=" + e2.CtxStr(v.S) + " resource.x=" + e2.CtxStr(v.R) + " action.x=" + e2.CtxStr(v.A) + " context=" + e2.CtxStr(v.C)
}

var vals = []*int{nil, &e2.One, &e2.Twenty}

// vectors: every combination of the three property sources without the request-level key, and the
// request-level key (1 / 20) together with at most one property source (precedence). withAction=false: the
// request has no action (ActionSearch).
func vectors(withAction bool) []PV {
	var out []PV
	as := vals
	if !withAction {
		as = vals[:1]
	}
	for _, s := range vals {
		for _, rr := range vals {
			for _, a := range as {
				out = append(out, PV{S: s, R: rr, A: a})
			}
		}
	}
	for _, c := range vals[1:] {
		out = append(out, PV{C: c})
		for _, v := range vals[1:] {
			out = append(out, PV{S: v, C: c}, PV{R: v, C: c})
			if withAction {
				out = append(out, PV{A: v, C: c})
			}
		}
	}
	return out
}

// mapped is the harness' statement of the native context of a request.
func mapped(param string, v PV) map[string]any {
	m := map[string]any{}
	if v.S != nil {
		m["subject_x"] = *v.S
	}
	if v.R != nil {
		m["resource_x"] = *v.R
	}
	if v.A != nil {
		m["action_x"] = *v.A
	}
	if v.C != nil {
		m[param] = *v.C // request context wins
	}
	return m
}

func mapStruct(m map[string]any) *structpb.Struct {
	if len(m) == 0 {
		return nil
	}
	s, _ := structpb.NewStruct(m)
	return s
}

func mapStr(m map[string]any) string {
	var ks []string
	for k, v := range m {
		ks = append(ks, fmt.Sprintf("%s=%v", k, v))
	}
	sort.Strings(ks)
	return strings.Join(ks, ",")
}

// azCtx: the request-level context of the AuthZEN request.
func azCtx(param string, c *int) *structpb.Struct {
	if c == nil {
		return nil
	}
	s, _ := structpb.NewStruct(map[string]any{param: *c})
	return s
}

// PQ is a decision request of the property pass.
type PQ struct {
	Subject string `json:"subject"`
	Obj     string `json:"obj"`
	Rel     string `json:"rel"`
	V       PV     `json:"carries"`
}

func (q PQ) String() string { return q.Obj + "#" + q.Rel + "@" + q.Subject + " " + q.V.String() }

// ---- environment with the renamed condition parameter ----

func newParamEnv(m *ref.Model, param string) (*e2.Env, error) {
	ds := memory.New()
	s := e2.NewServer(ds, serverOpts()...)
	env := &e2.Env{S: s, DS: ds, M: m}
	ctx := context.Background()
	st, err := s.CreateStore(ctx, &openfgav1.CreateStoreRequest{Name: "verif"})
	if err != nil {
		s.Close()
		return nil, err
	}
	env.StoreID = st.GetId()
	tds, _ := m.Proto()
	conds := map[string]*openfgav1.Condition{"cx": {Name: "cx", Expression: param + " < 10",
		Parameters: map[string]*openfgav1.ConditionParamTypeRef{param: {TypeName: openfgav1.ConditionParamTypeRef_TYPE_NAME_INT}}}}
	wm, err := s.WriteAuthorizationModel(ctx, &openfgav1.WriteAuthorizationModelRequest{StoreId: env.StoreID, SchemaVersion: "1.1", TypeDefinitions: tds, Conditions: conds})
	if err != nil {
		s.Close()
		return nil, err
	}
	env.ModelID = wm.GetAuthorizationModelId()
	return env, nil
}

func writeParam(env *e2.Env, ts []ref.Tuple, param string) error {
	if len(ts) == 0 {
		return nil
	}
	var ks []*openfgav1.TupleKey
	for _, t := range ts {
		tk := &openfgav1.TupleKey{Object: t.Obj, Relation: t.Rel, User: t.User}
		if t.Cond != "" {
			tk.Condition = &openfgav1.RelationshipCondition{Name: t.Cond}
			if t.Ctx != nil {
				tk.Condition.Context, _ = structpb.NewStruct(map[string]any{param: *t.Ctx})
			}
		}
		ks = append(ks, tk)
	}
	_, err := env.S.Write(context.Background(), &openfgav1.WriteRequest{StoreId: env.StoreID, AuthorizationModelId: env.ModelID, Writes: &openfgav1.WriteRequestWrites{TupleKeys: ks}})
	return err
}

// ---- which requests can depend on the parameter at all (by the reference semantics, not by the server) ----

type plan struct {
	qs      [][3]string // subject, obj, rel
	subjS   [][3]string // obj, rel, filter type
	resS    [][3]string // subject, rel, filter type
	actS    [][2]string // subject, obj
	anyWork bool
}

func sensitive(w *ref.World, o, rel, s string) bool {
	a := w.Table(s, nil, false)[o+"#"+rel]
	b := w.Table(s, &e2.One, false)[o+"#"+rel]
	c := w.Table(s, &e2.Twenty, false)[o+"#"+rel]
	return a != b || b != c
}

func makePlan(w *ref.World, nodes []e2.Node) plan {
	var p plan
	for _, n := range nodes {
		for _, s := range subjects {
			if e2.ValidRequest(w.M, n.Obj, n.Rel, s) && sensitive(w, n.Obj, n.Rel, s) {
				p.qs = append(p.qs, [3]string{s, n.Obj, n.Rel})
			}
		}
		for _, typ := range []string{"user", "group", "doc"} {
			for _, s := range append(append([]string{}, w.U[typ]...), typ+":*") {
				if e2.ValidRequest(w.M, n.Obj, n.Rel, s) && sensitive(w, n.Obj, n.Rel, s) {
					p.subjS = append(p.subjS, [3]string{n.Obj, n.Rel, typ})
					break
				}
			}
		}
	}
	seen := map[string]bool{}
	for _, n := range nodes {
		typ := ref.TypeOf(n.Obj)
		if seen[typ+"#"+n.Rel] {
			continue
		}
		seen[typ+"#"+n.Rel] = true
		for _, s := range subjects {
			if !e2.ValidRequest(w.M, n.Obj, n.Rel, s) {
				continue
			}
			for _, o := range w.U[typ] {
				if sensitive(w, o, n.Rel, s) {
					p.resS = append(p.resS, [3]string{s, n.Rel, typ})
					break
				}
			}
		}
	}
	seenO := map[string]bool{}
	for _, n := range nodes {
		if seenO[n.Obj] {
			continue
		}
		seenO[n.Obj] = true
		for _, s := range subjects {
			for rel := range w.M.Types[ref.TypeOf(n.Obj)] {
				if e2.ValidRequest(w.M, n.Obj, rel, s) && sensitive(w, n.Obj, rel, s) {
					p.actS = append(p.actS, [2]string{s, n.Obj})
					break
				}
			}
		}
	}
	p.anyWork = len(p.qs)+len(p.subjS)+len(p.resS)+len(p.actS) > 0
	return p
}

// ---- one world ----

type pworld struct {
	env   *e2.Env
	param string
	memo  map[string]string
}

func (w *pworld) native(q PQ) string {
	m := mapped(w.param, q.V)
	k := q.Obj + "#" + q.Rel + "@" + q.Subject + "|" + mapStr(m)
	if v, ok := w.memo[k]; ok {
		return v
	}
	out := w.env.Check(q.Obj, q.Rel, q.Subject, nil, nil, func(r *openfgav1.CheckRequest) { r.Context = mapStruct(m) })
	w.memo[k] = out.V
	return out.V
}

func (w *pworld) evaluation(q PQ) string {
	resp, err := w.env.S.Evaluation(context.Background(), &authzenv1.EvaluationRequest{StoreId: w.env.StoreID,
		Subject: subj(q.Subject, q.V.S), Resource: res(q.Obj, q.V.R), Action: act(q.Rel, q.V.A), Context: azCtx(w.param, q.V.C)})
	if err != nil {
		return "ERR"
	}
	return evalClass(resp)
}

// PPart: optional fields of an Evaluations request (top level or item) with properties. A stated subject /
// resource / action comes with ITS OWN properties (SP/RP/AP, nil = none): it replaces the default as a whole.
type PPart struct {
	Subject string `json:"subject,omitempty"`
	SP      *int   `json:"subject_prop,omitempty"`
	Obj     string `json:"resource,omitempty"`
	RP      *int   `json:"resource_prop,omitempty"`
	Rel     string `json:"action,omitempty"`
	AP      *int   `json:"action_prop,omitempty"`
	Ctx     *int   `json:"context,omitempty"`
}

type PEvals struct {
	Variant  string  `json:"variant"`
	Semantic string  `json:"semantic"`
	Top      PPart   `json:"top"`
	Items    []PPart `json:"items"`
}

func fullPart(q PQ) PPart {
	return PPart{Subject: q.Subject, SP: q.V.S, Obj: q.Obj, RP: q.V.R, Rel: q.Rel, AP: q.V.A, Ctx: q.V.C}
}

func resolveP(top, it PPart) PQ {
	q := PQ{Subject: it.Subject, Obj: it.Obj, Rel: it.Rel, V: PV{S: it.SP, R: it.RP, A: it.AP, C: it.Ctx}}
	if it.Subject == "" {
		q.Subject, q.V.S = top.Subject, top.SP
	}
	if it.Obj == "" {
		q.Obj, q.V.R = top.Obj, top.RP
	}
	if it.Rel == "" {
		q.Rel, q.V.A = top.Rel, top.AP
	}
	if it.Ctx == nil {
		q.V.C = top.Ctx
	}
	return q
}

func (w *pworld) expectedEvals(e PEvals) []string {
	if len(e.Items) == 0 {
		v := w.native(resolveP(e.Top, PPart{}))
		if v == "ERR" {
			return []string{"REQUEST-ERR"} // a request without items is a single evaluation: its failure fails the request
		}
		return []string{v}
	}
	var out []string
	for _, it := range e.Items {
		v := w.native(resolveP(e.Top, it))
		out = append(out, v)
		if e.Semantic == "deny_on_first_deny" && v != "T" {
			break
		}
		if e.Semantic == "permit_on_first_permit" && v == "T" {
			break
		}
	}
	return out
}

func (w *pworld) evaluations(e PEvals) []string {
	req := &authzenv1.EvaluationsRequest{StoreId: w.env.StoreID, Context: azCtx(w.param, e.Top.Ctx)}
	if e.Top.Subject != "" {
		req.Subject = subj(e.Top.Subject, e.Top.SP)
	}
	if e.Top.Obj != "" {
		req.Resource = res(e.Top.Obj, e.Top.RP)
	}
	if e.Top.Rel != "" {
		req.Action = act(e.Top.Rel, e.Top.AP)
	}
	switch e.Semantic {
	case "execute_all":
		req.Options = &authzenv1.EvaluationsOptions{EvaluationsSemantic: authzenv1.EvaluationsSemantic_execute_all}
	case "deny_on_first_deny":
		req.Options = &authzenv1.EvaluationsOptions{EvaluationsSemantic: authzenv1.EvaluationsSemantic_deny_on_first_deny}
	case "permit_on_first_permit":
		req.Options = &authzenv1.EvaluationsOptions{EvaluationsSemantic: authzenv1.EvaluationsSemantic_permit_on_first_permit}
	}
	for _, it := range e.Items {
		x := &authzenv1.EvaluationsItemRequest{Context: azCtx(w.param, it.Ctx)}
		if it.Subject != "" {
			x.Subject = subj(it.Subject, it.SP)
		}
		if it.Obj != "" {
			x.Resource = res(it.Obj, it.RP)
		}
		if it.Rel != "" {
			x.Action = act(it.Rel, it.AP)
		}
		req.Evaluations = append(req.Evaluations, x)
	}
	resp, err := w.env.S.Evaluations(context.Background(), req)
	if err != nil {
		return []string{"REQUEST-ERR"}
	}
	var out []string
	for _, r := range resp.GetEvaluations() {
		out = append(out, evalClass(r))
	}
	return out
}

func names(l []string) string { sort.Strings(l); return "[" + strings.Join(l, ",") + "]" }

func (w *pworld) subjectSearch(o, rel, typ string, v PV) string {
	resp, err := w.env.S.SubjectSearch(context.Background(), &authzenv1.SubjectSearchRequest{StoreId: w.env.StoreID,
		Resource: res(o, v.R), Action: act(rel, v.A), Subject: &authzenv1.SubjectFilter{Type: typ, Properties: props(v.S)}, Context: azCtx(w.param, v.C)})
	if err != nil {
		return "ERR"
	}
	out := []string{}
	for _, s := range resp.GetResults() {
		out = append(out, s.GetType()+":"+s.GetId())
	}
	return names(out)
}

func (w *pworld) listUsers(o, rel, typ string, v PV) string {
	t, id := split(o)
	resp, err := w.env.S.ListUsers(context.Background(), &openfgav1.ListUsersRequest{StoreId: w.env.StoreID, AuthorizationModelId: w.env.ModelID,
		Object: &openfgav1.Object{Type: t, Id: id}, Relation: rel, UserFilters: []*openfgav1.UserTypeFilter{{Type: typ}}, Context: mapStruct(mapped(w.param, v))})
	if err != nil {
		return "ERR"
	}
	out := []string{}
	for _, u := range resp.GetUsers() {
		out = append(out, e2.UserString(u))
	}
	return names(out)
}

func (w *pworld) resourceSearch(s, rel, typ string, v PV) string {
	resp, err := w.env.S.ResourceSearch(context.Background(), &authzenv1.ResourceSearchRequest{StoreId: w.env.StoreID,
		Subject: subj(s, v.S), Action: act(rel, v.A), Resource: &authzenv1.ResourceFilter{Type: typ, Properties: props(v.R)}, Context: azCtx(w.param, v.C)})
	if err != nil {
		return "ERR"
	}
	out := []string{}
	for _, x := range resp.GetResults() {
		out = append(out, x.GetType()+":"+x.GetId())
	}
	return names(out)
}

func (w *pworld) listObjects(s, rel, typ string, v PV) string {
	return listStr(w.env.ListObjects(typ, rel, s, nil, nil, func(r *openfgav1.ListObjectsRequest) { r.Context = mapStruct(mapped(w.param, v)) }))
}

func (w *pworld) actionSearch(s, o string, v PV) string {
	resp, err := w.env.S.ActionSearch(context.Background(), &authzenv1.ActionSearchRequest{StoreId: w.env.StoreID,
		Subject: subj(s, v.S), Resource: res(o, v.R), Context: azCtx(w.param, v.C)})
	if err != nil {
		return "ERR"
	}
	out := []string{}
	for _, a := range resp.GetResults() {
		out = append(out, a.GetName())
	}
	return names(out)
}

// permittedActions: the relations of the resource's type whose native Check (mapped context) allows.
func (w *pworld) permittedActions(m *ref.Model, s, o string, v PV, fresh bool) string {
	out := []string{}
	for rel := range m.Types[ref.TypeOf(o)] {
		q := PQ{Subject: s, Obj: o, Rel: rel, V: v}
		if fresh {
			w.memo = map[string]string{}
		}
		if w.native(q) == "T" {
			out = append(out, rel)
		}
	}
	return names(out)
}

func rot(p *int) *int {
	switch {
	case p == nil:
		return &e2.One
	case *p == 1:
		return &e2.Twenty
	}
	return nil
}

func other(p *int) *int {
	if p != nil && *p == 1 {
		return &e2.Twenty
	}
	return &e2.One
}

func spp(p PPart) string {
	return p.Subject + "/" + e2.CtxStr(p.SP) + "|" + p.Obj + "/" + e2.CtxStr(p.RP) + "|" + p.Rel + "/" + e2.CtxStr(p.AP) + "|" + e2.CtxStr(p.Ctx)
}

var all4 = []string{"", "execute_all", "deny_on_first_deny", "permit_on_first_permit"}

func propsWorld(r *core.Report, env *e2.Env, w *ref.World, nodes []e2.Node, param string) {
	pl := makePlan(w, nodes)
	if !pl.anyWork {
		return
	}
	pw := &pworld{env: env, param: param, memo: map[string]string{}}
	vs := vectors(true)
	fresh := func(q PQ) string { pw.memo = map[string]string{}; return pw.native(q) }
	var all []PQ
	for _, t := range pl.qs {
		for vi, v := range vs {
			q := PQ{Subject: t[0], Obj: t[1], Rel: t[2], V: v}
			all = append(all, q)
			want := pw.native(q)
			var nt []string
			if want != "F" {
				nt = []string{q.String()}
			}
			check(r, w, "Evaluation+properties", want, pw.evaluation(q), func() (string, string) { return fresh(q), pw.evaluation(q) }, Case{PQ: &q}, nt...)
			// the carriers at the top level of an Evaluations request: without items (single evaluation), and as
			// defaults of items that restate one field each - a restated subject / resource / action brings its own
			// properties (the next value of the rotation - -> 1 -> 20 -> -), a restated context the other value
			top := fullPart(q)
			ne := PEvals{Variant: "no-items+properties", Top: top}
			de := PEvals{Variant: "defaults+properties", Semantic: all4[vi%4], Top: top, Items: []PPart{
				{},
				{Subject: q.Subject, SP: rot(v.S)},
				{Obj: q.Obj, RP: rot(v.R)},
				{Rel: q.Rel, AP: rot(v.A)},
				{Ctx: other(v.C)},
			}}
			for _, e := range []PEvals{ne, de} {
				e := e
				wantL := strings.Join(pw.expectedEvals(e), ",")
				nte := nt
				if e.Variant != ne.Variant {
					nte = nil
					if strings.Contains(wantL, "T") || strings.Contains(wantL, "ERR") {
						nte = []string{e.Variant, e.Semantic, q.String()}
					}
				}
				check(r, w, "Evaluations+properties", wantL, strings.Join(pw.evaluations(e), ","), func() (string, string) {
					pw.memo = map[string]string{}
					return strings.Join(pw.expectedEvals(e), ","), strings.Join(pw.evaluations(e), ",")
				}, Case{PEvals: &e}, nte...)
				r.Count("evaluations_items_with_properties", int64(len(e.Items)))
			}
		}
	}
	// every (request, carriers) pair as a complete item of one batch, per semantic; for the short-circuit
	// semantics ordered so that the cut comes after the longest possible prefix
	if len(all) > 0 {
		for _, sem := range all4 {
			var a, b []PPart
			for _, q := range all {
				isT := pw.native(q) == "T"
				switch {
				case sem == "deny_on_first_deny" && !isT, sem == "permit_on_first_permit" && isT:
					b = append(b, fullPart(q))
				default:
					a = append(a, fullPart(q))
				}
			}
			items := append(a, b...)
			for len(items) > 0 {
				n := len(items)
				if n > 700 {
					n = 700 // the server's batch limit is 1000 here
				}
				e := PEvals{Variant: "items-complete+properties", Semantic: sem, Items: items[:n]}
				items = items[n:]
				wantL := strings.Join(pw.expectedEvals(e), ",")
				var nte []string
				if strings.Contains(wantL, "T") || strings.Contains(wantL, "ERR") {
					nte = []string{e.Variant, e.Semantic}
				}
				check(r, w, "Evaluations+properties", wantL, strings.Join(pw.evaluations(e), ","), func() (string, string) {
					pw.memo = map[string]string{}
					return strings.Join(pw.expectedEvals(e), ","), strings.Join(pw.evaluations(e), ",")
				}, Case{PEvals: &e}, nte...)
				r.Count("evaluations_items_with_properties", int64(len(e.Items)))
			}
		}
	}
	// ---- searches ----
	for _, t := range pl.subjS {
		for _, v := range vs {
			t, v := t, v
			want := pw.listUsers(t[0], t[1], t[2], v)
			var nt []string
			if want != "[]" {
				nt = []string{t[0], t[1], t[2], v.String()}
			}
			check(r, w, "SubjectSearch+properties", want, pw.subjectSearch(t[0], t[1], t[2], v), func() (string, string) {
				return pw.listUsers(t[0], t[1], t[2], v), pw.subjectSearch(t[0], t[1], t[2], v)
			}, Case{Search: []string{t[0], t[1], t[2]}, V: &v}, nt...)
		}
	}
	for _, t := range pl.resS {
		for _, v := range vs {
			t, v := t, v
			want := pw.listObjects(t[0], t[1], t[2], v)
			var nt []string
			if want != "[]" {
				nt = []string{t[0], t[1], t[2], v.String()}
			}
			check(r, w, "ResourceSearch+properties", want, pw.resourceSearch(t[0], t[1], t[2], v), func() (string, string) {
				return pw.listObjects(t[0], t[1], t[2], v), pw.resourceSearch(t[0], t[1], t[2], v)
			}, Case{Search: []string{t[0], t[1], t[2]}, V: &v}, nt...)
		}
	}
	for _, t := range pl.actS {
		for _, v := range vectors(false) {
			t, v := t, v
			want := pw.permittedActions(w.M, t[0], t[1], v, false)
			var nt []string
			if want != "[]" {
				nt = []string{t[0], t[1], v.String()}
			}
			check(r, w, "ActionSearch+properties", want, pw.actionSearch(t[0], t[1], v), func() (string, string) {
				return pw.permittedActions(w.M, t[0], t[1], v, true), pw.actionSearch(t[0], t[1], v)
			}, Case{Search: []string{t[0], t[1]}, V: &v}, nt...)
		}
	}
}

// hasFreeCond: some tuple is conditioned and does not store the parameter, so that the request decides it.
func hasFreeCond(ts []ref.Tuple) bool {
	for _, t := range ts {
		if t.Cond != "" && t.Ctx == nil {
			return true
		}
	}
	return false
}

// propsSweep: models x condition parameter x tuple subsets |T|<=2 with a request-decided conditioned tuple.
func propsSweep(r *core.Report, models []*ref.Model, nodes []e2.Node) {
	const groups = 6
	type unit struct{ mi, pi, g int }
	var units []unit
	for g := 0; g < groups; g++ {
		for mi := range models {
			for pi := range params {
				units = append(units, unit{mi, pi, g})
			}
		}
	}
	u := ref.DefaultUniverse()
	r.Parallel(len(units), func(ui int) {
		un := units[ui]
		m, param := models[un.mi], params[un.pi]
		pool := ref.RelevantPool(m, u)
		if !hasFreeCond(pool) {
			return
		}
		env, err := newParamEnv(m, param)
		if err != nil {
			if un.g == 0 {
				r.Count("props_models_rejected_by_server", 1)
			}
			return
		}
		defer env.Close()
		if un.g == 0 {
			r.Count("props_models/"+param, 1)
		}
		idx := 0
		ref.Subsets(pool, 2, func(cur []ref.Tuple) {
			if r.Expired() || !hasFreeCond(cur) {
				return
			}
			idx++
			if idx%groups != un.g {
				return
			}
			ts := append([]ref.Tuple{}, cur...)
			w := &ref.World{M: m, Tuples: ts, U: u, Tag: paramTag(param)}
			if !makePlan(w, nodes).anyWork {
				r.Count("props_worlds_where_no_request_depends_on_the_parameter", 1)
				return
			}
			if err := writeParam(env, ts, param); err != nil {
				r.Violate("harness-write-rejected", "a pool tuple was rejected by Write: "+err.Error(), map[string]any{"model": m, "tuples": ts, "param": param})
				return
			}
			r.Count("props_worlds/"+param, 1)
			if param != "x" && len(ts) == 2 && propSampled.Add(1) <= 2 {
				r.Sample(map[string]any{"pass": "properties", "condition": "cx(" + param + ":int) := " + param + " < 10", "model": m.String(), "tuples": e2.TuplesStr(ts),
					"example": "ResourceSearch{subject:{type:user,id:a,properties:{x:1}},action:{name:r0,properties:{x:20}},resource:{type:doc}} vs ListObjects(user:a, r0, doc, context{subject_x:1, action_x:20})"})
			}
			propsWorld(r, env, w, nodes, param)
			if err := env.Delete(ts, env.ModelID); err != nil {
				panic(fmt.Sprintf("delete: %v", err))
			}
		})
	})
}
