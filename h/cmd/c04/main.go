package main

import (
	"os"

	"github.com/openfga/openfga/internal/verifh/c04"
	"github.com/openfga/openfga/internal/verifh/core"
)

func main() { os.Exit(c04.Run(core.ParseOptions(os.Args[1:]))) }
