// Command authzx explores the interleavings of the real access-control authorizer (instrumented build of
// internal/authz and internal/concurrency, see package authzx) with a cancelling thread and prints a JSON
// summary that the C26 check merges into its report. `authzx C26 --replay file` re-executes one schedule.
package main

import (
	"fmt"
	"os"

	"github.com/openfga/openfga/internal/verifh/authzx"
	"github.com/openfga/openfga/internal/verifh/core"
	"github.com/openfga/openfga/internal/verifh/e1"
)

func main() {
	o := core.ParseOptions(os.Args[1:])
	r := core.NewReport(o, "exploration", "authorizer interleavings")
	if o.Replay != "" {
		var v e1.Viol
		if err := core.LoadReplay(o.Replay, &v); err != nil {
			fmt.Println("replay:", err)
			os.Exit(2)
		}
		authzx.Replay(o, r, v)
		if r.Violations() > 0 {
			fmt.Println("replay: VIOLATION reproduced")
			os.Exit(1)
		}
		fmt.Println("replay: no violation")
		os.Exit(0)
	}
	scs := authzx.Scenarios(o.Thorough())
	results := e1.RunSharded(o, r, scs, authzx.Budget(o.Thorough()))
	sub := e1.Summarise(len(scs), results)
	if os.Getenv("VERIF_VERBOSE") != "" {
		for _, res := range results {
			if res != nil {
				fmt.Printf("%s: execs=%d bound=%d outcomes=%d max_points=%d wall=%.1fs capped=%q\n   %v\n", res.Name, res.Execs, res.BoundDone, len(res.Outcomes), res.MaxPoints, res.WallS, res.Capped, res.PerBound)
			}
		}
	}
	e1.PrintSub(sub)
}
