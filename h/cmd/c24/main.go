package main

import (
	"os"

	"github.com/openfga/openfga/internal/verifh/c24"
	"github.com/openfga/openfga/internal/verifh/core"
)

func main() { os.Exit(c24.Run(core.ParseOptions(os.Args[1:]))) }
