package main

import (
	"os"

	"github.com/openfga/openfga/internal/verifh/core"
	"github.com/openfga/openfga/internal/verifh/q"
)

func main() { os.Exit(q.Run(core.ParseOptions(os.Args[1:]))) }
