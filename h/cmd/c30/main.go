package main

import (
	"os"

	"github.com/openfga/openfga/internal/verifh/c30"
	"github.com/openfga/openfga/internal/verifh/core"
)

func main() { os.Exit(c30.Run(core.ParseOptions(os.Args[1:]))) }
