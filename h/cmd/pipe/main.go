package main

import (
	"os"

	"github.com/openfga/openfga/internal/verifh/core"
	"github.com/openfga/openfga/internal/verifh/pipe"
)

func main() { os.Exit(pipe.Run(core.ParseOptions(os.Args[1:]))) }
