package main

import (
	"os"

	"github.com/openfga/openfga/internal/verifh/c26"
	"github.com/openfga/openfga/internal/verifh/core"
)

func main() { os.Exit(c26.Run(core.ParseOptions(os.Args[1:]))) }
