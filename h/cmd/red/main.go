// Command red explores the interleavings of the v1 set-operation reducers (instrumented build) and
// prints a JSON summary that the C02 check merges into its report.
package main

import (
	"encoding/json"
	"fmt"
	"os"

	"github.com/openfga/openfga/internal/verifh/core"
	"github.com/openfga/openfga/internal/verifh/e1"
	"github.com/openfga/openfga/internal/verifh/red"
)

func main() {
	o := core.ParseOptions(os.Args[1:])
	r := core.NewReport(o, "exploration", "reducers")
	scs := red.Scenarios(o.Thorough())
	results := e1.RunSharded(o, r, scs, red.Budget(o.Thorough()))
	sub := red.Sub{Scenarios: len(scs), MinBound: 1 << 30}
	for _, res := range results {
		if res == nil {
			sub.Capped = append(sub.Capped, "worker crashed")
			continue
		}
		sub.Execs += res.Execs
		sub.Pruned += res.Pruned
		if res.BoundDone < sub.MinBound {
			sub.MinBound = res.BoundDone
		}
		if res.Capped != "" {
			sub.Capped = append(sub.Capped, res.Name+": "+res.Capped)
		}
		for _, k := range res.Nontrivial {
			sub.Nontrivial = append(sub.Nontrivial, k^uint64(res.Index)*0x9e3779b97f4a7c15)
		}
		sub.Viols = append(sub.Viols, res.Viols...)
	}
	b, _ := json.Marshal(sub)
	fmt.Printf("\nSUBREPORT %s\n", b)
}
