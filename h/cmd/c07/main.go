package main

import (
	"os"

	"github.com/openfga/openfga/internal/verifh/c07"
	"github.com/openfga/openfga/internal/verifh/core"
)

func main() { os.Exit(c07.Run(core.ParseOptions(os.Args[1:]))) }
