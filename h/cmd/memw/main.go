// Command memw explores the interleavings of concurrent writers and paginating readers on the memory
// datastore (instrumented build of pkg/storage/memory with a harness-owned clock, see package memw) and
// prints a JSON summary that the C14 / C15 checks merge into their reports. `memw C14 --replay file`
// re-executes one recorded schedule (twice, comparing the observations).
package main

import (
	"fmt"
	"os"

	"github.com/openfga/openfga/internal/verifh/core"
	"github.com/openfga/openfga/internal/verifh/e1"
	"github.com/openfga/openfga/internal/verifh/memw"
)

func main() {
	o := core.ParseOptions(os.Args[1:])
	r := core.NewReport(o, "exploration", "concurrent writers on the memory datastore")
	if o.Replay != "" {
		var v e1.Viol
		if err := core.LoadReplay(o.Replay, &v); err != nil {
			fmt.Println("replay:", err)
			os.Exit(2)
		}
		memw.Replay(o, r, v)
		if r.Violations() > 0 {
			fmt.Println("replay: VIOLATION reproduced")
			os.Exit(1)
		}
		fmt.Println("replay: no violation")
		os.Exit(0)
	}
	scs := memw.Scenarios(o.Thorough())
	if os.Getenv("VERIF_LIST") != "" {
		for i, s := range scs {
			fmt.Println(i, s.Name)
		}
		return
	}
	results := e1.RunSharded(o, r, scs, memw.Budget(o.Thorough()))
	sub := e1.Summarise(len(scs), results)
	var keep []e1.Viol
	for _, v := range sub.Viols {
		if memw.Relevant(o.Prop, v.Signature) {
			keep = append(keep, v)
		}
	}
	sub.Viols = keep
	if os.Getenv("VERIF_VERBOSE") != "" {
		for _, res := range results {
			if res != nil {
				fmt.Printf("%s: execs=%d bound=%d outcomes=%d max_points=%d wall=%.1fs capped=%q best_effort=%q\n   %v\n", res.Name, res.Execs, res.BoundDone, len(res.Outcomes), res.MaxPoints, res.WallS, res.Capped, res.BestEffort, res.PerBound)
				if os.Getenv("VERIF_VERBOSE") == "2" {
					for k, n := range res.Outcomes {
						fmt.Println("    ", n, k)
					}
				}
			}
		}
	}
	e1.PrintSub(sub)
}
