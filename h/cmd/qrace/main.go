// Command qrace is the free-running companion of the C22 scheduler harness: the same producer /
// consumer shapes on the UNINSTRUMENTED queues, built with -race. A cooperative scheduler's hand-offs
// are happens-before edges that blind the race detector, so unsynchronised accesses are looked for
// here (supplementary evidence: this pass samples schedules, it does not enumerate them).
package main

import (
	"context"
	"fmt"
	"os"
	"strconv"
	"sync"

	"github.com/openfga/openfga/internal/containers/mpmc"
	"github.com/openfga/openfga/internal/containers/mpsc"
)

func main() {
	iters := 3000
	if len(os.Args) > 1 {
		iters, _ = strconv.Atoi(os.Args[1])
	}
	for it := 0; it < iters; it++ {
		for _, ext := range []int{0, 1, -1} {
			ctx, cancel := context.WithCancel(context.Background())
			q := mpmc.MustQueue[int](2, ext)
			var wg sync.WaitGroup
			for p := 0; p < 2; p++ {
				wg.Add(1)
				go func() {
					defer wg.Done()
					for i := 0; i < 3; i++ {
						q.Send(ctx, p*10+i)
					}
				}()
			}
			for c := 0; c < 2; c++ {
				wg.Add(1)
				go func() {
					defer wg.Done()
					for i := 0; i < 3; i++ {
						q.Recv(ctx)
					}
				}()
			}
			if it%3 == 0 {
				wg.Add(1)
				go func() { defer wg.Done(); _ = q.Grow(8) }()
			}
			if it%5 == 0 {
				wg.Add(1)
				go func() { defer wg.Done(); q.Close() }()
			}
			wg.Wait()
			q.Close()
			cancel()
		}
		acc := mpsc.NewAccumulator[int]()
		var pw sync.WaitGroup
		for p := 0; p < 3; p++ {
			pw.Add(1)
			go func() {
				defer pw.Done()
				for i := 0; i < 3; i++ {
					acc.Send(p*10 + i)
				}
			}()
		}
		done := make(chan struct{})
		go func() {
			defer close(done)
			for {
				if _, ok := acc.Recv(context.Background()); !ok {
					return
				}
			}
		}()
		pw.Wait()
		acc.Close()
		<-done
	}
	fmt.Println("qrace: iterations", iters, "no race reported")
}
