package main

import (
	"os"

	"github.com/openfga/openfga/internal/verifh/c27"
	"github.com/openfga/openfga/internal/verifh/core"
)

func main() { os.Exit(c27.Run(core.ParseOptions(os.Args[1:]))) }
