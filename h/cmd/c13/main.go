package main

import (
	"os"

	"github.com/openfga/openfga/internal/verifh/c13"
	"github.com/openfga/openfga/internal/verifh/core"
)

func main() { os.Exit(c13.Run(core.ParseOptions(os.Args[1:]))) }
