// Command cctl is the component-level, clock-controlled part of C11 (see package cctl): explicit-state BFS
// over single-thread histories and scheduler exploration of interleavings of ONE cache controller and ONE
// CachedDatastore over a harness-owned cache, clock and stub datastore. It prints a JSON summary that the C11
// check merges into its report. `cctl C11 --replay file` re-executes one recorded history or schedule.
package main

import (
	"encoding/json"
	"fmt"
	"os"

	"github.com/openfga/openfga/internal/verifh/cctl"
	"github.com/openfga/openfga/internal/verifh/core"
	"github.com/openfga/openfga/internal/verifh/e1"
)

func main() {
	if os.Getenv("CCTL_HWORKER") != "" {
		cctl.HistWorker()
		return
	}
	o := core.ParseOptions(os.Args[1:])
	r := core.NewReport(o, "model_checking", "cache controller + cached datastore on a harness clock: histories and interleavings")
	if o.Replay != "" {
		var v e1.Viol
		if err := core.LoadReplay(o.Replay, &v); err != nil {
			fmt.Println("replay:", err)
			os.Exit(2)
		}
		cctl.Replay(o, r, v)
		if r.Violations() > 0 {
			fmt.Println("replay: VIOLATION reproduced")
			os.Exit(1)
		}
		fmt.Println("replay: no violation")
		os.Exit(0)
	}
	scs := cctl.Scenarios(o.Thorough())
	if os.Getenv("VERIF_LIST") != "" {
		for i, s := range scs {
			fmt.Println(i, s.Name)
		}
		return
	}
	sub := cctl.Sub{}
	if os.Getenv("VERIF_SHARD") == "" && os.Getenv("CCTL_SKIP_HIST") == "" {
		pool := cctl.StartPool(o.Workers)
		for _, j := range cctl.HistJobs(o.Thorough()) {
			st := cctl.BFS(pool, j, cctl.Alphabet(j.Cfg, o.Thorough()))
			sub.Histories = append(sub.Histories, st)
			sub.States += st.States
			sub.Transitions += st.Transitions
			if st.Capped != "" {
				sub.Capped = append(sub.Capped, "histories "+st.Cfg+": "+st.Capped)
			}
			if st.BestEffort != "" {
				sub.BestEffort++
			}
			sub.Viols = append(sub.Viols, st.Viols...)
			st.Viols = nil
			if os.Getenv("VERIF_VERBOSE") != "" {
				b, _ := json.Marshal(st)
				fmt.Println(string(b))
			}
		}
		pool.Close()
	}
	if os.Getenv("CCTL_SKIP_IL") != "" {
		scs = nil
	}
	results := e1.RunSharded(o, r, scs, cctl.Budget(o.Thorough()))
	sub.Scenarios, sub.MinBound = len(scs), 1<<30
	for i, res := range results {
		if res == nil {
			sub.Capped = append(sub.Capped, scs[i].Name+": worker crashed")
			continue
		}
		sub.Execs += res.Execs
		sub.Pruned += res.Pruned
		sub.Outcomes += len(res.Outcomes)
		if res.BoundDone < sub.MinBound {
			sub.MinBound = res.BoundDone
		}
		if res.BoundDone == 99 {
			sub.Unbounded++
		}
		if res.Capped != "" {
			sub.Capped = append(sub.Capped, res.Name+": "+res.Capped)
		}
		if res.BestEffort != "" {
			sub.BestEffort++
		}
		for _, k := range res.Nontrivial {
			sub.Nontrivial = append(sub.Nontrivial, k^uint64(res.Index)*0x9e3779b97f4a7c15)
		}
		sub.Viols = append(sub.Viols, res.Viols...)
		sub.PerScenario = append(sub.PerScenario, fmt.Sprintf("%s: execs=%d pruned=%d bound=%d outcomes=%d nontrivial=%d wall=%.1fs %s%s", res.Name, res.Execs, res.Pruned, res.BoundDone, len(res.Outcomes), len(res.Nontrivial), res.WallS, res.Capped, res.BestEffort))
	}
	if os.Getenv("VERIF_VERBOSE") != "" {
		for _, res := range results {
			if res != nil {
				fmt.Println(res.Name, res.PerBound)
				for k, n := range res.Outcomes {
					fmt.Println("    ", n, k)
				}
			}
		}
	}
	b, _ := json.Marshal(sub)
	fmt.Printf("\nSUBREPORT %s\n", b)
}
