package main

import (
	"os"

	"github.com/openfga/openfga/internal/verifh/c25"
	"github.com/openfga/openfga/internal/verifh/core"
)

func main() { os.Exit(c25.Run(core.ParseOptions(os.Args[1:]))) }
