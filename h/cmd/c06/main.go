package main

import (
	"os"

	"github.com/openfga/openfga/internal/verifh/c06"
	"github.com/openfga/openfga/internal/verifh/core"
)

func main() { os.Exit(c06.Run(core.ParseOptions(os.Args[1:]))) }
