// Command citer explores the interleavings of concurrent readers of one CachedDatastore (instrumented
// build of pkg/storage/storagewrappers and x/sync/singleflight, see package citer) and prints a JSON
// summary that the C09 check merges into its report. `citer C09 --replay file` re-executes one
// recorded schedule (twice, comparing the observations).
package main

import (
	"encoding/json"
	"fmt"
	"os"

	"github.com/openfga/openfga/internal/verifh/citer"
	"github.com/openfga/openfga/internal/verifh/core"
	"github.com/openfga/openfga/internal/verifh/e1"
)

func main() {
	o := core.ParseOptions(os.Args[1:])
	r := core.NewReport(o, "exploration", "cached-iterator interleavings")
	if o.Replay != "" {
		var v e1.Viol
		if err := core.LoadReplay(o.Replay, &v); err != nil {
			fmt.Println("replay:", err)
			os.Exit(2)
		}
		citer.Replay(o, r, v)
		if r.Violations() > 0 {
			fmt.Println("replay: VIOLATION reproduced")
			os.Exit(1)
		}
		fmt.Println("replay: no violation")
		os.Exit(0)
	}
	scs := citer.Scenarios(o.Thorough())
	if os.Getenv("VERIF_LIST") != "" {
		for i, s := range scs {
			fmt.Println(i, s.Name)
		}
		return
	}
	results := e1.RunSharded(o, r, scs, citer.Budget(o.Thorough()))
	sub := citer.Sub{Scenarios: len(scs), MinBound: 1 << 30}
	for i, res := range results {
		if res == nil {
			sub.Capped = append(sub.Capped, scs[i].Name+": worker crashed")
			continue
		}
		sub.Execs += res.Execs
		sub.Pruned += res.Pruned
		sub.Outcomes += len(res.Outcomes)
		if res.BoundDone < sub.MinBound {
			sub.MinBound = res.BoundDone
		}
		if res.BoundDone == 99 {
			sub.Unbounded++
		}
		if res.Capped != "" {
			sub.Capped = append(sub.Capped, res.Name+": "+res.Capped)
		}
		if res.BestEffort != "" {
			sub.BestEffort++
		}
		for _, k := range res.Nontrivial {
			sub.Nontrivial = append(sub.Nontrivial, k^uint64(res.Index)*0x9e3779b97f4a7c15)
		}
		sub.Viols = append(sub.Viols, res.Viols...)
		sub.PerScenario = append(sub.PerScenario, fmt.Sprintf("%s: execs=%d pruned=%d bound=%d outcomes=%d nontrivial=%d wall=%.1fs %s%s", res.Name, res.Execs, res.Pruned, res.BoundDone, len(res.Outcomes), len(res.Nontrivial), res.WallS, res.Capped, res.BestEffort))
	}
	if os.Getenv("VERIF_VERBOSE") != "" {
		for _, res := range results {
			if res != nil {
				fmt.Println(res.Name, res.PerBound)
				for k, n := range res.Outcomes {
					fmt.Println("    ", n, k)
				}
			}
		}
	}
	b, _ := json.Marshal(sub)
	fmt.Printf("\nSUBREPORT %s\n", b)
}
