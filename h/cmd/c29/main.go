package main

import (
	"os"

	"github.com/openfga/openfga/internal/verifh/c29"
	"github.com/openfga/openfga/internal/verifh/core"
)

func main() { os.Exit(c29.Run(core.ParseOptions(os.Args[1:]))) }
