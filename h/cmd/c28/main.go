package main

import (
	"os"

	"github.com/openfga/openfga/internal/verifh/c28"
	"github.com/openfga/openfga/internal/verifh/core"
)

func main() { os.Exit(c28.Run(core.ParseOptions(os.Args[1:]))) }
