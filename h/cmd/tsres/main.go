// Command tsres explores the interleavings of the typesystem resolution chain (instrumented build) and
// prints a JSON summary that the C16 / C17 checks merge into their reports.
package main

import (
	"os"

	"github.com/openfga/openfga/internal/verifh/core"
	"github.com/openfga/openfga/internal/verifh/e1"
	"github.com/openfga/openfga/internal/verifh/tsres"
)

func main() {
	o := core.ParseOptions(os.Args[1:])
	r := core.NewReport(o, "exploration", "typesystem resolver")
	scs := tsres.Scenarios(o.Prop, o.Thorough())
	results := e1.RunSharded(o, r, scs, tsres.Budget(o.Thorough()))
	sub := e1.Summarise(len(scs), results)
	var keep []e1.Viol
	for _, v := range sub.Viols {
		if tsres.Relevant(o.Prop, v.Signature) {
			keep = append(keep, v)
		}
	}
	sub.Viols = keep
	e1.PrintSub(sub)
}
