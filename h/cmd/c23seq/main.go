// Command c23seq runs the sequential half of C23 stand-alone (development aid; the C23 verdict comes from cmd/iter).
package main

import (
	"os"

	"github.com/openfga/openfga/internal/verifh/c23seq"
	"github.com/openfga/openfga/internal/verifh/core"
)

func main() { os.Exit(c23seq.Run(core.ParseOptions(os.Args[1:]))) }
