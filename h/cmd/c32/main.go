package main

import (
	"os"

	"github.com/openfga/openfga/internal/verifh/c32"
	"github.com/openfga/openfga/internal/verifh/core"
)

func main() { os.Exit(c32.Run(core.ParseOptions(os.Args[1:]))) }
