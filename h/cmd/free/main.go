// Command free hosts every check that needs no source instrumentation.
package main

import (
	"fmt"
	"os"

	"github.com/openfga/openfga/internal/verifh/checks"
	"github.com/openfga/openfga/internal/verifh/core"
)

func main() {
	o := core.ParseOptions(os.Args[1:])
	fn, ok := checks.Registry[o.Prop]
	if !ok {
		fmt.Fprintln(os.Stderr, "unknown property", o.Prop)
		os.Exit(2)
	}
	os.Exit(fn(o))
}
