package main

import (
	"os"

	"github.com/openfga/openfga/internal/verifh/c31"
	"github.com/openfga/openfga/internal/verifh/core"
)

func main() { os.Exit(c31.Run(core.ParseOptions(os.Args[1:]))) }
