package main

import (
	"os"

	"github.com/openfga/openfga/internal/verifh/c14"
	"github.com/openfga/openfga/internal/verifh/core"
)

func main() { os.Exit(c14.Run(core.ParseOptions(os.Args[1:]))) }
