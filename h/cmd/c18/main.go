package main

import (
	"os"

	"github.com/openfga/openfga/internal/verifh/c18"
	"github.com/openfga/openfga/internal/verifh/core"
)

func main() { os.Exit(c18.Run(core.ParseOptions(os.Args[1:]))) }
