package main

import (
	"os"

	"github.com/openfga/openfga/internal/verifh/c15"
	"github.com/openfga/openfga/internal/verifh/core"
)

func main() { os.Exit(c15.Run(core.ParseOptions(os.Args[1:]))) }
