package main

import (
	"os"
	"runtime/pprof"

	"github.com/openfga/openfga/internal/verifh/c15"
	"github.com/openfga/openfga/internal/verifh/core"
)

func main() {
	if p := os.Getenv("VERIF_CPUPROFILE"); p != "" { // debugging aid
		f, _ := os.Create(p)
		_ = pprof.StartCPUProfile(f)
		code := c15.Run(core.ParseOptions(os.Args[1:]))
		pprof.StopCPUProfile()
		f.Close()
		os.Exit(code)
	}
	os.Exit(c15.Run(core.ParseOptions(os.Args[1:])))
}
