package main

import (
	"os"

	"github.com/openfga/openfga/internal/verifh/c12"
	"github.com/openfga/openfga/internal/verifh/core"
)

func main() { os.Exit(c12.Run(core.ParseOptions(os.Args[1:]))) }
