package main

import (
	"os"

	"github.com/openfga/openfga/internal/verifh/c16"
	"github.com/openfga/openfga/internal/verifh/core"
)

func main() { os.Exit(c16.Run(core.ParseOptions(os.Args[1:]))) }
