package main

import (
	"github.com/openfga/openfga/internal/verifh/c23seq"
	"github.com/openfga/openfga/internal/verifh/core"
)

// runSeq runs the sequential adapter enumeration into the shared report.
func runSeq(o *core.Options, r *core.Report) { c23seq.RunInto(o, r) }
