package main

import "github.com/openfga/openfga/internal/verifh/core"

// runSeq is replaced when the sequential half (package c23seq) is wired in.
func runSeq(o *core.Options, r *core.Report) {}
