// Command iter decides C23: sequential adapter enumeration (package c23seq, when present) plus the
// scheduler-based shared-iterator exploration (package iterx; sharediterator instrumented by vgen).
package main

import (
	"fmt"
	"os"

	"github.com/openfga/openfga/internal/verifh/c23seq"
	"github.com/openfga/openfga/internal/verifh/core"
	"github.com/openfga/openfga/internal/verifh/e1"
	"github.com/openfga/openfga/internal/verifh/iterx"
)

func main() {
	o := core.ParseOptions(os.Args[1:])
	r := core.NewReport(o, "exploration",
		"(a) every tuple-iterator adapter x every pair of input sequences of length<=3 over an ordered 3-symbol alphabet with an error injected at every position x every call script over {Next,Head,Stop} up to the bound, against list-based specifications; (b) every interleaving within the preemption bound (scheduling points at every sync/atomic operation and modelled timer of the instrumented sharediterator package) of 2-3 consumers of one shared iterator running Next/Head/Stop scripts over a 0-20 item stub (optionally failing at position k): each consumer observes a prefix-closed view of the complete sequence, no deadlock/livelock/panic, every underlying iterator that was opened is stopped once all consumers and timers are done; non-trivial = distinct observed outcomes")
	r.Assume("vrt scheduler models (mutex, RWMutex, WaitGroup, Once, sync.Map, atomics) and vtime timers (an AfterFunc timer may fire at any scheduling point)", "fair scheduling rule for spin loops (await.Do hand-off)")
	if o.Replay != "" {
		if c23seq.Replay(o, r) {
			os.Exit(r.Finish())
		}
		var v e1.Viol
		if err := core.LoadReplay(o.Replay, &v); err != nil {
			fmt.Println("replay:", err)
			os.Exit(2)
		}
		iterx.Replay(o, r, v)
		os.Exit(r.Finish())
	}
	if os.Getenv("VERIF_SHARD") == "" {
		runSeq(o, r)
	}
	iterx.RunInto(o, r)
	os.Exit(r.Finish())
}
