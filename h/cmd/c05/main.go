package main

import (
	"os"

	"github.com/openfga/openfga/internal/verifh/c05"
	"github.com/openfga/openfga/internal/verifh/core"
)

func main() { os.Exit(c05.Run(core.ParseOptions(os.Args[1:]))) }
