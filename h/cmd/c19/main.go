package main

import (
	"os"

	"github.com/openfga/openfga/internal/verifh/c19"
	"github.com/openfga/openfga/internal/verifh/core"
)

func main() { os.Exit(c19.Run(core.ParseOptions(os.Args[1:]))) }
