package main

import (
	"os"

	"github.com/openfga/openfga/internal/verifh/c17"
	"github.com/openfga/openfga/internal/verifh/core"
)

func main() { os.Exit(c17.Run(core.ParseOptions(os.Args[1:]))) }
