package c18

import (
	"sort"
	"strings"
	"sync"

	openfgav1 "github.com/openfga/api/proto/openfga/v1"
	"google.golang.org/protobuf/proto"
	"google.golang.org/protobuf/types/known/structpb"
)

// SizeLimit is the documented limit of a stored condition context
// (/repo/pkg/server/config/config.go DefaultWriteContextByteLimit = 32 * 1_024 // 32KB).
const SizeLimit = 32 * 1024

const undefinedCond = "nocond"

// TupleCase is one replayable tuple of the vocabulary. Ctx names an entry of the context alphabet.
type TupleCase struct {
	Obj  string `json:"obj"`
	Rel  string `json:"rel"`
	User string `json:"user"`
	Cond string `json:"cond,omitempty"`
	Ctx  string `json:"ctx,omitempty"`
}

func (t TupleCase) String() string {
	s := t.Obj + "#" + t.Rel + "@" + t.User
	if t.Cond != "" {
		s += "[" + t.Cond + " ctx=" + t.Ctx + "]"
	}
	return s
}

// Context alphabet. "silent" entries are values on which the statement takes no position (a numeric
// string for an int parameter); they are executed and counted, never judged.
var (
	ctxQuick    = []string{"none", "fit", "extra", "mistyped-scalar", "mistyped-nested", "oversized-extra", "oversized-fit"}
	ctxThorough = []string{"none", "fit", "extra", "mistyped-scalar", "mistyped-nested", "oversized-extra", "oversized-fit",
		"empty", "at-limit", "limit-plus-1", "mistyped-fraction", "mistyped-null", "mistyped-list", "silent-numeric-string"}
)

func goodValue(typ string) any {
	switch typ {
	case "int":
		return 1
	case "string":
		return "ok"
	case "bool":
		return true
	}
	panic(typ)
}

func firstOfType(c *CondDef, typ string) string {
	for _, p := range c.sortedParams() {
		if c.Params[p] == typ {
			return p
		}
	}
	return ""
}

// contextFields builds the JSON-like value of a context alphabet entry for condition c (nil c = the
// undefined condition name; its contexts are built as for cx). ok=false: entry not applicable.
// present=false: no context at all.
func contextFields(c *CondDef, name string) (fields map[string]any, present, ok bool) {
	if c == nil {
		c = &cxDef
	}
	fit := map[string]any{}
	for p, t := range c.Params {
		fit[p] = goodValue(t)
	}
	first := c.sortedParams()[0]
	switch name {
	case "none":
		return nil, false, true
	case "empty":
		return map[string]any{}, true, true
	case "fit":
		return fit, true, true
	case "extra":
		fit["zz"] = 1
		return fit, true, true
	case "mistyped-scalar":
		switch c.Params[first] {
		case "int":
			fit[first] = "abc"
		case "string":
			fit[first] = 5
		case "bool":
			fit[first] = "yes"
		}
		return fit, true, true
	case "mistyped-nested":
		fit[first] = map[string]any{"nested": map[string]any{"a": 1}}
		return fit, true, true
	case "mistyped-null":
		fit[first] = nil
		return fit, true, true
	case "mistyped-list":
		fit[first] = []any{goodValue(c.Params[first])}
		return fit, true, true
	case "mistyped-fraction":
		p := firstOfType(c, "int")
		if p == "" {
			return nil, false, false
		}
		fit[p] = 1.5
		return fit, true, true
	case "silent-numeric-string":
		p := firstOfType(c, "int")
		if p == "" {
			return nil, false, false
		}
		fit[p] = "1"
		return fit, true, true
	case "oversized-extra":
		fit["pad"] = strings.Repeat("a", SizeLimit+8000)
		return fit, true, true
	case "oversized-fit", "at-limit", "limit-plus-1":
		p := firstOfType(c, "string")
		if p == "" {
			return nil, false, false
		}
		n := SizeLimit + 8000
		if name != "oversized-fit" {
			// choose the string length so that the serialized context has exactly SizeLimit (+1) bytes
			fit[p] = ""
			base := protoSizeOf(fit) // with an empty string
			target := SizeLimit
			if name == "limit-plus-1" {
				target++
			}
			n = target - base
			for i := 0; i < 8; i++ { // length prefixes grow with n: adjust until exact
				fit[p] = strings.Repeat("a", n)
				if d := target - protoSizeOf(fit); d == 0 {
					break
				} else {
					n += d
				}
			}
		}
		fit[p] = strings.Repeat("a", n)
		return fit, true, true
	}
	panic("context " + name)
}

func protoSizeOf(fields map[string]any) int {
	s, err := structpb.NewStruct(fields)
	if err != nil {
		panic(err)
	}
	return proto.Size(s)
}

var ctxCache sync.Map // condName|params|ctx -> *ctxEntry

type ctxEntry struct {
	fields  map[string]any
	pb      *structpb.Struct
	present bool
	ok      bool
	size    int
}

func condKey(c *CondDef) string {
	if c == nil {
		return "?"
	}
	k := c.Name
	for _, p := range c.sortedParams() {
		k += "," + p + ":" + c.Params[p]
	}
	return k
}

func ctxFor(c *CondDef, name string) *ctxEntry {
	k := condKey(c) + "|" + name
	if e, ok := ctxCache.Load(k); ok {
		return e.(*ctxEntry)
	}
	e := &ctxEntry{}
	e.fields, e.present, e.ok = contextFields(c, name)
	if e.ok && e.present {
		pb, err := structpb.NewStruct(e.fields)
		if err != nil {
			panic(err)
		}
		e.pb = pb
		e.size = proto.Size(pb)
	}
	ctxCache.Store(k, e)
	return e
}

// toProto builds the request tuple (the large context messages are shared, read-only).
func (v *VM) toProto(t TupleCase) *openfgav1.TupleKey {
	tk := &openfgav1.TupleKey{Object: t.Obj, Relation: t.Rel, User: t.User}
	if t.Cond != "" {
		tk.Condition = &openfgav1.RelationshipCondition{Name: t.Cond}
		if e := ctxFor(v.cond(t.Cond), t.Ctx); e.present {
			tk.Condition.Context = e.pb
		}
	}
	return tk
}

// Vocab is the extended tuple vocabulary of one model.
type Vocab struct {
	Objs, Rels          []string
	CoreUsers, AllUsers []string // well-formed users / plus the malformed ones
	Conds               []CondCtx
}

type CondCtx struct{ Cond, Ctx string }

func (v *VM) typeNames() []string {
	var ts []string
	for t := range v.M.Types {
		ts = append(ts, t)
	}
	sort.Strings(ts)
	return ts
}

func (v *VM) allRels() []string {
	set := map[string]bool{}
	for _, rs := range v.M.Types {
		for r := range rs {
			set[r] = true
		}
	}
	var out []string
	for r := range set {
		out = append(out, r)
	}
	sort.Strings(out)
	return out
}

func inst(t string) [2]string {
	if t == "user" {
		return [2]string{"user:a", "user:b"}
	}
	return [2]string{t + ":1", t + ":2"}
}

// vocab builds the extended vocabulary of the model.
func (v *VM) vocab(ctxNames []string) *Vocab {
	vo := &Vocab{}
	types := v.typeNames()
	rels := v.allRels()
	for _, t := range types {
		i := inst(t)
		vo.Objs = append(vo.Objs, i[0], i[1])
	}
	// unknown type, missing ':', empty id, empty type, userset in object position, typed wildcard as object
	vo.Objs = append(vo.Objs, "unk:1", "doc1", "doc:", ":1", "doc:1#"+firstRel(v, "doc"), "doc:*")
	vo.Rels = append(append([]string{}, rels...), "nope", "")
	var us []string
	for _, t := range types {
		us = append(us, inst(t)[0])
	}
	us = append(us, "unk:1")
	for _, t := range types {
		us = append(us, t+":*")
	}
	us = append(us, "unk:*")
	for _, x := range append(append([]string{}, types...), "unk") {
		for _, r := range append(append([]string{}, rels...), "nope") {
			us = append(us, inst(x)[0]+"#"+r) // contains the self-referencing userset of every (object, relation)
		}
	}
	vo.CoreUsers = us
	vo.AllUsers = append(append([]string{}, us...), "a", "*", "group:*#member", "doc:1#", "")
	vo.Conds = append(vo.Conds, CondCtx{"", ""})
	for _, c := range v.Conds {
		for _, n := range ctxNames {
			if ctxFor(v.cond(c.Name), n).ok {
				vo.Conds = append(vo.Conds, CondCtx{c.Name, n})
			}
		}
	}
	vo.Conds = append(vo.Conds, CondCtx{undefinedCond, "none"}, CondCtx{undefinedCond, "fit"})
	return vo
}

func firstRel(v *VM, typ string) string {
	var rs []string
	for r := range v.M.Types[typ] {
		rs = append(rs, r)
	}
	sort.Strings(rs)
	if len(rs) == 0 {
		return "r0"
	}
	return rs[0]
}
