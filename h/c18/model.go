// Package c18 decides property C18 "Tuple validation accepts exactly what the model allows":
// every tuple of an extended vocabulary is offered to Server.Write (empty store) and, as a contextual
// tuple, to Server.Check; acceptance is compared with an independent transcription of the statement.
package c18

import (
	"sort"

	openfgav1 "github.com/openfga/api/proto/openfga/v1"

	"github.com/openfga/openfga/internal/verifh/ref"
)

// CondDef is the harness' own description of a condition: parameter name -> type ("int"|"string"|"bool").
type CondDef struct {
	Name   string            `json:"name"`
	Params map[string]string `json:"params"`
	Expr   string            `json:"expr"`
}

// VM = a model of the vocabulary plus its conditions.
type VM struct {
	Name  string     `json:"name"`
	M     *ref.Model `json:"model"`
	Conds []CondDef  `json:"conds,omitempty"`
	// OmitEmptyMeta: relations without type restrictions get no metadata entry at all in the written
	// model (the API permits both spellings).
	OmitEmptyMeta bool `json:"omit_empty_meta,omitempty"`
}

var cxDef = CondDef{Name: "cx", Params: map[string]string{"x": "int"}, Expr: "x < 10"}

func familyVM(m *ref.Model) *VM {
	v := &VM{Name: "family", M: m}
	if m.Conds {
		v.Conds = []CondDef{cxDef}
	}
	return v
}

func (v *VM) cond(name string) *CondDef {
	for i := range v.Conds {
		if v.Conds[i].Name == name {
			return &v.Conds[i]
		}
	}
	return nil
}

func paramType(t string) *openfgav1.ConditionParamTypeRef {
	switch t {
	case "int":
		return &openfgav1.ConditionParamTypeRef{TypeName: openfgav1.ConditionParamTypeRef_TYPE_NAME_INT}
	case "string":
		return &openfgav1.ConditionParamTypeRef{TypeName: openfgav1.ConditionParamTypeRef_TYPE_NAME_STRING}
	case "bool":
		return &openfgav1.ConditionParamTypeRef{TypeName: openfgav1.ConditionParamTypeRef_TYPE_NAME_BOOL}
	}
	panic("param type " + t)
}

func (v *VM) proto() ([]*openfgav1.TypeDefinition, map[string]*openfgav1.Condition) {
	tds, _ := v.M.Proto()
	if v.OmitEmptyMeta {
		for _, td := range tds {
			for r, md := range td.GetMetadata().GetRelations() {
				if len(md.GetDirectlyRelatedUserTypes()) == 0 {
					delete(td.Metadata.Relations, r)
				}
			}
		}
	}
	var conds map[string]*openfgav1.Condition
	if len(v.Conds) > 0 {
		conds = map[string]*openfgav1.Condition{}
		for _, c := range v.Conds {
			pc := &openfgav1.Condition{Name: c.Name, Expression: c.Expr, Parameters: map[string]*openfgav1.ConditionParamTypeRef{}}
			for p, t := range c.Params {
				pc.Parameters[p] = paramType(t)
			}
			conds[c.Name] = pc
		}
	}
	return tds, conds
}

func (c *CondDef) sortedParams() []string {
	var ps []string
	for p := range c.Params {
		ps = append(ps, p)
	}
	sort.Strings(ps)
	return ps
}

// handModels: restriction lists that mix conditioned and unconditioned entries of one user type.
// Every model keeps the vocabulary's type names (user, group, doc) and group#banned: [user] (the probe
// relation of the contextual-tuple request).
func handModels() []*VM {
	u := func(rs ...ref.Restr) []ref.Restr { return rs }
	user, userW := ref.Restr{Type: "user"}, ref.Restr{Type: "user", Wildcard: true}
	gm := ref.Restr{Type: "group", Rel: "member"}
	with := func(r ref.Restr, c string) ref.Restr { r.Cond = c; return r }
	group := func(member []ref.Restr) map[string]*ref.RelDef {
		return map[string]*ref.RelDef{"member": {Rewrite: ref.This(), Restr: member}, "banned": {Rewrite: ref.This(), Restr: u(user)}}
	}
	cy := CondDef{Name: "cy", Params: map[string]string{"s": "string"}, Expr: "s == 'ok'"}
	cz := CondDef{Name: "cz", Params: map[string]string{"b": "bool", "n": "int"}, Expr: "b && n > 0"}
	return []*VM{
		// H1: the design-phase probe (DESIGN.md §9 item 6)
		{Name: "H1", Conds: []CondDef{cxDef}, M: &ref.Model{Conds: true, Types: map[string]map[string]*ref.RelDef{
			"user":  {},
			"group": group(u(user, gm)),
			"doc": {
				"viewer": {Rewrite: ref.This(), Restr: u(with(userW, "cx"), user, gm)},
				"editor": {Rewrite: ref.This(), Restr: u(with(user, "cx"), user)},
				"owner":  {Rewrite: ref.Comp("editor")},
			},
		}}},
		// H2: userset restrictions with and without condition, object restriction next to a conditioned userset
		{Name: "H2", Conds: []CondDef{cxDef}, M: &ref.Model{Conds: true, Types: map[string]map[string]*ref.RelDef{
			"user":  {},
			"group": group(u(user, with(gm, "cx"))),
			"doc": {
				"viewer": {Rewrite: ref.This(), Restr: u(with(gm, "cx"))},
				"editor": {Rewrite: ref.This(), Restr: u(ref.Restr{Type: "group"}, with(gm, "cx"))},
				"auditor": {Rewrite: ref.Bin(ref.KUnion, ref.This(), ref.Comp("viewer")),
					Restr: u(with(gm, "cx"), ref.Restr{Type: "group", Rel: "banned"}, with(user, "cx"), userW)},
			},
		}}},
		// H3: two conditions with different parameter types; conditioned tupleset relation
		{Name: "H3", Conds: []CondDef{cxDef, cy}, M: &ref.Model{Conds: true, Types: map[string]map[string]*ref.RelDef{
			"user":  {},
			"group": group(u(user)),
			"doc": {
				"parent": {Rewrite: ref.This(), Restr: u(ref.Restr{Type: "doc"}, ref.Restr{Type: "group", Cond: "cy"})},
				"viewer": {Rewrite: ref.Bin(ref.KUnion, ref.This(), ref.TTU("parent", "viewer")),
					Restr: u(with(user, "cx"), with(userW, "cy"), with(gm, "cy"), gm)},
				"editor": {Rewrite: ref.This(), Restr: u(with(user, "cx"), with(user, "cy"))},
			},
		}}},
		// H4: three conditions, a two-parameter condition, relations without metadata entry
		{Name: "H4", Conds: []CondDef{cxDef, cy, cz}, OmitEmptyMeta: true, M: &ref.Model{Conds: true, Types: map[string]map[string]*ref.RelDef{
			"user":  {},
			"group": group(u(with(user, "cz"), userW)),
			"doc": {
				"viewer": {Rewrite: ref.This(), Restr: u(with(user, "cz"), with(userW, "cx"), ref.Restr{Type: "doc", Rel: "viewer", Cond: "cy"}, ref.Restr{Type: "doc", Rel: "editor"})},
				"editor": {Rewrite: ref.This(), Restr: u(user, with(ref.Restr{Type: "doc", Rel: "editor"}, "cy"))},
				"owner":  {Rewrite: ref.Bin(ref.KInter, ref.Comp("editor"), ref.Comp("viewer"))},
			},
		}}},
	}
}
