package c18

import (
	"math"
	"sort"
	"strings"

	"github.com/openfga/openfga/internal/verifh/ref"
)

// The oracle is a plain transcription of the statement of C18:
//
//	accepted  <=>  object type and relation exist
//	           and the user matches one of the relation's type restrictions (object type / typed wildcard / userset)
//	           and tupleset relations receive only concrete objects
//	           and the condition is one the MATCHING restriction allows, with a context that fits the declared
//	               parameter types and the size limit
//	           and the tuple is not a userset pointing at itself.
//
// It uses nothing of openfga: only the harness' own model representation and string handling.

// Clause names (the failed clauses of a tuple form the mechanism part of a signature).
const (
	clObjMalformed  = "object-malformed"
	clObjType       = "object-type-undefined"
	clRelation      = "relation-undefined"
	clUserMalformed = "user-malformed"
	clSelf          = "self-referencing-userset"
	clTupleset      = "tupleset-relation-receives-non-object"
	clNoRestr       = "user-matches-no-type-restriction"
	clCondMissing   = "condition-missing-for-matching-restriction"
	clCondNotAllow  = "condition-not-allowed-by-matching-restriction"
	clCondUndefined = "condition-undefined"
	clCtxExtra      = "context-undeclared-parameter"
	clCtxType       = "context-mistyped-value"
	clCtxSize       = "context-oversized"
)

type Expect struct {
	Accept     bool
	Failed     []string // failed clauses (empty <=> Accept)
	WellFormed bool     // object, relation and user pass the syntactic reading: the model decides
	Silent     bool     // the statement takes no position on this tuple (context value of debatable type)
	// mechanism evidence for signatures
	SiblingCarriesCond   bool // a restriction of the same user type but another shape carries the tuple's condition
	SiblingUnconditioned bool // a restriction of the same user type but another shape is unconditioned
}

func hasWS(s string) bool { return strings.ContainsAny(s, " \t\n\r") }

// parseObject: "type:id" with non-empty type and id, one ':', no '#'; id "*" is a wildcard, not an object.
func parseObject(s string) (typ, id string, ok bool) {
	i := strings.IndexByte(s, ':')
	if i <= 0 || i == len(s)-1 || hasWS(s) || strings.ContainsRune(s, '#') || strings.Count(s, ":") != 1 {
		return "", "", false
	}
	return s[:i], s[i+1:], true
}

type userShape struct {
	typ, rel string
	wild     bool
}

// parseUser: object "type:id", typed wildcard "type:*" or userset "type:id#relation".
func parseUser(s string) (userShape, bool) {
	obj, rel := s, ""
	if i := strings.IndexByte(s, '#'); i >= 0 {
		obj, rel = s[:i], s[i+1:]
		if rel == "" || strings.ContainsAny(rel, "#:") {
			return userShape{}, false
		}
	}
	t, id, ok := parseObject(obj)
	if !ok {
		return userShape{}, false
	}
	if id == "*" {
		if rel != "" {
			return userShape{}, false // a userset needs a concrete object
		}
		return userShape{typ: t, wild: true}, true
	}
	return userShape{typ: t, rel: rel}, true
}

func isTupleset(m *ref.Model, typ, rel string) bool {
	found := false
	var walk func(e *ref.Expr)
	walk = func(e *ref.Expr) {
		if e == nil {
			return
		}
		if e.K == ref.KTTU && e.Tupleset == rel {
			found = true
		}
		walk(e.A)
		walk(e.B)
	}
	for _, d := range m.Types[typ] {
		walk(d.Rewrite)
	}
	return found
}

func fitsType(v any, typ string) bool {
	switch typ {
	case "int":
		switch x := v.(type) {
		case int:
			return true
		case float64:
			return x == math.Trunc(x)
		}
	case "string":
		_, ok := v.(string)
		return ok
	case "bool":
		_, ok := v.(bool)
		return ok
	}
	return false
}

func (v *VM) expect(t TupleCase) Expect {
	var e Expect
	fail := func(c string) { e.Failed = append(e.Failed, c) }
	otyp, oid, ook := parseObject(t.Obj)
	if ook && oid == "*" {
		ook = false
	}
	us, uok := parseUser(t.User)
	relOK := t.Rel != "" && !strings.ContainsAny(t.Rel, "#:@") && !hasWS(t.Rel)
	e.WellFormed = ook && uok && relOK
	if !ook {
		fail(clObjMalformed)
	}
	if !uok {
		fail(clUserMalformed)
	}
	var def *ref.RelDef
	if ook {
		rels, ok := v.M.Types[otyp]
		if !ok {
			fail(clObjType)
		} else if def = rels[t.Rel]; def == nil {
			fail(clRelation)
		}
	}
	if ook && uok && t.User == t.Obj+"#"+t.Rel {
		fail(clSelf)
	}
	if def != nil && uok {
		if isTupleset(v.M, otyp, t.Rel) && (us.wild || us.rel != "") {
			fail(clTupleset)
		}
		var restr []ref.Restr
		if ref.HasThis(def.Rewrite) {
			restr = def.Restr
		}
		var matching []ref.Restr
		for _, r := range restr {
			if r.Type == us.typ && r.Wildcard == us.wild && r.Rel == us.rel {
				matching = append(matching, r)
			} else if r.Type == us.typ {
				if t.Cond != "" && r.Cond == t.Cond {
					e.SiblingCarriesCond = true
				}
				if r.Cond == "" {
					e.SiblingUnconditioned = true
				}
			}
		}
		if len(matching) == 0 {
			fail(clNoRestr)
		} else {
			allowed := false
			for _, r := range matching {
				if r.Cond == t.Cond {
					allowed = true
				}
			}
			if !allowed {
				if t.Cond == "" {
					fail(clCondMissing)
				} else {
					fail(clCondNotAllow)
				}
			}
		}
	}
	if t.Cond != "" {
		cd := v.cond(t.Cond)
		if cd == nil {
			fail(clCondUndefined)
		} else if ce := ctxFor(cd, t.Ctx); ce.present {
			extra, mistyped := false, false
			for k, val := range ce.fields {
				typ, ok := cd.Params[k]
				if !ok {
					extra = true
				} else if !fitsType(val, typ) {
					mistyped = true
				}
			}
			if extra {
				fail(clCtxExtra)
			}
			if mistyped {
				if strings.HasPrefix(t.Ctx, "silent-") {
					e.Silent = true
				} else {
					fail(clCtxType)
				}
			}
			if ce.size > SizeLimit {
				fail(clCtxSize)
			}
		}
	}
	e.Accept = len(e.Failed) == 0
	sort.Strings(e.Failed)
	return e
}
