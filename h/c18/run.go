package c18

import (
	"context"
	"fmt"
	"strings"

	openfgav1 "github.com/openfga/api/proto/openfga/v1"
	"google.golang.org/grpc/status"

	"github.com/openfga/openfga/internal/verifh/core"
	"github.com/openfga/openfga/internal/verifh/e2"
	"github.com/openfga/openfga/internal/verifh/ref"
	"github.com/openfga/openfga/pkg/server"
	"github.com/openfga/openfga/pkg/storage/memory"
)

type env struct {
	s       *server.Server
	v       *VM
	storeID string
	modelID string
}

func newEnv(v *VM) (*env, error) {
	e := &env{s: e2.NewServer(memory.New(), server.WithRequestTimeout(0)), v: v}
	if err := e.freshStore(); err != nil {
		e.s.Close()
		return nil, err
	}
	return e, nil
}

// freshStore switches to a new, empty store carrying the model.
func (e *env) freshStore() error {
	ctx := context.Background()
	st, err := e.s.CreateStore(ctx, &openfgav1.CreateStoreRequest{Name: "verif"})
	if err != nil {
		return err
	}
	tds, conds := e.v.proto()
	wm, err := e.s.WriteAuthorizationModel(ctx, &openfgav1.WriteAuthorizationModelRequest{StoreId: st.GetId(), SchemaVersion: "1.1", TypeDefinitions: tds, Conditions: conds})
	if err != nil {
		return err
	}
	e.storeID, e.modelID = st.GetId(), wm.GetAuthorizationModelId()
	return nil
}

func errInfo(err error) (code int32, msg string) {
	if err == nil {
		return 0, ""
	}
	msg = err.Error()
	if len(msg) > 300 {
		msg = msg[:300] + "..."
	}
	if st, ok := status.FromError(err); ok {
		return int32(st.Code()), msg
	}
	return -1, msg
}

// Outcome of offering one tuple to both entry points.
type Outcome struct {
	WriteAccepted bool   `json:"write_accepted"`
	WriteCode     int32  `json:"write_code,omitempty"`
	WriteMsg      string `json:"write_msg,omitempty"`
	CtxAccepted   bool   `json:"contextual_accepted"`
	CtxCode       int32  `json:"contextual_code,omitempty"`
	CtxMsg        string `json:"contextual_msg,omitempty"`
	// store observations after the Write
	StoredTuples  []string `json:"stored_tuples,omitempty"`
	StoredChanges int      `json:"stored_changes"`
	ReadErr       string   `json:"read_err,omitempty"`
}

func (e *env) readStore() (tuples []string, changes int, errs string) {
	ctx := context.Background()
	rr, err := e.s.Read(ctx, &openfgav1.ReadRequest{StoreId: e.storeID})
	if err != nil {
		errs += "Read: " + err.Error() + "; "
	}
	for _, t := range rr.GetTuples() {
		k := t.GetKey()
		s := k.GetObject() + "#" + k.GetRelation() + "@" + k.GetUser()
		if k.GetCondition() != nil {
			s += "[" + k.GetCondition().GetName() + "]"
		}
		tuples = append(tuples, s)
	}
	rc, err := e.s.ReadChanges(ctx, &openfgav1.ReadChangesRequest{StoreId: e.storeID})
	if err != nil {
		errs += "ReadChanges: " + err.Error()
	}
	return tuples, len(rc.GetChanges()), errs
}

// probe relation of the contextual-tuple request: group#banned: [user] on an object and a user outside the
// vocabulary, so the evaluation never consults the contextual tuple and any error is a validation error.
const probeObj, probeRel, probeUser = "group:zz", "banned", "user:zz"

func (e *env) offer(t TupleCase) (Outcome, error) {
	var o Outcome
	ctx := context.Background()
	_, werr := e.s.Write(ctx, &openfgav1.WriteRequest{StoreId: e.storeID, AuthorizationModelId: e.modelID,
		Writes: &openfgav1.WriteRequestWrites{TupleKeys: []*openfgav1.TupleKey{e.v.toProto(t)}}})
	o.WriteAccepted = werr == nil
	o.WriteCode, o.WriteMsg = errInfo(werr)
	o.StoredTuples, o.StoredChanges, o.ReadErr = e.readStore()
	if len(o.StoredTuples) > 0 || o.StoredChanges > 0 {
		// the store is no longer empty: continue on a new one
		if err := e.freshStore(); err != nil {
			return o, err
		}
	}
	resp, cerr := e.s.Check(ctx, &openfgav1.CheckRequest{StoreId: e.storeID, AuthorizationModelId: e.modelID,
		TupleKey:         &openfgav1.CheckRequestTupleKey{Object: probeObj, Relation: probeRel, User: probeUser},
		ContextualTuples: &openfgav1.ContextualTupleKeys{TupleKeys: []*openfgav1.TupleKey{e.v.toProto(t)}}})
	o.CtxAccepted = cerr == nil
	o.CtxCode, o.CtxMsg = errInfo(cerr)
	if cerr == nil && resp.GetAllowed() {
		o.CtxMsg = "probe request answered allowed=true"
	}
	return o, nil
}

// Case is the replayable unit.
type Case struct {
	VM      *VM       `json:"vm"`
	Tuple   TupleCase `json:"tuple"`
	Expect  Expect    `json:"expect"`
	Outcome Outcome   `json:"outcome"`
	Seen    string    `json:"seen,omitempty"`
}

type deviation struct{ sig, desc string }

// judge compares one outcome with the oracle; every deviation carries a mechanism-based signature.
func judge(v *VM, t TupleCase, ex Expect, o Outcome) []deviation {
	var out []deviation
	clauses := strings.Join(ex.Failed, "+")
	storedKey := t.Obj + "#" + t.Rel + "@" + t.User
	if t.Cond != "" {
		storedKey += "[" + t.Cond + "]"
	}
	// an unsound acceptance is reported once per failed clause: each clause names the check that did not fire
	accSigs := func(side string) []string {
		var sigs []string
		for _, c := range ex.Failed {
			switch {
			case c == clCondNotAllow && ex.SiblingCarriesCond:
				sigs = append(sigs, "condition-accepted-from-sibling-restriction-of-same-type")
			case c == clCondMissing && ex.SiblingUnconditioned:
				sigs = append(sigs, "missing-condition-accepted-from-unconditioned-sibling-restriction-of-same-type")
			default:
				sigs = append(sigs, side+"-accepts/"+c)
			}
		}
		return sigs
	}
	judged := !(ex.Silent && ex.Accept)
	if o.ReadErr != "" {
		out = append(out, deviation{"store-read-failed", o.ReadErr})
	}
	if judged {
		if o.WriteAccepted && !ex.Accept {
			for _, sg := range accSigs("write") {
				out = append(out, deviation{sg, fmt.Sprintf("Write accepted %s; the statement rejects it (%s)", t, clauses)})
			}
		}
		if !o.WriteAccepted && ex.Accept {
			out = append(out, deviation{fmt.Sprintf("write-rejects-valid-tuple/code-%d", o.WriteCode), fmt.Sprintf("Write rejected %s: %s", t, o.WriteMsg)})
		}
		if o.CtxAccepted && !ex.Accept {
			for _, sg := range accSigs("contextual") {
				if o.WriteAccepted && !strings.HasPrefix(sg, "contextual-accepts/") {
					continue // same shared mechanism, already reported for Write
				}
				out = append(out, deviation{sg, fmt.Sprintf("contextual tuple %s passed validation (Write accepted=%v); the statement rejects it (%s)", t, o.WriteAccepted, clauses)})
			}
		}
		if !o.CtxAccepted && ex.Accept {
			out = append(out, deviation{fmt.Sprintf("contextual-rejects-valid-tuple/code-%d", o.CtxCode), fmt.Sprintf("contextual tuple %s rejected: %s", t, o.CtxMsg)})
		}
	} else if o.WriteAccepted != o.CtxAccepted {
		out = append(out, deviation{"write-and-contextual-validation-disagree/" + t.Ctx, fmt.Sprintf("%s: Write accepted=%v, contextual accepted=%v", t, o.WriteAccepted, o.CtxAccepted)})
	}
	if o.CtxAccepted && o.CtxMsg != "" {
		out = append(out, deviation{"harness-probe-request-not-neutral", o.CtxMsg})
	}
	// store effect
	if o.WriteAccepted {
		if len(o.StoredTuples) != 1 || o.StoredTuples[0] != storedKey || o.StoredChanges != 1 {
			out = append(out, deviation{"accepted-write-not-stored-as-given", fmt.Sprintf("%s accepted, store has %v, %d changes", t, o.StoredTuples, o.StoredChanges)})
		}
	} else if len(o.StoredTuples) != 0 || o.StoredChanges != 0 {
		out = append(out, deviation{"rejected-write-changed-store", fmt.Sprintf("%s rejected (%s) but store has %v, %d changes", t, o.WriteMsg, o.StoredTuples, o.StoredChanges)})
	}
	return out
}

func models(o *core.Options) (hand, fam []*VM) {
	hand = handModels()
	all := e2.ValidModels(ref.Family(ref.FamilyOpts{Conds: true}))
	per := 1
	if o.Thorough() {
		per = 4
	}
	for _, m := range ref.Representatives(all, per, o.Seed) {
		fam = append(fam, familyVM(m))
	}
	return hand, fam
}

// relationProfile: everything the statement's rule reads about one relation of a model.
func (v *VM) relationProfile(typ, rel string) string {
	d := v.M.Types[typ][rel]
	var xs []string
	if ref.HasThis(d.Rewrite) {
		for _, x := range d.Restr {
			xs = append(xs, x.String())
		}
	}
	return fmt.Sprintf("%s#%s:%v:tupleset=%v", typ, rel, xs, isTupleset(v.M, typ, rel))
}

// A block is the set of tuples of one (object, relation). decided = the object is type:id of a defined type
// and the relation is defined on it, so the model's restrictions decide; every other block is decided by
// syntax / name resolution alone.
type block struct {
	obj, rel string
	users    []string
}

// plan lists the blocks one model executes.
//
//	hand models:            every decided block, every user; the undecided blocks on H1 and H4 (all four in thorough).
//	thorough, family model: every decided block with every user; the undecided blocks on every 15th model.
//	quick, family model:    decided blocks of a relation whose profile (restriction list, tupleset flag) no
//	                        earlier model had: every object, every user; besides, always the block doc:1#r0 (r0 is
//	                        the relation that defines the model's class) with the well-formed users; the undecided
//	                        blocks on the first model.
func plan(v *VM, vo *Vocab, isHand, thorough bool, famIdx int, newProfile map[string]bool, classRel string) (out []block, nDecided, nOther int) {
	for _, o := range vo.Objs {
		typ, id, ok := parseObject(o)
		for _, r := range vo.Rels {
			decided := ok && id != "*" && v.M.Types[typ][r] != nil
			var users []string
			switch {
			case isHand && (decided || thorough || v.Name == "H1" || v.Name == "H4"):
				users = vo.AllUsers
			case isHand:
			case decided && (thorough || newProfile[typ+"#"+r]):
				users = vo.AllUsers
			case decided && typ == "doc" && r == classRel && o == inst(typ)[0]:
				users = vo.CoreUsers
			case !decided && ((thorough && famIdx%15 == 0) || famIdx == 0):
				users = vo.AllUsers
			}
			if users == nil {
				continue
			}
			if decided {
				nDecided++
			} else {
				nOther++
			}
			out = append(out, block{o, r, users})
		}
	}
	return out, nDecided, nOther
}

func Run(o *core.Options) int {
	r := core.NewReport(o, "exploration",
		"models: 4 hand-written models whose restriction lists mix conditioned/unconditioned entries of one user type + one model per r0-signature class of the bounded family (4 per class in thorough). Tuples: cross product objects(2 ids per type, unknown type, missing ':', empty id, empty type, userset and typed wildcard in object position) x relations(every relation name of the model, undefined, empty) x users(objects, typed wildcards, usersets X#r for every relation name and an undefined one incl. the self-referencing userset, unknown types, bare id, '*', wildcard userset, empty relation, empty) x (no condition | every defined condition x context alphabet | undefined condition x {none, fit}), executed block-wise per (object, relation) as described in coverage.plan; each tuple is offered to Server.Write on an empty store (then Read + ReadChanges) and as contextual tuple of a Server.Check whose evaluation cannot reach it; both outcomes are compared with a plain transcription of the statement; non-trivial = syntactically well-formed tuple (the model decides); distinct by (model, tuple)")
	r.Assume("memory datastore; Server API called in-process (request proto validation included, no transport)",
		"context size = protobuf serialized size of the context (google.golang.org/protobuf proto.Size), limit 32768 bytes = config.DefaultWriteContextByteLimit",
		"'empty store' = a store that never held a tuple: after every accepted Write the run moves to a newly created store with the same model",
		"contextual acceptance = Server.Check(group:zz#banned@user:zz) returns no error; that request never reads the contextual tuple, so any error is a validation error",
		"a context that omits declared parameters fits (the statement only asks that given values fit their declared types)",
		"numeric strings for int parameters: statement silent, executed and counted only",
		"quick reduction: in a family model the tuples of a relation are enumerated in full only when no earlier model had a relation of that name with the same restriction list and tupleset flag; blocks decided by syntax/name resolution alone (malformed or unknown object, undefined relation) run on the hand models and the first family model; thorough runs every decided block in every model")
	if len(o.Args) >= 5 && o.Args[0] == "case" {
		// vcheck C18 quick case <H1..H4> <object> <relation> <user> [<condition> <ctx-entry>]: one tuple, no evidence written
		o.Replay = "(case)"
		c := Case{Tuple: TupleCase{Obj: o.Args[2], Rel: o.Args[3], User: o.Args[4]}}
		for _, h := range handModels() {
			if h.Name == o.Args[1] {
				c.VM = h
			}
		}
		if c.VM == nil {
			fmt.Println("unknown hand model", o.Args[1])
			return 2
		}
		if len(o.Args) >= 7 {
			c.Tuple.Cond, c.Tuple.Ctx = o.Args[5], o.Args[6]
		}
		return replayCase(r, c)
	}
	if o.Replay != "" {
		return replay(o, r)
	}
	hand, fam := models(o)
	r.Set("hand_models", len(hand))
	r.Set("family_models", len(fam))
	ctxNames := ctxQuick
	if o.Thorough() {
		ctxNames = ctxThorough
	}
	r.Set("context_alphabet", ctxNames)
	r.Set("plan", "hand models: all model-decided blocks with all users, syntax-decided blocks on H1 and H4 (all in thorough); thorough family model: every model-decided block with all users, syntax-decided blocks on every 15th model; quick family model: blocks of relations with a new (restrictions, tupleset) profile in full, besides always doc:1#r0 x well-formed users, syntax-decided blocks on the first model")
	all := append(append([]*VM{}, hand...), fam...)
	// relation profiles first seen in model i (sequential: deterministic)
	seen := map[string]bool{}
	newProf := make([]map[string]bool, len(all))
	for i, v := range all {
		newProf[i] = map[string]bool{}
		if i < len(hand) {
			continue
		}
		for t, rs := range v.M.Types {
			for rel := range rs {
				if p := v.relationProfile(t, rel); !seen[p] {
					seen[p] = true
					newProf[i][t+"#"+rel] = true
				}
			}
		}
	}
	r.Set("distinct_relation_profiles_in_family", len(seen))
	r.Parallel(len(all), func(i int) {
		v := all[i]
		isHand := i < len(hand)
		e, err := newEnv(v)
		if err != nil {
			if isHand {
				r.Violate("harness-hand-model-rejected", v.Name+": "+err.Error(), v)
			}
			r.Count("models_rejected_by_server", 1)
			return
		}
		defer e.s.Close()
		r.Count("models", 1)
		vo := v.vocab(ctxNames)
		blocks, nd, no := plan(v, vo, isHand, o.Thorough(), i-len(hand), newProf[i], "r0")
		r.Count("blocks_model_decided", int64(nd))
		r.Count("blocks_syntax_decided", int64(no))
		ms := v.M.String()
		for _, b := range blocks {
			for _, u := range b.users {
				for _, c := range vo.Conds {
					if r.Expired() {
						return
					}
					runTuple(r, e, v, ms, isHand, TupleCase{Obj: b.obj, Rel: b.rel, User: u, Cond: c.Cond, Ctx: c.Ctx})
				}
			}
		}
	})
	return r.Finish()
}

func runTuple(r *core.Report, e *env, v *VM, ms string, isHand bool, t TupleCase) {
	ex := v.expect(t)
	out, err := e.offer(t)
	if err != nil {
		r.Violate("harness-fresh-store-failed", err.Error(), Case{VM: v, Tuple: t})
		return
	}
	r.Eval(2)
	if ex.WellFormed {
		r.Nontrivial(core.Hash(v.Name, ms, t.String()))
	}
	// counters are batched per tuple in one lock
	cs := map[string]int64{}
	if ex.WellFormed {
		cs["wellformed_tuples"]++
	}
	switch {
	case ex.Silent && ex.Accept:
		cs["statement_silent_tuples"]++
		if out.WriteAccepted {
			cs["statement_silent_accepted_by_write"]++
		}
	case ex.Accept:
		cs["oracle_accepts"]++
	default:
		cs["oracle_rejects"]++
		if len(ex.Failed) == 1 {
			cs["oracle_rejects_single_clause/"+ex.Failed[0]]++
		}
	}
	if out.WriteAccepted {
		cs["write_accepted"]++
	} else {
		cs[fmt.Sprintf("write_rejected_code_%d", out.WriteCode)]++
	}
	if out.CtxAccepted {
		cs["contextual_accepted"]++
	} else {
		cs[fmt.Sprintf("contextual_rejected_code_%d", out.CtxCode)]++
	}
	if out.WriteAccepted != out.CtxAccepted {
		cs["write_contextual_disagreements"]++
	}
	for k, n := range cs {
		r.Count(k, n)
	}
	if ex.Accept && t.Cond != "" && isHand {
		r.Sample(map[string]any{"model": v.Name + " " + ms, "tuple": t.String(), "oracle": "accept", "write_accepted": out.WriteAccepted, "contextual_accepted": out.CtxAccepted})
	}
	devs := judge(v, t, ex, out)
	if len(devs) == 0 {
		return
	}
	// re-decide on fresh stores: a deviation must reproduce 5/5
	again := 0
	for k := 0; k < 5; k++ {
		if err := e.freshStore(); err != nil {
			break
		}
		o2, err := e.offer(t)
		if err == nil && sameSigs(judge(v, t, ex, o2), devs) {
			again++
		}
	}
	c := Case{VM: v, Tuple: t, Expect: ex, Outcome: out, Seen: fmt.Sprintf("1+%d/5", again)}
	if again < 5 {
		r.Anomaly(c)
		return
	}
	for _, d := range devs {
		r.Violate(d.sig, fmt.Sprintf("%s | model %s{%s}", d.desc, v.Name, ms), c)
	}
}

func sameSigs(a, b []deviation) bool {
	if len(a) != len(b) {
		return false
	}
	for i := range a {
		if a[i].sig != b[i].sig {
			return false
		}
	}
	return true
}

func replay(o *core.Options, r *core.Report) int {
	var c Case
	if err := core.LoadReplay(o.Replay, &c); err != nil {
		fmt.Println("replay:", err)
		return 2
	}
	return replayCase(r, c)
}

func replayCase(r *core.Report, c Case) int {
	e, err := newEnv(c.VM)
	if err != nil {
		fmt.Println("model rejected:", err)
		return 2
	}
	defer e.s.Close()
	fmt.Printf("model %s{%s}\n", c.VM.Name, c.VM.M)
	ex := c.VM.expect(c.Tuple)
	for i := 0; i < 5; i++ {
		if err := e.freshStore(); err != nil {
			fmt.Println("store:", err)
			return 2
		}
		out, err := e.offer(c.Tuple)
		if err != nil {
			fmt.Println("store:", err)
			return 2
		}
		r.Eval(2)
		devs := judge(c.VM, c.Tuple, ex, out)
		fmt.Printf("replay %d: %s oracle accept=%v failed=%v | write accepted=%v (%d %s) | contextual accepted=%v (%d %s) | deviations=%d\n",
			i, c.Tuple, ex.Accept, ex.Failed, out.WriteAccepted, out.WriteCode, out.WriteMsg, out.CtxAccepted, out.CtxCode, out.CtxMsg, len(devs))
		for _, d := range devs {
			r.Violate(d.sig, d.desc, Case{VM: c.VM, Tuple: c.Tuple, Expect: ex, Outcome: out})
		}
	}
	return r.Finish()
}
