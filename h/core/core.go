// Package core is the shared runtime of every check: option parsing, parallel
// enumeration, violation/known-finding bookkeeping and evidence writing.
package core

import (
	"bufio"
	"bytes"
	"crypto/sha256"
	"encoding/hex"
	"encoding/json"
	"flag"
	"fmt"
	"hash/fnv"
	"os"
	"os/exec"
	"path/filepath"
	"runtime"
	"sort"
	"strconv"
	"sync"
	"sync/atomic"
	"time"
)

const Root = "/verif"

type Options struct {
	Prop     string
	Tier     string // quick | thorough
	Seed     int64
	Replay   string
	Deadline time.Duration
	Workers  int
	Args     []string
}

func ParseOptions(args []string) *Options {
	o := &Options{}
	if len(args) < 1 {
		fmt.Fprintln(os.Stderr, "usage: <bin> <property> [quick|thorough] [--replay file]")
		os.Exit(2)
	}
	o.Prop = args[0]
	fs := flag.NewFlagSet("check", flag.ExitOnError)
	fs.StringVar(&o.Replay, "replay", "", "replay file")
	fs.DurationVar(&o.Deadline, "deadline", 0, "internal deadline (0 = tier default)")
	fs.IntVar(&o.Workers, "workers", 0, "worker count")
	rest := args[1:]
	o.Tier = "quick"
	if len(rest) > 0 && (rest[0] == "quick" || rest[0] == "thorough") {
		o.Tier = rest[0]
		rest = rest[1:]
	}
	if t := os.Getenv("VERIF_TIER"); t == "quick" || t == "thorough" {
		if len(args) < 2 || (args[1] != "quick" && args[1] != "thorough") {
			o.Tier = t
		}
	}
	_ = fs.Parse(rest)
	o.Args = fs.Args()
	if s := os.Getenv("VERIF_SEED"); s != "" {
		o.Seed, _ = strconv.ParseInt(s, 10, 64)
	}
	if o.Workers == 0 {
		o.Workers = runtime.NumCPU()
	}
	return o
}

func (o *Options) Thorough() bool { return o.Tier == "thorough" }

// ---------------------------------------------------------------------------

type Finding struct {
	Kind      string `json:"kind"` // known | fixed
	Property  string `json:"property"`
	Signature string `json:"signature"`
	What      string `json:"what"`
	Commit    string `json:"commit,omitempty"`
	Example   any    `json:"example,omitempty"`
}

func LoadFindings(prop string) []Finding {
	f, err := os.Open(filepath.Join(Root, "known_findings.jsonl"))
	if err != nil {
		return nil
	}
	defer f.Close()
	var out []Finding
	sc := bufio.NewScanner(f)
	sc.Buffer(make([]byte, 1<<20), 1<<24)
	for sc.Scan() {
		if len(sc.Bytes()) == 0 || sc.Bytes()[0] != '{' {
			continue
		}
		var k Finding
		if json.Unmarshal(sc.Bytes(), &k) == nil && k.Property == prop {
			out = append(out, k)
		}
	}
	return out
}

type Violation struct {
	Signature string `json:"signature"`
	Desc      string `json:"desc"`
	Case      any    `json:"case"`
}

type Report struct {
	Opt   *Options
	Level string
	Rule  string
	start time.Time

	evals atomic.Int64

	distinct [64]struct {
		sync.Mutex
		m map[uint64]struct{}
	}

	mu          sync.Mutex
	samples     []any
	extra       map[string]any
	counters    map[string]int64
	assumptions []string
	viol        []Violation
	violCount   int64
	knownCount  map[string]int64
	sigCount    map[string]int64
	knownEx     map[string]Violation
	known       map[string]Finding
	anomalies   []any
	exhaustive  bool
	stopped     atomic.Bool
	deadline    time.Time
	// model-checking keys
	States, Transitions, Traces int64
}

func NewReport(o *Options, level, rule string) *Report {
	r := &Report{Opt: o, Level: level, Rule: rule, start: time.Now(), extra: map[string]any{}, counters: map[string]int64{},
		knownCount: map[string]int64{}, sigCount: map[string]int64{}, knownEx: map[string]Violation{}, known: map[string]Finding{}, exhaustive: true}
	for i := range r.distinct {
		r.distinct[i].m = map[uint64]struct{}{}
	}
	for _, k := range LoadFindings(o.Prop) {
		if k.Kind == "known" {
			r.known[k.Signature] = k
		}
	}
	d := o.Deadline
	if d == 0 {
		if o.Thorough() {
			d = 40 * time.Minute
		} else {
			d = 8 * time.Minute
		}
	}
	r.deadline = r.start.Add(d)
	return r
}

// Expired reports whether the internal deadline has passed; a run that stops because of it
// ends with exit 0 and exhaustive:false.
func (r *Report) Expired() bool {
	if r.stopped.Load() {
		return true
	}
	if time.Now().After(r.deadline) {
		r.stopped.Store(true)
		r.NotExhaustive("internal deadline reached")
		return true
	}
	return false
}

func (r *Report) Eval(n int64) { r.evals.Add(n) }

func Hash(parts ...string) uint64 {
	h := fnv.New64a()
	for _, p := range parts {
		h.Write([]byte(p))
		h.Write([]byte{0})
	}
	return h.Sum64()
}

// Nontrivial records one distinct non-trivial case (by key hash).
func (r *Report) Nontrivial(key uint64) {
	s := &r.distinct[key&63]
	s.Lock()
	s.m[key] = struct{}{}
	s.Unlock()
}

func (r *Report) Sample(s any) {
	r.mu.Lock()
	if len(r.samples) < 6 {
		r.samples = append(r.samples, s)
	}
	r.mu.Unlock()
}

func (r *Report) Count(name string, n int64) {
	r.mu.Lock()
	r.counters[name] += n
	r.mu.Unlock()
}

func (r *Report) Set(name string, v any) {
	r.mu.Lock()
	r.extra[name] = v
	r.mu.Unlock()
}

func (r *Report) Assume(s ...string) {
	r.mu.Lock()
	r.assumptions = append(r.assumptions, s...)
	r.mu.Unlock()
}

func (r *Report) NotExhaustive(why string) {
	r.mu.Lock()
	r.exhaustive = false
	r.extra["not_exhaustive_because"] = why
	r.mu.Unlock()
}

func (r *Report) Anomaly(a any) {
	r.mu.Lock()
	if len(r.anomalies) < 50 {
		r.anomalies = append(r.anomalies, a)
	}
	r.counters["anomalies_not_decided"]++
	r.mu.Unlock()
}

// Violate records a failing case. signature is the mechanism class computed by the harness;
// if known_findings.jsonl lists it for this property the case is a known finding.
func (r *Report) Violate(signature, desc string, c any) {
	r.mu.Lock()
	defer r.mu.Unlock()
	if _, ok := r.known[signature]; ok {
		r.knownCount[signature]++
		if _, have := r.knownEx[signature]; !have {
			r.knownEx[signature] = Violation{signature, desc, c}
		}
		return
	}
	r.violCount++
	r.sigCount[signature]++
	if r.sigCount[signature] <= 2 && len(r.viol) < 24 {
		r.viol = append(r.viol, Violation{signature, desc, c})
	}
}

func (r *Report) Violations() int64 {
	r.mu.Lock()
	defer r.mu.Unlock()
	return r.violCount
}

// BinDir is where the harness binaries of this run live (sub-harness binaries are looked up there).
func BinDir() string {
	if d := os.Getenv("VERIF_BIN_DIR"); d != "" {
		if filepath.IsAbs(d) {
			return d
		}
		return filepath.Join(Root, d)
	}
	return filepath.Join(Root, ".build", "bin")
}

// OutDir is where evidence/ and replays/ are written: /verif, or VERIF_OUT_DIR for trial runs against
// seeded changes (tools/try_seed.sh), which must not overwrite the evidence of the real tree.
func OutDir() string {
	if d := os.Getenv("VERIF_OUT_DIR"); d != "" {
		return d
	}
	return Root
}

// Finish writes evidence and replay files, prints verdict lines and returns the exit code.
func (r *Report) Finish() int {
	r.mu.Lock()
	defer r.mu.Unlock()
	var distinct int64
	for i := range r.distinct {
		distinct += int64(len(r.distinct[i].m))
	}
	cov := map[string]any{
		"evaluations":         r.evals.Load(),
		"distinct_nontrivial": distinct,
		"rule":                r.Rule,
		"samples":             r.samples,
		"exhaustive":          r.exhaustive,
	}
	if r.States > 0 {
		cov["states"] = r.States
		cov["transitions"] = r.Transitions
		cov["traces_validated_against_impl"] = r.Traces
	}
	for k, v := range r.counters {
		cov[k] = v
	}
	for k, v := range r.extra {
		cov[k] = v
	}
	if len(r.anomalies) > 0 {
		cov["anomalies"] = r.anomalies
	}
	kf := map[string]any{}
	var sigs []string
	for s := range r.known {
		sigs = append(sigs, s)
	}
	sort.Strings(sigs)
	for _, s := range sigs {
		kf[s] = map[string]any{"cases_this_run": r.knownCount[s], "example": r.knownEx[s]}
	}
	if len(kf) > 0 {
		cov["known_findings"] = kf
	}
	if len(r.sigCount) > 0 {
		cov["violation_signatures"] = r.sigCount
	}
	ev := map[string]any{
		"property_id": r.Opt.Prop,
		"tier":        r.Opt.Tier,
		"seed":        r.Opt.Seed,
		"level":       r.Level,
		"coverage":    cov,
		"assumptions": r.assumptions,
		"wall_s":      time.Since(r.start).Seconds(),
		"violations":  r.violCount,
	}
	if r.samples == nil {
		cov["samples"] = []any{}
	}
	if r.assumptions == nil {
		ev["assumptions"] = []string{}
	}
	if r.Opt.Replay == "" {
		_ = os.MkdirAll(filepath.Join(OutDir(), "evidence"), 0o755)
		b, _ := json.MarshalIndent(ev, "", " ")
		p := filepath.Join(OutDir(), "evidence", r.Opt.Prop+".json")
		if err := os.WriteFile(p+".tmp", b, 0o644); err == nil {
			_ = os.Rename(p+".tmp", p)
		}
	}
	for _, s := range sigs {
		fmt.Printf("KNOWN-FINDING: property=%s %s [signature=%s cases_this_run=%d]\n", r.Opt.Prop, r.known[s].What, s, r.knownCount[s])
	}
	fmt.Printf("%s %s: evaluations=%d distinct_nontrivial=%d exhaustive=%v wall=%.1fs violations=%d\n", r.Opt.Prop, r.Opt.Tier,
		r.evals.Load(), distinct, r.exhaustive, time.Since(r.start).Seconds(), r.violCount)
	if r.violCount == 0 {
		return 0
	}
	_ = os.MkdirAll(filepath.Join(OutDir(), "replays"), 0o755)
	seen := map[string]bool{}
	for _, v := range r.viol {
		b, _ := json.MarshalIndent(map[string]any{"property": r.Opt.Prop, "signature": v.Signature, "desc": v.Desc, "case": v.Case}, "", " ")
		sum := sha256.Sum256(b)
		p := filepath.Join(OutDir(), "replays", r.Opt.Prop+"-"+hex.EncodeToString(sum[:6])+".json")
		if r.Opt.Replay != "" {
			p = r.Opt.Replay
		} else {
			_ = os.WriteFile(p, b, 0o644)
		}
		if !seen[v.Signature] {
			fmt.Printf("VIOLATION property=%s replay=%s\n  signature=%s\n  %s\n", r.Opt.Prop, p, v.Signature, v.Desc)
		}
		seen[v.Signature] = true
	}
	return 1
}

// Parallel runs fn(i) for i in [0,n) on Workers goroutines; stops early when the deadline passes.
func (r *Report) Parallel(n int, fn func(i int)) {
	var next atomic.Int64
	var wg sync.WaitGroup
	w := r.Opt.Workers
	if w > n {
		w = n
	}
	for k := 0; k < w; k++ {
		wg.Add(1)
		go func() {
			defer wg.Done()
			for {
				i := int(next.Add(1) - 1)
				if i >= n {
					return
				}
				if r.Expired() {
					return
				}
				fn(i)
			}
		}()
	}
	wg.Wait()
}

// Shards runs work(i) for i in [0,n) in separate worker processes (re-exec of this binary with
// VERIF_SHARD=i), Workers at a time, and returns each worker's JSON result (nil if it died). In a worker
// process it runs work(shard), prints the result and exits.
func (r *Report) Shards(n int, work func(i int) any, extraEnv ...string) []json.RawMessage {
	if s := os.Getenv("VERIF_SHARD"); s != "" {
		i, _ := strconv.Atoi(s)
		out, _ := json.Marshal(work(i))
		fmt.Printf("\nSHARDRESULT %s\n", out)
		os.Exit(0)
	}
	res := make([]json.RawMessage, n)
	exe, _ := os.Executable()
	r.Parallel(n, func(i int) {
		cmd := exec.Command(exe, os.Args[1:]...)
		cmd.Env = append(append(os.Environ(), "VERIF_SHARD="+strconv.Itoa(i)), extraEnv...)
		out, err := cmd.Output()
		_ = err
		for _, line := range bytes.Split(out, []byte("\n")) {
			if bytes.HasPrefix(line, []byte("SHARDRESULT ")) {
				res[i] = append(json.RawMessage{}, line[len("SHARDRESULT "):]...)
			}
		}
	})
	return res
}

// LoadReplay decodes the "case" member of a replay file into v.
func LoadReplay(path string, v any) error {
	b, err := os.ReadFile(path)
	if err != nil {
		return err
	}
	var w struct {
		Case json.RawMessage `json:"case"`
	}
	if err := json.Unmarshal(b, &w); err != nil {
		return err
	}
	return json.Unmarshal(w.Case, v)
}

// Remarshal converts a decoded JSON value (map[string]any ...) into a typed value.
func Remarshal(in any, out any) error {
	b, err := json.Marshal(in)
	if err != nil {
		return err
	}
	return json.Unmarshal(b, out)
}
