// Package c14 decides C14 "Paginated reads return every item exactly once": for every data-set size
// n in the bound and EVERY page size, continuation tokens are followed through the public Server API
// (Read, ReadChanges, ListStores, ReadAuthorizationModels) on a memory and on a SQLite datastore and the
// concatenation of the pages is compared with a reference list kept by the harness; then issued tokens
// are replayed with other type filters, mutated byte by byte, truncated, and replaced by crafted values.
package c14

import (
	"context"
	"encoding/base64"
	"encoding/json"
	"fmt"
	"os"
	"sort"
	"strconv"
	"strings"
	"sync"
	"time"

	openfgav1 "github.com/openfga/api/proto/openfga/v1"
	parser "github.com/openfga/language/pkg/go/transformer"
	"google.golang.org/protobuf/types/known/wrapperspb"

	"github.com/openfga/openfga/internal/verifh/core"
	"github.com/openfga/openfga/internal/verifh/e1"
	"github.com/openfga/openfga/internal/verifh/sqlx"
	"github.com/openfga/openfga/pkg/encoder"
	"github.com/openfga/openfga/pkg/logger"
	"github.com/openfga/openfga/pkg/server"
	"github.com/openfga/openfga/pkg/storage"
	"github.com/openfga/openfga/pkg/storage/memory"
	"github.com/openfga/openfga/pkg/storage/sqlcommon"
)

const maxPage = 100 // API validation: page_size in [1,100] for all four APIs

// Query = one paginated API with its filter (JSON-replayable).
type Query struct {
	API      string `json:"api"` // Read | ReadChanges | ListStores | ReadAuthorizationModels
	Object   string `json:"object,omitempty"`
	Relation string `json:"relation,omitempty"`
	User     string `json:"user,omitempty"`
	HasKey   bool   `json:"has_key,omitempty"` // Read with a tuple key
	Type     string `json:"type,omitempty"`    // ReadChanges
	Name     string `json:"name,omitempty"`    // ListStores
	Store    int    `json:"store,omitempty"`   // 0 = write-only store, 1 = store with deletes
	// ListStoresByIDs: storage.ListStoresOptions.IDs at the datastore interface (the filter the server passes
	// when access control is on: the caller's readable stores, in no particular order). Indices into the
	// world's stores in creation order, -1 = an id that does not exist. Rotate: the list is reversed on every
	// page after the first (the authorization result has no stable order between two page requests).
	IDs    []int `json:"ids,omitempty"`
	Rotate bool  `json:"rotate,omitempty"`
}

func (q Query) String() string {
	b, _ := json.Marshal(q)
	return string(b)
}

type Case struct {
	Backend  string `json:"backend"`
	N        int    `json:"n"`
	Query    Query  `json:"query"`
	PageSize int    `json:"page_size"`
	// token experiment (empty = plain pagination)
	Kind      string   `json:"kind,omitempty"`       // type-replay | mutated | crafted
	Token     string   `json:"token,omitempty"`      // the token sent
	Decoded   string   `json:"decoded,omitempty"`    // its decoded form, if crafted
	OtherType string   `json:"other_type,omitempty"` // type-replay: the type sent with the token
	Got       []string `json:"got,omitempty"`
	Want      []string `json:"want,omitempty"`
	Note      string   `json:"note,omitempty"`
}

// ---------------------------------------------------------------------------------------------
// world: one datastore pair-half (one backend) with n items of every kind

type world struct {
	backend string
	n       int
	ds      storage.OpenFGADatastore
	s       *server.Server
	closeFn func()
	// stores datastore (exactly n stores)
	dsStores storage.OpenFGADatastore
	sStores  *server.Server
	storeIDs []string // creation order
	// a store that was created and deleted (id filter index -2)
	deletedStoreID string
	names    []string
	// data store(s)
	data    [2]string     // store ids: [0] n writes, [1] n changes incl. deletes
	live    [2][]string   // live tuple keys in insertion order
	changes [2][][]string // per store: commits, each a list of "op key" (deletes first, then writes)
	models  []string      // model ids in creation order (store 0)
}

func newDS(backend, tag string) (storage.OpenFGADatastore, encoder.ContinuationTokenSerializer, func()) {
	if backend == "memory" {
		ds := memory.New()
		return ds, encoder.NewStringContinuationTokenSerializer(), func() { ds.Close() }
	}
	ds, cl := sqlx.Open(tag)
	return ds, sqlcommon.NewSQLContinuationTokenSerializer(), cl
}

func newServer(ds storage.OpenFGADatastore, ser encoder.ContinuationTokenSerializer) *server.Server {
	// same wiring as cmd/run: string serializer for memory, SQL (JSON) serializer for SQL datastores
	return server.MustNewServerWithOpts(server.WithDatastore(ds), server.WithLogger(logger.NewNoopLogger()), server.WithContinuationTokenSerializer(ser))
}

const modelDSL = `model
  schema 1.1
type user
type group
  relations
    define member: [user]
type doc
  relations
    define r0: [user]
    define r1: [user, group#member]
`

// tuple i of the data set (by i%4): two relations of one object, another object type, many objects of one user
func tupleAt(i int) *openfgav1.TupleKey {
	switch i % 4 {
	case 0:
		return &openfgav1.TupleKey{Object: "doc:d", Relation: "r1", User: fmt.Sprintf("user:u%d", i)}
	case 1:
		return &openfgav1.TupleKey{Object: "doc:d", Relation: "r0", User: fmt.Sprintf("user:u%d", i)}
	case 2:
		return &openfgav1.TupleKey{Object: fmt.Sprintf("group:g%d", i), Relation: "member", User: "user:a"}
	default:
		return &openfgav1.TupleKey{Object: fmt.Sprintf("doc:e%d", i), Relation: "r1", User: "user:a"}
	}
}

func keyOf(o, r, u string) string { return o + "#" + r + "@" + u }

func (w *world) commit(store int, deletes, writes []*openfgav1.TupleKey) {
	var dl []*openfgav1.TupleKeyWithoutCondition
	var c []string
	for _, d := range deletes {
		dl = append(dl, &openfgav1.TupleKeyWithoutCondition{Object: d.GetObject(), Relation: d.GetRelation(), User: d.GetUser()})
		k := keyOf(d.GetObject(), d.GetRelation(), d.GetUser())
		c = append(c, "TUPLE_OPERATION_DELETE "+k)
		for i, l := range w.live[store] {
			if l == k {
				w.live[store] = append(append([]string{}, w.live[store][:i]...), w.live[store][i+1:]...)
				break
			}
		}
	}
	for _, t := range writes {
		k := keyOf(t.GetObject(), t.GetRelation(), t.GetUser())
		c = append(c, "TUPLE_OPERATION_WRITE "+k)
		w.live[store] = append(w.live[store], k)
	}
	if err := w.ds.Write(context.Background(), w.data[store], dl, writes); err != nil {
		panic(fmt.Sprintf("harness write failed: %v", err))
	}
	w.changes[store] = append(w.changes[store], c)
}

// createMu serialises every data-creating step of all worlds of the process. ULIDs (store ids, model
// ids, tuple and changelog ids) come from one process-wide monotonic entropy source that is only
// monotonic inside a millisecond when its callers do not interleave; C14 is about sequential
// histories, so the harness must not create that interleaving itself by building worlds in parallel.
var createMu sync.Mutex

func newWorld(backend string, n int) *world {
	createMu.Lock()
	defer createMu.Unlock()
	w := &world{backend: backend, n: n}
	ctx := context.Background()
	ds, ser, cl := newDS(backend, "c14")
	w.ds, w.s = ds, newServer(ds, ser)
	ds2, ser2, cl2 := newDS(backend, "c14s")
	w.dsStores, w.sStores = ds2, newServer(ds2, ser2)
	w.closeFn = func() { w.s.Close(); w.sStores.Close(); cl(); cl2() }
	// n stores, alternating names
	for i := 0; i < n; i++ {
		name := "alpha-store"
		if i%2 == 1 {
			name = "beta-store"
		}
		st, err := w.sStores.CreateStore(ctx, &openfgav1.CreateStoreRequest{Name: name})
		if err != nil {
			panic(err)
		}
		w.storeIDs = append(w.storeIDs, st.GetId())
		w.names = append(w.names, name)
		if i == n/2 {
			// one more store, created in the middle and deleted again: it must never be listed (with or
			// without an id filter naming it)
			dst, err := w.sStores.CreateStore(ctx, &openfgav1.CreateStoreRequest{Name: name})
			if err != nil {
				panic(err)
			}
			if _, err := w.sStores.DeleteStore(ctx, &openfgav1.DeleteStoreRequest{StoreId: dst.GetId()}); err != nil {
				panic(err)
			}
			w.deletedStoreID = dst.GetId()
		}
	}
	for k := 0; k < 2; k++ {
		st, err := w.s.CreateStore(ctx, &openfgav1.CreateStoreRequest{Name: "data-store"})
		if err != nil {
			panic(err)
		}
		w.data[k] = st.GetId()
	}
	// n models in store 0 (through the API: ids are assigned by the server)
	m := parser.MustTransformDSLToProto(modelDSL)
	for i := 0; i < n; i++ {
		resp, err := w.s.WriteAuthorizationModel(ctx, &openfgav1.WriteAuthorizationModelRequest{StoreId: w.data[0], SchemaVersion: m.GetSchemaVersion(), TypeDefinitions: m.GetTypeDefinitions()})
		if err != nil {
			panic(err)
		}
		w.models = append(w.models, resp.GetAuthorizationModelId())
	}
	// store 0: n tuples in commits of size 1,2,3,1,2,3,...
	for i, sz := 0, 1; i < n; sz = sz%3 + 1 {
		var ws []*openfgav1.TupleKey
		for j := 0; j < sz && i < n; j++ {
			ws = append(ws, tupleAt(i))
			i++
		}
		w.commit(0, nil, ws)
	}
	// store 1: exactly n changes, every third commit deletes the oldest live tuple and writes a new one in the same call
	for i, c := 0, 0; c < n; {
		if c%5 == 3 && len(w.live[1]) > 0 && n-c >= 2 {
			old := w.live[1][0]
			o, rest, _ := strings.Cut(old, "#")
			rel, u, _ := strings.Cut(rest, "@")
			w.commit(1, []*openfgav1.TupleKey{{Object: o, Relation: rel, User: u}}, []*openfgav1.TupleKey{tupleAt(i)})
			i++
			c += 2
			continue
		}
		w.commit(1, nil, []*openfgav1.TupleKey{tupleAt(i)})
		i++
		c++
	}
	// the SQL changelog horizon filter compares at millisecond granularity with the database clock
	time.Sleep(5 * time.Millisecond)
	return w
}

// expected full result of a query from the harness's own bookkeeping. ordered=false: documentation gives no order.
func (w *world) expected(q Query) (items []string, ordered bool) {
	switch q.API {
	case "Read":
		for _, k := range w.live[q.Store] {
			o, rest, _ := strings.Cut(k, "#")
			rel, u, _ := strings.Cut(rest, "@")
			if q.HasKey {
				if strings.HasSuffix(q.Object, ":") {
					if !strings.HasPrefix(o, q.Object) {
						continue
					}
				} else if q.Object != "" && q.Object != o {
					continue
				}
				if q.Relation != "" && q.Relation != rel {
					continue
				}
				if q.User != "" && q.User != u {
					continue
				}
			}
			items = append(items, k)
		}
		return items, false
	case "ReadChanges":
		for _, c := range w.changes[q.Store] {
			for _, ch := range c {
				if q.Type != "" && !strings.Contains(ch, " "+q.Type+":") {
					continue
				}
				items = append(items, ch)
			}
		}
		return items, true
	case "ListStores":
		for i, id := range w.storeIDs {
			if q.Name == "" || q.Name == w.names[i] {
				items = append(items, id)
			}
		}
		sort.Strings(items) // "stores by ID"
		return items, true
	case "ListStoresByIDs":
		seen := map[int]bool{}
		for _, i := range q.IDs {
			if i >= 0 && !seen[i] && (q.Name == "" || q.Name == w.names[i]) {
				seen[i] = true
				items = append(items, w.storeIDs[i])
			}
		}
		sort.Strings(items)
		return items, true
	case "ReadAuthorizationModels":
		for i := len(w.models) - 1; i >= 0; i-- { // newest first
			items = append(items, w.models[i])
		}
		return items, true
	}
	panic("unknown api")
}

// commitSizes: ReadChanges order is documented per commit ("in the order that they occurred"); the
// order of the items of ONE Write call is not documented, so sequences are compared commit by commit.
func (w *world) commitGroups(q Query) [][]string {
	var out [][]string
	for _, c := range w.changes[q.Store] {
		var g []string
		for _, ch := range c {
			if q.Type != "" && !strings.Contains(ch, " "+q.Type+":") {
				continue
			}
			g = append(g, ch)
		}
		if len(g) > 0 {
			out = append(out, g)
		}
	}
	return out
}

// ---------------------------------------------------------------------------------------------
// one API call

type page struct {
	items []string
	token string
	err   string
	panic string
}

func ps(n int) *wrapperspb.Int32Value {
	if n <= 0 {
		return nil
	}
	return wrapperspb.Int32(int32(n))
}

func (w *world) call(q Query, pageSize int, token string, typeOverride *string) (p page) {
	defer func() {
		if r := recover(); r != nil {
			p = page{panic: fmt.Sprint(r)}
		}
	}()
	ctx := context.Background()
	switch q.API {
	case "Read":
		req := &openfgav1.ReadRequest{StoreId: w.data[q.Store], PageSize: ps(pageSize), ContinuationToken: token}
		if q.HasKey {
			req.TupleKey = &openfgav1.ReadRequestTupleKey{Object: q.Object, Relation: q.Relation, User: q.User}
		}
		resp, err := w.s.Read(ctx, req)
		if err != nil {
			return page{err: err.Error()}
		}
		for _, t := range resp.GetTuples() {
			p.items = append(p.items, keyOf(t.GetKey().GetObject(), t.GetKey().GetRelation(), t.GetKey().GetUser()))
		}
		p.token = resp.GetContinuationToken()
	case "ReadChanges":
		typ := q.Type
		if typeOverride != nil {
			typ = *typeOverride
		}
		resp, err := w.s.ReadChanges(ctx, &openfgav1.ReadChangesRequest{StoreId: w.data[q.Store], Type: typ, PageSize: ps(pageSize), ContinuationToken: token})
		if err != nil {
			return page{err: err.Error()}
		}
		for _, c := range resp.GetChanges() {
			p.items = append(p.items, c.GetOperation().String()+" "+keyOf(c.GetTupleKey().GetObject(), c.GetTupleKey().GetRelation(), c.GetTupleKey().GetUser()))
		}
		p.token = resp.GetContinuationToken()
	case "ListStores":
		resp, err := w.sStores.ListStores(ctx, &openfgav1.ListStoresRequest{PageSize: ps(pageSize), ContinuationToken: token, Name: q.Name})
		if err != nil {
			return page{err: err.Error()}
		}
		for _, s := range resp.GetStores() {
			p.items = append(p.items, s.GetId())
		}
		p.token = resp.GetContinuationToken()
	case "ListStoresByIDs":
		var ids []string
		for _, i := range q.IDs {
			if i == -2 {
				ids = append(ids, w.deletedStoreID)
			} else if i < 0 {
				ids = append(ids, "01ZZZZZZZZZZZZZZZZZZZZZZZZ")
			} else {
				ids = append(ids, w.storeIDs[i])
			}
		}
		if q.Rotate && token != "" {
			for i, j := 0, len(ids)-1; i < j; i, j = i+1, j-1 {
				ids[i], ids[j] = ids[j], ids[i]
			}
		}
		stores, tok, err := w.dsStores.ListStores(ctx, storage.ListStoresOptions{IDs: ids, Name: q.Name, Pagination: storage.PaginationOptions{PageSize: pageSize, From: token}})
		if err != nil {
			return page{err: err.Error()}
		}
		for _, s := range stores {
			p.items = append(p.items, s.GetId())
		}
		p.token = tok
	case "ReadAuthorizationModels":
		resp, err := w.s.ReadAuthorizationModels(ctx, &openfgav1.ReadAuthorizationModelsRequest{StoreId: w.data[q.Store], PageSize: ps(pageSize), ContinuationToken: token})
		if err != nil {
			return page{err: err.Error()}
		}
		for _, m := range resp.GetAuthorizationModels() {
			p.items = append(p.items, m.GetId())
		}
		p.token = resp.GetContinuationToken()
	}
	return p
}

type walk struct {
	items  []string
	pages  []int
	tokens []string // token returned by page i
	err    string
	panic  string
	note   string // protocol deviation found while walking
}

// follow walks from `token` to the documented end signal: empty token (Read, ListStores,
// ReadAuthorizationModels: "The continuation token will be empty if there are no more ..."), or for
// ReadChanges "If there are no changes after the provided continuation token, the same token will be
// returned" (and "If the store never had any tuples added or removed, this token will be empty").
func (w *world) follow(q Query, pageSize int, token string, bound int) (out walk) {
	for calls := 0; ; calls++ {
		if calls > bound {
			out.note = "no-termination"
			return out
		}
		p := w.call(q, pageSize, token, nil)
		if p.panic != "" {
			out.panic = p.panic
			return out
		}
		if p.err != "" {
			out.err = p.err
			return out
		}
		out.pages = append(out.pages, len(p.items))
		out.tokens = append(out.tokens, p.token)
		out.items = append(out.items, p.items...)
		if q.API == "ReadChanges" {
			if len(p.items) == 0 {
				if p.token != token {
					out.note = "readchanges-empty-page-with-different-token"
				}
				return out
			}
			if p.token == "" {
				out.note = "readchanges-changes-with-empty-token"
				return out
			}
			if p.token == token {
				out.note = "readchanges-changes-with-unchanged-token"
				return out
			}
			token = p.token
			continue
		}
		if p.token == "" {
			return out
		}
		if len(p.items) == 0 {
			out.note = "nonempty-token-with-empty-page"
			return out
		}
		token = p.token
	}
}

// ---------------------------------------------------------------------------------------------
// oracles

func multisetEq(a, b []string) bool {
	if len(a) != len(b) {
		return false
	}
	m := map[string]int{}
	for _, x := range a {
		m[x]++
	}
	for _, x := range b {
		m[x]--
		if m[x] < 0 {
			return false
		}
	}
	return true
}

func seqEq(a, b []string) bool {
	if len(a) != len(b) {
		return false
	}
	for i := range a {
		if a[i] != b[i] {
			return false
		}
	}
	return true
}

// classify the difference between the concatenation and the expected list
func diffClass(got, want []string, ordered bool) string {
	seen := map[string]int{}
	for _, g := range got {
		seen[g]++
	}
	wantSet := map[string]int{}
	for _, x := range want {
		wantSet[x]++
	}
	for k, n := range seen {
		if n > wantSet[k] {
			if wantSet[k] == 0 {
				return "item-not-in-data-set"
			}
			return "item-returned-twice"
		}
	}
	for k, n := range wantSet {
		if seen[k] < n {
			return "item-skipped"
		}
	}
	if ordered && !seqEq(got, want) {
		return "wrong-order"
	}
	return ""
}

// changesOrderOK: got must be the commits in order; inside one commit any order.
func changesOrderOK(got []string, groups [][]string) bool {
	i := 0
	for _, g := range groups {
		if i+len(g) > len(got) || !multisetEq(got[i:i+len(g)], g) {
			return false
		}
		i += len(g)
	}
	return i == len(got)
}

// isSuffix: got is a contiguous tail of ref.
func isSuffix(got, ref []string) bool {
	if len(got) > len(ref) {
		return false
	}
	return seqEq(got, ref[len(ref)-len(got):])
}

func panicClass(p string) string {
	switch {
	case strings.Contains(p, "slice bounds out of range"):
		return "slice-bounds-out-of-range"
	case strings.Contains(p, "index out of range"):
		return "index-out-of-range"
	case strings.Contains(p, "nil pointer"):
		return "nil-pointer"
	}
	return "other"
}

// ---------------------------------------------------------------------------------------------

type checker struct {
	r        *core.Report
	thorough bool
}

func (c *checker) violate(w *world, sig, desc string, cs Case) {
	cs.Backend, cs.N = w.backend, w.n
	c.r.Violate(w.backend+"/"+cs.Query.API+"/"+sig, desc, cs)
}

func queries() []Query {
	qs := []Query{}
	for st := 0; st < 2; st++ {
		qs = append(qs,
			Query{API: "Read", Store: st},
			Query{API: "Read", Store: st, HasKey: true, Object: "doc:d"},
			Query{API: "Read", Store: st, HasKey: true, Object: "doc:d", Relation: "r1"},
			Query{API: "Read", Store: st, HasKey: true, Object: "doc:", User: "user:a"},
			Query{API: "Read", Store: st, HasKey: true, Object: "group:", User: "user:a"},
			Query{API: "Read", Store: st, HasKey: true, Object: "doc:", Relation: "r1", User: "user:a"},
			Query{API: "Read", Store: st, HasKey: true, Object: "doc:d", Relation: "r0", User: "user:u1"},
			Query{API: "Read", Store: st, HasKey: true, Object: "group:", User: "user:zz"},
			Query{API: "ReadChanges", Store: st},
			Query{API: "ReadChanges", Store: st, Type: "doc"},
			Query{API: "ReadChanges", Store: st, Type: "group"},
			Query{API: "ReadChanges", Store: st, Type: "nosuch"},
		)
	}
	qs = append(qs,
		Query{API: "ListStores"}, Query{API: "ListStores", Name: "alpha-store"}, Query{API: "ListStores", Name: "beta-store"}, Query{API: "ListStores", Name: "no-such-store"},
		Query{API: "ReadAuthorizationModels"},
	)
	return qs
}

// plain pagination: every page size, concatenation = full result exactly once in documented order
func (c *checker) paginate(w *world, q Query, pageSize int) (walk, bool) {
	want, ordered := w.expected(q)
	wk := w.follow(q, pageSize, "", len(want)+3)
	c.r.Eval(1)
	c.r.Count("walks_"+q.API, 1)
	c.r.Count("api_calls_in_walks", int64(len(wk.pages)))
	cs := Case{Query: q, PageSize: pageSize, Got: wk.items, Want: want}
	ok := true
	bad := func(sig, desc string) {
		ok = false
		c.violate(w, sig, desc, cs)
	}
	switch {
	case wk.panic != "":
		bad("pagination-panic:"+panicClass(wk.panic), wk.panic)
		return wk, false
	case wk.err != "":
		bad("pagination-error", wk.err)
		return wk, false
	case wk.note != "":
		bad("end-signal:"+wk.note, fmt.Sprintf("pages=%v", wk.pages))
	}
	if d := diffClass(wk.items, want, ordered && q.API != "ReadChanges"); d != "" {
		bad("pagination:"+d, fmt.Sprintf("page size %d: pages %v", pageSize, wk.pages))
	} else if q.API == "ReadChanges" && !changesOrderOK(wk.items, w.commitGroups(q)) {
		bad("pagination:wrong-order", fmt.Sprintf("changes are not in commit order (page size %d)", pageSize))
	}
	eff := pageSize
	if eff == 0 {
		eff = storage.DefaultPageSize
	}
	for _, n := range wk.pages {
		if n > eff {
			bad("page-larger-than-page-size", fmt.Sprintf("pages=%v", wk.pages))
			break
		}
	}
	if len(want) > eff || (len(want) > 1 && pageSize == 1) {
		c.r.Nontrivial(core.Hash(w.backend, q.String(), strconv.Itoa(w.n), strconv.Itoa(pageSize)))
	}
	return wk, ok
}

// ---- token experiments ------------------------------------------------------------------------

const b64alphabet = "ABCDEFGHIJKLMNOPQRSTUVWXYZabcdefghijklmnopqrstuvwxyz0123456789-_"

// judgeForged: a token that was not issued for this query: error, or a position consistent with the data.
// ref = the full result in the order the unforged pagination delivers it.
func (c *checker) judgeForged(w *world, q Query, kind, token, decoded string, ref []string, wantPos int) {
	wk := w.follow(q, maxPage, token, len(ref)/maxPage+3)
	c.r.Eval(1)
	cs := Case{Query: q, PageSize: maxPage, Kind: kind, Token: token, Decoded: decoded, Got: wk.items, Want: ref}
	beyond := false
	if n, err := strconv.ParseInt(strings.SplitN(decoded, "|", 2)[0], 10, 64); err == nil && wantPos >= 0 && n > int64(len(ref)) && w.backend == "memory" && q.API != "ReadChanges" {
		beyond = true
	}
	switch {
	case wk.panic != "":
		c.violate(w, "forged-token-panic:"+panicClass(wk.panic), fmt.Sprintf("token %q (decoded %q): panic %s", token, decoded, wk.panic), cs)
	case wk.err != "":
		c.r.Count("forged_tokens_rejected", 1)
		c.r.Nontrivial(core.Hash("forged-rejected", w.backend, q.String(), kind))
	case beyond && len(wk.items) > 0:
		// an offset past the end must denote the end (or be rejected); the data is served again from the first item
		// (and, when the data does not fit one page, the returned tokens grow forever: wk.note == no-termination)
		c.violate(w, "forged-token-misread:offset-beyond-data-restarts-from-first-item", fmt.Sprintf("token %q (decoded %q) accepted; %d items returned although the offset is past the %d items (%s)", token, decoded, len(wk.items), len(ref), wk.note), cs)
	case wk.note != "" && wk.note != "nonempty-token-with-empty-page":
		c.violate(w, "forged-token:"+wk.note, fmt.Sprintf("token %q (decoded %q)", token, decoded), cs)
	case !isSuffix(wk.items, ref):
		c.violate(w, "forged-token-misread:"+kind+"-yields-non-contiguous-result", fmt.Sprintf("token %q (decoded %q) accepted; result is not a tail of the data", token, decoded), cs)
	case wantPos >= 0 && len(ref)-len(wk.items) != wantPos:
		c.violate(w, "forged-token-misread:wrong-position", fmt.Sprintf("token %q (decoded %q) accepted at position %d of %d, the value denotes position %d", token, decoded, len(ref)-len(wk.items), len(ref), wantPos), cs)
	default:
		c.r.Count("forged_tokens_accepted_at_a_consistent_position", 1)
		c.r.Nontrivial(core.Hash("forged-accepted", w.backend, q.String(), kind))
	}
}

func b64(s string) string { return base64.URLEncoding.EncodeToString([]byte(s)) }

// wrap a storage-level token value in the API token format of the backend/API
func (w *world) wrap(q Query, v string) []string {
	out := []string{b64(v)} // bare value
	if q.API == "Read" || q.API == "ReadChanges" {
		if w.backend == "memory" {
			out = append(out, b64(v+"|"+q.Type))
		} else {
			j, _ := json.Marshal(map[string]string{"ulid": v, "ObjectType": q.Type})
			out = append(out, b64(string(j)))
		}
	}
	return out
}

// position that a storage-level token value denotes for this backend/API, or -1 (= only "error or tail").
// memory Read/ListStores/ReadAuthorizationModels: decimal offset, clamped into [0,len]. SQLite
// ListStores/ReadAuthorizationModels: first id >= v (ascending) / <= v (descending). Others: unknown.
func (w *world) position(q Query, v string, ref []string) int {
	if v == "" {
		return 0
	}
	if w.backend == "memory" && q.API != "ReadChanges" {
		n, err := strconv.Atoi(v)
		if err != nil {
			return -2 // must be rejected
		}
		return max(0, min(n, len(ref)))
	}
	if w.backend == "sqlite" && q.API == "ListStores" {
		for i, id := range ref {
			if id >= v {
				return i
			}
		}
		return len(ref)
	}
	if w.backend == "sqlite" && q.API == "ReadAuthorizationModels" {
		for i, id := range ref {
			if id <= v {
				return i
			}
		}
		return len(ref)
	}
	return -1
}

func (c *checker) tokenExperiments(w *world, q Query, full walk, mutate bool) {
	ref := full.items // order of the unforged page-size-1 walk (already verified against the expected list)
	// crafted decoded values
	vals := []string{"", "-1", "0", "abc", "99999999999999999999999999", "9223372036854775807", strconv.Itoa(len(ref)), strconv.Itoa(len(ref) + 1), strconv.Itoa(len(ref) + 7), "1"}
	for _, v := range vals {
		pos := w.position(q, v, ref)
		for wi, tok := range w.wrap(q, v) {
			if tok == "" {
				continue // the empty token is the first page, not a forged one
			}
			p := pos
			if (q.API == "Read" || q.API == "ReadChanges") && wi == 0 {
				p = -1 // bare value without the serializer envelope: only "error or tail"
			}
			if p == -2 {
				wk := w.follow(q, maxPage, tok, len(ref)/maxPage+3)
				c.r.Eval(1)
				if wk.panic != "" {
					c.violate(w, "forged-token-panic:"+panicClass(wk.panic), wk.panic, Case{Query: q, Kind: "crafted", Token: tok, Decoded: v})
				} else if wk.err == "" && !(len(wk.items) == 0) {
					c.violate(w, "forged-token-misread:non-numeric-offset-accepted", fmt.Sprintf("decoded %q", v), Case{Query: q, Kind: "crafted", Token: tok, Decoded: v, Got: wk.items})
				}
				continue
			}
			c.judgeForged(w, q, "crafted", tok, v, ref, p)
		}
	}
	if !mutate {
		return
	}
	// every single-character substitution (over the token alphabet and three characters outside it) and
	// every truncation of two issued tokens: the first and a middle one
	var issued []string
	for _, t := range full.tokens {
		if t != "" {
			issued = append(issued, t)
		}
	}
	if len(issued) == 0 {
		return
	}
	pick := []string{issued[0]}
	if len(issued) > 2 {
		pick = append(pick, issued[len(issued)/2])
	}
	for _, tok := range pick {
		for i := 0; i < len(tok); i++ {
			for _, ch := range b64alphabet + "=+!" {
				if byte(ch) == tok[i] {
					continue
				}
				m := tok[:i] + string(ch) + tok[i+1:]
				c.judgeForged(w, q, "mutated", m, "", ref, -1)
			}
			if i > 0 {
				c.judgeForged(w, q, "truncated", tok[:i], "", ref, -1)
			}
		}
	}
}

// ReadChanges: "A ReadChanges token is accepted only with the type filter it was issued for"
func (c *checker) typeReplay(w *world, q Query, full walk) {
	for _, tok := range full.tokens {
		if tok == "" {
			continue
		}
		for _, other := range []string{"", "doc", "group", "nosuch"} {
			if other == q.Type {
				continue
			}
			o := other
			p := w.call(q, maxPage, tok, &o)
			c.r.Eval(1)
			cs := Case{Query: q, PageSize: maxPage, Kind: "type-replay", Token: tok, OtherType: other, Got: p.items}
			if p.panic != "" {
				c.violate(w, "forged-token-panic:"+panicClass(p.panic), p.panic, cs)
			} else if p.err == "" {
				c.violate(w, "token-accepted-with-other-type-filter", fmt.Sprintf("token issued for type %q accepted with type %q", q.Type, other), cs)
			} else {
				c.r.Nontrivial(core.Hash("typereplay", w.backend, q.Type, other))
			}
		}
	}
}

// after the end signal a new change must be delivered by the final token (ReadChanges documentation)
func (c *checker) resume(w *world, q Query, full walk) {
	if len(full.tokens) == 0 {
		return
	}
	last := full.tokens[len(full.tokens)-1]
	nt := &openfgav1.TupleKey{Object: "doc:late", Relation: "r1", User: "user:late"}
	createMu.Lock()
	w.commit(q.Store, nil, []*openfgav1.TupleKey{nt})
	createMu.Unlock()
	time.Sleep(5 * time.Millisecond)
	wk := w.follow(q, maxPage, last, 3)
	c.r.Eval(1)
	want := []string{"TUPLE_OPERATION_WRITE doc:late#r1@user:late"}
	if wk.err != "" || wk.panic != "" || !seqEq(wk.items, want) {
		c.violate(w, "end-token-does-not-resume-with-new-changes", fmt.Sprintf("err=%q panic=%q", wk.err, wk.panic), Case{Query: q, Kind: "resume", Token: last, Got: wk.items, Want: want})
	}
}

func pageSizes(n int) []int {
	var out []int
	for p := 1; p <= n+2 && p <= maxPage; p++ {
		out = append(out, p)
	}
	return out
}

func (c *checker) runWorld(backend string, n int, mutate bool) {
	w := newWorld(backend, n)
	defer w.closeFn()
	for _, q := range queries() {
		var first walk
		okAll := true
		for _, p := range pageSizes(n) {
			wk, ok := c.paginate(w, q, p)
			if p == 1 {
				first = wk
			}
			okAll = okAll && ok
		}
		if wk, ok := c.paginate(w, q, 0); !ok { // page size not given: server default
			_ = wk
			okAll = false
		}
		if !okAll {
			continue // token experiments need a verified reference walk
		}
		c.tokenExperiments(w, q, first, mutate)
		if q.API == "ReadChanges" {
			c.typeReplay(w, q, first)
		}
	}
	// ListStores with an id filter (datastore interface): every non-empty subset of the stores in every order
	// (<= 3 ids; ascending / descending / rotated beyond), with and without an unknown id, fixed and changing
	// between page requests, every page size
	if n >= 2 && n <= 5 {
		for _, q := range idFilterQueries(n) {
			for _, p := range pageSizes(len(q.IDs)) {
				c.paginate(w, q, p)
			}
		}
	}
	// last (it changes the data): resuming after the end signal
	for st := 0; st < 2; st++ {
		q := Query{API: "ReadChanges", Store: st}
		wk := w.follow(q, maxPage, "", n/maxPage+3)
		if wk.err == "" && wk.panic == "" && wk.note == "" {
			c.resume(w, q, wk)
		}
	}
}

func idFilterQueries(n int) []Query {
	var out []Query
	var perms func(cur, rest []int, emit func([]int))
	perms = func(cur, rest []int, emit func([]int)) {
		if len(rest) == 0 {
			emit(append([]int{}, cur...))
			return
		}
		for i := range rest {
			nr := append(append([]int{}, rest[:i]...), rest[i+1:]...)
			perms(append(cur, rest[i]), nr, emit)
		}
	}
	for mask := 1; mask < 1<<n; mask++ {
		var sub []int
		for i := 0; i < n; i++ {
			if mask&(1<<i) != 0 {
				sub = append(sub, i)
			}
		}
		var orders [][]int
		if len(sub) <= 3 {
			perms(nil, sub, func(o []int) { orders = append(orders, o) })
		} else {
			desc := make([]int, len(sub))
			for i, v := range sub {
				desc[len(sub)-1-i] = v
			}
			rot := append(append([]int{}, sub[1:]...), sub[0])
			orders = [][]int{sub, desc, rot}
		}
		for _, o := range orders {
			for _, rotate := range []bool{false, true} {
				if rotate && len(o) < 2 {
					continue
				}
				out = append(out, Query{API: "ListStoresByIDs", IDs: o, Rotate: rotate})
			}
			if len(o) <= 2 {
				out = append(out, Query{API: "ListStoresByIDs", IDs: append([]int{-1}, o...)})
				out = append(out, Query{API: "ListStoresByIDs", IDs: append([]int{-2}, o...)}, Query{API: "ListStoresByIDs", IDs: append(append([]int{}, o...), -2), Rotate: len(o) > 1}) // the id of a DELETED store
				out = append(out, Query{API: "ListStoresByIDs", IDs: append(append([]int{}, o...), o[0])}) // an id listed twice
			}
		}
	}
	return out
}

func sizes(thorough bool) []int {
	var ns []int
	for n := 0; n <= 12; n++ {
		ns = append(ns, n)
	}
	if thorough {
		for n := 13; n <= 40; n++ {
			ns = append(ns, n)
		}
		ns = append(ns, 44, 48, 49, 50, 51, 52, 60, 64, 70, 75, 80, 90, 98, 99, 100, 101, 102, 110, 120)
	}
	return ns
}

func Run(o *core.Options) int {
	r := core.NewReport(o, "exploration",
		"For every data-set size n of the bound, both backends (memory, SQLite) and EVERY page size 1..min(n+2,100) plus 'not given', continuation tokens are followed through the public Server API for Read (no key and 7 tuple-key filters, two stores: write-only and with deletes), ReadChanges (no type / doc / group / unknown type), ListStores (no name / two names / unknown name; for n in 2..5 also with an id filter at the datastore interface: every subset of the stores in every order, with an unknown id, the id of a deleted store and a repeated id, the order fixed or changing between page requests) and ReadAuthorizationModels until the documented end signal; the concatenation is compared with the harness's own list. Then: every issued ReadChanges token is replayed with every other type filter; crafted decoded values {'', -1, 0, 1, abc, huge, MaxInt64, n, n+1, n+7} are sent bare and inside the backend's serializer envelope; for selected n every single-character substitution and every truncation of two issued tokens per query. A case = one complete token walk. Non-trivial = a walk over more than one page (distinct by backend, query, n, page size) or an accepted/rejected forged token class.")
	r.Assume(
		"bound: n in 0..12 (quick), additionally 13..40,44,48..52,60,64,70,75,80,90,98..102,110,120 (thorough); n = number of tuples = number of changelog entries = number of models = number of stores",
		"page sizes above 100 are rejected by API validation for all four APIs, so 'every page size' = 1..min(n+2,100) and the default (50)",
		"end signal as documented in the API descriptions: Read/ListStores/ReadAuthorizationModels 'The continuation token will be empty if there are no more ...'; ReadChanges 'If there are no changes after the provided continuation token, the same token will be returned', 'If the store never had any tuples added or removed, this token will be empty'",
		"order: changes in commit order (items of one Write call in any order), models newest first (reverse creation order), stores ascending by id; Read: no documented order => multiset",
		"a forged token must give an error or a tail of the data; for memory offset tokens the value k denotes position clamp(k,0,len) (as ListStores/ReadAuthorizationModels do), a non-numeric value must be rejected; for SQLite ListStores/ReadAuthorizationModels the value is an id bound",
		"sequential histories only in the part above: all writes of the process are serialised (ULID generation is monotonic inside one millisecond only without interleaving callers); concurrent writers are decided by the instrumented sub-harness memw on the memory backend (coverage.concurrent_writers)",
		"tuples are written through the storage interface (no model needed), models and stores through the API; reads start 5 ms after the last write because the SQL changelog horizon compares at millisecond granularity",
		"token serializers wired as cmd/run does: string serializer for memory, SQL JSON serializer for SQLite",
	)
	c := &checker{r: r, thorough: o.Thorough()}

	if o.Replay != "" {
		if isSub, code := e1.ReplaySub(o, "memw"); isSub {
			return code // a schedule recorded by the concurrent-writers sub-harness
		}
		var cs Case
		if err := core.LoadReplay(o.Replay, &cs); err != nil {
			fmt.Fprintln(os.Stderr, err)
			return 2
		}
		w := newWorld(cs.Backend, cs.N)
		defer w.closeFn()
		full, ok := c.paginate(w, cs.Query, 1)
		switch cs.Kind {
		case "":
			c.paginate(w, cs.Query, cs.PageSize)
		case "type-replay":
			c.typeReplay(w, cs.Query, full)
		case "resume":
			c.resume(w, cs.Query, full)
		default:
			if ok {
				if cs.Decoded != "" || cs.Kind == "crafted" {
					c.tokenExperiments(w, cs.Query, full, false)
				} else {
					c.tokenExperiments(w, cs.Query, full, true)
				}
			}
		}
		return r.Finish()
	}

	type job struct {
		backend string
		n       int
		mutate  bool
	}
	var jobs []job
	for _, n := range sizes(o.Thorough()) {
		for _, b := range []string{"memory", "sqlite"} {
			jobs = append(jobs, job{b, n, n == 5 || (o.Thorough() && (n == 12 || n == 33 || n == 50 || n == 101))})
		}
	}
	// largest first for balance
	sort.SliceStable(jobs, func(i, j int) bool { return jobs[i].n > jobs[j].n })
	r.Parallel(len(jobs), func(i int) { c.runWorld(jobs[i].backend, jobs[i].n, jobs[i].mutate) })
	r.Set("sizes", sizes(o.Thorough()))
	r.Set("queries", len(queries()))
	w := newWorld("memory", 3)
	q := Query{API: "ReadChanges", Store: 1}
	wk := w.follow(q, 2, "", 10)
	want, _ := w.expected(q)
	r.Sample(map[string]any{"backend": "memory", "n": 3, "query": q, "page_size": 2, "pages": wk.pages, "tokens": wk.tokens, "concatenation": wk.items, "expected": want})
	w.closeFn()
	w = newWorld("sqlite", 5)
	q = Query{API: "Read", Store: 1, HasKey: true, Object: "doc:d"}
	wk = w.follow(q, 1, "", 10)
	want, _ = w.expected(q)
	r.Sample(map[string]any{"backend": "sqlite", "n": 5, "query": q, "page_size": 1, "pages": wk.pages, "tokens": wk.tokens, "concatenation": wk.items, "expected_multiset": want})
	q = Query{API: "ReadAuthorizationModels"}
	wk = w.follow(q, 2, "", 10)
	want, _ = w.expected(q)
	r.Sample(map[string]any{"backend": "sqlite", "n": 5, "query": q, "page_size": 2, "pages": wk.pages, "tokens": wk.tokens, "concatenation": wk.items, "expected": want})
	w.closeFn()
	e1.MergeSub(o, r, "memw", "C14", "concurrent_writers", memwWhat)
	return r.Finish()
}

const memwWhat = "memory datastore with pkg/storage/memory instrumented (sync -> scheduler-visible locks) and a harness-owned clock (timestamppb.Now and time.Now return strictly increasing instants 1 ms apart, every read a scheduling point, so changelog ULIDs of different Write calls compare by the instant read): 2-3 writer threads of 1-2 Write calls (writes, deletes, mixed, conflicting on one tuple, two stores), optionally a reader thread walking ReadChanges with page size 1 while they run; every interleaving up to the preemption bound. After the threads finished the main thread walks ReadChanges with page sizes 1, 2, 50 from the start and resumes from every token issued. Oracle per schedule: each walk returns exactly one entry per item of a successful Write (none twice, none missing) and the same sequence for every page size; a resumed walk returns exactly the rest; entries of one call are contiguous, deletes before writes; calls ordered in real time (A returned before B was invoked) are ordered in the changelog; the concurrent reader never repeats an entry, returns a prefix of the final order and misses nothing committed before its last call; no deadlock or panic. No state-key pruning (the process-global ULID entropy source is not a scheduler object)"
