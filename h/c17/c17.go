// Package c17 decides C17 "Models are validated, immutable and resolved to the latest":
// explicit-state BFS over sequences of model writes (valid and invalid), model-less and explicit-id
// Checks and model reads on a real Server, both backends.
package c17

import (
	"context"
	"fmt"
	"github.com/openfga/openfga/internal/verifh/e1"
	"sort"
	"strings"
	"time"

	openfgav1 "github.com/openfga/api/proto/openfga/v1"
	parser "github.com/openfga/language/pkg/go/transformer"
	"google.golang.org/protobuf/proto"

	"github.com/openfga/openfga/internal/verifh/c16/hx"
	"github.com/openfga/openfga/internal/verifh/core"
	"github.com/openfga/openfga/pkg/server"
	"github.com/openfga/openfga/pkg/typesystem"
)

// ---- the model pool ---------------------------------------------------------------------------

// Fixed tuples (valid in every valid model): doc:1#editor@user:a, doc:1#editor@user:b, doc:1#blocked@user:b.
// Fixed requests: q1 = Check(doc:1#viewer@user:a), q2 = Check(doc:1#viewer@user:b).
// Expected answers are written down by hand from the model text (they are the reference).
type poolModel struct {
	Name   string
	Valid  bool
	Expect string // answers to q1,q2 as "TF" etc. (valid models only)
	Proto  *openfgav1.AuthorizationModel
}

func dsl(body string) *openfgav1.AuthorizationModel {
	return parser.MustTransformDSLToProto("model\n  schema 1.1\n" + body)
}

const common = `type user
type doc
  relations
    define editor: [user]
    define blocked: [user]
`

func pool() []poolModel {
	var out []poolModel
	add := func(name string, valid bool, expect string, m *openfgav1.AuthorizationModel) {
		m.Id = ""
		out = append(out, poolModel{name, valid, expect, m})
	}
	// valid: pairwise different answer vectors
	add("V1 viewer:[user]", true, "FF", dsl(common+"    define viewer: [user]\n"))
	add("V2 viewer:[user] or editor", true, "TT", dsl(common+"    define viewer: [user] or editor\n"))
	add("V3 viewer: editor but not blocked", true, "TF", dsl(common+"    define viewer: editor but not blocked\n"))
	add("V4 viewer: blocked", true, "FT", dsl(common+"    define viewer: blocked\ncondition cx(x: int) {\n  x < 10\n}\n"))
	// invalid by the documented model rules
	add("I1 undefined relation reference", false, "", dsl(common+"    define viewer: nosuch\n"))
	add("I2 tupleset relation with userset restriction", false, "", dsl(common+"    define parent: [doc#editor]\n    define viewer: editor from parent\n"))
	add("I3 relation without entry point", false, "", dsl(common+"    define viewer: viewer and editor\n"))
	add("I3b relations without entry point (loop)", false, "", dsl(common+"    define viewer: other\n    define other: viewer\n"))
	dup := dsl(common + "    define viewer: [user]\n")
	dup.TypeDefinitions = append(dup.TypeDefinitions, proto.Clone(dup.TypeDefinitions[1]).(*openfgav1.TypeDefinition))
	add("I4 duplicate type", false, "", dup)
	bad := dsl(common + "    define viewer: [user]\n")
	bad.SchemaVersion = "1.0"
	add("I5 schema version 1.0", false, "", bad)
	add("I6 condition uses undeclared parameter", false, "", dsl(common+"    define viewer: [user with cx]\ncondition cx(x: int) {\n  y < 10\n}\n"))
	add("I7 undefined condition in type restriction", false, "", dsl(common+"    define viewer: [user with nocond]\n"))
	add("I8 undefined type in type restriction", false, "", dsl(common+"    define viewer: [employee]\n"))
	add("I9 tupleset relation is a rewrite", false, "", dsl(common+"    define parent: editor\n    define viewer: editor from parent\n"))
	return out
}

// ---- events -----------------------------------------------------------------------------------

type event struct {
	Kind string // W, CL, CE, RM, RMS
	Arg  int    // W: pool index; CE/RM: ordinal (0-based) of the accepted model
}

func (w *world) evName(e event) string {
	switch e.Kind {
	case "W":
		return "WriteAuthorizationModel(" + w.pool[e.Arg].Name + ")"
	case "CL":
		return "Check(no model id)"
	case "CE":
		return fmt.Sprintf("Check(id of accepted model #%d)", e.Arg+1)
	case "RM":
		return fmt.Sprintf("ReadAuthorizationModel(id of accepted model #%d)", e.Arg+1)
	}
	return "ReadAuthorizationModels"
}

type world struct {
	r       *core.Report
	pool    []poolModel
	evs     []event
	tm      *hx.Pool
	tsValid []bool // typesystem.NewAndValidate accepted pool[i] when called directly
}

type caseT struct {
	Backend string   `json:"backend"`
	Config  string   `json:"config"`
	History []string `json:"history"`
	Hist    []int    `json:"hist"`
}

var tuples = []*openfgav1.TupleKey{
	{Object: "doc:1", Relation: "editor", User: "user:a"},
	{Object: "doc:1", Relation: "editor", User: "user:b"},
	{Object: "doc:1", Relation: "blocked", User: "user:b"},
}

var queries = []*openfgav1.CheckRequestTupleKey{
	{Object: "doc:1", Relation: "viewer", User: "user:a"},
	{Object: "doc:1", Relation: "viewer", User: "user:b"},
}

func serverOpts(config string) []server.OpenFGAServiceV1Option {
	if config == "allcaches" {
		return []server.OpenFGAServiceV1Option{
			server.WithCheckQueryCacheEnabled(true), server.WithCheckIteratorCacheEnabled(true),
			server.WithListObjectsIteratorCacheEnabled(true), server.WithSharedIteratorEnabled(true),
			server.WithCacheControllerEnabled(true),
		}
	}
	return nil // server defaults: typesystem cache and model cache are always on
}

type accepted struct {
	Pool int
	ID   string
}

type dev = hx.Dev

// run replays hist on a fresh server, checking every event against the reference; then observes everything.
func (w *world) run(backend, config string, hist []int) (key string, nontrivial bool, devs []dev) {
	ctx := context.Background()
	ds, rm := w.tm.Get(backend)
	defer rm()
	s := hx.NewServer(ds, serverOpts(config)...)
	defer s.Close()
	st, err := s.CreateStore(ctx, &openfgav1.CreateStoreRequest{Name: "verif"})
	if err != nil {
		panic(err)
	}
	store := st.GetId()
	if err := ds.Write(ctx, store, nil, tuples); err != nil {
		panic(err)
	}
	var acc []accepted
	// cache-relevant footprint of the history (part of the state: two histories with the same model list
	// but different warmed caches are different states)
	touched := map[string]bool{}
	api := int64(0)
	bad := func(sig, f string, a ...any) { devs = append(devs, dev{sig, fmt.Sprintf(f, a...)}) }

	check := func(id string) string {
		var sb strings.Builder
		for _, q := range queries {
			api++
			resp, err := s.Check(ctx, &openfgav1.CheckRequest{StoreId: store, AuthorizationModelId: id, TupleKey: q})
			switch {
			case err != nil:
				sb.WriteString("E")
			case resp.GetAllowed():
				sb.WriteString("T")
			default:
				sb.WriteString("F")
			}
		}
		return sb.String()
	}
	checkLatest := func(at string) string {
		got := check("")
		if len(acc) == 0 {
			if got != "EE" {
				bad("modelless-check-answers-without-any-model", "%s: Check without model id answered %s although the store has no model", at, got)
			}
			return got
		}
		last := acc[len(acc)-1]
		if want := w.pool[last.Pool].Expect; got != want {
			sig := "modelless-check-differs-from-latest-model"
			for i := len(acc) - 2; i >= 0; i-- {
				if w.pool[acc[i].Pool].Expect == got {
					sig = "modelless-check-uses-older-model"
				}
			}
			bad(sig, "%s: Check without model id = %s, latest model is #%d %s whose answers are %s", at, got, len(acc), w.pool[last.Pool].Name, want)
		}
		return got
	}
	checkExplicit := func(k int, at string) string {
		got := check(acc[k].ID)
		if want := w.pool[acc[k].Pool].Expect; got != want {
			bad("explicit-id-check-wrong-model", "%s: Check with id of accepted model #%d (%s) = %s, expected %s", at, k+1, w.pool[acc[k].Pool].Name, got, want)
		}
		return got
	}
	expectModel := func(a accepted) *openfgav1.AuthorizationModel {
		m := proto.Clone(w.pool[a.Pool].Proto).(*openfgav1.AuthorizationModel)
		m.Id = a.ID
		return m
	}
	readModel := func(k int, at string) {
		api++
		resp, err := s.ReadAuthorizationModel(ctx, &openfgav1.ReadAuthorizationModelRequest{StoreId: store, Id: acc[k].ID})
		if err != nil {
			bad("accepted-model-not-readable", "%s: ReadAuthorizationModel(#%d) failed: %v", at, k+1, err)
			return
		}
		if !proto.Equal(resp.GetAuthorizationModel(), expectModel(acc[k])) {
			bad("read-model-differs-from-written", "%s: ReadAuthorizationModel(#%d %s) is not proto.Equal to what was written: got %v", at, k+1, w.pool[acc[k].Pool].Name, resp.GetAuthorizationModel())
		}
	}
	readModels := func(at string) string {
		api++
		resp, err := s.ReadAuthorizationModels(ctx, &openfgav1.ReadAuthorizationModelsRequest{StoreId: store})
		if err != nil {
			bad("model-list-unreadable", "%s: ReadAuthorizationModels failed: %v", at, err)
			return "ERR"
		}
		got := resp.GetAuthorizationModels()
		byID := map[string]*openfgav1.AuthorizationModel{}
		for _, m := range got {
			byID[m.GetId()] = m
		}
		ok := len(got) == len(acc) && len(byID) == len(acc) && resp.GetContinuationToken() == ""
		for _, a := range acc {
			if m := byID[a.ID]; m == nil || !proto.Equal(m, expectModel(a)) {
				ok = false
			}
		}
		if !ok {
			var ids []string
			for _, m := range got {
				ids = append(ids, m.GetId())
			}
			bad("model-list-differs-from-accepted-writes", "%s: ReadAuthorizationModels returned %d models %v, accepted so far: %v", at, len(got), ids, acc)
		}
		return fmt.Sprint(len(got))
	}

	for i, ei := range hist {
		e := w.evs[ei]
		at := fmt.Sprintf("event %d %s", i, w.evName(e))
		switch e.Kind {
		case "W":
			pm := w.pool[e.Arg]
			in := proto.Clone(pm.Proto).(*openfgav1.AuthorizationModel)
			api++
			resp, err := s.WriteAuthorizationModel(ctx, &openfgav1.WriteAuthorizationModelRequest{StoreId: store, SchemaVersion: in.GetSchemaVersion(), TypeDefinitions: in.GetTypeDefinitions(), Conditions: in.GetConditions()})
			ok := err == nil
			if ok != w.tsValid[e.Arg] {
				bad("write-acceptance-differs-from-model-validation", "%s: accepted=%v but typesystem.NewAndValidate accepts=%v (err=%v)", at, ok, w.tsValid[e.Arg], err)
			}
			if ok && !pm.Valid {
				bad("invalid-model-accepted", "%s: accepted", at)
			}
			if !ok && pm.Valid {
				bad("valid-model-rejected", "%s: %v", at, err)
			}
			if ok {
				id := resp.GetAuthorizationModelId()
				for _, a := range acc {
					if !(id > a.ID) {
						bad("model-id-not-greater-than-earlier", "%s: new id %s is not greater than earlier id %s", at, id, a.ID)
					}
				}
				acc = append(acc, accepted{e.Arg, id})
			}
		case "CL":
			checkLatest(at)
			touched[fmt.Sprintf("CL@%d", len(acc))] = true
		case "CE":
			if e.Arg < len(acc) {
				checkExplicit(e.Arg, at)
				touched[fmt.Sprintf("CE%d", e.Arg)] = true
			}
		case "RM":
			if e.Arg < len(acc) {
				readModel(e.Arg, at)
				touched[fmt.Sprintf("RM%d", e.Arg)] = true
			}
		case "RMS":
			readModels(at)
		}
	}
	// observation of the whole state
	at := "final observation"
	n := readModels(at)
	for k := range acc {
		readModel(k, at)
	}
	// model-less first (cold for the latest model unless the history warmed it), then every explicit id, then model-less again
	l1 := checkLatest(at)
	var ex []string
	for k := range acc {
		ex = append(ex, checkExplicit(k, at))
	}
	l2 := checkLatest(at + " (second model-less Check)")
	if len(acc) > 0 && (l1 != ex[len(ex)-1] || l2 != l1) {
		bad("modelless-check-differs-from-explicit-latest", "%s: model-less Check %s/%s vs Check with the latest id %s", at, l1, l2, ex[len(ex)-1])
	}
	var seq []string
	for _, a := range acc {
		seq = append(seq, fmt.Sprint(a.Pool))
	}
	var tk []string
	for k := range touched {
		tk = append(tk, k)
	}
	sort.Strings(tk)
	key = fmt.Sprintf("models=%s|n=%s|latest=%s|explicit=%s|warmed=%s", strings.Join(seq, ","), n, l1, strings.Join(ex, ","), strings.Join(tk, ","))
	w.r.Count("api_calls", api)
	return key, len(acc) > 0, devs
}

func (w *world) names(hist []int) []string {
	var out []string
	for _, e := range hist {
		out = append(out, w.evName(w.evs[e]))
	}
	return out
}

func (w *world) report(backend, config string, hist []int, devs []dev) {
	for _, d := range devs {
		w.r.Violate(d.Sig, fmt.Sprintf("[%s/%s] history %v: %s", backend, config, w.names(hist), d.Desc),
			caseT{Backend: backend, Config: config, History: w.names(hist), Hist: hist})
	}
}

// applicable prunes explicit-id events whose model does not exist yet (they would be no-ops).
func (w *world) nAccepted(hist []int) int {
	n := 0
	for _, ei := range hist {
		if e := w.evs[ei]; e.Kind == "W" && w.pool[e.Arg].Valid {
			n++
		}
	}
	return n
}

// stalenessShape: the history ends with a model-less Check, and before it there is an accepted model write
// that itself follows an earlier model-less Check (the cache-staleness clause of the statement).
func (w *world) stalenessShape(h []int) bool {
	if len(h) == 0 || w.evs[h[len(h)-1]].Kind != "CL" {
		return false
	}
	ph := 0
	for _, ei := range h[:len(h)-1] {
		e := w.evs[ei]
		switch {
		case ph == 0 && e.Kind == "CL":
			ph = 1
		case ph == 1 && e.Kind == "W" && w.pool[e.Arg].Valid:
			ph = 2
		}
	}
	return ph == 2
}

func Run(o *core.Options) int {
	r := core.NewReport(o, "model_checking",
		"BFS over sequences of events on one store: WriteAuthorizationModel(m) for m in 4 valid models with pairwise different answers to two fixed Checks on three fixed tuples and 10 invalid mutants; Check without model id; Check with the id of the k-th accepted model; ReadAuthorizationModel(k-th id); ReadAuthorizationModels. successor = replay of the shortest history on a fresh Server + one event; every event result is compared with the reference (list of accepted models, hand-written expected answers) while replaying, then the whole state is observed (model list, every model by id, model-less and explicit-id Checks). States are deduplicated by (accepted model sequence, observed answers, set of cache-warming requests already made), so 'model-less Check, newer model, model-less Check' sequences are kept apart from cold ones. non-trivial = at least one model accepted; distinct by (backend, config, history)")
	r.Assume("acceptance oracle: typesystem.NewAndValidate called directly on the same proto (the statement ties acceptance to model validation) plus: every listed mutant must be rejected and every listed valid model accepted",
		"expected Check answers per valid model are written by hand in the harness",
		"fixed tuples are installed through the datastore interface (the store has no model yet)",
		"configs: server defaults (typesystem + model caches) and all query/iterator caches + cache controller enabled; backends memory and SQLite",
		"explicit-id events for a model that does not exist yet are pruned",
		"memory: fresh datastore per replay; SQLite: fresh Server and fresh store per replay on a per-worker migrated database (fsync disabled)",
		"a deviation is a verdict only if it shows in all 6 executions of the same history; otherwise it is listed under anomalies (ULID order of two writes inside one millisecond depends on what other goroutines of the process do)")
	w := &world{r: r, pool: pool()}
	for _, pm := range w.pool {
		m := proto.Clone(pm.Proto).(*openfgav1.AuthorizationModel)
		m.Id = hx.FixedULID(1, 1)
		_, err := typesystem.NewAndValidate(context.Background(), m)
		w.tsValid = append(w.tsValid, err == nil)
	}
	depth, maxK := 4, 3
	if o.Thorough() {
		depth, maxK = 5, 4
	}
	for i := range w.pool {
		w.evs = append(w.evs, event{"W", i})
	}
	w.evs = append(w.evs, event{"CL", 0})
	for k := 0; k < maxK; k++ {
		w.evs = append(w.evs, event{"CE", k})
	}
	for k := 0; k < maxK; k++ {
		w.evs = append(w.evs, event{"RM", k})
	}
	w.evs = append(w.evs, event{"RMS", 0})
	w.tm = hx.NewPool("c17")
	defer w.tm.Close()

	if o.Replay != "" {
		var c caseT
		if err := core.LoadReplay(o.Replay, &c); err != nil {
			fmt.Println("replay:", err)
			return 2
		}
		for i := 0; i < 5; i++ {
			_, _, devs := w.run(c.Backend, c.Config, c.Hist)
			r.Eval(1)
			fmt.Printf("replay %d: %v deviations=%v\n", i, w.names(c.Hist), devs)
			w.report(c.Backend, c.Config, c.Hist, devs)
		}
		return r.Finish()
	}

	r.Set("depth", depth)
	r.Set("events", len(w.evs))
	var names []string
	for _, pm := range w.pool {
		names = append(names, pm.Name)
	}
	r.Set("model_pool", names)
	per := map[string]any{}
	type cfg struct{ backend, config string }
	cfgs := []cfg{{hx.Memory, "default"}, {hx.Memory, "allcaches"}, {hx.SQLite, "default"}}
	if o.Thorough() {
		cfgs = append(cfgs, cfg{hx.SQLite, "allcaches"})
	}
	for _, c := range cfgs {
		initKey, _, devs := w.run(c.backend, c.config, nil)
		w.report(c.backend, c.config, nil, devs)
		b := &hx.BFS{R: r, Events: len(w.evs), Depth: depth, Tag: c.backend + "/" + c.config, InitKey: initKey}
		b.Prune = func(hist []int, ev int) bool {
			e := w.evs[ev]
			return (e.Kind == "CE" || e.Kind == "RM") && e.Arg >= w.nAccepted(hist)
		}
		b.Exec = func(hist []int, ev int) hx.Step {
			h := append(append([]int{}, hist...), ev)
			if w.stalenessShape(h) {
				r.Count("transitions_ending_modelless_check_after_newer_model_after_modelless_check", 1)
			}
			return hx.Decide(func() hx.Outcome {
				key, nt, devs := w.run(c.backend, c.config, h)
				return hx.Outcome{Key: key, Nontrivial: nt, Devs: devs}
			}, func(d hx.Dev) { w.report(c.backend, c.config, h, []dev{d}) },
				func(sig string, seen int, d hx.Dev) {
					r.Count("anomaly/"+sig, 1)
					r.Anomaly(map[string]any{"backend": c.backend, "config": c.config, "history": w.names(h), "signature": sig, "seen": fmt.Sprintf("%d/6", seen), "desc": d.Desc})
				})
		}
		nsamp, nnew := 0, 0
		b.OnNew = func(n hx.Node) {
			if len(n.Hist) != depth {
				return
			}
			nnew++
			if nsamp < 2 && nnew%211 == 1 {
				nsamp++
				r.Sample(map[string]any{"backend": c.backend, "config": c.config, "history": w.names(n.Hist), "state": n.Key})
			}
		}
		t0 := time.Now()
		b.Run()
		r.Set("wall_s/"+c.backend+"/"+c.config, time.Since(t0).Seconds())
		r.States += b.States
		r.Transitions += b.Transitions
		r.Traces += b.Transitions
		per[c.backend+"/"+c.config] = map[string]any{"states": b.States, "transitions": b.Transitions, "states_per_depth": b.PerDepth}
	}
	r.Set("per_backend_config", per)
	e1.MergeSub(o, r, "tsres", "C17", "resolver_interleavings", "typesystem.MemoizedTypesystemResolverFunc over storagewrappers.NewCachedOpenFGADatastore over a memory datastore with scheduling points around its model operations (golang.org/x/sync/singleflight instrumented): 2-4 threads of resolve(store, latest|explicit id) and model writes on two stores that share model ids, every interleaving up to the preemption bound; every answer must be one a linearizable model store could give (no model of another store, the latest model right after a write returned), also for sequential resolves after all threads finished (cache poisoning)")
	return r.Finish()
}
