package c31

// List-structure sweep. The history BFS of c31.go draws its lists from a handful of prototypes; what a single
// list may look like is a dimension of its own: several assertions for one tuple key (the same check asserted
// under different contextual tuples / request contexts, with either expectation), exact duplicates, and every
// order of those. Here every sequence over an element-level assertion alphabet is written through
// Server.WriteAssertions and read back through Server.ReadAssertions; the oracle is the sequence itself.

import (
	"context"
	"fmt"
	"sort"
	"strings"
	"sync"

	openfgav1 "github.com/openfga/api/proto/openfga/v1"
	"google.golang.org/protobuf/proto"

	"github.com/openfga/openfga/internal/verifh/c16/hx"
	"github.com/openfga/openfga/internal/verifh/core"
)

// item: one element of the assertion alphabet. Invalid != "" : the API must reject any list containing it.
type item struct {
	Name    string
	Invalid string
	Reduced bool // member of the small alphabet used for the longest lists
	A       *openfgav1.Assertion
}

func alphabet() []item {
	cond := func(x int) *openfgav1.RelationshipCondition {
		return &openfgav1.RelationshipCondition{Name: "cx", Context: mustStruct(map[string]any{"x": x})}
	}
	t1 := &openfgav1.TupleKey{Object: "doc:1", Relation: "viewer", User: "user:a", Condition: cond(5)}
	t1b := &openfgav1.TupleKey{Object: "doc:1", Relation: "viewer", User: "user:a", Condition: cond(7)} // same key as t1, other condition context
	t2 := &openfgav1.TupleKey{Object: "doc:2", Relation: "editor", User: "user:b"}
	type payload struct {
		name    string
		reduced bool
		ct      []*openfgav1.TupleKey
		ctx     map[string]any
	}
	payloads := []payload{
		{name: "plain", reduced: true},
		{name: "ct[t1]", reduced: true, ct: []*openfgav1.TupleKey{t1}},
		{name: "ct[t2]", ct: []*openfgav1.TupleKey{t2}},
		{name: "ct[t1,t2]", ct: []*openfgav1.TupleKey{t1, t2}},
		{name: "ct[t2,t1]", ct: []*openfgav1.TupleKey{t2, t1}},
		{name: "ct[t1,t1]", ct: []*openfgav1.TupleKey{t1, t1}},
		{name: "ct[t1,t1b]", ct: []*openfgav1.TupleKey{t1, t1b}},
		{name: "ctx{x:3}", reduced: true, ctx: map[string]any{"x": 3}},
		{name: "ctx{x:20}", ctx: map[string]any{"x": 20}},
		{name: "ctx{}", ctx: map[string]any{}},
		{name: "ct[t1]+ctx{x:3}", ct: []*openfgav1.TupleKey{t1}, ctx: map[string]any{"x": 3}},
	}
	keys := []struct {
		name string
		k    *openfgav1.AssertionTupleKey
	}{{"K1", atk("doc:1", "viewer", "user:a")}, {"K2", atk("doc:2", "editor", "user:b")}}
	var out []item
	for _, k := range keys {
		for _, exp := range []bool{true, false} {
			for _, p := range payloads {
				a := &openfgav1.Assertion{TupleKey: proto.Clone(k.k).(*openfgav1.AssertionTupleKey), Expectation: exp}
				for _, t := range p.ct {
					a.ContextualTuples = append(a.ContextualTuples, proto.Clone(t).(*openfgav1.TupleKey))
				}
				if p.ctx != nil {
					a.Context = mustStruct(p.ctx)
				}
				e := "F"
				if exp {
					e = "T"
				}
				out = append(out, item{Name: k.name + "/" + e + "/" + p.name, Reduced: p.reduced, A: a})
			}
		}
	}
	// elements that make the API reject the whole list (three different rejection points of the command)
	out = append(out,
		item{Name: "INVALID-relation", Invalid: "unknown relation in the assertion's tuple key",
			A: &openfgav1.Assertion{TupleKey: atk("doc:1", "nosuchrel", "user:a"), Expectation: true}},
		item{Name: "INVALID-contextual-tuple", Invalid: "unknown relation in a contextual tuple",
			A: &openfgav1.Assertion{TupleKey: atk("doc:1", "viewer", "user:a"), Expectation: true,
				ContextualTuples: []*openfgav1.TupleKey{proto.Clone(t2).(*openfgav1.TupleKey), {Object: "doc:1", Relation: "nosuchrel", User: "user:a"}}}},
		item{Name: "INVALID-oversize", Invalid: "list larger than the 64 kB limit",
			A: &openfgav1.Assertion{TupleKey: atk("doc:1", "viewer", "user:a"), Expectation: true,
				Context: mustStruct(map[string]any{"s": strings.Repeat("a", 70000)})}},
	)
	return out
}

func seqs(alpha []int, n int, fn func([]int)) {
	cur := make([]int, n)
	var rec func(i int)
	rec = func(i int) {
		if i == n {
			fn(append([]int{}, cur...))
			return
		}
		for _, a := range alpha {
			cur[i] = a
			rec(i + 1)
		}
	}
	rec(0)
}

// sweepLists: every sequence of length <= 2 (thorough: 3) over the full valid alphabet, every sequence of length
// 3 (thorough: 4) over the reduced alphabet, and the lists with one rejected element at every position of a
// list of length <= 3. Returned in a fixed stride order so that neighbouring lists (which overwrite each other in
// a chunk) differ in length and content.
func (w *world) sweepLists(thorough bool) (lists [][]int, stats map[string]any) {
	var full, reduced, invalid []int
	for i, it := range w.items {
		switch {
		case it.Invalid != "":
			invalid = append(invalid, i)
		default:
			full = append(full, i)
			if it.Reduced {
				reduced = append(reduced, i)
			}
		}
	}
	maxFull, lenReduced := 2, 3
	if thorough {
		maxFull, lenReduced = 3, 4
	}
	add := func(l []int) { lists = append(lists, l) }
	for n := 0; n <= maxFull; n++ {
		seqs(full, n, add)
	}
	seqs(reduced, lenReduced, add)
	nrej := 0
	fill := []int{full[0], full[len(full)-1], full[len(full)/2]}
	for _, v := range invalid {
		for n := 1; n <= 3; n++ {
			for p := 0; p < n; p++ {
				l := make([]int, n)
				for i := range l {
					l[i] = fill[i]
				}
				l[p] = v
				add(l)
				nrej++
			}
		}
	}
	// coverage of the dimension, measured on what is actually enumerated
	var repKey, repKeyExpDiffPayload, exactDup, perLen = 0, 0, 0, map[int]int{}
	for _, l := range lists {
		perLen[len(l)]++
		rk, rkp, dup := false, false, false
		for i := range l {
			for j := i + 1; j < len(l); j++ {
				a, b := w.items[l[i]].A, w.items[l[j]].A
				if !proto.Equal(a.GetTupleKey(), b.GetTupleKey()) {
					continue
				}
				rk = true
				if l[i] == l[j] {
					dup = true
				} else if a.GetExpectation() == b.GetExpectation() {
					rkp = true
				}
			}
		}
		if rk {
			repKey++
		}
		if rkp {
			repKeyExpDiffPayload++
		}
		if dup {
			exactDup++
		}
	}
	lens := map[string]int{}
	for k, v := range perLen {
		lens[fmt.Sprint(k)] = v
	}
	stats = map[string]any{
		"alphabet_valid": len(full), "alphabet_reduced": len(reduced), "alphabet_rejected": len(invalid),
		"max_len_full_alphabet": maxFull, "len_reduced_alphabet": lenReduced,
		"lists": len(lists), "lists_per_length": lens, "rejected_lists": nrej,
		"lists_repeating_a_tuple_key":                                    repKey,
		"lists_repeating_key_and_expectation_with_different_ctx_payload": repKeyExpDiffPayload,
		"lists_with_exact_duplicates":                                    exactDup,
	}
	// stride permutation
	n := len(lists)
	stride := 7919
	for gcd(stride, n) != 1 {
		stride++
	}
	out := make([][]int, n)
	for i := range out {
		out[i] = lists[(i*stride)%n]
	}
	return out, stats
}

func gcd(a, b int) int {
	for b != 0 {
		a, b = b, a%b
	}
	return a
}

func (w *world) build(l []int) []*openfgav1.Assertion {
	out := []*openfgav1.Assertion{}
	for _, i := range l {
		out = append(out, w.items[i].A)
	}
	return out
}

func (w *world) itemNames(l []int) []string {
	out := []string{}
	for _, i := range l {
		out = append(out, w.items[i].Name)
	}
	return out
}

func marshalKey(a proto.Message) string {
	b, _ := proto.MarshalOptions{Deterministic: true}.Marshal(a)
	return string(b)
}

func isSubseq(small, big []*openfgav1.Assertion) bool {
	i := 0
	for _, b := range big {
		if i < len(small) && proto.Equal(small[i], b) {
			i++
		}
	}
	return i == len(small)
}

// diffSig names HOW the list read back differs from the list written (mechanism class of the deviation).
func diffSig(got, want []*openfgav1.Assertion) string {
	switch {
	case len(got) < len(want) && isSubseq(got, want):
		return "elements-dropped"
	case len(got) > len(want) && isSubseq(want, got):
		return "elements-added"
	case len(got) != len(want):
		return "read-differs-from-last-write"
	}
	var g, wk []string
	for i := range got {
		g = append(g, marshalKey(got[i]))
		wk = append(wk, marshalKey(want[i]))
	}
	sort.Strings(g)
	sort.Strings(wk)
	if strings.Join(g, "\x00") == strings.Join(wk, "\x00") {
		return "elements-reordered"
	}
	fields := map[string]bool{}
	for i := range got {
		if !proto.Equal(got[i].GetTupleKey(), want[i].GetTupleKey()) {
			fields["tuple_key"] = true
		}
		if got[i].GetExpectation() != want[i].GetExpectation() {
			fields["expectation"] = true
		}
		gc, wc := got[i].GetContextualTuples(), want[i].GetContextualTuples()
		same := len(gc) == len(wc)
		for k := 0; same && k < len(gc); k++ {
			same = proto.Equal(gc[k], wc[k])
		}
		if !same {
			fields["contextual_tuples"] = true
		}
		if !proto.Equal(got[i].GetContext(), want[i].GetContext()) {
			fields["context"] = true
		}
	}
	var fs []string
	for f := range fields {
		fs = append(fs, f)
	}
	sort.Strings(fs)
	return "element-altered:" + strings.Join(fs, "+")
}

func trunc(s string) string {
	if len(s) > 700 {
		return s[:700] + "...(" + fmt.Sprint(len(s)) + " chars)"
	}
	return s
}

type sweepDev struct {
	At int
	hx.Dev
}

// runChunk: on one fresh Server (two stores x two models) list j of the chunk is written to pair j%4; after every
// write the written pair is read and compared with the list (or, for a rejected list, with what the pair held
// before), and the pair written just before is re-read (must be unaffected); at the end all four pairs are read.
func (w *world) runChunk(backend string, chunk [][]int) (devs []sweepDev, api int64) {
	ctx := context.Background()
	s, stores, done := w.setup(backend)
	defer done()
	var cur [4][]*openfgav1.Assertion // what each pair must hold (nil: never written)
	pairName := func(p int) string { return storeNames[p/2] + "/" + modelNames[p%2] }
	add := func(j int, sig, desc string) { devs = append(devs, sweepDev{j, hx.Dev{Sig: sig, Desc: desc}}) }
	// check reads pair p; a mismatch is reported with mkSig's signature and the observation becomes the new
	// baseline (one deviation is reported once, at the event that caused it)
	check := func(j, p int, at string, mkSig func(got, want []*openfgav1.Assertion) string) {
		api++
		resp, err := s.ReadAssertions(ctx, &openfgav1.ReadAssertionsRequest{StoreId: stores[p/2], AuthorizationModelId: modelIDs[p%2]})
		if err != nil {
			add(j, "read-fails", fmt.Sprintf("%s: ReadAssertions(%s) failed: %v", at, pairName(p), err))
			return
		}
		if resp.GetAuthorizationModelId() != modelIDs[p%2] {
			add(j, "read-reports-other-model-id", fmt.Sprintf("%s: ReadAssertions(%s) answered for model %s", at, pairName(p), resp.GetAuthorizationModelId()))
		}
		got := resp.GetAssertions()
		if !sameList(got, cur[p]) {
			add(j, mkSig(got, cur[p]), fmt.Sprintf("%s: ReadAssertions(%s) = %d assertions %s, must hold %d assertions %s", at, pairName(p), len(got), trunc(listStr(got)), len(cur[p]), trunc(listStr(cur[p]))))
			cur[p] = got
		}
	}
	other := func(got, want []*openfgav1.Assertion) string { return "write-changed-other-pair" }
	for j, l := range chunk {
		p := j % 4
		at := fmt.Sprintf("list %d WriteAssertions(%s, %v)", j, pairName(p), w.itemNames(l))
		invalid := ""
		var in []*openfgav1.Assertion
		for _, i := range l {
			if w.items[i].Invalid != "" {
				invalid = w.items[i].Invalid
			}
			in = append(in, proto.Clone(w.items[i].A).(*openfgav1.Assertion))
		}
		api++
		_, err := s.WriteAssertions(ctx, &openfgav1.WriteAssertionsRequest{StoreId: stores[p/2], AuthorizationModelId: modelIDs[p%2], Assertions: in})
		own := diffSig
		switch {
		case invalid != "" && err == nil:
			add(j, "invalid-list-accepted", fmt.Sprintf("%s: accepted although: %s", at, invalid))
			cur[p] = w.build(l)
		case invalid != "":
			own = func(got, want []*openfgav1.Assertion) string { return "rejected-write-changed-stored-list" }
		case err != nil:
			add(j, "valid-list-rejected", fmt.Sprintf("%s: %v", at, err))
			own = func(got, want []*openfgav1.Assertion) string { return "rejected-write-changed-stored-list" }
		default:
			cur[p] = w.build(l)
		}
		check(j, p, at, own)
		if j > 0 {
			check(j, (j-1)%4, at, other)
		}
	}
	for p := 0; p < 4 && len(chunk) > 0; p++ {
		check(len(chunk)-1, p, fmt.Sprintf("final observation after list %d", len(chunk)-1), other)
	}
	return devs, api
}

const chunkLen = 16

// sweep runs all lists on the backend in chunks; a deviation is a verdict when it shows again, at the same list
// with the same signature, in 5 re-executions of the chunk prefix on fresh Servers (first few per signature;
// the rest is counted).
func (w *world) sweep(backend string, lists [][]int) {
	r := w.r
	var chunks [][][]int
	for i := 0; i < len(lists); i += chunkLen {
		chunks = append(chunks, lists[i:min(i+chunkLen, len(lists))])
	}
	var mu sync.Mutex
	confirmed := map[string]int{}
	attempts := 0
	sampled := false
	r.Parallel(len(chunks), func(ci int) {
		chunk := chunks[ci]
		devs, api := w.runChunk(backend, chunk)
		r.Eval(int64(len(chunk)))
		r.Count("api_calls", api)
		r.Count("sweep_lists_executed_"+backend, int64(len(chunk)))
		for _, l := range chunk {
			if len(l) > 0 {
				r.Nontrivial(core.Hash("sweep", backend, fmt.Sprint(l)))
			}
		}
		if ci == len(chunks)/2 && len(devs) == 0 {
			mu.Lock()
			if !sampled {
				sampled = true
				var names [][]string
				for _, l := range chunk[:4] {
					names = append(names, w.itemNames(l))
				}
				r.Sample(map[string]any{"backend": backend, "sweep_chunk_first_lists(each written to the next pair, read back element-wise equal)": names})
			}
			mu.Unlock()
		}
		for _, d := range devs {
			sig := backend + "/lists/" + d.Sig
			mu.Lock()
			skip := confirmed[sig] >= 3 || attempts >= 48
			if !skip {
				attempts++
			}
			mu.Unlock()
			if skip {
				r.Count("sweep_deviations_beyond_reconfirmation_cap", 1)
				continue
			}
			prefix := chunk[:d.At+1]
			seen := 0
			for k := 0; k < 5; k++ {
				d2, api2 := w.runChunk(backend, prefix)
				r.Count("api_calls", api2)
				for _, x := range d2 {
					if x.At == d.At && x.Sig == d.Sig {
						seen++
						break
					}
				}
			}
			var names [][]string
			for _, l := range prefix {
				names = append(names, w.itemNames(l))
			}
			if seen == 5 {
				mu.Lock()
				confirmed[sig]++
				mu.Unlock()
				r.Violate(sig, fmt.Sprintf("[%s] list sweep, lists written in turn to pairs A/m1,A/m2,B/m1,B/m2,...: %s", backend, d.Desc),
					caseT{Backend: backend, Lists: prefix, ListNames: names})
			} else {
				r.Anomaly(map[string]any{"backend": backend, "lists": names, "signature": sig, "seen": fmt.Sprintf("%d/6", seen+1), "desc": d.Desc})
			}
		}
	})
	if r.Expired() {
		r.NotExhaustive("list sweep on " + backend + " cut by the deadline")
	}
}

// replaySweep re-runs one recorded chunk prefix.
func (w *world) replaySweep(c caseT) {
	for i := 0; i < 5; i++ {
		devs, _ := w.runChunk(c.Backend, c.Lists)
		w.r.Eval(1)
		fmt.Printf("replay %d: lists %v deviations=%v\n", i, c.ListNames, devs)
		for _, d := range devs {
			if d.At == len(c.Lists)-1 {
				w.r.Violate(c.Backend+"/lists/"+d.Sig, fmt.Sprintf("[%s] list sweep: %s", c.Backend, d.Desc), c)
			}
		}
	}
}
