// Package c31 decides C31 "Assertions are stored and returned verbatim per store and model":
// explicit-state BFS over WriteAssertions/ReadAssertions histories on a real Server, both backends.
package c31

import (
	"context"
	"fmt"
	"strings"
	"time"

	openfgav1 "github.com/openfga/api/proto/openfga/v1"
	parser "github.com/openfga/language/pkg/go/transformer"
	"google.golang.org/protobuf/proto"
	"google.golang.org/protobuf/types/known/structpb"

	"github.com/openfga/openfga/internal/verifh/c16/hx"
	"github.com/openfga/openfga/internal/verifh/core"
	"github.com/openfga/openfga/pkg/server"
)

const modelDSL = `model
  schema 1.1
type user
type doc
  relations
    define viewer: [user, user with cx]
    define editor: [user]
condition cx(x: int) {
  x < 10
}`

var (
	storeNames = []string{"A", "B"}
	modelNames = []string{"m1", "m2"}
	// the two stores deliberately share both model ids: the storage key must contain the store.
	modelIDs = []string{hx.FixedULID(1000, 1), hx.FixedULID(1000, 2)}
)

type alist struct {
	Name    string
	Invalid bool
	L       []*openfgav1.Assertion
}

func atk(o, r, u string) *openfgav1.AssertionTupleKey {
	return &openfgav1.AssertionTupleKey{Object: o, Relation: r, User: u}
}

func mustStruct(m map[string]any) *structpb.Struct {
	s, err := structpb.NewStruct(m)
	if err != nil {
		panic(err)
	}
	return s
}

func lists() []alist {
	ctxTuples := []*openfgav1.TupleKey{
		{Object: "doc:1", Relation: "viewer", User: "user:a", Condition: &openfgav1.RelationshipCondition{Name: "cx", Context: mustStruct(map[string]any{"x": 5})}},
		{Object: "doc:2", Relation: "editor", User: "user:b"},
	}
	rich := mustStruct(map[string]any{"x": 3, "s": "str", "f": 1.5, "b": true, "n": nil, "nested": map[string]any{"l": []any{1, "a", nil, false, map[string]any{"k": "v"}}}})
	return []alist{
		{Name: "empty", L: []*openfgav1.Assertion{}},
		{Name: "one", L: []*openfgav1.Assertion{{TupleKey: atk("doc:1", "viewer", "user:a"), Expectation: true}}},
		{Name: "two", L: []*openfgav1.Assertion{
			{TupleKey: atk("doc:1", "viewer", "user:a"), Expectation: false},
			{TupleKey: atk("doc:2", "editor", "user:b"), Expectation: true}}},
		// one tuple key asserted three times with the same expectation: with contextual tuples, without, and an
		// exact duplicate of the first (the element-level alphabet of list shapes is swept in sweep.go)
		{Name: "ctxtuples", L: []*openfgav1.Assertion{
			{TupleKey: atk("doc:1", "viewer", "user:a"), Expectation: true, ContextualTuples: ctxTuples},
			{TupleKey: atk("doc:1", "viewer", "user:a"), Expectation: true},
			{TupleKey: atk("doc:1", "viewer", "user:a"), Expectation: true, ContextualTuples: ctxTuples}}},
		{Name: "context", L: []*openfgav1.Assertion{
			{TupleKey: atk("doc:1", "viewer", "user:a"), Expectation: true, Context: rich},
			{TupleKey: atk("doc:2", "editor", "user:b"), Expectation: false, ContextualTuples: ctxTuples[1:], Context: mustStruct(map[string]any{"x": 20})}}},
		// rejected by the API (unknown relation): must leave what is stored untouched
		{Name: "invalid", Invalid: true, L: []*openfgav1.Assertion{{TupleKey: atk("doc:1", "nosuchrel", "user:a"), Expectation: true}}},
	}
}

type event struct {
	Write        bool
	Store, Model int
	List         int
}

func (e event) String(ls []alist) string {
	if e.Write {
		return fmt.Sprintf("WriteAssertions(%s,%s,%s)", storeNames[e.Store], modelNames[e.Model], ls[e.List].Name)
	}
	return fmt.Sprintf("ReadAssertions(%s,%s)", storeNames[e.Store], modelNames[e.Model])
}

func events(ls []alist) []event {
	var out []event
	for s := range storeNames {
		for m := range modelNames {
			for l := range ls {
				out = append(out, event{true, s, m, l})
			}
		}
	}
	for s := range storeNames {
		for m := range modelNames {
			out = append(out, event{false, s, m, 0})
		}
	}
	return out
}

// reference: (store, model) -> index of the last list written, -1 = never written.
type refState [2][2]int

func newRef() refState { return refState{{-1, -1}, {-1, -1}} }

func (r refState) expected(ls []alist, s, m int) []*openfgav1.Assertion {
	if r[s][m] < 0 {
		return nil
	}
	return ls[r[s][m]].L
}

func sameList(got, want []*openfgav1.Assertion) bool {
	if len(got) != len(want) {
		return false
	}
	for i := range got {
		if !proto.Equal(got[i], want[i]) {
			return false
		}
	}
	return true
}

func listStr(l []*openfgav1.Assertion) string {
	var s []string
	for _, a := range l {
		b, _ := proto.MarshalOptions{Deterministic: true}.Marshal(a)
		s = append(s, fmt.Sprintf("%x", b))
	}
	return "[" + strings.Join(s, ",") + "]"
}

type caseT struct {
	Backend string   `json:"backend"`
	History []string `json:"history"`
	Hist    []int    `json:"hist"`
	// list-structure sweep (sweep.go): the lists (as indices into the assertion alphabet) written one after the
	// other, list j to pair j%4, on one fresh Server; the deviation is at the last one.
	Lists     [][]int    `json:"lists,omitempty"`
	ListNames [][]string `json:"list_names,omitempty"`
}

type world struct {
	r   *core.Report
	ls  []alist
	evs []event
	tm  *hx.Pool
	// element-level assertion alphabet of the list-structure sweep (sweep.go)
	items []item
}

// setup: a fresh Server on a datastore of the backend with the two stores, each holding both model ids.
func (w *world) setup(backend string) (*server.Server, []string, func()) {
	ctx := context.Background()
	ds, rm := w.tm.Get(backend)
	s := hx.NewServer(ds, server.WithRequestTimeout(0))
	model := parser.MustTransformDSLToProto(modelDSL)
	var stores []string
	for _, n := range storeNames {
		id := hx.NewID()
		if _, err := ds.CreateStore(ctx, &openfgav1.Store{Id: id, Name: "verif-" + n}); err != nil {
			panic(err)
		}
		for _, mid := range modelIDs {
			m := proto.Clone(model).(*openfgav1.AuthorizationModel)
			m.Id = mid
			if err := ds.WriteAuthorizationModel(ctx, id, m); err != nil {
				panic(err)
			}
		}
		stores = append(stores, id)
	}
	return s, stores, func() { s.Close(); rm() }
}

// run replays the history on a fresh server; returns the canonical state, whether the run was non-trivial and
// the list of deviations (signature, description).
func (w *world) run(backend string, hist []int) (key string, nontrivial bool, dev []hx.Dev) {
	ctx := context.Background()
	s, stores, done := w.setup(backend)
	defer done()
	ref := newRef()
	api := int64(0)
	read := func(st, m int) ([]*openfgav1.Assertion, error) {
		api++
		resp, err := s.ReadAssertions(ctx, &openfgav1.ReadAssertionsRequest{StoreId: stores[st], AuthorizationModelId: modelIDs[m]})
		if err != nil {
			return nil, err
		}
		if resp.GetAuthorizationModelId() != modelIDs[m] {
			dev = append(dev, hx.Dev{"read-reports-other-model-id", fmt.Sprintf("ReadAssertions(%s,%s) answered for model %s", storeNames[st], modelNames[m], resp.GetAuthorizationModelId())})
		}
		return resp.GetAssertions(), nil
	}
	checkRead := func(st, m int, at string) string {
		got, err := read(st, m)
		if err != nil {
			dev = append(dev, hx.Dev{"read-fails", fmt.Sprintf("%s: ReadAssertions(%s,%s) failed: %v", at, storeNames[st], modelNames[m], err)})
			return "ERR"
		}
		want := ref.expected(w.ls, st, m)
		if !sameList(got, want) {
			sig := "read-differs-from-last-write"
			switch {
			case ref[st][m] < 0:
				sig = "never-written-pair-not-empty"
				for s2 := range storeNames {
					for m2 := range modelNames {
						if (s2 != st || m2 != m) && ref[s2][m2] >= 0 && sameList(got, w.ls[ref[s2][m2]].L) {
							sig = "read-returns-list-of-other-pair"
						}
					}
				}
			default:
				for s2 := range storeNames {
					for m2 := range modelNames {
						if (s2 != st || m2 != m) && ref[s2][m2] >= 0 && ref[s2][m2] != ref[st][m] && sameList(got, w.ls[ref[s2][m2]].L) {
							sig = "read-returns-list-of-other-pair"
						}
					}
				}
			}
			dev = append(dev, hx.Dev{sig, fmt.Sprintf("%s: ReadAssertions(%s,%s) = %s, last written %s", at, storeNames[st], modelNames[m], listStr(got), listStr(want))})
		}
		return listStr(got)
	}
	for i, ei := range hist {
		e := w.evs[ei]
		at := fmt.Sprintf("event %d %s", i, e.String(w.ls))
		if e.Write {
			api++
			// a deep copy goes in: the request is what a gRPC client would have sent
			var in []*openfgav1.Assertion
			for _, a := range w.ls[e.List].L {
				in = append(in, proto.Clone(a).(*openfgav1.Assertion))
			}
			_, err := s.WriteAssertions(ctx, &openfgav1.WriteAssertionsRequest{StoreId: stores[e.Store], AuthorizationModelId: modelIDs[e.Model], Assertions: in})
			switch {
			case w.ls[e.List].Invalid && err == nil:
				dev = append(dev, hx.Dev{"invalid-assertion-accepted", at + ": accepted"})
				ref[e.Store][e.Model] = e.List
			case w.ls[e.List].Invalid:
			case err != nil:
				dev = append(dev, hx.Dev{"valid-write-rejected", fmt.Sprintf("%s: %v", at, err)})
			default:
				ref[e.Store][e.Model] = e.List
			}
		} else {
			checkRead(e.Store, e.Model, at)
		}
	}
	// full observation of the state (every pair), compared with the reference
	var sb strings.Builder
	for st := range storeNames {
		for m := range modelNames {
			obs := checkRead(st, m, "final observation")
			fmt.Fprintf(&sb, "%s/%s:%v:%s;", storeNames[st], modelNames[m], ref[st][m] >= 0, obs)
			if len(ref.expected(w.ls, st, m)) > 0 {
				nontrivial = true
			}
		}
	}
	w.r.Count("api_calls", api)
	return sb.String(), nontrivial, dev
}

// refNames: the reference content of every pair after hist (names of the lists).
func (w *world) refNames(hist []int) map[string]string {
	ref := newRef()
	for _, ei := range hist {
		if e := w.evs[ei]; e.Write && !w.ls[e.List].Invalid {
			ref[e.Store][e.Model] = e.List
		}
	}
	out := map[string]string{}
	for s := range storeNames {
		for m := range modelNames {
			out[storeNames[s]+"/"+modelNames[m]] = "(never written: empty)"
			if ref[s][m] >= 0 {
				out[storeNames[s]+"/"+modelNames[m]] = w.ls[ref[s][m]].Name
			}
		}
	}
	return out
}

func (w *world) names(hist []int) []string {
	var out []string
	for _, e := range hist {
		out = append(out, w.evs[e].String(w.ls))
	}
	return out
}

func (w *world) report(backend string, hist []int, dev []hx.Dev) {
	for _, d := range dev {
		w.r.Violate(backend+"/"+d.Sig, fmt.Sprintf("[%s] history %v: %s", backend, w.names(hist), d.Desc),
			caseT{Backend: backend, History: w.names(hist), Hist: hist})
	}
}

func Run(o *core.Options) int {
	r := core.NewReport(o, "model_checking",
		"BFS over histories of WriteAssertions(store,model,list)/ReadAssertions(store,model) events, 2 stores x 2 models (same two model ids in both stores) x 6 lists (empty, one, two, one tuple key three times [with contextual tuples incl. a conditioned one, without, exact duplicate], with context structs, one invalid list); successor = replay of the shortest history on a fresh Server + one event; after every transition all four pairs are read and compared (proto.Equal, element-wise) with map[(store,model)]->last accepted list; states deduplicated by the observed four lists plus the written-bit of each pair; non-trivial = at least one pair holds a non-empty list; distinct by (backend, history). PLUS a list-structure sweep through the same Server API: an assertion alphabet of 2 tuple keys x 2 expectations x 11 contextual-tuples/context payloads (none; one, two, reordered, duplicated, same-key-other-condition contextual tuples; three context structs incl. the empty one; both) = 44 elements; EVERY sequence of length <= 2 (thorough 3) over it and every sequence of length 3 (thorough 4) over a 12-element sub-alphabet - so lists that repeat a tuple key and/or expectation with different payloads, exact duplicates and all orders are all there - plus lists of length 1-3 holding one rejected element (unknown relation, bad contextual tuple, over the 64 kB limit) at every position; lists are written in a fixed stride order, list j to pair j%4 of a fresh Server per 16 lists (so each overwrites an unrelated list), the written pair is read back and compared element-wise (proto.Equal) with the sequence sent (rejected: with what the pair held before), the pair written just before is re-read, all four at the end; non-trivial = non-empty list, distinct by (backend, sequence)")
	r.Assume("both backends: memory (fresh datastore per replay) and SQLite (fresh Server and two fresh stores per replay on a per-worker migrated database: opening a database costs more than a replay; fsync disabled)",
		"stores and models are installed through the datastore interface so that both stores share the same model ids; all events go through Server.WriteAssertions/ReadAssertions",
		"requests are deep copies of the list prototypes (as a gRPC client would deliver them): aliasing of the caller's slice by the memory backend is not examined",
		"a rejected (invalid) WriteAssertions counts as not written",
		"list sweep: the expected read is the sequence of alphabet elements that was sent, nothing is computed from the implementation; which lists are 'rejected' is fixed by construction (they contain an element that the API documents as invalid); a sweep deviation is a verdict when it reappears at the same list with the same signature in 5 re-executions of the chunk prefix (first 3 per signature and backend are re-executed and reported, further ones are counted in sweep_deviations_beyond_reconfirmation_cap)",
		"list sweep bounds: list length <= 3 (thorough 4), contextual tuples per assertion <= 2, 2 tuple keys; lists close to the size limit other than one 70 kB element are not enumerated")
	w := &world{r: r, ls: lists(), items: alphabet()}
	w.evs = events(w.ls)
	w.tm = hx.NewPool("c31")
	defer w.tm.Close()
	if o.Replay != "" {
		var c caseT
		if err := core.LoadReplay(o.Replay, &c); err != nil {
			fmt.Println("replay:", err)
			return 2
		}
		if len(c.Lists) > 0 {
			w.replaySweep(c)
			return r.Finish()
		}
		for i := 0; i < 5; i++ {
			_, _, dev := w.run(c.Backend, c.Hist)
			r.Eval(1)
			fmt.Printf("replay %d: %v deviations=%v\n", i, w.names(c.Hist), dev)
			w.report(c.Backend, c.Hist, dev)
		}
		return r.Finish()
	}
	depth := 3
	if o.Thorough() {
		depth = 5 // every one of the 6^4 abstract states is reached at depth 4; depth 5 expands all of them
	}
	r.Set("depth", depth)
	r.Set("events", len(w.evs))
	perBackend := map[string]any{}
	t0 := time.Now()
	for _, backend := range hx.Backends {
		initKey, _, dev := w.run(backend, nil)
		w.report(backend, nil, dev)
		b := &hx.BFS{R: r, Events: len(w.evs), Depth: depth, Tag: backend, InitKey: initKey}
		b.Exec = func(hist []int, ev int) hx.Step {
			h := append(append([]int{}, hist...), ev)
			return hx.Decide(func() hx.Outcome {
				key, nt, dev := w.run(backend, h)
				return hx.Outcome{Key: key, Nontrivial: nt, Devs: dev}
			}, func(d hx.Dev) { w.report(backend, h, []hx.Dev{d}) },
				func(sig string, seen int, d hx.Dev) {
					r.Anomaly(map[string]any{"backend": backend, "history": w.names(h), "signature": sig, "seen": fmt.Sprintf("%d/6", seen), "desc": d.Desc})
				})
		}
		nsamp, nnew := 0, 0
		b.OnNew = func(n hx.Node) {
			if len(n.Hist) != depth {
				return
			}
			nnew++
			if nsamp < 2 && nnew%97 == 1 {
				nsamp++
				r.Sample(map[string]any{"backend": backend, "history": w.names(n.Hist), "all_four_pairs_read_back_equal_to": w.refNames(n.Hist)})
			}
		}
		b.Run()
		r.States += b.States
		r.Transitions += b.Transitions
		r.Traces += b.Transitions
		perBackend[backend] = map[string]any{"states": b.States, "transitions": b.Transitions, "states_per_depth": b.PerDepth}
	}
	r.Set("per_backend", perBackend)
	sl, stats := w.sweepLists(o.Thorough())
	r.Set("list_sweep", stats)
	t1 := time.Now()
	for _, backend := range hx.Backends {
		w.sweep(backend, sl)
	}
	// informational only (no verdict depends on time)
	r.Set("wall_split_s", map[string]float64{"history_bfs": t1.Sub(t0).Seconds(), "list_sweep": time.Since(t1).Seconds()})
	return r.Finish()
}
