package wl

import (
	"encoding/binary"
	"encoding/json"
	"fmt"
	"os"
	"os/exec"
	"path/filepath"
	"runtime"
	"sort"
	"strconv"
	"strings"
	"sync"
	"syscall"
	"time"

	"github.com/openfga/openfga/internal/verifh/core"
)

// Sharding. The work list of a check is computed deterministically by every process; the parent starts N copies of
// its own binary, copy i executes the work items with index ≡ i (mod N) on ONE goroutine and writes a Collector
// as JSON; the parent merges the collectors into the core.Report.
//
// Why processes instead of core.Report.Parallel: (1) openfga draws changelog ULIDs from a process-global
// monotonic entropy source that is reset whenever the millisecond of consecutive draws differs, so two harness
// goroutines writing at once can invert the changelog order of a third one's same-millisecond writes — a scheduling
// artefact of the harness that would make verdicts irreproducible; with one writer per process the histories are
// sequential, as the properties quantify. (2) modernc SQLite frees large blocks with munmap; many threads doing
// that in one address space serialise on the kernel's mmap lock.

type Viol struct {
	Sig  string          `json:"sig"`
	Desc string          `json:"desc"`
	Case json.RawMessage `json:"case"`
	N    int64           `json:"n"`
}

type Collector struct {
	Evals         int64             `json:"evals"`
	Counts        map[string]int64  `json:"counts"`
	Maxes         map[string]int64  `json:"maxes"`
	Hashes        []uint64          `json:"hashes"`
	Samples       []json.RawMessage `json:"samples"`
	Viols         []*Viol           `json:"viols"`
	Anoms         []json.RawMessage `json:"anoms"`
	NotExhaustive string            `json:"not_exhaustive,omitempty"`

	hs       map[uint64]struct{}
	bySig    map[string]*Viol
	deadline time.Time
	Shard, N int
	q        *os.File
	seq      int
}

func NewCollector(shard, n int, deadline time.Time) *Collector {
	return &Collector{Counts: map[string]int64{}, Maxes: map[string]int64{}, hs: map[uint64]struct{}{}, bySig: map[string]*Viol{}, deadline: deadline, Shard: shard, N: n}
}

// Next claims the next unclaimed work-item index from the queue shared by all shards (a counter in a
// flock-protected file); work items are independent, so the assignment does not influence any verdict.
func (c *Collector) Next() int {
	if c.q == nil {
		c.seq++
		return c.seq - 1
	}
	if err := syscall.Flock(int(c.q.Fd()), syscall.LOCK_EX); err != nil {
		panic(err)
	}
	defer syscall.Flock(int(c.q.Fd()), syscall.LOCK_UN)
	var b [8]byte
	_, _ = c.q.ReadAt(b[:], 0)
	n := binary.LittleEndian.Uint64(b[:])
	binary.LittleEndian.PutUint64(b[:], n+1)
	if _, err := c.q.WriteAt(b[:], 0); err != nil {
		panic(err)
	}
	return int(n)
}
func (c *Collector) Eval(n int64) { c.Evals += n }
func (c *Collector) Count(k string, n int64) {
	c.Counts[k] += n
}
func (c *Collector) Max(k string, v int64) {
	if v > c.Maxes[k] {
		c.Maxes[k] = v
	}
}
func (c *Collector) Nontrivial(h uint64) { c.hs[h] = struct{}{} }
func (c *Collector) Sample(v any) {
	if len(c.Samples) < 3 {
		b, _ := json.Marshal(v)
		c.Samples = append(c.Samples, b)
	}
}
func (c *Collector) Anomaly(v any) {
	c.Counts["anomalies"]++
	if len(c.Anoms) < 5 {
		b, _ := json.Marshal(v)
		c.Anoms = append(c.Anoms, b)
	}
}

// Violate counts a confirmed deviation; per signature the smallest case (shortest JSON, then lexicographic) is kept,
// so the reported example does not depend on which shard ran what.
func (c *Collector) Violate(sig, desc string, cs any) {
	b, _ := json.Marshal(cs)
	if v, ok := c.bySig[sig]; ok {
		v.N++
		if lessCase(b, v.Case) {
			v.Desc, v.Case = desc, b
		}
		return
	}
	v := &Viol{Sig: sig, Desc: desc, Case: b, N: 1}
	c.bySig[sig] = v
	c.Viols = append(c.Viols, v)
}

func lessCase(a, b json.RawMessage) bool {
	if len(a) != len(b) {
		return len(a) < len(b)
	}
	return string(a) < string(b)
}

// MergeAll merges the shard collectors into the report (violations: one minimal example per signature, all counted).
func MergeAll(cs []*Collector, r *core.Report) {
	best := map[string]*Viol{}
	var order []string
	for _, c := range cs {
		for _, v := range c.Viols {
			if b, ok := best[v.Sig]; ok {
				b.N += v.N
				if lessCase(v.Case, b.Case) {
					b.Desc, b.Case = v.Desc, v.Case
				}
			} else {
				cp := *v
				best[v.Sig] = &cp
				order = append(order, v.Sig)
			}
		}
		vs := c.Viols
		c.Viols = nil
		c.MergeInto(r)
		c.Viols = vs
	}
	sort.Strings(order)
	for _, sig := range order {
		v := best[sig]
		n := v.N
		if n > 5000 {
			n = 5000
		}
		for i := int64(0); i < n; i++ {
			r.Violate(v.Sig, v.Desc, v.Case)
		}
	}
}
func (c *Collector) Violations() int { return len(c.Viols) }
func (c *Collector) Expired() bool {
	if c.NotExhaustive != "" {
		return true
	}
	if time.Now().After(c.deadline) {
		c.NotExhaustive = "internal deadline reached"
		return true
	}
	return false
}

func (c *Collector) write(path string) error {
	for h := range c.hs {
		c.Hashes = append(c.Hashes, h)
	}
	b, err := json.Marshal(c)
	if err != nil {
		return err
	}
	if err := os.WriteFile(path+".tmp", b, 0o644); err != nil {
		return err
	}
	return os.Rename(path+".tmp", path)
}

// MergeInto adds the collector to the report.
func (c *Collector) MergeInto(r *core.Report) {
	r.Eval(c.Evals)
	for _, h := range c.Hashes {
		r.Nontrivial(h)
	}
	for h := range c.hs {
		r.Nontrivial(h)
	}
	for k, v := range c.Counts {
		r.Count(k, v)
	}
	for _, s := range c.Samples {
		r.Sample(s)
	}
	for _, a := range c.Anoms {
		r.Anomaly(a)
	}
	for _, v := range c.Viols {
		n := v.N
		if n > 1000 {
			n = 1000
		}
		for i := int64(0); i < n; i++ {
			r.Violate(v.Sig, v.Desc, v.Case)
		}
	}
	if c.NotExhaustive != "" {
		r.NotExhaustive(c.NotExhaustive)
	}
}

// ShardEnv reports whether this process is a shard child: (index, count, output path, deadline).
func ShardEnv() (i, n int, out string, deadline time.Time, ok bool) {
	s := os.Getenv("VERIF_SHARD")
	if s == "" {
		return 0, 0, "", time.Time{}, false
	}
	p := strings.Split(s, "/")
	i, _ = strconv.Atoi(p[0])
	n, _ = strconv.Atoi(p[1])
	ms, _ := strconv.ParseInt(os.Getenv("VERIF_SHARD_DEADLINE_UNIXMS"), 10, 64)
	return i, n, os.Getenv("VERIF_SHARD_OUT"), time.UnixMilli(ms), true
}

// NewShardCollector is NewCollector for a shard child: it attaches the shared work queue.
func NewShardCollector(shard, n int, deadline time.Time) *Collector {
	c := NewCollector(shard, n, deadline)
	if qp := os.Getenv("VERIF_SHARD_QUEUE"); qp != "" {
		f, err := os.OpenFile(qp, os.O_RDWR, 0)
		if err != nil {
			panic(err)
		}
		c.q = f
	}
	return c
}

// FinishShard writes the child's collector; returns the process exit code.
func FinishShard(c *Collector, out string) int {
	if err := c.write(out); err != nil {
		fmt.Fprintln(os.Stderr, "shard: cannot write result:", err)
		return 2
	}
	return 0
}

func defaultDeadline(o *core.Options) time.Duration {
	if o.Deadline != 0 {
		return o.Deadline
	}
	if o.Thorough() {
		return 40 * time.Minute
	}
	return 8 * time.Minute
}

// RunShards starts n copies of this binary (same arguments) and returns their merged collectors.
// Children are killed when the parent dies. A crashed child is a harness error.
func RunShards(o *core.Options, tag string, n int, start time.Time) ([]*Collector, error) {
	runtime.LockOSThread() // Pdeathsig is tied to the forking thread: keep it alive
	defer runtime.UnlockOSThread()
	exe, err := os.Executable()
	if err != nil {
		return nil, err
	}
	dir := filepath.Join("/verif/.build/tmp", tag, fmt.Sprintf("shards-%d", os.Getpid()))
	if err := os.MkdirAll(dir, 0o755); err != nil {
		return nil, err
	}
	defer os.RemoveAll(dir)
	deadline := start.Add(defaultDeadline(o))
	queue := filepath.Join(dir, "queue")
	if err := os.WriteFile(queue, make([]byte, 8), 0o644); err != nil {
		return nil, err
	}
	var wg sync.WaitGroup
	errs := make([]error, n)
	outs := make([]string, n)
	for i := 0; i < n; i++ {
		outs[i] = filepath.Join(dir, fmt.Sprintf("shard%02d.json", i))
		cmd := exec.Command(exe, os.Args[1:]...)
		cmd.Env = append(os.Environ(),
			fmt.Sprintf("VERIF_SHARD=%d/%d", i, n),
			"VERIF_SHARD_OUT="+outs[i],
			"VERIF_SHARD_QUEUE="+queue,
			fmt.Sprintf("VERIF_SHARD_DEADLINE_UNIXMS=%d", deadline.UnixMilli()),
			"GOMAXPROCS=2")
		cmd.Stdout = os.Stderr
		cmd.Stderr = os.Stderr
		cmd.SysProcAttr = &syscall.SysProcAttr{Pdeathsig: syscall.SIGKILL}
		if err := cmd.Start(); err != nil {
			return nil, err
		}
		wg.Add(1)
		go func(i int, cmd *exec.Cmd) {
			defer wg.Done()
			errs[i] = cmd.Wait()
		}(i, cmd)
	}
	wg.Wait()
	var cs []*Collector
	for i := 0; i < n; i++ {
		if errs[i] != nil {
			return nil, fmt.Errorf("shard %d failed: %v", i, errs[i])
		}
		b, err := os.ReadFile(outs[i])
		if err != nil {
			return nil, fmt.Errorf("shard %d wrote no result: %v", i, err)
		}
		c := &Collector{}
		if err := json.Unmarshal(b, c); err != nil {
			return nil, fmt.Errorf("shard %d result: %v", i, err)
		}
		cs = append(cs, c)
	}
	return cs, nil
}
