// Package wl ("write log") holds what C12 and C15 share: the tuple universe, the boring reference model
// (map key -> condition, append-only change list), canonical observation of a store through Read and
// ReadChanges, backend construction (memory / SQLite over the sqlfault driver) and process sharding (shard.go).
package wl

import (
	"bytes"
	"context"
	"encoding/binary"
	"errors"
	"fmt"
	"os"
	"path/filepath"
	"sort"
	"strings"
	"sync"
	"sync/atomic"

	"github.com/oklog/ulid/v2"
	openfgav1 "github.com/openfga/api/proto/openfga/v1"
	parser "github.com/openfga/language/pkg/go/transformer"
	"google.golang.org/protobuf/types/known/structpb"

	"github.com/openfga/openfga/internal/verifh/sqlfault"
	"github.com/openfga/openfga/internal/verifh/sqlx"
	"github.com/openfga/openfga/pkg/storage"
	"github.com/openfga/openfga/pkg/storage/memory"
)

// ---------------------------------------------------------------------------------------------------
// universe

type Key struct{ Obj, Rel, User string }

func (k Key) String() string { return k.Obj + "#" + k.Rel + "@" + k.User }

// CondSpec is one condition variant of the universe.
type CondSpec struct {
	Name   string // "" = unconditioned
	HasCtx bool
	X      int
}

func (c CondSpec) String() string {
	switch {
	case c.Name == "":
		return ""
	case !c.HasCtx:
		return "[" + c.Name + " {}]"
	}
	return fmt.Sprintf("[%s {x=%d}]", c.Name, c.X)
}

// Universe fixes the tuple keys and the condition variants.
type Universe struct {
	Keys  []Key
	Conds []CondSpec
}

const ModelDSL = `model
  schema 1.1
type user
type group
  relations
    define member: [user]
    define admin: [user]
type doc
  relations
    define viewer: [user, user with cx, group#member, group#member with cx, group#admin, group#admin with cx]
    define editor: [user, user with cx, group#member, group#member with cx, group#admin, group#admin with cx]
type folder
  relations
    define viewer: [user, user with cx]
condition cx(x: int) {
  x < 100
}`

// Item is (key index, condition index).
type Item struct {
	K int `json:"k"`
	C int `json:"c"`
}

// Event is one Write request.
type Event struct {
	Del    []int  `json:"del,omitempty"`
	Wr     []Item `json:"wr,omitempty"`
	OnDup  string `json:"on_duplicate,omitempty"`
	OnMiss string `json:"on_missing,omitempty"`
}

func (u *Universe) EventString(e Event) string {
	var sb strings.Builder
	sb.WriteString("del[")
	for i, k := range e.Del {
		if i > 0 {
			sb.WriteByte(' ')
		}
		sb.WriteString(u.Keys[k].String())
	}
	sb.WriteString("] on_missing=" + e.OnMiss + " wr[")
	for i, it := range e.Wr {
		if i > 0 {
			sb.WriteByte(' ')
		}
		sb.WriteString(u.Keys[it.K].String() + u.Conds[it.C].String())
	}
	sb.WriteString("] on_duplicate=" + e.OnDup)
	return sb.String()
}

func (u *Universe) TupleKey(it Item) *openfgav1.TupleKey {
	k := u.Keys[it.K]
	tk := &openfgav1.TupleKey{Object: k.Obj, Relation: k.Rel, User: k.User}
	c := u.Conds[it.C]
	if c.Name != "" {
		tk.Condition = &openfgav1.RelationshipCondition{Name: c.Name}
		if c.HasCtx {
			tk.Condition.Context, _ = structpb.NewStruct(map[string]any{"x": c.X})
		}
	}
	return tk
}

// Request builds the API request of an event. A section is present when it has items or an option.
func (u *Universe) Request(e Event, store, model string) *openfgav1.WriteRequest {
	req := &openfgav1.WriteRequest{StoreId: store, AuthorizationModelId: model}
	if len(e.Del) > 0 || e.OnMiss != "" {
		d := &openfgav1.WriteRequestDeletes{OnMissing: e.OnMiss}
		for _, k := range e.Del {
			kk := u.Keys[k]
			d.TupleKeys = append(d.TupleKeys, &openfgav1.TupleKeyWithoutCondition{Object: kk.Obj, Relation: kk.Rel, User: kk.User})
		}
		req.Deletes = d
	}
	if len(e.Wr) > 0 || e.OnDup != "" {
		w := &openfgav1.WriteRequestWrites{OnDuplicate: e.OnDup}
		for _, it := range e.Wr {
			w.TupleKeys = append(w.TupleKeys, u.TupleKey(it))
		}
		req.Writes = w
	}
	return req
}

// ---------------------------------------------------------------------------------------------------
// reference model: plain maps and slices, no openfga code

type Change struct {
	Op byte // 'W' | 'D'
	K  int
	C  int // condition index for writes; deletes carry no condition
}

type Ref struct {
	Cur []int      // per key: condition index, -1 = absent
	Log [][]Change // one group per accepted request that applied at least one item
}

func NewRef(u *Universe) *Ref {
	r := &Ref{Cur: make([]int, len(u.Keys))}
	for i := range r.Cur {
		r.Cur[i] = -1
	}
	return r
}

func (r *Ref) Clone() *Ref {
	c := &Ref{Cur: append([]int(nil), r.Cur...), Log: make([][]Change, len(r.Log))}
	copy(c.Log, r.Log) // groups are never mutated after creation
	return c
}

func validOpt(s string) bool { return s == "" || s == "error" || s == "ignore" }

// Apply decides the request and, when accepted, applies it. It never partially applies.
//
// Rules (statement of C12 + request validation): an empty request, a key named twice in the request
// (in any mix of deletes and writes) and an unknown option value are rejected. A delete of a missing key
// or a write of an existing key rejects the request unless the matching option is "ignore"; with "ignore" a
// missing delete is skipped, an existing write is skipped only when its condition (name and context) equals
// the stored one, otherwise the request is rejected.
func (r *Ref) Apply(e Event) bool { ok, _ := r.ApplyWhy(e); return ok }

// ApplyWhy is Apply plus the rule that decided: a rejection reason, or for accepted requests
// "applied" (every item took effect), "partial-noop" (some items skipped by an ignore option) or
// "all-noop" (every item skipped).
func (r *Ref) ApplyWhy(e Event) (bool, string) {
	if len(e.Del) == 0 && len(e.Wr) == 0 {
		return false, "empty-request"
	}
	seen := map[int]bool{}
	for _, k := range e.Del {
		if seen[k] {
			return false, "key-named-twice"
		}
		seen[k] = true
	}
	for _, it := range e.Wr {
		if seen[it.K] {
			return false, "key-named-twice"
		}
		seen[it.K] = true
	}
	if !validOpt(e.OnDup) || !validOpt(e.OnMiss) {
		return false, "unknown-option"
	}
	var group []Change
	skipped := 0
	for _, k := range e.Del {
		if r.Cur[k] < 0 {
			if e.OnMiss == "ignore" {
				skipped++
				continue
			}
			return false, "missing-delete"
		}
		group = append(group, Change{Op: 'D', K: k})
	}
	for _, it := range e.Wr {
		if r.Cur[it.K] >= 0 {
			if e.OnDup == "ignore" {
				if r.Cur[it.K] == it.C {
					skipped++
					continue
				}
				return false, "ignore-with-different-condition"
			}
			return false, "duplicate-write"
		}
		group = append(group, Change{Op: 'W', K: it.K, C: it.C})
	}
	for _, c := range group {
		if c.Op == 'D' {
			r.Cur[c.K] = -1
		} else {
			r.Cur[c.K] = c.C
		}
	}
	if len(group) > 0 {
		r.Log = append(r.Log, group)
	}
	switch {
	case skipped == 0:
		return true, "applied"
	case len(group) == 0:
		return true, "all-noop"
	}
	return true, "partial-noop"
}

// Tuples is the canonical sorted content.
func (r *Ref) Tuples(u *Universe) []string {
	var out []string
	for k, c := range r.Cur {
		if c >= 0 {
			out = append(out, u.Keys[k].String()+u.Conds[c].String())
		}
	}
	sort.Strings(out)
	return out
}

func (u *Universe) ChangeString(c Change) string {
	if c.Op == 'D' {
		return "D " + u.Keys[c.K].String()
	}
	return "W " + u.Keys[c.K].String() + u.Conds[c.C].String()
}

// Groups returns the changelog as groups of canonical strings (each group sorted: the order of the items
// of ONE request inside the changelog is not part of the property; the order of requests is).
func (r *Ref) Groups(u *Universe) [][]string {
	out := make([][]string, len(r.Log))
	for i, g := range r.Log {
		for _, c := range g {
			out[i] = append(out[i], u.ChangeString(c))
		}
		sort.Strings(out[i])
	}
	return out
}

func (r *Ref) NumChanges() int {
	n := 0
	for _, g := range r.Log {
		n += len(g)
	}
	return n
}

// StateKey identifies the observable state (contents + changelog with per-request groups canonicalised).
func (r *Ref) StateKey(u *Universe) string {
	var sb strings.Builder
	sb.WriteString(strings.Join(r.Tuples(u), ","))
	sb.WriteString("||")
	for _, g := range r.Groups(u) {
		sb.WriteString(strings.Join(g, ","))
		sb.WriteByte(';')
	}
	return sb.String()
}

func (r *Ref) ContentKey(u *Universe) string { return strings.Join(r.Tuples(u), ",") }

// ---------------------------------------------------------------------------------------------------
// observation

func ctxString(s *structpb.Struct) string {
	if s == nil || len(s.GetFields()) == 0 {
		return "{}"
	}
	ks := make([]string, 0, len(s.GetFields()))
	for k := range s.GetFields() {
		ks = append(ks, k)
	}
	sort.Strings(ks)
	var sb strings.Builder
	sb.WriteByte('{')
	for i, k := range ks {
		if i > 0 {
			sb.WriteByte(',')
		}
		fmt.Fprintf(&sb, "%s=%v", k, s.GetFields()[k].AsInterface())
	}
	sb.WriteByte('}')
	return sb.String()
}

// TupleString is the canonical form of a stored tuple key (nil and empty context are the same thing).
func TupleString(tk *openfgav1.TupleKey) string {
	s := tk.GetObject() + "#" + tk.GetRelation() + "@" + tk.GetUser()
	if c := tk.GetCondition(); c.GetName() != "" {
		s += "[" + c.GetName() + " " + ctxString(c.GetContext()) + "]"
	} else if c != nil && len(c.GetContext().GetFields()) > 0 {
		s += "[<noname> " + ctxString(c.GetContext()) + "]"
	}
	return s
}

func ChangeString(c *openfgav1.TupleChange) string {
	switch c.GetOperation() {
	case openfgav1.TupleOperation_TUPLE_OPERATION_WRITE:
		return "W " + TupleString(c.GetTupleKey())
	case openfgav1.TupleOperation_TUPLE_OPERATION_DELETE:
		return "D " + TupleString(c.GetTupleKey())
	}
	return fmt.Sprintf("?%d %s", c.GetOperation(), TupleString(c.GetTupleKey()))
}

// ReadAll returns the canonical sorted contents of a store via the datastore's Read.
func ReadAll(ctx context.Context, ds storage.RelationshipTupleReader, store string) ([]string, error) {
	it, err := ds.Read(ctx, store, storage.ReadFilter{}, storage.ReadOptions{})
	if err != nil {
		return nil, err
	}
	defer it.Stop()
	var out []string
	for {
		t, err := it.Next(ctx)
		if err != nil {
			if errors.Is(err, storage.ErrIteratorDone) {
				break
			}
			return nil, err
		}
		out = append(out, TupleString(t.GetKey()))
	}
	sort.Strings(out)
	return out, nil
}

// ChangesRaw pages through the datastore's ReadChanges until the documented end signal (ErrNotFound).
// pageSize 0 = the backend default.
func ChangesRaw(ctx context.Context, ds storage.ChangelogBackend, store string, f storage.ReadChangesFilter, pageSize int, desc bool) ([]*openfgav1.TupleChange, int, error) {
	var out []*openfgav1.TupleChange
	from := ""
	pages := 0
	for guard := 0; guard < 100000; guard++ {
		ch, tok, err := ds.ReadChanges(ctx, store, f, storage.ReadChangesOptions{Pagination: storage.PaginationOptions{PageSize: pageSize, From: from}, SortDesc: desc})
		if err != nil {
			if errors.Is(err, storage.ErrNotFound) {
				return out, pages, nil
			}
			return out, pages, err
		}
		if len(ch) == 0 {
			return out, pages, nil
		}
		pages++
		out = append(out, ch...)
		if tok == "" || tok == from {
			return out, pages, fmt.Errorf("ReadChanges returned %d changes with token %q after token %q", len(ch), tok, from)
		}
		from = tok
	}
	return out, pages, errors.New("ReadChanges did not terminate")
}

func ChangeStrings(ch []*openfgav1.TupleChange) []string {
	out := make([]string, len(ch))
	for i, c := range ch {
		out[i] = ChangeString(c)
	}
	return out
}

// Obs is what the oracles look at.
type Obs struct {
	Tuples  []string `json:"tuples"`
	Changes []string `json:"changes"`
}

func Observe(ctx context.Context, ds storage.OpenFGADatastore, store string) (Obs, error) {
	t, err := ReadAll(ctx, ds, store)
	if err != nil {
		return Obs{}, fmt.Errorf("Read: %w", err)
	}
	ch, _, err := ChangesRaw(ctx, ds, store, storage.ReadChangesFilter{}, 0, false)
	if err != nil {
		return Obs{}, fmt.Errorf("ReadChanges: %w", err)
	}
	return Obs{Tuples: t, Changes: ChangeStrings(ch)}, nil
}

func eqStrings(a, b []string) bool {
	if len(a) != len(b) {
		return false
	}
	for i := range a {
		if a[i] != b[i] {
			return false
		}
	}
	return true
}

// Matches reports whether the observation equals the reference state ("" = equal, else what differs).
func (o Obs) Matches(u *Universe, r *Ref) string {
	if !eqStrings(o.Tuples, r.Tuples(u)) {
		return "contents"
	}
	groups := r.Groups(u)
	pos := 0
	for _, g := range groups {
		if pos+len(g) > len(o.Changes) {
			return "changelog"
		}
		got := append([]string(nil), o.Changes[pos:pos+len(g)]...)
		sort.Strings(got)
		if !eqStrings(got, g) {
			return "changelog"
		}
		pos += len(g)
	}
	if pos != len(o.Changes) {
		return "changelog"
	}
	return ""
}

// ---------------------------------------------------------------------------------------------------
// backends

type Backend struct {
	Name string
	DS   storage.OpenFGADatastore
	Ctl  *sqlfault.Controller // SQLite only
	Path string               // SQLite only: database file
	Dir  string
	cl   func()
}

func (b *Backend) Close() {
	if b.cl != nil {
		b.cl()
		b.cl = nil
	}
}

func OpenMemory() *Backend {
	ds := memory.New()
	return &Backend{Name: "memory", DS: ds, cl: ds.Close}
}

var (
	tmplOnce sync.Once
	tmplPath string
	tmplDir  string
	dirSeq   atomic.Int64
)

// Template returns the path of a migrated, empty SQLite database (created once per process).
func Template(tag string) string {
	tmplOnce.Do(func() {
		dir, _ := sqlx.Scratch(tag + "-tmpl")
		tmplDir = dir
		tmplPath = filepath.Join(dir, "db.sqlite")
		sqlx.Migrate(tmplPath)
	})
	return tmplPath
}

// Cleanup removes the template directory.
func Cleanup() {
	if tmplDir != "" {
		os.RemoveAll(tmplDir)
	}
}

// OpenSQLite copies the template into a fresh scratch directory and opens it through the fault driver.
func OpenSQLite(tag string, pragmas ...string) *Backend {
	t := Template(tag)
	dir, rm := sqlx.Scratch(tag)
	path := filepath.Join(dir, "db.sqlite")
	if err := sqlfault.CopyFile(t, path); err != nil {
		panic(err)
	}
	b, err := OpenSQLiteAt(path, pragmas...)
	if err != nil {
		rm()
		panic(err)
	}
	b.Dir = dir
	inner := b.cl
	b.cl = func() { inner(); rm() }
	return b
}

// OpenSQLiteAt opens an existing database file (e.g. a crash image) through the fault driver.
func OpenSQLiteAt(path string, pragmas ...string) (*Backend, error) {
	ctl := sqlfault.NewController()
	ds, err := sqlfault.OpenDatastore(path, ctl, append([]string{"synchronous(OFF)"}, pragmas...)...)
	if err != nil {
		ctl.Release()
		return nil, err
	}
	return &Backend{Name: "sqlite", DS: ds, Ctl: ctl, Path: path, Dir: filepath.Dir(path), cl: func() { ds.Close(); ctl.Release() }}, nil
}

func Open(name, tag string) *Backend {
	if name == "memory" {
		return OpenMemory()
	}
	return OpenSQLite(tag)
}

var modelOnce sync.Once
var modelProto *openfgav1.AuthorizationModel

func baseModel() *openfgav1.AuthorizationModel {
	modelOnce.Do(func() { modelProto = parser.MustTransformDSLToProto(ModelDSL) })
	return modelProto
}

// NewStore makes a fresh store id with the universe's model written to it.
func (b *Backend) NewStore(ctx context.Context) (store, model string, err error) {
	store = NewID()
	model = NewID()
	bm := baseModel()
	m := &openfgav1.AuthorizationModel{Id: model, SchemaVersion: bm.GetSchemaVersion(), TypeDefinitions: bm.GetTypeDefinitions(), Conditions: bm.GetConditions()}
	if err = b.DS.WriteAuthorizationModel(ctx, store, m); err != nil {
		return "", "", err
	}
	return store, model, nil
}

var idSeq atomic.Uint64

// NewID returns a fresh ULID built from a private counter (openfga's process-global ULID entropy is not touched).
func NewID() string {
	var e [10]byte
	binary.BigEndian.PutUint16(e[0:2], uint16(os.Getpid()))
	binary.BigEndian.PutUint64(e[2:], idSeq.Add(1))
	id, err := ulid.New(ulid.Now(), bytes.NewReader(e[:]))
	if err != nil {
		panic(err)
	}
	return id.String()
}
