package wl

import (
	"os"

	"modernc.org/libc"
)

// PinAllocator keeps a number of 64 KiB slabs of every small size class of modernc's C allocator mapped for the
// life of the process (one slot per slab stays allocated, the other slots are free for SQLite to use). That
// allocator returns a slab to the kernel (munmap) the moment its last slot is freed and maps a new one on the next
// allocation of that size; SQLite's page cache and per-statement temporaries make that happen several times per
// statement, which costs more (page faults, munmap inside a microVM) than the statement itself. Pinning changes
// nothing in openfga or SQLite semantics; it is a harness-side throughput measure only.
func PinAllocator() {
	if os.Getenv("VERIF_NO_PIN") != "" {
		return
	}
	tls := libc.NewTLS()
	const slab = 1 << 16
	for log := 4; log <= 14; log++ {
		size := 1 << log
		perSlab := (slab - 64) / size
		if perSlab < 1 {
			perSlab = 1
		}
		slabs := 8
		switch log {
		case 12, 13: // SQLite pages (4 KiB + header land in the 8 KiB class)
			slabs = 96
		case 14:
			slabs = 32
		}
		seen := map[uintptr]bool{}
		var drop []uintptr
		for i := 0; i < slabs*perSlab; i++ {
			p := libc.Xmalloc(tls, libc.Tsize_t(size))
			if p == 0 {
				break
			}
			base := p &^ (slab - 1)
			if seen[base] {
				drop = append(drop, p)
			} else {
				seen[base] = true
			}
		}
		for _, p := range drop {
			libc.Xfree(tls, p)
		}
	}
}
