// Package c12 decides C12 "Writes are atomic and honour on_duplicate/on_missing" (fault_enumeration, E3+E4).
package c12

import (
	"context"
	"crypto/sha256"
	"encoding/json"
	"fmt"
	"os"
	"path/filepath"
	"sort"
	"strings"
	"sync"
	"sync/atomic"
	"time"

	"github.com/openfga/openfga/internal/verifh/c12/wl"
	"github.com/openfga/openfga/internal/verifh/core"
	"github.com/openfga/openfga/internal/verifh/sqlfault"
	"github.com/openfga/openfga/pkg/server/commands"
)

const tag = "c12"

var U = &wl.Universe{
	Keys:  []wl.Key{{Obj: "doc:1", Rel: "viewer", User: "user:a"}, {Obj: "doc:1", Rel: "viewer", User: "user:b"}, {Obj: "doc:2", Rel: "viewer", User: "user:a"}},
	Conds: []wl.CondSpec{{}, {Name: "cx", HasCtx: true, X: 1}, {Name: "cx", HasCtx: true, X: 2}},
}

var optVals = []string{"", "error", "ignore", "bogus"}

// allEvents: delete lists × write lists × option pairs.
func allEvents(u *wl.Universe) []wl.Event {
	nk := len(u.Keys)
	dels := [][]int{nil}
	for a := 0; a < nk; a++ {
		dels = append(dels, []int{a})
	}
	for a := 0; a < nk; a++ {
		for b := a; b < nk; b++ { // b == a: the same key named twice
			dels = append(dels, []int{a, b})
		}
	}
	var items []wl.Item
	for k := 0; k < nk; k++ {
		for c := range u.Conds {
			items = append(items, wl.Item{K: k, C: c})
		}
	}
	wrs := [][]wl.Item{nil}
	for _, it := range items {
		wrs = append(wrs, []wl.Item{it})
	}
	for i := range items {
		for j := i; j < len(items); j++ { // includes same key with another condition and the identical item twice
			wrs = append(wrs, []wl.Item{items[i], items[j]})
		}
	}
	var out []wl.Event
	for _, d := range dels {
		for _, w := range wrs {
			degenerate := (len(d) == 2 && d[0] == d[1]) || (len(w) == 2 && w[0].K == w[1].K)
			for _, om := range optVals {
				for _, od := range optVals {
					// a list that names one key twice is rejected by request validation whatever the options are:
					// it is combined with two option pairs only
					if degenerate && !((om == "" && od == "") || (om == "ignore" && od == "ignore")) {
						continue
					}
					out = append(out, wl.Event{Del: d, Wr: w, OnMiss: om, OnDup: od})
				}
			}
		}
	}
	return out
}

// passesValidation: the request is well-formed (reaches datastore.Write). Decided by the reference's reason.
func storageLevel(why string) bool {
	switch why {
	case "empty-request", "key-named-twice", "unknown-option":
		return false
	}
	return true
}

type state struct {
	hist []wl.Event
	ref  *wl.Ref
}

// levels computes, with the reference alone, the distinct states (contents + changelog) per history length.
func levels(u *wl.Universe, events []wl.Event, depth int) [][]*state {
	lv := [][]*state{{{ref: wl.NewRef(u)}}}
	seen := map[string]bool{lv[0][0].ref.StateKey(u): true}
	for d := 0; d < depth; d++ {
		var next []*state
		for _, s := range lv[d] {
			for _, e := range events {
				r2 := s.ref.Clone()
				if !r2.Apply(e) {
					continue
				}
				k := r2.StateKey(u)
				if seen[k] {
					continue
				}
				seen[k] = true
				next = append(next, &state{hist: append(append([]wl.Event(nil), s.hist...), e), ref: r2})
			}
		}
		lv = append(lv, next)
	}
	return lv
}

// perContent keeps the first n states of each distinct store content (BFS order).
func perContent(u *wl.Universe, ss []*state, n int) []*state {
	cnt := map[string]int{}
	var out []*state
	for _, s := range ss {
		k := s.ref.ContentKey(u)
		if cnt[k] < n {
			cnt[k]++
			out = append(out, s)
		}
	}
	return out
}

// ---------------------------------------------------------------------------------------------------

type Case struct {
	Part     string     `json:"part"` // bfs | fault | crash
	Backend  string     `json:"backend"`
	History  []wl.Event `json:"history"`
	Event    wl.Event   `json:"event"`
	K        int        `json:"k,omitempty"` // fault: boundary number; crash: image taken before boundary K (B+1 = after the call returned)
	Mode     string     `json:"mode,omitempty"`
	Flavour  string     `json:"flavour,omitempty"`
	Thorough bool       `json:"thorough,omitempty"`

	Boundary string  `json:"boundary,omitempty"`
	Readable string  `json:"readable,omitempty"`
	Err      string  `json:"err,omitempty"`
	Want     string  `json:"reference,omitempty"`
	Before   *wl.Obs `json:"reference_before,omitempty"`
	After    *wl.Obs `json:"reference_after,omitempty"`
	Got      *wl.Obs `json:"observed,omitempty"`
}

type dev struct {
	sig, desc string
	c         Case
}

func refObs(u *wl.Universe, r *wl.Ref) *wl.Obs {
	o := &wl.Obs{Tuples: r.Tuples(u)}
	for _, g := range r.Groups(u) {
		o.Changes = append(o.Changes, "{"+strings.Join(g, ", ")+"}")
	}
	return o
}

func histString(u *wl.Universe, h []wl.Event) string {
	var p []string
	for _, e := range h {
		p = append(p, u.EventString(e))
	}
	return strings.Join(p, " ; ")
}

// ---------------------------------------------------------------------------------------------------

type runner struct {
	u      *wl.Universe
	name   string
	b      *wl.Backend
	cmd    *commands.WriteCommand
	stores int
	limit  int
}

func newRunner(u *wl.Universe, backend string) *runner {
	return &runner{u: u, name: backend, limit: 1500}
}

func (w *runner) close() {
	if w.b != nil {
		w.b.Close()
		w.b = nil
	}
}

func (w *runner) ensure() {
	if w.b != nil && w.stores < w.limit {
		return
	}
	w.close()
	w.b = wl.Open(w.name, tag)
	w.cmd = commands.NewWriteCommand(w.b.DS)
	w.stores = 0
}

type live struct {
	store, model string
}

// setup creates a fresh store and replays the history (every step must be accepted: the reference accepted it).
func (w *runner) setup(ctx context.Context, hist []wl.Event) (live, error) {
	w.ensure()
	w.stores++
	st, md, err := w.b.NewStore(ctx)
	if err != nil {
		return live{}, err
	}
	for i, e := range hist {
		if _, err := w.cmd.Execute(ctx, w.u.Request(e, st, md)); err != nil {
			return live{}, fmt.Errorf("replay step %d (%s): %w", i, w.u.EventString(e), err)
		}
	}
	return live{st, md}, nil
}

// exec runs one Write through the command layer; on SQLite the boundaries are recorded with the given plan.
func (w *runner) exec(ctx context.Context, l live, e wl.Event, p sqlfault.Plan) (error, []sqlfault.Boundary, bool) {
	req := w.u.Request(e, l.store, l.model)
	if w.b.Ctl == nil {
		_, err := w.cmd.Execute(ctx, req)
		return err, nil, false
	}
	w.b.Ctl.Arm(p)
	_, err := w.cmd.Execute(ctx, req)
	log, fired := w.b.Ctl.Disarm()
	return err, log, fired
}

func mutating(log []sqlfault.Boundary) bool {
	for _, b := range log {
		switch b.Kind {
		case "EXEC", "STMT-EXEC", "COMMIT":
			return true
		}
	}
	return false
}

func errStr(err error) string {
	if err == nil {
		return ""
	}
	s := err.Error()
	if len(s) > 200 {
		s = s[:200]
	}
	return s
}

type stats struct {
	evals, skippedReadback, accepted, rejected int64
	byWhy                                      map[string]int64
	kinds                                      map[string]int64
	valRejectedMutating                        int64
	maxBoundaries                              int
	faultRuns, crashImages, cleanRuns          int64
	crashOpened                                int64
	afterStateWithError                        int64
	nontrivial                                 []uint64
}

func newStats() *stats { return &stats{byWhy: map[string]int64{}, kinds: map[string]int64{}} }

// checkEvent executes one event on a store whose state equals ref and compares with the reference.
// Returns the reference state afterwards, whether the store must be rebuilt, and deviations.
func (w *runner) checkEvent(ctx context.Context, l live, hist []wl.Event, ref *wl.Ref, e wl.Event, st *stats) (changed bool, unknown bool, devs []dev) {
	after := ref.Clone()
	want, why := after.ApplyWhy(e)
	err, log, _ := w.exec(ctx, l, e, sqlfault.Plan{})
	got := err == nil
	st.evals++
	st.byWhy[why]++
	if len(log) > st.maxBoundaries {
		st.maxBoundaries = len(log)
	}
	mk := func() Case {
		return Case{Part: "bfs", Backend: w.name, History: hist, Event: e, Readable: histString(w.u, hist) + " ; THEN " + w.u.EventString(e),
			Err: errStr(err), Want: why, Before: refObs(w.u, ref), After: refObs(w.u, after)}
	}
	if !storageLevel(why) && mutating(log) {
		st.valRejectedMutating++
	}
	if got != want {
		c := mk()
		if got {
			devs = append(devs, dev{"accepts-what-the-reference-rejects/" + why + "@" + w.name, "Write succeeded; reference rejects it (" + why + "): " + c.Readable, c})
		} else {
			devs = append(devs, dev{"rejects-what-the-reference-accepts/" + why + "@" + w.name, "Write failed (" + errStr(err) + "); reference accepts it (" + why + "): " + c.Readable, c})
		}
	}
	// read-back: skipped only when no statement that can change the database reached SQLite and the call failed
	if w.b.Ctl != nil && !got && !mutating(log) {
		st.skippedReadback++
		return false, false, devs
	}
	obs, oerr := wl.Observe(ctx, w.b.DS, l.store)
	if oerr != nil {
		c := mk()
		c.Err = oerr.Error()
		devs = append(devs, dev{"read-back-failed@" + w.name, "reading the store back failed: " + oerr.Error(), c})
		return false, true, devs
	}
	exp := ref
	if got {
		exp = after
	}
	if !want && got {
		exp = ref // nothing sensible to expect; compare with "unchanged"
	}
	if diff := obs.Matches(w.u, exp); diff != "" {
		c := mk()
		c.Got = &obs
		if !got {
			devs = append(devs, dev{"rejected-write-changed-" + diff + "@" + w.name, "Write failed but the store's " + diff + " changed: " + c.Readable, c})
		} else {
			devs = append(devs, dev{"accepted-write-wrong-" + diff + "/" + why + "@" + w.name, "Write succeeded but the store's " + diff + " differs from the reference: " + c.Readable, c})
		}
		return false, true, devs
	}
	if got != want {
		return false, true, devs
	}
	if got {
		st.accepted++
	} else {
		st.rejected++
	}
	return got && why != "all-noop", false, devs
}

// runState: part (i) for one state on one backend — every event from that state.
func (w *runner) runState(ctx context.Context, s *state, events []wl.Event, st *stats, sk *sink) {
	var l live
	have := false
	ndev := 0
	for _, e := range events {
		var devs []dev
		sk.gate.Enter()
		if !have {
			var err error
			l, err = w.setup(ctx, s.hist)
			if err != nil {
				sk.gate.Leave()
				sk.report([]dev{{"history-replay-failed@" + w.name, err.Error(), Case{Part: "bfs", Backend: w.name, History: s.hist, Readable: histString(w.u, s.hist), Err: err.Error()}}})
				return
			}
			have = true
		}
		changed, unknown, devs := w.checkEvent(ctx, l, s.hist, s.ref, e, st)
		sk.gate.Leave()
		if changed || unknown {
			have = false
		}
		if len(devs) > 0 {
			sk.report(devs)
			ndev += len(devs)
			if ndev > 64 {
				return
			}
		}
	}
}

// ---------------------------------------------------------------------------------------------------
// part (ii): E4

type fplan struct {
	mode sqlfault.Mode
	fl   sqlfault.Flavour
}

// e4Event enumerates every boundary of one write (history + event) as fault-before / fault-after (generic
// error; connection loss at COMMIT, in thorough at every boundary) and as crash image.
func (w *runner) e4Event(ctx context.Context, hist []wl.Event, ref *wl.Ref, e wl.Event, thorough bool, st *stats) []dev {
	var devs []dev
	after := ref.Clone()
	want, why := after.ApplyWhy(e)
	mk := func(part string, k int, p fplan, b string, err error, obs *wl.Obs) Case {
		c := Case{Part: part, Backend: "sqlite", History: hist, Event: e, K: k, Boundary: b, Thorough: thorough,
			Readable: histString(w.u, hist) + " ; THEN " + w.u.EventString(e), Err: errStr(err), Want: why, Before: refObs(w.u, ref), After: refObs(w.u, after), Got: obs}
		if part == "fault" {
			c.Mode, c.Flavour = p.mode.String(), p.fl.String()
		}
		return c
	}
	judge := func(part string, k int, p fplan, bnd string, err error, obs wl.Obs, acked bool) (isAfter bool) {
		mB, mA := obs.Matches(w.u, ref), obs.Matches(w.u, after)
		where := part + " at boundary " + fmt.Sprint(k) + " (" + bnd + ")"
		if part == "fault" {
			where = "fault " + p.mode.String() + "/" + p.fl.String() + " at boundary " + fmt.Sprint(k) + " (" + bnd + ")"
		}
		kind := strings.SplitN(bnd, " ", 2)[0]
		switch {
		case mB != "" && mA != "":
			devs = append(devs, dev{"non-atomic-state/" + part + "-" + kind, "store is neither in the state before nor after the write; " + where + ": " + histString(w.u, hist) + " ; THEN " + w.u.EventString(e), mk(part, k, p, bnd, err, &obs)})
		case acked && mA != "":
			devs = append(devs, dev{"acknowledged-write-lost/" + part + "-" + kind, "Write returned success but the after-state is absent; " + where, mk(part, k, p, bnd, err, &obs)})
		}
		if acked && !want {
			devs = append(devs, dev{"accepts-what-the-reference-rejects/" + why + "@sqlite-under-fault", "Write succeeded under " + where + "; reference rejects it", mk(part, k, p, bnd, err, &obs)})
		}
		return mB != ""
	}

	// ---- fault runs
	var l live
	have := false
	need := func() bool {
		if have {
			return true
		}
		var err error
		l, err = w.setup(ctx, hist)
		if err != nil {
			devs = append(devs, dev{"history-replay-failed@sqlite", err.Error(), Case{Part: "fault", Backend: "sqlite", History: hist, Err: err.Error()}})
			return false
		}
		have = true
		return true
	}
	plans := []fplan{{sqlfault.Before, sqlfault.Generic}, {sqlfault.After, sqlfault.Generic}, {sqlfault.Before, sqlfault.BadConn}, {sqlfault.After, sqlfault.BadConn}}
	nB := 0
outer:
	for k := 1; k < 64; k++ {
		kind := ""
		for _, p := range plans {
			if p.fl == sqlfault.BadConn && !thorough && kind != "COMMIT" {
				continue
			}
			if !need() {
				return devs
			}
			err, log, fired := w.exec(ctx, l, e, sqlfault.Plan{Mode: p.mode, K: k, Flavour: p.fl})
			st.evals++
			if !fired {
				// k is beyond the last boundary: this was a fault-free execution
				nB = len(log)
				st.cleanRuns++
				_, unknown, d := w.checkEventResult(ctx, l, hist, ref, after, want, why, e, err)
				devs = append(devs, d...)
				_ = unknown
				have = false
				break outer
			}
			st.faultRuns++
			bnd := log[k-1]
			kind = bnd.Kind
			st.kinds[bnd.Kind+"/"+p.mode.String()+"/"+p.fl.String()]++
			obs, oerr := wl.Observe(ctx, w.b.DS, l.store)
			if oerr != nil {
				devs = append(devs, dev{"read-back-failed@sqlite-after-fault", oerr.Error(), mk("fault", k, p, bnd.Kind+" "+bnd.SQL, err, nil)})
				have = false
				continue
			}
			if judge("fault", k, p, bnd.Kind+" "+bnd.SQL, err, obs, err == nil) {
				have = false // state moved to the after-state: rebuild for the next run
				if err != nil {
					st.afterStateWithError++
				}
			}
			st.nontrivial = append(st.nontrivial, core.Hash("fault", ref.ContentKey(w.u), w.u.EventString(e), fmt.Sprint(k), p.mode.String(), p.fl.String()))
			if len(devs) > 32 {
				return devs
			}
		}
	}
	if nB > st.maxBoundaries {
		st.maxBoundaries = nB
	}

	// ---- crash images: one fault-free execution on a private database, files copied at every boundary
	cb := wl.OpenSQLite(tag + "-crash")
	defer cb.Close()
	cw := &runner{u: w.u, name: "sqlite", b: cb, cmd: commands.NewWriteCommand(cb.DS), limit: 1 << 30}
	cl, err := cw.setup(ctx, hist)
	if err != nil {
		devs = append(devs, dev{"history-replay-failed@sqlite", err.Error(), Case{Part: "crash", Backend: "sqlite", History: hist, Err: err.Error()}})
		return devs
	}
	var imgs []sqlfault.Boundary
	var snapErr error
	snap := func(b sqlfault.Boundary) {
		if err := sqlfault.SnapshotFiles(cb.Path, filepath.Join(cb.Dir, fmt.Sprintf("img%02d", b.K))); err != nil && snapErr == nil {
			snapErr = err
		}
		imgs = append(imgs, b)
	}
	werr, log, _ := cw.exec(ctx, cl, e, sqlfault.Plan{Hook: snap})
	snap(sqlfault.Boundary{K: len(log) + 1, Kind: "RETURNED"})
	st.evals++
	st.cleanRuns++
	if snapErr != nil {
		panic("c12: snapshot failed: " + snapErr.Error())
	}
	_, _, d := cw.checkEventResult(ctx, cl, hist, ref, after, want, why, e, werr)
	devs = append(devs, d...)
	// byte-identical images (db, db-wal, db-shm all equal) are read back once; every image is judged
	type rb struct {
		obs wl.Obs
		err error
	}
	seenImg := map[string]rb{}
	for _, b := range imgs {
		dir := filepath.Join(cb.Dir, fmt.Sprintf("img%02d", b.K))
		bnd := b.Kind + " " + b.SQL
		h := imageHash(dir)
		res, ok := seenImg[h]
		if !ok {
			ib, err := wl.OpenSQLiteAt(filepath.Join(dir, filepath.Base(cb.Path)))
			if err != nil {
				devs = append(devs, dev{"crash-image-unopenable", err.Error(), mk("crash", b.K, fplan{}, bnd, err, nil)})
				continue
			}
			res.obs, res.err = wl.Observe(ctx, ib.DS, cl.store)
			ib.Close()
			seenImg[h] = res
			st.crashOpened++
		}
		st.crashImages++
		st.evals++
		if res.err != nil {
			devs = append(devs, dev{"crash-image-unreadable", res.err.Error(), mk("crash", b.K, fplan{}, bnd, res.err, nil)})
			continue
		}
		judge("crash", b.K, fplan{}, bnd, werr, res.obs, b.Kind == "RETURNED" && werr == nil)
		st.kinds[b.Kind+"/crash"]++
		st.nontrivial = append(st.nontrivial, core.Hash("crash", ref.ContentKey(w.u), w.u.EventString(e), fmt.Sprint(b.K)))
	}
	return devs
}

func imageHash(dir string) string {
	h := sha256.New()
	ents, _ := os.ReadDir(dir)
	for _, en := range ents {
		b, err := os.ReadFile(filepath.Join(dir, en.Name()))
		if err != nil {
			return dir // never equal to another image
		}
		fmt.Fprintf(h, "%s:%d:", en.Name(), len(b))
		h.Write(b)
	}
	return string(h.Sum(nil))
}

// checkEventResult compares the outcome of a fault-free execution that already happened.
func (w *runner) checkEventResult(ctx context.Context, l live, hist []wl.Event, ref, after *wl.Ref, want bool, why string, e wl.Event, err error) (bool, bool, []dev) {
	var devs []dev
	got := err == nil
	mk := func() Case {
		return Case{Part: "bfs", Backend: w.name, History: hist, Event: e, Readable: histString(w.u, hist) + " ; THEN " + w.u.EventString(e),
			Err: errStr(err), Want: why, Before: refObs(w.u, ref), After: refObs(w.u, after)}
	}
	if got != want {
		c := mk()
		if got {
			devs = append(devs, dev{"accepts-what-the-reference-rejects/" + why + "@" + w.name, "Write succeeded; reference rejects it (" + why + "): " + c.Readable, c})
		} else {
			devs = append(devs, dev{"rejects-what-the-reference-accepts/" + why + "@" + w.name, "Write failed (" + errStr(err) + "); reference accepts it (" + why + "): " + c.Readable, c})
		}
		return false, true, devs
	}
	obs, oerr := wl.Observe(ctx, w.b.DS, l.store)
	if oerr != nil {
		c := mk()
		c.Err = oerr.Error()
		return false, true, append(devs, dev{"read-back-failed@" + w.name, oerr.Error(), c})
	}
	exp := ref
	if got {
		exp = after
	}
	if diff := obs.Matches(w.u, exp); diff != "" {
		c := mk()
		c.Got = &obs
		if !got {
			devs = append(devs, dev{"rejected-write-changed-" + diff + "@" + w.name, "Write failed but the store's " + diff + " changed (follow-up execution after the fault runs): " + c.Readable, c})
		} else {
			devs = append(devs, dev{"accepted-write-wrong-" + diff + "/" + why + "@" + w.name, "Write succeeded but the store's " + diff + " differs from the reference (follow-up execution after the fault runs): " + c.Readable, c})
		}
		return false, true, devs
	}
	return got, false, devs
}

// ---------------------------------------------------------------------------------------------------

// confirm re-runs a case alone (all other workers parked) n times; true when the same signature shows up every time.
func confirm(u *wl.Universe, d dev, n int) bool {
	ctx := context.Background()
	for i := 0; i < n; i++ {
		if !reproduces(ctx, u, d.c, d.sig) {
			return false
		}
	}
	return true
}

func reproduces(ctx context.Context, u *wl.Universe, c Case, sig string) bool {
	for _, d := range runCase(ctx, u, c) {
		if d.sig == sig && d.c.K == c.K && d.c.Mode == c.Mode && d.c.Flavour == c.Flavour {
			return true
		}
	}
	return false
}

// runCase executes exactly one recorded case on a fresh backend and returns its deviations.
func runCase(ctx context.Context, u *wl.Universe, c Case) []dev {
	ref := wl.NewRef(u)
	for _, e := range c.History {
		if !ref.Apply(e) {
			return []dev{{"bad-replay-case", "history step rejected by the reference", c}}
		}
	}
	w := newRunner(u, c.Backend)
	defer w.close()
	st := newStats()
	switch c.Part {
	case "bfs":
		if c.Event.Del == nil && c.Event.Wr == nil && c.Event.OnDup == "" && c.Event.OnMiss == "" && c.Want == "" {
			_, err := w.setup(ctx, c.History)
			if err != nil {
				return []dev{{"history-replay-failed@" + w.name, err.Error(), c}}
			}
			return nil
		}
		l, err := w.setup(ctx, c.History)
		if err != nil {
			return []dev{{"history-replay-failed@" + w.name, err.Error(), c}}
		}
		_, _, devs := w.checkEvent(ctx, l, c.History, ref, c.Event, st)
		return devs
	default:
		return w.e4Event(ctx, c.History, ref, c.Event, c.Thorough, st)
	}
}

// ---------------------------------------------------------------------------------------------------

func usesCond(e wl.Event, c int) bool {
	for _, it := range e.Wr {
		if it.C == c {
			return true
		}
	}
	return false
}

// orderOnly: the observed changelog is a permutation of the expected one (nothing lost, nothing extra) and contents agree.
func orderOnly(c Case) bool {
	if c.Got == nil || c.After == nil {
		return false
	}
	var want []string
	for _, g := range c.After.Changes {
		want = append(want, strings.Split(strings.Trim(g, "{}"), ", ")...)
	}
	got := append([]string(nil), c.Got.Changes...)
	sort.Strings(want)
	sort.Strings(got)
	return strings.Join(want, "|") == strings.Join(got, "|") && strings.Join(c.Got.Tuples, "|") == strings.Join(c.After.Tuples, "|")
}

func backends() []string {
	if v := os.Getenv("VERIF_C12_BACKENDS"); v != "" { // debugging aid only
		return strings.Split(v, ",")
	}
	return []string{"memory", "sqlite"}
}

type sink struct {
	r    *core.Report
	u    *wl.Universe
	gate *wl.Gate
	mu   sync.Mutex
	// per signature bookkeeping
	confirmed map[string]bool
	tried     map[string]int
	agg       *stats
}

func (s *sink) merge(st *stats) {
	s.mu.Lock()
	defer s.mu.Unlock()
	a := s.agg
	a.evals += st.evals
	a.skippedReadback += st.skippedReadback
	a.accepted += st.accepted
	a.rejected += st.rejected
	a.valRejectedMutating += st.valRejectedMutating
	a.faultRuns += st.faultRuns
	a.crashImages += st.crashImages
	a.crashOpened += st.crashOpened
	a.cleanRuns += st.cleanRuns
	a.afterStateWithError += st.afterStateWithError
	if st.maxBoundaries > a.maxBoundaries {
		a.maxBoundaries = st.maxBoundaries
	}
	for k, v := range st.byWhy {
		a.byWhy[k] += v
	}
	for k, v := range st.kinds {
		a.kinds[k] += v
	}
}

// report must be called OUTSIDE the gate.
func (s *sink) report(devs []dev) {
	for _, d := range devs {
		s.mu.Lock()
		ok := s.confirmed[d.sig]
		tries := s.tried[d.sig]
		s.mu.Unlock()
		if ok {
			s.r.Violate(d.sig, d.desc, d.c)
			continue
		}
		if tries >= 6 {
			s.r.Count("deviations_not_reconfirmed", 1)
			continue
		}
		var rep bool
		s.gate.Alone(func() { rep = confirm(s.u, d, 5) })
		s.mu.Lock()
		s.tried[d.sig]++
		if rep {
			s.confirmed[d.sig] = true
		}
		s.mu.Unlock()
		if rep {
			s.r.Violate(d.sig, d.desc, d.c)
		} else if orderOnly(d.c) {
			// same multiset of changes, requests out of order: openfga's process-global monotonic ULID entropy was reset by a
			// write of ANOTHER harness worker between two same-millisecond writes of this store (see report); not reproducible alone
			s.r.Count("anomaly_changelog_order_inverted_under_parallel_load", 1)
			s.mu.Lock()
			first := s.tried["order-sample"] < 3
			s.tried["order-sample"]++
			s.tried[d.sig]--
			s.mu.Unlock()
			if first {
				s.r.Anomaly(map[string]any{"signature": d.sig, "class": "changelog-order-inverted-under-parallel-load", "desc": d.desc, "case": d.c})
			}
		} else {
			s.r.Anomaly(map[string]any{"signature": d.sig, "desc": d.desc, "case": d.c, "note": "seen once under parallel load, 0..4 of 5 isolated re-executions reproduced it"})
		}
	}
}

func Run(o *core.Options) int {
	u := U
	r := core.NewReport(o, "fault_enumeration",
		"Part (i): breadth-first over Write histories; a state is (store contents, changelog) as the reference model computes it; from every state at "+
			"history length < D every Write request of the alphabet (delete lists of <=2 of 3 tuple keys incl. a key named twice x write lists of <=2 of 9 (key,condition) items incl. "+
			"same key twice x on_missing x on_duplicate, each in {\"\",error,ignore,bogus}) is executed through commands.WriteCommand on memory and SQLite; "+
			"success must equal the reference's verdict and Read + ReadChanges must equal the reference after every event. "+
			"Part (ii): for every history of length <= D4 (one per distinct state) and every request of the alphabet that passes request validation, on SQLite, every driver-level boundary k "+
			"(BEGIN/QUERY/EXEC/COMMIT/ROLLBACK) of the Write is enumerated as error-before-k, error-after-k (result lost), connection loss (at COMMIT; thorough: at every k) and as crash image "+
			"(db, db-wal, db-shm copied at k and after the call returned, reopened by a fresh datastore). A case is distinct by (part, backend, store contents, request, k, mode); "+
			"non-trivial = the request passes request validation (reaches datastore.Write).")
	defer wl.Cleanup()
	ctx := context.Background()
	_ = os.MkdirAll("/verif/.build/tmp/c12", 0o755)

	if o.Replay != "" {
		var c Case
		if err := core.LoadReplay(o.Replay, &c); err != nil {
			fmt.Fprintln(os.Stderr, "replay:", err)
			return 2
		}
		devs := runCase(ctx, u, c)
		r.Eval(1)
		for _, d := range devs {
			r.Violate(d.sig, d.desc, d.c)
			fmt.Printf("reproduced: %s\n  %s\n", d.sig, d.desc)
		}
		if len(devs) == 0 {
			fmt.Println("case did not deviate")
		}
		return r.Finish()
	}

	depth, depth4 := 2, 1
	if o.Thorough() {
		depth, depth4 = 3, 2
	}
	events := allEvents(u)
	lv := levels(u, events, depth-1)
	r.Set("alphabet_size", len(events))
	var lvCounts []int
	for _, l := range lv {
		lvCounts = append(lvCounts, len(l))
	}
	r.Set("states_per_history_length", lvCounts)
	r.Set("bfs_depth", depth)
	r.Set("e4_history_depth", depth4)

	r.Assume(
		"universe: 3 tuple keys (doc:1#viewer@user:a, doc:1#viewer@user:b, doc:2#viewer@user:a) x conditions {none, cx{x:1}, cx{x:2}}; model viewer: [user, user with cx]",
		"requests go through commands.WriteCommand.Execute on the datastore (the gRPC Server.Write wrapper adds authz/model-id resolution only)",
		"the order of the items of ONE request inside the changelog is not compared (only their multiset and the order of requests)",
		"an unknown on_duplicate/on_missing value and a key named twice in one request are rejected requests in the reference (request validation)",
		"SQLite read-back is skipped only for failed calls during which no EXEC/COMMIT reached the driver (counted: readback_skipped_no_mutating_statement); validation-rejected requests never issued one (validation_rejected_with_mutating_statement must be 0)",
		"E4 granularity is the database/sql driver call; torn pages / unsynced power loss are SQLite's contract (out of scope); a fault injected before COMMIT/ROLLBACK aborts the real transaction (a lost session is aborted by the database)",
		"crash image = byte copy of db, db-wal, db-shm taken synchronously inside the driver call by the only goroutine using that database",
		"PostgreSQL/MySQL cannot run in the sandbox; sqlcommon is exercised through SQLite only",
		"deviations are re-executed 5x in isolation (all workers parked) before they count; non-reproducible ones are listed as anomalies")
	if o.Thorough() {
		r.Assume("thorough, SQLite only: the deepest BFS layer expands up to 3 histories per distinct store contents (a Write never reads the changelog table); memory expands every (contents, changelog) state. E4 depth-2 histories: up to 2 per distinct store contents")
	}

	t0 := time.Now()
	sk := &sink{r: r, u: u, gate: &wl.Gate{}, confirmed: map[string]bool{}, tried: map[string]int{}, agg: newStats()}

	// ---- part (i)
	type job struct {
		backend string
		s       *state
	}
	var jobs []job
	for d, l := range lv {
		for _, be := range backends() {
			ss := l
			if be == "sqlite" && o.Thorough() && d == depth-1 && d >= 2 {
				ss = perContent(u, l, 3)
			}
			for _, s := range ss {
				jobs = append(jobs, job{be, s})
			}
		}
	}
	// split the alphabet so that the work units are small
	const chunk = 300
	type unit struct {
		job
		lo, hi int
	}
	var units []unit
	for _, j := range jobs {
		for lo := 0; lo < len(events); lo += chunk {
			hi := lo + chunk
			if hi > len(events) {
				hi = len(events)
			}
			units = append(units, unit{j, lo, hi})
		}
	}
	pool := map[string]*sync.Pool{"memory": {}, "sqlite": {}}
	var all []*runner
	var allMu sync.Mutex
	get := func(be string) *runner {
		if v := pool[be].Get(); v != nil {
			return v.(*runner)
		}
		w := newRunner(u, be)
		allMu.Lock()
		all = append(all, w)
		allMu.Unlock()
		return w
	}
	var sampled atomic.Int64
	var bfsStates, bfsTransitions atomic.Int64
	r.Parallel(len(units), func(i int) {
		un := units[i]
		w := get(un.backend)
		st := newStats()
		w.runState(ctx, un.s, events[un.lo:un.hi], st, sk)
		pool[un.backend].Put(w)
		for _, e := range events[un.lo:un.hi] {
			r2 := un.s.ref.Clone()
			if _, why := r2.ApplyWhy(e); storageLevel(why) {
				r.Nontrivial(core.Hash("bfs", un.backend, un.s.ref.ContentKey(u), u.EventString(e)))
			}
		}
		bfsTransitions.Add(st.evals)
		if un.lo == 0 {
			bfsStates.Add(1)
		}
		sk.merge(st)
		r.Eval(st.evals)
		if sampled.Add(1) <= 2 && len(un.s.hist) > 0 {
			e := events[un.lo+(un.hi-un.lo)/2]
			r2 := un.s.ref.Clone()
			ok, why := r2.ApplyWhy(e)
			r.Sample(map[string]any{"part": "bfs", "backend": un.backend, "history": histString(u, un.s.hist), "event": u.EventString(e), "reference_accepts": ok, "rule": why, "state_after": refObs(u, r2)})
		}
	})
	bfsEvals := sk.agg.evals
	r.Set("bfs_wall_s", time.Since(t0).Seconds())
	fmt.Printf("C12 part (i) done: %d executions in %.1fs\n", bfsEvals, time.Since(t0).Seconds())

	// ---- part (ii)
	lv4 := lv
	if len(lv4) > depth4+1 {
		lv4 = lv4[:depth4+1]
	}
	type e4job struct {
		s *state
		e wl.Event
	}
	var e4 []e4job
	e4States := 0
	for d, l := range lv4 {
		ss := l
		if d >= 2 {
			ss = perContent(u, l, 2)
		}
		for _, s := range ss {
			e4States++
			for _, e := range events {
				if e.OnDup == "error" || e.OnMiss == "error" {
					continue // "error" and "" parse to the same datastore option (part (i) runs both spellings)
				}
				if !o.Thorough() && usesCond(e, 2) {
					continue // quick: E4 requests write conditions {none, cx{x:1}} (histories still hold cx{x:2})
				}
				r2 := s.ref.Clone()
				if _, why := r2.ApplyWhy(e); !storageLevel(why) {
					continue
				}
				e4 = append(e4, e4job{s, e})
			}
		}
	}
	r.Set("e4_histories", e4States)
	r.Set("e4_history_request_pairs", len(e4))
	var e4sampled atomic.Int64
	r.Parallel(len(e4), func(i int) {
		j := e4[i]
		w := get("sqlite")
		st := newStats()
		sk.gate.Enter()
		devs := w.e4Event(ctx, j.s.hist, j.s.ref, j.e, o.Thorough(), st)
		sk.gate.Leave()
		pool["sqlite"].Put(w)
		for _, h := range st.nontrivial {
			r.Nontrivial(h)
		}
		sk.merge(st)
		r.Eval(st.evals)
		if len(devs) == 0 && st.faultRuns >= 10 && e4sampled.Add(1) <= 3 {
			r2 := j.s.ref.Clone()
			ok, why := r2.ApplyWhy(j.e)
			r.Sample(map[string]any{"part": "e4", "history": histString(u, j.s.hist), "event": u.EventString(j.e), "reference_accepts": ok, "rule": why,
				"fault_runs": st.faultRuns, "crash_images": st.crashImages, "state_before": refObs(u, j.s.ref), "state_after": refObs(u, r2)})
		}
		sk.report(devs)
	})
	for _, w := range all {
		w.close()
	}

	a := sk.agg
	r.Count("bfs_executions", bfsEvals)
	r.Count("bfs_state_backend_pairs_expanded", bfsStates.Load())
	r.Count("accepted_writes_verified", a.accepted)
	r.Count("rejected_writes_verified_unchanged", a.rejected)
	r.Count("readback_skipped_no_mutating_statement", a.skippedReadback)
	r.Count("validation_rejected_with_mutating_statement", a.valRejectedMutating)
	r.Count("e4_fault_runs", a.faultRuns)
	r.Count("e4_crash_images_judged", a.crashImages)
	r.Count("e4_crash_images_distinct_bytes_reopened", a.crashOpened)
	r.Count("e4_fault_free_followup_runs", a.cleanRuns)
	r.Count("e4_after_state_present_although_error_returned", a.afterStateWithError)
	r.Set("max_boundaries_in_one_write", a.maxBoundaries)
	r.Set("reference_rule_counts", a.byWhy)
	kinds := map[string]int64{}
	var ks []string
	for k := range a.kinds {
		ks = append(ks, k)
	}
	sort.Strings(ks)
	for _, k := range ks {
		kinds[k] = a.kinds[k]
	}
	r.Set("e4_boundary_kind_mode_counts", kinds)
	if a.valRejectedMutating > 0 {
		r.Violate("validation-rejected-request-issued-mutating-statement", "a request rejected by validation reached EXEC/COMMIT", nil)
	}
	b, _ := json.Marshal(lvCounts)
	fmt.Printf("C12 %s: states per history length %s, alphabet %d, bfs executions %d, e4 pairs %d, fault runs %d, crash images %d\n", o.Tier, b, len(events), bfsEvals, len(e4), a.faultRuns, a.crashImages)
	return r.Finish()
}
